\* round trip builder -> join -> split -> parse of the mechanism (PINNED parser: must FAIL, exhibits D11) on the single-rule window + Pool3 pairs
CONSTANTS
  Fixed = FALSE
  SplitAlpha = {"a"}
  MaxLen = 0
  NV = 1
  NM = 1
INIT InitRT
NEXT Next
CHECK_DEADLOCK FALSE
INVARIANTS StackSmall NoLossInv QuotedInv RulesInDomain RoundTripInv
