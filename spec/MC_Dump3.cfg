\* exhaustive: every typed value tree of root depth <= 3 (thorough) over the universe of Dump.tla, repaired mechanism
CONSTANTS
  Pinned = FALSE
  MaxDepth = 3
  SibSet = "small"
SPECIFICATION Spec
CHECK_DEADLOCK FALSE
INVARIANTS EmitterMeetsContract DocIsStdUpToDeviations NoBadToken
