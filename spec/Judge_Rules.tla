--------------------------- MODULE Judge_Rules ---------------------------
(* Constant-mode judge (code -> model) for recordings of the real library.  *)
(* FILE = ndjson, MODE selects the record shape:                            *)
(*  "tuples": {id, rule, lo, hi, kind, n, far, cps, eps, carrier, violated}       *)
(*     one real call with one interval rule; the logged verdict must be     *)
(*     Violated(rule, lo, hi, Measure(kind, value)) - whatever the carrier. *)
(*  "agree": {id, kind, n, far, cps, eps,                                        *)
(*            rules: <<[key, lo, hi, tok, iv]>>,                            *)
(*            obs:   <<[c, toks, bodies]>>}                                 *)
(*     one value under one rule list sent through several carriers; toks =  *)
(*     tokens (custom messages) of the rules that produced a clause, bodies *)
(*     = clause texts without their path prefix.  All carriers must show    *)
(*     the same sets (C18); for interval rules (iv) a token is present iff  *)
(*     the contract says violated.                                          *)
(* Every record is judged; "@@BAD" lines name the failing records.          *)
EXTENDS Rules, TLC, Json, IOUtils

Recs == ndJsonDeserialize(IOEnv.FILE)
Mode == IOEnv.MODE

ToSet(s) == {s[i] : i \in DOMAIN s}
ValOf(r) == [n |-> r.n, far |-> r.far, cps |-> r.cps, eps |-> r.eps]

TupleOK(r) == r.violated = Violated(r.rule, r.lo, r.hi, Measure(r.kind, ValOf(r)))

(* carriers whose observation differs from the first one (the struct field) *)
Differ(r) == {r.obs[i].c : i \in {j \in DOMAIN r.obs :
                 \/ ToSet(r.obs[j].toks) # ToSet(r.obs[1].toks)
                 \/ ToSet(r.obs[j].bodies) # ToSet(r.obs[1].bodies)}}
(* carriers whose observation contradicts the contract on an interval rule *)
ObsModelOK(r, o) == \A i \in DOMAIN r.rules :
                      r.rules[i].iv => ((r.rules[i].tok \in ToSet(o.toks))
                                         <=> Violated(r.rules[i].key, r.rules[i].lo, r.rules[i].hi, Measure(r.kind, ValOf(r))))
OffModel(r) == {r.obs[i].c : i \in {j \in DOMAIN r.obs : ~ObsModelOK(r, r.obs[j])}}

JudgeTuples == \A i \in DOMAIN Recs :
                 TupleOK(Recs[i]) \/ PrintT("@@BAD " \o ToJson([id |-> Recs[i].id, differ |-> <<>>, offmodel |-> <<Recs[i].carrier>>]))
JudgeAgree == \A i \in DOMAIN Recs :
                LET d == Differ(Recs[i])
                    m == OffModel(Recs[i]) IN
                (d = {} /\ m = {}) \/ PrintT("@@BAD " \o ToJson([id |-> Recs[i].id, differ |-> d, offmodel |-> m]))

ASSUME IF Mode = "tuples" THEN JudgeTuples ELSE JudgeAgree
ASSUME PrintT("@@JUDGED " \o ToJson([n |-> Len(Recs), mode |-> Mode]))

JSpec == Init /\ [][UNCHANGED vars]_vars
=============================================================================
