---------------------------- MODULE Trace_Total ----------------------------
(* Trace validation for C13. The harness logs, for every real call of an entry point run under recover(),        *)
(*   {e:"call", id, src, ep, ...abstract scenario...}  then  {e:"return", id, out}  or  {e:"panic", id, msg}      *)
(* and for bulk enumerations one {e:"batch", calls, nil, err, panics, ...} record per (entry point, value, rule  *)
(* name, form) - n calls each followed by its return. "reset" lines separate slices; TLC starts one behaviour at  *)
(* every reset line, so each slice is judged on its own, and prints @@ACCEPT for every slice it can consume to   *)
(* its end. The only actions are Total's ACall and AReturn (plus their n-fold form for a batch): there is no     *)
(* action for a "panic" line, a return with an outcome outside {"nil","error"}, a return that answers another    *)
(* call, a call outside the catalogue, or a batch whose returns do not add up to its calls.                      *)
EXTENDS Total, Json, IOUtils

Trace == ndJsonDeserialize(IOEnv.TRACE)
Tier == IOEnv.VERIF_TIER
N == Len(Trace)
ResetLines == {k \in 1..N : Trace[k].e = "reset"}

VARIABLES l,        \* next line to consume (0 = slice finished)
          started, \* the slice's own reset line has been consumed
          cid,     \* id of the pending call
          sid      \* id of the slice
tvars == <<vars, l, started, cid, sid>>

ASSUME TLCSet(1, 0) /\ TLCSet(2, 0)

TraceInit == /\ l \in ResetLines /\ started = FALSE /\ cid = 0 /\ sid = 0
             /\ cur = "idle" /\ ret = "none" /\ WIdle /\ SIdle

Ev == Trace[l]
Here(name) == started /\ l >= 1 /\ l <= N /\ Trace[l].e = name
Frozen == UNCHANGED <<wvars, svars>>

ArgOK(a) == \/ Len(a) <= MaxLen /\ \A k \in 1..Len(a) : a[k] \in Alphabet
            \/ a \in Directed
CallInDomain(ev) ==
  /\ ev.ep \in EPs
  /\ CASE ev.src = "shapes" -> InCatalogue(Tier, ev.shape, ev.rule)
       [] ev.src = "rules" -> ev.val \in Vals /\ ev.name \in RuleNames /\ ev.form \in Forms /\ ArgOK(ev.arg)
       [] ev.src = "random" -> ev.seed \in Nat /\ ev.idx \in Nat
       [] OTHER -> FALSE
BatchOK(ev) ==
  /\ ev.ep \in EPs
  /\ ev.calls > 0 /\ ev.nil >= 0 /\ ev.err >= 0
  /\ ev.nil + ev.err = ev.calls              \* every call of the batch returned nil or an error
  /\ ev.panics = 0
  /\ CASE ev.src = "rules" -> /\ ev.val \in Vals /\ ev.name \in RuleNames /\ ev.form \in Forms
                              /\ ev.maxlen = BatchMaxLen(Tier, ev.val)
                              /\ ev.calls = NArgs(ev.maxlen) + Cardinality(Directed)   \* the whole argument space
       [] ev.src = "random" -> ev.seed \in Nat
       [] OTHER -> FALSE

TraceReset == /\ ~started /\ Trace[l].e = "reset"
              /\ started' = TRUE /\ sid' = Trace[l].id /\ l' = l + 1
              /\ UNCHANGED <<avars, cid>> /\ Frozen
TraceCall == /\ Here("call") /\ ACall /\ CallInDomain(Ev)
             /\ cid' = Ev.id /\ l' = l + 1 /\ UNCHANGED <<started, sid>> /\ Frozen
TraceReturn == /\ Here("return") /\ Ev.id = cid /\ AReturn(Ev.out)
               /\ l' = l + 1 /\ UNCHANGED <<started, sid, cid>> /\ Frozen
TraceBatch == /\ Here("batch") /\ cur = "idle" /\ BatchOK(Ev)
              /\ l' = l + 1 /\ UNCHANGED <<avars, started, sid, cid>> /\ Frozen
(* end of the slice: the next reset line or the end of the file, with no call pending *)
TraceEnd == /\ started /\ l >= 1 /\ (IF l > N THEN TRUE ELSE Trace[l].e = "reset") /\ cur = "idle"
            /\ PrintT("@@ACCEPT " \o ToJson([slice |-> sid]))
            /\ TLCSet(2, TLCGet(2) + 1)
            /\ l' = 0 /\ UNCHANGED <<avars, started, sid, cid>> /\ Frozen

TraceNext == TraceReset \/ TraceCall \/ TraceReturn \/ TraceBatch \/ TraceEnd
TraceSpec == TraceInit /\ [][TraceNext]_tvars

HW == TLCSet(1, IF l > TLCGet(1) THEN l ELSE TLCGet(1))
Accepted == IF TLCGet(2) = Cardinality(ResetLines) THEN TRUE
            ELSE PrintT("@@REJECT " \o ToJson([accepted |-> TLCGet(2), slices |-> Cardinality(ResetLines),
                                               hw |-> TLCGet(1), len |-> N])) /\ FALSE
=============================================================================
