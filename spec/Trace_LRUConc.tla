--------------------------- MODULE Trace_LRUConc ---------------------------
(***************************************************************************)
(* Linearizability check of recorded concurrent histories (C10).           *)
(* Events (one per line, ordered by one atomic counter):                   *)
(*   reset(cap)           new cache, new history                           *)
(*   inv(p, op, k, v)     stamped before the call starts                   *)
(*   cb(k, v)             stamped inside the removal callback              *)
(*   ret(p, ok, res, n, dump)  stamped after the call returned             *)
(*   q(len, dump)         quiescent observation after all goroutines ended *)
(* The linearization point of a call was not logged: Lin(p) is a silent    *)
(* step, enabled between inv(p) and ret(p), that applies the sequential    *)
(* LRU action.  TLC searches the orders; the history is accepted iff some  *)
(* order explains every logged result, callback and the quiescent state.   *)
(* A logged ret(a) before inv(b) forces a to linearize before b, so real   *)
(* time is respected; the log can only lose precedences, never invent one. *)
(***************************************************************************)
EXTENDS LRU, TLC, Json, IOUtils

CONSTANTS Procs

Trace == ndJsonDeserialize(IOEnv.TRACE)

VARIABLES l, pend, cbq
tvars == <<vars, l, pend, cbq>>

ASSUME TLCSet(1, 0)

Nothing == [st |-> "none"]

Fresh(c) == /\ cap' = c /\ order' = <<>> /\ val' = [k \in Keys |-> None]
            /\ idx' = {} /\ dels' = 0 /\ ret' = NoRet /\ cb' = <<>>

TraceInit == /\ l = 1 /\ pend = [p \in Procs |-> Nothing] /\ cbq = <<>>
             /\ cap = 0 /\ order = <<>> /\ val = [k \in Keys |-> None]
             /\ idx = {} /\ dels = 0 /\ ret = NoRet /\ cb = <<>>

Quiet == cbq = <<>> /\ \A p \in Procs : pend[p].st = "none"

TraceReset == /\ l <= Len(Trace) /\ Trace[l].e = "reset"
              /\ Quiet
              /\ Fresh(Trace[l].cap)
              /\ UNCHANGED <<pend, cbq>>
              /\ l' = l + 1

TraceInv == /\ l <= Len(Trace) /\ Trace[l].e = "inv"
            /\ LET ev == Trace[l] IN
               /\ pend[ev.p].st = "none"
               /\ pend' = [pend EXCEPT ![ev.p] = [st |-> "inv", op |-> ev.op, k |-> ev.k, v |-> ev.v]]
            /\ UNCHANGED <<vars, cbq>>
            /\ l' = l + 1

Lin(p) == /\ pend[p].st = "inv"
          /\ LET c == pend[p] IN
             CASE c.op = "Store" -> Store(c.k, c.v)
               [] c.op = "Load" -> Load(c.k)
               [] c.op = "Delete" -> Delete(c.k)
               [] c.op = "Len" -> LenOp
               [] c.op = "Dump" -> DumpOp
          /\ pend' = [pend EXCEPT ![p] = [st |-> "lin", op |-> pend[p].op, ok |-> ret'.ok, res |-> ret'.res, n |-> ret'.n,
                                          dump |-> IF pend[p].op = "Dump" THEN DumpOf(order, val) ELSE <<>>]]
          /\ cbq' = cbq \o cb'
          /\ UNCHANGED l

TraceCb == /\ l <= Len(Trace) /\ Trace[l].e = "cb"
           /\ cbq # <<>> /\ Head(cbq) = <<Trace[l].k, Trace[l].v>>
           /\ cbq' = Tail(cbq)
           /\ UNCHANGED <<vars, pend>>
           /\ l' = l + 1

TraceRet == /\ l <= Len(Trace) /\ Trace[l].e = "ret"
            /\ LET ev == Trace[l] IN
               /\ pend[ev.p].st = "lin"
               /\ pend[ev.p].ok = ev.ok /\ pend[ev.p].res = ev.res /\ pend[ev.p].n = ev.n
               /\ pend[ev.p].dump = ev.dump
               /\ pend' = [pend EXCEPT ![ev.p] = Nothing]
            /\ UNCHANGED <<vars, cbq>>
            /\ l' = l + 1

TraceQuiesce == /\ l <= Len(Trace) /\ Trace[l].e = "q"
                /\ Quiet
                /\ Trace[l].len = Len(order)
                /\ Trace[l].dump = DumpOf(order, val)
                /\ UNCHANGED <<vars, pend, cbq>>
                /\ l' = l + 1

TraceNext == TraceReset \/ TraceInv \/ TraceCb \/ TraceRet \/ TraceQuiesce \/ \E p \in Procs : Lin(p)
TraceSpec == TraceInit /\ [][TraceNext]_tvars

HW == TLCSet(1, IF l > TLCGet(1) THEN l ELSE TLCGet(1))
Accepted == IF TLCGet(1) = Len(Trace) + 1 THEN TRUE
            ELSE PrintT("@@REJECT " \o ToJson([line |-> TLCGet(1), len |-> Len(Trace)])) /\ FALSE
\* ret/cb (outputs of the last LRU step) are not part of the search state
tview == <<view, l, pend, cbq>>
=============================================================================
