\* SANITY (must FAIL): areas applied front-to-back with offsets of the original bytes
CONSTANTS
  MaxRuns = 1
  Modes = {"d", "p", "f"}
  SpliceOrder = "first"
  SkipUntagged = TRUE
  Profile = "wide"
  MaxSegs = 2
SPECIFICATION Spec
CHECK_DEADLOCK FALSE
INVARIANTS FieldsMergedInv OutsideUnchangedInv PlainUnchanged StillParses NoCrash UnprocessableUntouched SubdirEither NeverCorrupt OthersStillProcessed
PROPERTIES Idempotent RunFileAgrees
