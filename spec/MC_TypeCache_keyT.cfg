\* sanity configuration: the pinned code's key (type only, defect D7). TLC must report Transparent violated
\* with the 2-call counterexample Validate(T,"a") ; Validate(T,"b").
CONSTANTS
  Types = {"T1", "T2", "T3"}
  Tags = {"a", "b"}
  ShapeOf <- AllShapes
  Ovs <- MCOvs
  Kinds <- MCKinds
  MaxCalls = 3
  CallVals <- QuickVals
  WriteThrough = FALSE
  KeyOf <- KeyT
SPECIFICATION Spec
VIEW view
CHECK_DEADLOCK FALSE
INVARIANTS Transparent
