----------------------------- MODULE Gen_Pools -----------------------------
(* Scenario emission for C11/C12 (layer A only; the mechanism variables stay quiet).            *)
(*  GenMode = "menu": the type table, the marker table and every descriptor of the universe     *)
(*                    with the contract's expected clause list           (@@TYPE @@MARK @@DESC) *)
(*  GenMode = "seq" : every history of 1..MaxLen calls over the first MenuN descriptors         *)
(*  GenMode = "perm": every permutation of the selected 4-subsets of the menu                   *)
(*  GenMode = "sim" : (run with -simulate) random histories of exactly MaxLen calls             *)
(* each history with Expected per call                                               (@@HIST)   *)
EXTENDS Pools, Json, IOUtils, FiniteSetsExt

CONSTANTS GenMode, MaxLen, MenuN, SelSeed, SelMod

VARIABLES h, sel
gvars == <<mvars, h, sel>>

TagTexts(f) == [valid |-> JoinText(f.tags.valid), a |-> JoinText(f.tags.a), b |-> JoinText(f.tags.b)]
TypeRec(T) == [id |-> T, name |-> Types[T].name,
               fields |-> [i \in 1..Len(Types[T].fields) |->
                             [name |-> Types[T].fields[i].name, kind |-> Types[T].fields[i].kind,
                              elem |-> Types[T].fields[i].elem, tags |-> TagTexts(Types[T].fields[i])]]]
EmitMenu ==
  /\ \A i \in 1..Len(TypeIds) : PrintT("@@TYPE " \o ToJson(TypeRec(TypeIds[i])))
  /\ PrintT("@@MARK " \o ToJson([markers |-> Markers, globals |-> SetToSeq(GlobalFns), late |-> LateFn, tags |-> TagNames, menu |-> MenuN]))
  /\ \A i \in 1..NDesc : PrintT("@@DESC " \o ToJson([id |-> i, d |-> Universe[i], exp |-> ExpTable[i], free |-> IsFree(i),
                                                     exp1 |-> ExpTableAt[1][i], exp2 |-> ExpTableAt[2][i]]))

Cube(x) == x * x * x
Selected == {ss \in SUBSET (1..MenuN) : Cardinality(ss) = 4 /\ (FoldSet(LAMBDA x, acc : acc + Cube(x), 0, ss) + SelSeed) % SelMod = 0}

GInit == /\ MQuiet
         /\ h = <<>>
         /\ IF GenMode = "perm" THEN sel \in Selected ELSE sel = 1..MenuN
         /\ (GenMode = "menu" => EmitMenu)
GNext == /\ GenMode # "menu"
         /\ Len(h) < MaxLen
         /\ \E d \in sel : /\ (GenMode = "perm" => d \notin Range(h))
                           /\ h' = Append(h, d)
         /\ UNCHANGED <<mvars, sel>>
GSpec == GInit /\ [][GNext]_gvars

Complete == CASE GenMode = "seq" -> Len(h) >= 1
              [] GenMode = "perm" -> Len(h) = 4
              [] GenMode = "sim" -> Len(h) = MaxLen
              [] OTHER -> FALSE
EmitHist == Complete => PrintT("@@HIST " \o ToJson([calls |-> h, exp |-> [i \in 1..Len(h) |-> ExpTable[h[i]]]]))
=============================================================================
