-------------------------- MODULE Gen_TypeCache --------------------------
(* Emits call histories together with the CONTRACT's expected result of every call (model -> code).        *)
(* The expected results come from TypeCache!Result, which does not mention the cache: the same history is  *)
(* replayed by the harness against every cache configuration and must give these results under each.       *)
(* Exhaustive over (type, tag, override) per call (breadth-first) or sampled (-simulate); the value of     *)
(* each call is a deterministic pseudo-random function of the seed and of the history so far, so that all  *)
(* 16 values occur, results are a mix of nil / one clause / two clauses, and a run is reproducible.        *)
(* One "@@HIST" record per history of exactly MaxCalls calls (shorter histories are its prefixes).         *)
EXTENDS TypeCache, Json, IOUtils, SequencesExt

VARIABLES hist, h
gvars == <<vars, hist, h>>

TypeSeq == SetToSeq(Types)
TagSeq  == SetToSeq(Tags)
OvSeq   == SetToSeq(Ovs)
Mix(a)  == (a * 1103 + 12347) % 65521
ValOf(x) == [A |-> (x % 4) + 1, B |-> ((x \div 4) % 4) + 1]

Meta == [fields |-> Fields, tags |-> TagSeq, types |-> TypeSeq, ovs |-> OvSeq, rules |-> RuleSem, norule |-> NoRule,
         shapes |-> [T \in Types |-> ShapeOf[T]], vals |-> ValRange, maxcalls |-> MaxCalls]

GenInit == /\ InitCache([kind |-> "forget", cap |-> 0])          \* the mechanism variables are not used here
           /\ pc = "idle" /\ cur = NoCall /\ info = NoInfo /\ eff = NoInfo /\ last = NoLast /\ n = 0
           /\ hist = <<>>
           /\ h = Mix(atoi(IOEnv.VERIF_SEED) % 60000)
           /\ PrintT("@@META " \o ToJson(Meta))

GenNext == /\ Len(hist) < MaxCalls
           /\ \E i \in 1..Len(TypeSeq), j \in 1..Len(TagSeq), o \in 1..Len(OvSeq) :
                LET T == TypeSeq[i]  tag == TagSeq[j]  ov == OvSeq[o]
                    x == Mix(h + 61 * i + 7 * j + o)
                    val == ValOf(x)
                IN /\ h' = x
                   /\ hist' = Append(hist, [T |-> T, tag |-> tag, ov |-> ov, val |-> val,
                                            exp |-> Result(ShapeOf[T], tag, ov, val)])
           /\ UNCHANGED vars

GenSpec == GenInit /\ [][GenNext]_gvars

Emit == Len(hist) = MaxCalls => PrintT("@@HIST " \o ToJson([calls |-> hist]))
=============================================================================
