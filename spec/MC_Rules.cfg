\* mechanism (repaired tree) = contract on the window: bounds -3..3 (all 49 pairs incl. lo>hi), all 8-bit values
CONSTANTS
  W = 3
  Pinned = FALSE
SPECIFICATION Spec
CHECK_DEADLOCK FALSE
INVARIANTS MechanismIsContract
