\* exhaustive: every call history of <= 4 calls (quick tier) over 3 types x 2 tags x 3 overrides x 4 call values x 5 cache kinds
CONSTANTS
  Types = {"T1", "T2", "T3"}
  Tags = {"a", "b"}
  ShapeOf <- AllShapes
  Ovs <- MCOvs
  Kinds <- MCKinds
  MaxCalls = 4
  CallVals <- QuickVals
  WriteThrough = FALSE
  KeyOf <- KeyTT
SPECIFICATION Spec
VIEW view
CHECK_DEADLOCK FALSE
INVARIANTS TypeOK Transparent ResidentCorrect ForgetNeverHits LRUInv
PROPERTIES ReturnsResult OverrideOnCopy OnlyStoreChangesContent MapNeverForgets
