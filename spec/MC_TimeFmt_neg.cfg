CONSTANTS
  SepAlpha <- SepAlphaDef
  MaxSplits <- MaxSplitsDef
  TimeSepIdx = 1
SPECIFICATION Spec
INVARIANTS MechIsContract
CHECK_DEADLOCK FALSE
