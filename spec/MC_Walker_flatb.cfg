\* exhaustive: flat scenarios over the built-in alphabet (real size rules judged by InSet on the measure 3, incl. inverted intervals)
CONSTANTS
  Mode = "flat"
  Alpha = "builtin"
  Tier = "quick"
  NSample = 0
  Depth = 1
  Width = 1
SPECIFICATION Spec
CHECK_DEADLOCK FALSE
INVARIANTS PrefixOK TerminalOK NilIffNone NoStuck StackSane
PROPERTIES AppendOnly ScnFixed
