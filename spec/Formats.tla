------------------------------ MODULE Formats ------------------------------
(* C05 - the languages of the format and content rules, written from the      *)
(* documentation (README 4.2.1, DESIGN 6/C05), NOT from the code.             *)
(*                                                                            *)
(* All text is a tuple of Unicode code points.  A judged record is            *)
(*   [rule, arg, kind, nk, input, elems, deleg, pat]                          *)
(*   rule  : rule name                                                        *)
(*   arg   : raw text after "rule=" (option list, separators, prefix, ...)    *)
(*   kind  : "str" (input = the string) | "num" (input = canonical decimal    *)
(*           rendering, nk in int/uint/float) | "list" (elems = canonical     *)
(*           renderings of the elements, nk = element kind)                   *)
(*   deleg : value of the delegated platform predicate on the intended        *)
(*           string (json.Valid / regexp match of pat / is-file / is-dir)     *)
(*   pat   : for re, the pattern the generator intended                       *)
(* Verdicts(r) is the SET of values of "violated" the contract allows:        *)
(* {FALSE} member, {TRUE} non-member, {TRUE,FALSE} where the documentation is *)
(* silent (carve-outs, listed next to each rule).                             *)
EXTENDS Integers, Sequences, FiniteSets

\* ------------------------------------------------------------ characters
TAB == 9          SPACE == 32       QUOTE == 39      LPAR == 40     RPAR == 41
PLUS == 43        COMMA == 44       MINUS == 45      DOT == 46      SLASH == 47
COLON == 58       AT == 64          BSL == 92        USCORE == 95   BAR == 124
CapX == 88        LowX == 120       PCT == 37

IsDigit(c) == c >= 48 /\ c <= 57
IsAlpha(c) == (c >= 65 /\ c <= 90) \/ (c >= 97 /\ c <= 122)
IsWordCh(c) == IsDigit(c) \/ IsAlpha(c) \/ c = USCORE
IsHexCh(c) == IsDigit(c) \/ (c >= 65 /\ c <= 70) \/ (c >= 97 /\ c <= 102)
IsAlnum(c) == IsDigit(c) \/ IsAlpha(c)

AllDigits(s) == \A i \in 1..Len(s) : IsDigit(s[i])
Sub(s, a, b) == IF a > b THEN <<>> ELSE SubSeq(s, a, b)
Has(s, c) == \E i \in 1..Len(s) : s[i] = c
FirstIdx(s, c) == IF Has(s, c) THEN CHOOSE i \in 1..Len(s) : s[i] = c /\ \A j \in 1..(i - 1) : s[j] # c ELSE 0
LastIdx(s, c) == IF Has(s, c) THEN CHOOSE i \in 1..Len(s) : s[i] = c /\ \A j \in (i + 1)..Len(s) : s[j] # c ELSE 0

RECURSIVE NumOf(_)
NumOf(s) == IF s = <<>> THEN 0 ELSE 10 * NumOf(Sub(s, 1, Len(s) - 1)) + (s[Len(s)] - 48)   \* only used on <= 4 digits

\* strings.Split-like: pieces of s between occurrences of the non-empty text sep (leftmost, non-overlapping)
RECURSIVE SplitFrom(_, _, _, _)
SplitFrom(s, sep, i, st) ==
  IF i + Len(sep) - 1 > Len(s) THEN <<Sub(s, st, Len(s))>>
  ELSE IF SubSeq(s, i, i + Len(sep) - 1) = sep
       THEN <<Sub(s, st, i - 1)>> \o SplitFrom(s, sep, i + Len(sep), i + Len(sep))
       ELSE SplitFrom(s, sep, i + 1, st)
Split(s, sep) == SplitFrom(s, sep, 1, 1)

\* quote-aware split at the character c: a c between single quotes does not separate
RECURSIVE QSplitFrom(_, _, _, _, _)
QSplitFrom(s, c, i, st, inq) ==
  IF i > Len(s) THEN <<Sub(s, st, Len(s))>>
  ELSE IF s[i] = QUOTE THEN QSplitFrom(s, c, i + 1, st, ~inq)
  ELSE IF s[i] = c /\ ~inq THEN <<Sub(s, st, i - 1)>> \o QSplitFrom(s, c, i + 1, i + 1, FALSE)
  ELSE QSplitFrom(s, c, i + 1, st, inq)
QSplit(s, c) == QSplitFrom(s, c, 1, 1, FALSE)

\* protective single quotes removed from both ends
RECURSIVE TrimQ(_)
TrimQ(s) == IF s # <<>> /\ s[1] = QUOTE THEN TrimQ(Tail(s))
            ELSE IF s # <<>> /\ s[Len(s)] = QUOTE THEN TrimQ(Sub(s, 1, Len(s) - 1))
            ELSE s

IsSubstring(p, s) == \E k \in 0..(Len(s) - Len(p)) : Sub(s, k + 1, k + Len(p)) = p
HasPrefix(s, p) == Len(p) <= Len(s) /\ Sub(s, 1, Len(p)) = p
HasSuffix(s, p) == Len(p) <= Len(s) /\ Sub(s, Len(s) - Len(p) + 1, Len(s)) = p

Decide(member, silent) == IF member THEN {FALSE} ELSE IF silent THEN {TRUE, FALSE} ELSE {TRUE}
Either == {TRUE, FALSE}

\* ------------------------------------------------------------ phone / idcard / email
\* phone: 1[3-9]\d{9}
IsPhone(s) == Len(s) = 11 /\ AllDigits(s) /\ s[1] = 49 /\ s[2] >= 51

\* idcard: 15 digits | 18 digits | 17 digits + [0-9Xx]
IsIdCard(s) == \/ Len(s) = 15 /\ AllDigits(s)
               \/ Len(s) = 18 /\ AllDigits(Sub(s, 1, 17)) /\ (IsDigit(s[18]) \/ s[18] \in {CapX, LowX})

\* words of [0-9A-Za-z_]+ joined by SINGLE separators out of seps
WordsJoined(s, seps) ==
  /\ Len(s) > 0
  /\ \A i \in 1..Len(s) : \/ IsWordCh(s[i])
                          \/ s[i] \in seps /\ i > 1 /\ i < Len(s) /\ IsWordCh(s[i - 1]) /\ IsWordCh(s[i + 1])
\* email: local(@)domain; local separators - + . ; domain separators - . and at least one "."
IsEmail(s) == \E k \in 1..Len(s) :
                 /\ s[k] = AT
                 /\ WordsJoined(Sub(s, 1, k - 1), {MINUS, PLUS, DOT})
                 /\ WordsJoined(Sub(s, k + 1, Len(s)), {MINUS, DOT})
                 /\ \E j \in (k + 1)..Len(s) : s[j] = DOT

\* ------------------------------------------------------------ ip
\* decimal octet 0..255 without leading zeros
IsOctet(p) == /\ Len(p) \in 1..3 /\ AllDigits(p)
              /\ (Len(p) > 1 => p[1] # 48)
              /\ NumOf(p) <= 255
IsIPv4(s) == LET ps == Split(s, <<DOT>>) IN Len(ps) = 4 /\ \A i \in 1..4 : IsOctet(ps[i])

IsHexGroup(p) == Len(p) \in 1..4 /\ \A i \in 1..Len(p) : IsHexCh(p[i])
ColonGroups(s) == IF s = <<>> THEN <<>> ELSE Split(s, <<COLON>>)
\* groups are hex; the last one may be a dotted quad standing for two groups
GroupsOK(gs, tailAllowed) ==
  \A i \in 1..Len(gs) : IsHexGroup(gs[i]) \/ (tailAllowed /\ i = Len(gs) /\ IsIPv4(gs[i]))
GroupCount(gs) == IF gs # <<>> /\ Has(gs[Len(gs)], DOT) THEN Len(gs) + 1 ELSE Len(gs)
DoubleColons(s) == {i \in 1..(Len(s) - 1) : s[i] = COLON /\ s[i + 1] = COLON}
\* RFC 4291 text form: x:x:x:x:x:x:x:x, one "::" standing for one or more zero groups, x:x:x:x:x:x:d.d.d.d
IsIPv6(s) ==
  LET dc == DoubleColons(s) IN
  IF dc = {} THEN LET gs == ColonGroups(s) IN gs # <<>> /\ GroupsOK(gs, TRUE) /\ GroupCount(gs) = 8
  ELSE IF Cardinality(dc) > 1 THEN FALSE     \* a second "::" (":::" counts as two)
  ELSE LET p == CHOOSE i \in dc : TRUE
           l == ColonGroups(Sub(s, 1, p - 1))
           r == ColonGroups(Sub(s, p + 2, Len(s)))
       IN GroupsOK(l, FALSE) /\ GroupsOK(r, TRUE) /\ Len(l) + GroupCount(r) <= 7
IsIP(s) == IsIPv4(s) \/ IsIPv6(s)
\* carve-out: IPv4-mapped IPv6 text is unspecified for the rules ipv4 / ipv6.  Recognised (slightly generously) as
\* valid IPv6 text with a group ffff before which there are only zeros and colons (::ffff:1.2.3.4, 0:0:0:0:0:FFFF:102:304)
FRunAt(s, i) == \A j \in i..(i + 3) : s[j] \in {70, 102}
MappedSilent(s) == IsIPv6(s) /\ \E i \in 1..(Len(s) - 3) : FRunAt(s, i) /\ \A j \in 1..(i - 1) : s[j] \in {48, COLON}

\* ------------------------------------------------------------ calendar
Leap(y) == y % 4 = 0 /\ (y % 100 # 0 \/ y % 400 = 0)
DaysIn(y, m) == IF m \in {4, 6, 9, 11} THEN 30 ELSE IF m = 2 THEN (IF Leap(y) THEN 29 ELSE 28) ELSE 31

\* fixed-width digit groups ws[1..n] joined by the separators ss[1..n-1]
RECURSIVE StartOf(_, _, _)
StartOf(ws, ss, k) == IF k = 1 THEN 1 ELSE StartOf(ws, ss, k - 1) + ws[k - 1] + Len(ss[k - 1])
TotalLen(ws, ss) == StartOf(ws, ss, Len(ws)) + ws[Len(ws)] - 1
Group(s, ws, ss, k) == Sub(s, StartOf(ws, ss, k), StartOf(ws, ss, k) + ws[k] - 1)
IsLayout(s, ws, ss) ==
  /\ Len(s) = TotalLen(ws, ss)
  /\ \A k \in 1..Len(ws) : AllDigits(Group(s, ws, ss, k))
  /\ \A k \in 1..(Len(ws) - 1) : Sub(s, StartOf(ws, ss, k) + ws[k], StartOf(ws, ss, k + 1) - 1) = ss[k]
Val(s, ws, ss, k) == NumOf(Group(s, ws, ss, k))

IsYear(s) == Len(s) = 4 /\ AllDigits(s)
IsYear2Month(s, sep) == LET ws == <<4, 2>> ss == <<sep>> IN
  IsLayout(s, ws, ss) /\ Val(s, ws, ss, 2) \in 1..12
IsDate(s, sep) == LET ws == <<4, 2, 2>> ss == <<sep, sep>> IN
  /\ IsLayout(s, ws, ss)
  /\ Val(s, ws, ss, 2) \in 1..12
  /\ Val(s, ws, ss, 3) \in 1..DaysIn(Val(s, ws, ss, 1), Val(s, ws, ss, 2))
\* hw = width of the hour group (2 in the documented form)
IsDatetimeW(s, s1, s2, s3, hw) == LET ws == <<4, 2, 2, hw, 2, 2>> ss == <<s1, s1, s2, s3, s3>> IN
  /\ IsLayout(s, ws, ss)
  /\ Val(s, ws, ss, 2) \in 1..12
  /\ Val(s, ws, ss, 3) \in 1..DaysIn(Val(s, ws, ss, 1), Val(s, ws, ss, 2))
  /\ Val(s, ws, ss, 4) < 24 /\ Val(s, ws, ss, 5) < 60 /\ Val(s, ws, ss, 6) < 60
IsDatetime(s, s1, s2, s3) == IsDatetimeW(s, s1, s2, s3, 2)

\* carve-outs of the date rules (leniencies of the platform parser the documentation does not mention):
\*  - a run of spaces where a separator is a space
\*  - a one-digit hour
\*  - a fractional-second tail [.,]digits after the seconds
RECURSIVE CollapseSpaces(_)
CollapseSpaces(s) == IF Len(s) < 2 THEN s
                     ELSE IF s[1] = SPACE /\ s[2] = SPACE THEN CollapseSpaces(Tail(s))
                     ELSE <<s[1]>> \o CollapseSpaces(Tail(s))
DtCore(t, s1, s2, s3) == IsDatetimeW(t, s1, s2, s3, 2) \/ IsDatetimeW(t, s1, s2, s3, 1)
DtFrac(t, s1, s2, s3) ==
  \/ DtCore(t, s1, s2, s3)
  \/ \E k \in 2..(Len(t) - 1) : /\ t[k] \in {DOT, COMMA}
                                /\ AllDigits(Sub(t, k + 1, Len(t)))
                                /\ DtCore(Sub(t, 1, k - 1), s1, s2, s3)
DtLenient(s, s1, s2, s3) == DtFrac(s, s1, s2, s3) \/ DtFrac(CollapseSpaces(s), s1, s2, s3)

\* separators: documented are punctuation / space / empty; letters, digits and quotes are not
SepDocumented(sep) == \A i \in 1..Len(sep) : ~IsAlnum(sep[i]) /\ sep[i] # QUOTE /\ sep[i] # BAR /\ sep[i] < 128
DateSep(arg) == IF arg = <<>> THEN <<MINUS>> ELSE TrimQ(arg)
DtParts(arg) == IF arg = <<>> THEN <<>> ELSE IF TrimQ(arg) = <<>> THEN <<<<>>>> ELSE Split(TrimQ(arg), <<COMMA>>)
DtSep(arg, k) == IF Len(DtParts(arg)) >= k THEN DtParts(arg)[k]
                 ELSE IF k = 1 THEN <<MINUS>> ELSE IF k = 2 THEN <<SPACE>> ELSE <<COLON>>

\* ------------------------------------------------------------ numbers
IsInt(s) == Len(s) >= 1 /\ AllDigits(s)
IsFloat(s) == \E k \in 2..(Len(s) - 1) : s[k] = DOT /\ AllDigits(Sub(s, 1, k - 1)) /\ AllDigits(Sub(s, k + 1, Len(s)))
\* carve-out: a signed numeral (the documentation does not say whether a sign belongs to an "integer")
SignedInt(s) == Len(s) >= 2 /\ s[1] \in {PLUS, MINUS} /\ IsInt(Tail(s))
SignedFloat(s) == Len(s) >= 2 /\ s[1] \in {PLUS, MINUS} /\ IsFloat(Tail(s))
IsInts(s, sep) == LET ps == Split(s, sep) IN \A i \in 1..Len(ps) : IsInt(ps[i])
IntsSilent(s, sep) == LET ps == Split(s, sep) IN \A i \in 1..Len(ps) : IsInt(ps[i]) \/ SignedInt(ps[i])
AllInt(es) == \A i \in 1..Len(es) : IsInt(es[i])
AllIntOrSigned(es) == \A i \in 1..Len(es) : IsInt(es[i]) \/ SignedInt(es[i])
IsUnique(ps) == \A i \in 1..Len(ps) : \A j \in (i + 1)..Len(ps) : ps[i] # ps[j]

\* ------------------------------------------------------------ option lists: in / include
\* text between the first "(" and the last ")", split at "/" outside single quotes, quotes trimmed
Inner(arg) == Sub(arg, FirstIdx(arg, LPAR) + 1, LastIdx(arg, RPAR) - 1)
RawOptions(arg) == QSplit(Inner(arg), SLASH)
Options(arg) == [i \in 1..Len(RawOptions(arg)) |-> TrimQ(RawOptions(arg)[i])]
\* documented shape of one raw option: non-empty, without "|"; quotes only as one protecting pair around it
RawOptDocumented(o) ==
  /\ o # <<>> /\ ~Has(o, BAR)
  /\ IF Has(o, QUOTE)
     THEN Len(o) >= 3 /\ o[1] = QUOTE /\ o[Len(o)] = QUOTE /\ ~Has(Sub(o, 2, Len(o) - 1), QUOTE)
     ELSE ~Has(o, COMMA)
OptsDocumented(arg) ==
  /\ FirstIdx(arg, LPAR) > 0 /\ LastIdx(arg, RPAR) > FirstIdx(arg, LPAR)
  /\ \A i \in 1..Len(RawOptions(arg)) : RawOptDocumented(RawOptions(arg)[i])
InOptions(v, arg) == \E i \in 1..Len(Options(arg)) : Options(arg)[i] = v
IncludesOption(v, arg) == \E i \in 1..Len(Options(arg)) : IsSubstring(Options(arg)[i], v)

\* ------------------------------------------------------------ re: pattern extraction
\* re='<pattern>'[|message]: the pattern runs from the first quote to the first quote that is not escaped by "\"
ReClose(arg, q) == IF \E j \in (q + 2)..Len(arg) : arg[j] = QUOTE /\ arg[j - 1] # BSL
                   THEN CHOOSE j \in (q + 2)..Len(arg) : /\ arg[j] = QUOTE /\ arg[j - 1] # BSL
                                                         /\ \A i \in (q + 2)..(j - 1) : ~(arg[i] = QUOTE /\ arg[i - 1] # BSL)
                   ELSE 0
ReWellFormed(arg) == FirstIdx(arg, QUOTE) > 0 /\ ReClose(arg, FirstIdx(arg, QUOTE)) > 0
RePattern(arg) == Sub(arg, FirstIdx(arg, QUOTE) + 1, ReClose(arg, FirstIdx(arg, QUOTE)) - 1)

\* ------------------------------------------------------------ the contract
StrRule(r, member, silent) == IF r.kind = "str" THEN Decide(member, silent) ELSE Either   \* string rules on other kinds: silent

Verdicts(r) ==
  LET s == r.input IN
  CASE r.rule = "phone"  -> StrRule(r, IsPhone(s), FALSE)
    [] r.rule = "email"  -> StrRule(r, IsEmail(s), FALSE)
    [] r.rule = "idcard" -> StrRule(r, IsIdCard(s), FALSE)
    [] r.rule = "ip"     -> StrRule(r, IsIP(s), FALSE)
    [] r.rule = "ipv4"   -> StrRule(r, IsIPv4(s), MappedSilent(s))
    [] r.rule = "ipv6"   -> StrRule(r, IsIPv6(s) /\ ~MappedSilent(s), MappedSilent(s))
    [] r.rule = "year"   -> StrRule(r, IsYear(s), FALSE)
    [] r.rule = "year2month" ->
         LET sep == DateSep(r.arg) IN
         IF ~SepDocumented(sep) THEN Either
         ELSE StrRule(r, IsYear2Month(s, sep), IsYear2Month(CollapseSpaces(s), sep))
    [] r.rule = "date" ->
         LET sep == DateSep(r.arg) IN
         IF ~SepDocumented(sep) THEN Either
         ELSE StrRule(r, IsDate(s, sep), IsDate(CollapseSpaces(s), sep))
    [] r.rule = "datetime" ->
         LET s1 == DtSep(r.arg, 1) s2 == DtSep(r.arg, 2) s3 == DtSep(r.arg, 3) IN
         IF Len(DtParts(r.arg)) > 3 \/ ~SepDocumented(s1) \/ ~SepDocumented(s2) \/ ~SepDocumented(s3) THEN Either
         ELSE StrRule(r, IsDatetime(s, s1, s2, s3), DtLenient(s, s1, s2, s3))
    [] r.rule = "int" ->
         IF r.kind = "str" THEN Decide(IsInt(s), SignedInt(s))
         ELSE IF r.kind = "num" /\ r.nk \in {"int", "uint"} THEN {FALSE}
         ELSE Either                                        \* int on float kinds / collections: silent
    [] r.rule = "float" ->
         IF r.kind = "str" THEN Decide(IsFloat(s), SignedFloat(s))
         ELSE IF r.kind = "num" /\ r.nk = "float" THEN {FALSE}
         ELSE Either                                        \* float on integer kinds / collections: silent
    [] r.rule = "ints" ->
         LET sep == IF r.arg = <<>> THEN <<COMMA>> ELSE r.arg IN
         IF r.kind = "str" THEN (IF ~SepDocumented(sep) THEN Either ELSE Decide(IsInts(s, sep), IntsSilent(s, sep)))
         ELSE IF r.kind = "list" THEN Decide(AllInt(r.elems), AllIntOrSigned(r.elems))
         ELSE Either
    [] r.rule = "unique" ->
         IF r.kind = "str" THEN Decide(IsUnique(Split(s, <<COMMA>>)), FALSE)
         ELSE IF r.kind = "list" THEN Decide(IsUnique(r.elems), FALSE)
         ELSE Either
    [] r.rule = "in" ->
         IF r.kind = "list" \/ ~OptsDocumented(r.arg) THEN Either
         ELSE Decide(InOptions(s, r.arg), FALSE)            \* numbers: by canonical decimal rendering
    [] r.rule = "include" ->
         IF ~OptsDocumented(r.arg) THEN Either
         ELSE StrRule(r, IncludesOption(s, r.arg), FALSE)
    [] r.rule = "prefix" -> IF r.arg = <<>> THEN Either ELSE StrRule(r, HasPrefix(s, r.arg), FALSE)
    [] r.rule = "suffix" -> IF r.arg = <<>> THEN Either ELSE StrRule(r, HasSuffix(s, r.arg), FALSE)
    \* delegated languages: the platform predicate on the intended string decides
    [] r.rule \in {"json", "file", "dir"} -> StrRule(r, r.deleg, FALSE)
    [] r.rule = "re" -> IF ~ReWellFormed(r.arg) THEN Either ELSE StrRule(r, r.deleg, FALSE)
    [] OTHER -> {}

\* the harness must have matched the pattern the documentation's grammar extracts
HarnessConsistent(r) == r.rule = "re" /\ ReWellFormed(r.arg) => RePattern(r.arg) = r.pat

(* judge code of one record:  0 satisfied as required   1 violated as required   2 silent (either allowed)   *)
(*   3 CONTRACT BROKEN: code reports a violation for a member   4 CONTRACT BROKEN: code accepts a non-member *)
(*   5 harness inconsistency (not a verdict)                                                                 *)
Judge(r) ==
  LET v == Verdicts(r) IN
  IF v = {} \/ ~HarnessConsistent(r) THEN 5
  ELSE IF v = Either THEN 2
  ELSE IF r.violated \in v THEN (IF r.violated THEN 1 ELSE 0)
  ELSE IF r.violated THEN 3 ELSE 4
=============================================================================
