\* thorough, -simulate: random histories of 12 calls over 5 types x 3 tags x 4 overrides
CONSTANTS
  Types = {"T1", "T2", "T3", "T4", "T5"}
  Tags = {"a", "b", "valid"}
  ShapeOf <- AllShapes
  Ovs <- GenOvs
  Kinds <- MCKinds
  MaxCalls = 12
  CallVals <- ValSet
  WriteThrough = FALSE
  KeyOf <- KeyTT
SPECIFICATION GenSpec
INVARIANT Emit
CHECK_DEADLOCK FALSE
