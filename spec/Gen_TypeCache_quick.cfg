\* every history of exactly 4 calls over 2 types x 2 tags x 3 overrides (12^4 = 20 736 histories)
CONSTANTS
  Types = {"T1", "T3"}
  Tags = {"a", "b"}
  ShapeOf <- AllShapes
  Ovs <- MCOvs
  Kinds <- MCKinds
  MaxCalls = 4
  CallVals <- ValSet
  WriteThrough = FALSE
  KeyOf <- KeyTT
SPECIFICATION GenSpec
INVARIANT Emit
CHECK_DEADLOCK FALSE
