CONSTANTS
  Keys = {"k1", "k2", "k3"}
  Vals = {"v1", "v2"}
  Caps = {0, 1, 2}
SPECIFICATION GenSpec
VIEW view
CHECK_DEADLOCK FALSE
