CONSTANTS
  W = 1
  Pinned = FALSE
SPECIFICATION JSpec
CHECK_DEADLOCK FALSE
