\* template: lib/fam_pools.py writes the per-run copy (GenMode, MaxLen, SelSeed)
CONSTANTS
  Calls = {1}
  MCDescs = {1}
  ClearRuleMapOnFree = TRUE
  FreshVC = TRUE
  ReInitBuf = TRUE
  ResetDetaches = TRUE
  KeyWithTag = TRUE
  WriteThrough = FALSE
  EarlyDistinct = FALSE
  MaxObj = 2
  GenMode = "menu"
  MaxLen = 3
  MenuN = 17
  SelSeed = 1
  SelMod = 12
SPECIFICATION GSpec
INVARIANT EmitHist
CHECK_DEADLOCK FALSE
