\* directory level (C19, C07): every directory of up to 2 entries over 11 kinds, 3 runs mixing -d / -p / -f
CONSTANTS
  MaxRuns = 3
  Modes = {"d", "p", "f"}
  SpliceOrder = "last"
  SkipUntagged = TRUE
  Profile = "dir"
  MaxSegs = 2
SPECIFICATION Spec
CHECK_DEADLOCK FALSE
INVARIANTS FieldsMergedInv OutsideUnchangedInv PlainUnchanged StillParses NoCrash UnprocessableUntouched SubdirEither NeverCorrupt OthersStillProcessed
PROPERTIES Idempotent RunFileAgrees
