\* non-vacuity: the pinned scanners (guards left out) must violate AccessOK
CONSTANTS
  MaxDepth = 1
  MaxLen = 3
  Guards = {}
SPECIFICATION ScanSpec
INVARIANTS AccessOK ScanTyped ReturnedOK
PROPERTIES RefinesA
CHECK_DEADLOCK TRUE
