-------------------------- MODULE Judge_RuleText --------------------------
(* Constant-mode judge of C14: the LAWS of RuleText are evaluated on the outputs recorded   *)
(* from the real library (IOEnv.FILE, ndjson; IOEnv.KIND = "split" | "splitr" (random, wider alphabet) | "rt").                  *)
(*   split: [in, out]                         out = ValidNamesSplit(in)                      *)
(*   rt   : [rules, gen, joined, pieces, parsed]                                             *)
(*          gen[i] = GenValidKV(rule i), joined = RM.Set(...).Get(field),                    *)
(*          pieces = ValidNamesSplit(joined), parsed[i] = ParseValidNameKV(pieces[i])        *)
(* Every record failing a law is printed as @@BAD; nothing else is a verdict.                *)
EXTENDS RuleText, Json, IOUtils

Recs == ndJsonDeserialize(IOEnv.FILE)

SplitLaws(r) ==
  (IF IOEnv.KIND = "splitr" \/ \A i \in 1..Len(r.in) : r.in[i] \in SplitAlpha THEN {} ELSE {"domain"}) \cup
  (IF NoLoss(r.in, r.out) THEN {} ELSE {"noloss"}) \cup
  (IF QuotedCommasKept(r.in, r.out) THEN {} ELSE {"quoted"}) \cup
  (IF OuterCommasSplit(r.in, r.out) THEN {} ELSE {"outer"})

RtLaws(r) ==
  (IF \A i \in 1..Len(r.rules) : IsRule(r.rules[i]) THEN {} ELSE {"domain"}) \cup
  (IF r.gen = GenAll(r.rules) THEN {} ELSE {"gen"}) \cup
  (IF r.joined = SetJoin(r.gen) THEN {} ELSE {"join"}) \cup
  (IF NoLoss(r.joined, r.pieces) THEN {} ELSE {"noloss"}) \cup
  (IF QuotedCommasKept(r.joined, r.pieces) THEN {} ELSE {"quoted"}) \cup
  (IF OuterCommasSplit(r.joined, r.pieces) THEN {} ELSE {"outer"}) \cup
  (IF RoundTrip(r.rules, r.parsed) THEN {} ELSE {"roundtrip"})

Check(i) == LET bad == IF IOEnv.KIND \in {"split", "splitr"} THEN SplitLaws(Recs[i]) ELSE RtLaws(Recs[i])
            IN  IF bad = {} THEN TRUE ELSE PrintT("@@BAD " \o ToJson([i |-> i, laws |-> bad]))

ASSUME \A i \in 1..Len(Recs) : Check(i)
ASSUME PrintT("@@SUM " \o ToJson([n |-> Len(Recs)]))
=============================================================================
