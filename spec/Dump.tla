------------------------------- MODULE Dump -------------------------------
(***************************************************************************)
(* Specification of the struct dumper valid.GetDumpStructStr (valid/dump.go)*)
(* for property C20.                                                        *)
(*                                                                          *)
(* Typed value trees.  A type T and a value v of that type:                 *)
(*   T = [k:"sc",kind]            v = [k:"sc",txt]      kind in Kinds; txt = *)
(*                                    canonical text of the value           *)
(*   T = [k:"st",fs:Seq([n,x,t])] v = [k:"st",fs:Seq(v)] n name, x exported *)
(*   T = [k:"pt",t]  (t a struct) v = [k:"pt",nil,to]                       *)
(*   T = [k:"sl",t]               v = [k:"sl",nil,es:Seq(v)]                *)
(*   T = [k:"mp",key,t]           v = [k:"mp",nil,en:Seq([key,v])]          *)
(*                                    key in {"int","string"}; entry keys   *)
(*                                    are texts, pairwise distinct          *)
(*                                                                          *)
(* Layer A (contract):                                                      *)
(*   StdDoc(T,v)  the JSON document of the standard encoder (field names as *)
(*                keys, unexported fields omitted, nil -> null)             *)
(*   Dev(T,d)     the documented deviations applied to a standard document: *)
(*                bool -> "true"/"false" strings, nil slice -> [],          *)
(*                nil map -> {}, nil pointer stays null                     *)
(*   Doc(T,v)     the expected document, written out directly;              *)
(*                DocEq(Doc(T,v), Dev(T,StdDoc(T,v))) is checked by TLC     *)
(*   WellFormed(tokens), Decode(tokens): JSON grammar over the token        *)
(*                alphabet (bracket matching, comma/colon placement)        *)
(*   Contract:    WellFormed(out) /\ DocEq(Decode(out), Doc(T,v))           *)
(*                                                                          *)
(* Layer B (mechanism): the recursive emitter of dump.go at the grain of    *)
(*   its buffer writes (pieces: quote, text, number, raw word, punctuation),*)
(*   with the needAddComma flag, the early return on zero fields, the       *)
(*   "only struct elements are walked, others go through loopHandleKV"      *)
(*   split for slice elements, key quoting for map keys, and the i < len-1  *)
(*   separators.  Pinned = TRUE transcribes the pinned code (defect D16),   *)
(*   Pinned = FALSE the repaired code.  Lex turns pieces into tokens the    *)
(*   way the harness lexer turns characters into tokens.                    *)
(***************************************************************************)
EXTENDS Naturals, Sequences, FiniteSets, TLC

CONSTANTS Pinned,     \* BOOLEAN: mechanism of the pinned tree (TRUE) or of the repaired tree (FALSE)
          MaxDepth,   \* depth bound of the enumerated root types (1..3)
          SibSet      \* which sibling alphabet two-field structs use ("small" | "wide")

(* ------------------------------------------------------------------ *)
(* documents and tokens                                                 *)
(* ------------------------------------------------------------------ *)
Leaf(t, s)      == [t |-> t, s |-> s, keys |-> <<>>, kids |-> <<>>]
Arr(kids)       == [t |-> "arr", s |-> "", keys |-> <<>>, kids |-> kids]
Obj(keys, kids) == [t |-> "obj", s |-> "", keys |-> keys, kids |-> kids]
NullDoc         == Leaf("null", "")

SeqRange(s) == {s[i] : i \in 1..Len(s)}
LastIdx(keys, key) == CHOOSE i \in 1..Len(keys) : keys[i] = key /\ \A j \in (i+1)..Len(keys) : keys[j] # key

(* equality of documents: arrays by position, objects as key -> value maps
   (a repeated key decodes to its last value, as encoding/json does) *)
RECURSIVE DocEq(_, _)
DocEq(a, b) ==
  /\ a.t = b.t
  /\ a.s = b.s
  /\ CASE a.t = "arr" -> /\ Len(a.kids) = Len(b.kids)
                         /\ \A i \in 1..Len(a.kids) : DocEq(a.kids[i], b.kids[i])
       [] a.t = "obj" -> /\ SeqRange(a.keys) = SeqRange(b.keys)
                         /\ \A key \in SeqRange(a.keys) :
                               DocEq(a.kids[LastIdx(a.keys, key)], b.kids[LastIdx(b.keys, key)])
       [] OTHER -> TRUE

Tok(t)    == [t |-> t, s |-> ""]
StrTok(s) == [t |-> "str", s |-> s]
NumTok(s) == [t |-> "num", s |-> s]
BadTok(s) == [t |-> "bad", s |-> s]
LeafToks  == {"str", "num", "true", "false", "null"}

(* ------------------------------------------------------------------ *)
(* A: JSON grammar over tokens                                          *)
(*   value   ::= leaf | "[" "]" | "[" value ("," value)* "]"            *)
(*             | "{" "}" | "{" member ("," member)* "}"                 *)
(*   member  ::= str ":" value                                          *)
(* ------------------------------------------------------------------ *)
PFail == [ok |-> FALSE, nx |-> 0, d |-> NullDoc]
POk(nx, d) == [ok |-> TRUE, nx |-> nx, d |-> d]
At(ts, i) == IF i >= 1 /\ i <= Len(ts) THEN ts[i].t ELSE "eof"

RECURSIVE PVal(_, _), PElems(_, _, _), PMembers(_, _, _, _)
PVal(ts, i) ==
  LET t == At(ts, i) IN
  CASE t \in LeafToks -> POk(i + 1, Leaf(t, ts[i].s))
    [] t = "["  -> IF At(ts, i + 1) = "]" THEN POk(i + 2, Arr(<<>>)) ELSE PElems(ts, i + 1, <<>>)
    [] t = "{"  -> IF At(ts, i + 1) = "}" THEN POk(i + 2, Obj(<<>>, <<>>)) ELSE PMembers(ts, i + 1, <<>>, <<>>)
    [] OTHER    -> PFail
PElems(ts, i, acc) ==
  LET r == PVal(ts, i) IN
  IF ~r.ok THEN PFail
  ELSE LET t == At(ts, r.nx) IN
       CASE t = "," -> PElems(ts, r.nx + 1, Append(acc, r.d))
         [] t = "]" -> POk(r.nx + 1, Arr(Append(acc, r.d)))
         [] OTHER   -> PFail
PMembers(ts, i, keys, kids) ==
  IF At(ts, i) # "str" \/ At(ts, i + 1) # ":" THEN PFail
  ELSE LET r == PVal(ts, i + 2) IN
       IF ~r.ok THEN PFail
       ELSE LET t == At(ts, r.nx) IN
            CASE t = "," -> PMembers(ts, r.nx + 1, Append(keys, ts[i].s), Append(kids, r.d))
              [] t = "}" -> POk(r.nx + 1, Obj(Append(keys, ts[i].s), Append(kids, r.d)))
              [] OTHER   -> PFail

WellFormed(ts) == LET r == PVal(ts, 1) IN r.ok /\ r.nx = Len(ts) + 1
Decode(ts)     == PVal(ts, 1).d

(* ------------------------------------------------------------------ *)
(* A: expected documents                                                *)
(* ------------------------------------------------------------------ *)
Idx(s)     == [i \in 1..Len(s) |-> i]
ExpIdx(fs) == SelectSeq(Idx(fs), LAMBDA i : fs[i].x)       \* indices of exported fields, declaration order
IsNum(kind) == kind \in {"int", "uint", "float"}

RECURSIVE StdDoc(_, _)
StdDoc(T, v) ==
  CASE T.k = "sc" -> IF T.kind = "string" THEN Leaf("str", v.txt)
                     ELSE IF T.kind = "bool" THEN Leaf(v.txt, "")          \* literal true / false
                     ELSE Leaf("num", v.txt)
    [] T.k = "st" -> LET ex == ExpIdx(T.fs) IN
                     Obj([i \in 1..Len(ex) |-> T.fs[ex[i]].n], [i \in 1..Len(ex) |-> StdDoc(T.fs[ex[i]].t, v.fs[ex[i]])])
    [] T.k = "pt" -> IF v.nil THEN NullDoc ELSE StdDoc(T.t, v.to)
    [] T.k = "sl" -> IF v.nil THEN NullDoc ELSE Arr([i \in 1..Len(v.es) |-> StdDoc(T.t, v.es[i])])
    [] T.k = "mp" -> IF v.nil THEN NullDoc
                     ELSE Obj([i \in 1..Len(v.en) |-> v.en[i].key], [i \in 1..Len(v.en) |-> StdDoc(T.t, v.en[i].v)])

FieldTypeByName(T, name) == T.fs[CHOOSE i \in 1..Len(T.fs) : T.fs[i].x /\ T.fs[i].n = name].t

(* the documented deviations, applied to a document d of the standard encoder for a value of type T *)
RECURSIVE Dev(_, _)
Dev(T, d) ==
  CASE T.k = "sc" -> IF T.kind = "bool" THEN Leaf("str", d.t) ELSE d
    [] T.k = "st" -> Obj(d.keys, [i \in 1..Len(d.kids) |-> Dev(FieldTypeByName(T, d.keys[i]), d.kids[i])])
    [] T.k = "pt" -> IF d.t = "null" THEN d ELSE Dev(T.t, d)
    [] T.k = "sl" -> IF d.t = "null" THEN Arr(<<>>) ELSE Arr([i \in 1..Len(d.kids) |-> Dev(T.t, d.kids[i])])
    [] T.k = "mp" -> IF d.t = "null" THEN Obj(<<>>, <<>>) ELSE Obj(d.keys, [i \in 1..Len(d.kids) |-> Dev(T.t, d.kids[i])])

(* Dev is applied to decoded output of the real encoder, so it must be total on documents of the wrong shape *)
RECURSIVE Fits(_, _)
Fits(T, d) ==
  CASE T.k = "sc" -> IF T.kind = "string" THEN d.t = "str" ELSE IF T.kind = "bool" THEN d.t \in {"true", "false"} ELSE d.t = "num"
    [] T.k = "st" -> /\ d.t = "obj"
                     /\ \A i \in 1..Len(d.keys) : /\ \E j \in 1..Len(T.fs) : T.fs[j].x /\ T.fs[j].n = d.keys[i]
                                                   /\ Fits(FieldTypeByName(T, d.keys[i]), d.kids[i])
    [] T.k = "pt" -> d.t = "null" \/ Fits(T.t, d)
    [] T.k = "sl" -> d.t = "null" \/ (d.t = "arr" /\ \A i \in 1..Len(d.kids) : Fits(T.t, d.kids[i]))
    [] T.k = "mp" -> d.t = "null" \/ (d.t = "obj" /\ \A i \in 1..Len(d.kids) : Fits(T.t, d.kids[i]))

(* the contract's expected document, written out directly *)
RECURSIVE Doc(_, _)
Doc(T, v) ==
  CASE T.k = "sc" -> IF IsNum(T.kind) THEN Leaf("num", v.txt) ELSE Leaf("str", v.txt)   \* bool as the string "true"/"false"
    [] T.k = "st" -> LET ex == ExpIdx(T.fs) IN                                          \* unexported fields omitted
                     Obj([i \in 1..Len(ex) |-> T.fs[ex[i]].n], [i \in 1..Len(ex) |-> Doc(T.fs[ex[i]].t, v.fs[ex[i]])])
    [] T.k = "pt" -> IF v.nil THEN NullDoc ELSE Doc(T.t, v.to)                          \* nil pointer -> null
    [] T.k = "sl" -> IF v.nil THEN Arr(<<>>)                                            \* nil slice -> []
                     ELSE Arr([i \in 1..Len(v.es) |-> Doc(T.t, v.es[i])])
    [] T.k = "mp" -> IF v.nil THEN Obj(<<>>, <<>>)                                      \* nil map -> {}
                     ELSE Obj([i \in 1..Len(v.en) |-> v.en[i].key], [i \in 1..Len(v.en) |-> Doc(T.t, v.en[i].v)])

Contract(T, v, out) == WellFormed(out) /\ DocEq(Decode(out), Doc(T, v))

(* ------------------------------------------------------------------ *)
(* B: the emitter of dump.go, one piece per buffer write               *)
(* ------------------------------------------------------------------ *)
Q       == [p |-> "q",   s |-> ""]      \* WriteByte('"') / a quote inside a written literal
Txt(s)  == [p |-> "txt", s |-> s]       \* the characters of a name or string value, written as they are
Num(s)  == [p |-> "num", s |-> s]       \* strconv.Append{Int,Uint,Float}
Raw(s)  == [p |-> "raw", s |-> s]       \* the word null
P(c)    == [p |-> "pun", s |-> c]       \* { } [ ] , :

RECURSIVE Handle(_, _, _), KV(_, _, _, _), Fields(_, _, _, _), Elems(_, _, _), Entries(_, _, _)

(* HandleDumpStruct(v, isSlice...) *)
Handle(T, v, isSlice) ==
  IF T.k = "pt" /\ v.nil THEN <<Raw("null")>>                       \* reflect.Indirect of a nil pointer is invalid
  ELSE LET TT == IF T.k = "pt" THEN T.t ELSE T                      \* reflect.Indirect
           vv == IF T.k = "pt" THEN v.to ELSE v
       IN IF TT.k # "st"
          THEN (IF isSlice THEN KV("", TT, vv, FALSE) ELSE <<>>)    \* non-struct: only slice elements are written
          ELSE IF Len(TT.fs) = 0
               THEN (IF Pinned THEN <<P("{")>>                      \* D16: early return without the closing brace
                               ELSE <<P("{"), P("}")>>)
               ELSE <<P("{")>>
                    \o (IF TT.fs[1].x THEN KV(TT.fs[1].n, TT.fs[1].t, vv.fs[1], TRUE) ELSE <<>>)
                    \o Fields(TT, vv, 2, TT.fs[1].x)
                    \o <<P("}")>>

(* the loop over fields 2..n with the needAddComma flag *)
Fields(T, v, i, needAddComma) ==
  IF i > Len(T.fs) THEN <<>>
  ELSE IF ~T.fs[i].x THEN Fields(T, v, i + 1, needAddComma)
  ELSE (IF needAddComma THEN <<P(",")>> ELSE <<>>)
       \o KV(T.fs[i].n, T.fs[i].t, v.fs[i], TRUE)
       \o Fields(T, v, i + 1, TRUE)

(* loopHandleKV(field, value, needFieldName) *)
KV(name, T, v, needName) ==
  (IF needName THEN <<Q, Txt(name), Q, P(":")>> ELSE <<>>)
  \o CASE T.k = "sc" -> (IF IsNum(T.kind) THEN <<Num(v.txt)>> ELSE <<Q, Txt(v.txt), Q>>)
       [] T.k \in {"pt", "st"} -> Handle(T, v, FALSE)
       [] T.k = "sl" -> <<P("[")>> \o Elems(T.t, v.es, 1) \o <<P("]")>>
       [] T.k = "mp" -> <<P("{")>> \o Entries(T, v.en, 1) \o <<P("}")>>

Elems(T, es, i) ==
  IF i > Len(es) THEN <<>>
  ELSE Handle(T, es[i], TRUE) \o (IF i < Len(es) THEN <<P(",")>> ELSE <<>>) \o Elems(T, es, i + 1)

KeyT(T) == [k |-> "sc", kind |-> T.key]
KeyV(e) == [k |-> "sc", txt |-> e.key]
Entries(T, en, i) ==
  IF i > Len(en) THEN <<>>
  ELSE (IF Pinned \/ T.key # "string"
        THEN <<Q>> \o KV("", KeyT(T), KeyV(en[i]), FALSE) \o <<Q>>     \* D16: a string key is quoted twice
        ELSE KV("", KeyT(T), KeyV(en[i]), FALSE))
       \o <<P(":")>> \o KV("", T.t, en[i].v, FALSE)
       \o (IF i < Len(en) THEN <<P(",")>> ELSE <<>>)
       \o Entries(T, en, i + 1)

Emit(T, v) == Handle(T, v, FALSE)

(* pieces -> tokens, as the harness lexer reads the characters: a quote opens a string that runs to the
   next quote; outside a string a number is a number token, null a literal, punctuation itself, and any
   other character a bad token *)
RECURSIVE LexFrom(_, _, _, _, _)
LexFrom(ps, i, inStr, acc, out) ==
  IF i > Len(ps) THEN (IF inStr THEN Append(out, BadTok(acc)) ELSE out)
  ELSE LET p == ps[i] IN
       IF inStr
       THEN IF p.p = "q" THEN LexFrom(ps, i + 1, FALSE, "", Append(out, StrTok(acc)))
            ELSE LexFrom(ps, i + 1, TRUE, acc \o p.s, out)
       ELSE CASE p.p = "q"   -> LexFrom(ps, i + 1, TRUE, "", out)
              [] p.p = "num" -> LexFrom(ps, i + 1, FALSE, "", Append(out, NumTok(p.s)))
              [] p.p = "raw" -> LexFrom(ps, i + 1, FALSE, "", Append(out, Tok(p.s)))
              [] p.p = "pun" -> LexFrom(ps, i + 1, FALSE, "", Append(out, Tok(p.s)))
              [] p.p = "txt" -> LexFrom(ps, i + 1, FALSE, "", IF p.s = "" THEN out ELSE Append(out, BadTok(p.s)))
Lex(ps) == LexFrom(ps, 1, FALSE, "", <<>>)

MechTokens(T, v) == Lex(Emit(T, v))

(* ------------------------------------------------------------------ *)
(* the bounded universe of typed value trees                            *)
(* ------------------------------------------------------------------ *)
Kinds == {"string", "bool", "int", "uint", "float"}
Prim(kind) == CASE kind = "string" -> "a" [] kind = "bool" -> "true"  [] kind = "int" -> "-7"
                [] kind = "uint" -> "7"   [] kind = "float" -> "1.5"
Sec(kind)  == CASE kind = "string" -> ""  [] kind = "bool" -> "false" [] kind = "int" -> "0"
                [] kind = "uint" -> "42"  [] kind = "float" -> "-0.25"
KeyTxt(key, j) == IF key = "int" THEN <<"1", "-2">>[j] ELSE <<"k", "">>[j]

SC(kind)    == [k |-> "sc", kind |-> kind]
ST(fs)      == [k |-> "st", fs |-> fs]
PT(t)       == [k |-> "pt", t |-> t]
SL(t)       == [k |-> "sl", t |-> t]
MP(key, t)  == [k |-> "mp", key |-> key, t |-> t]
FName(i, x) == IF x THEN <<"A", "B">>[i] ELSE <<"a", "b">>[i]
F(i, x, t)  == [n |-> FName(i, x), x |-> x, t |-> t]

(* sibling alphabet of two-field structs: one field ranges over all types of the level below, the other over Sib *)
Sib == IF SibSet = "wide"
       THEN {[x |-> TRUE, t |-> SC("int")], [x |-> FALSE, t |-> SC("int")], [x |-> TRUE, t |-> SC("string")],
             [x |-> TRUE, t |-> ST(<<>>)], [x |-> TRUE, t |-> SL(SC("int"))], [x |-> TRUE, t |-> MP("string", SC("bool"))]}
       ELSE {[x |-> TRUE, t |-> SC("int")], [x |-> FALSE, t |-> SC("int")], [x |-> TRUE, t |-> SC("string")]}

StructsOver(L) ==
  {ST(<<>>)}
  \cup {ST(<<F(1, x, t)>>) : x \in BOOLEAN, t \in L}
  \cup {ST(<<F(1, x, t), F(2, s.x, s.t)>>) : x \in BOOLEAN, t \in L, s \in Sib}
  \cup {ST(<<F(1, s.x, s.t), F(2, x, t)>>) : x \in BOOLEAN, t \in L, s \in Sib}

RECURSIVE Ty(_)
Ty(d) == IF d = 0 THEN {SC(kind) : kind \in Kinds}
         ELSE LET L == Ty(d - 1) IN
              L \cup StructsOver(L)
                \cup {PT(t) : t \in {u \in L : u.k = "st"}}
                \cup {SL(t) : t \in L}
                \cup {MP(key, t) : key \in {"int", "string"}, t \in L}

RootTypes(d) == {t \in Ty(d) : t.k = "st" \/ t.k = "pt"}

NilPt       == [k |-> "pt", nil |-> TRUE,  to |-> [k |-> "none"]]
PtTo(w)     == [k |-> "pt", nil |-> FALSE, to |-> w]
SlV(nil, es) == [k |-> "sl", nil |-> nil, es |-> es]
MpV(nil, en) == [k |-> "mp", nil |-> nil, en |-> en]
Ent(key, v)  == [key |-> key, v |-> v]

(* two representatives per type, used for container elements: Base is "everything present" (two elements /
   entries, non-nil pointers, primary scalars), Alt is "everything absent" (nil, secondary scalars) *)
RECURSIVE Base(_), Alt(_), Vals(_)
Base(T) == CASE T.k = "sc" -> [k |-> "sc", txt |-> Prim(T.kind)]
             [] T.k = "st" -> [k |-> "st", fs |-> [i \in 1..Len(T.fs) |-> Base(T.fs[i].t)]]
             [] T.k = "pt" -> PtTo(Base(T.t))
             [] T.k = "sl" -> SlV(FALSE, <<Base(T.t), Alt(T.t)>>)
             [] T.k = "mp" -> MpV(FALSE, <<Ent(KeyTxt(T.key, 1), Base(T.t)), Ent(KeyTxt(T.key, 2), Alt(T.t))>>)
Alt(T)  == CASE T.k = "sc" -> [k |-> "sc", txt |-> Sec(T.kind)]
             [] T.k = "st" -> [k |-> "st", fs |-> [i \in 1..Len(T.fs) |-> Alt(T.fs[i].t)]]
             [] T.k = "pt" -> NilPt
             [] T.k = "sl" -> SlV(TRUE, <<>>)
             [] T.k = "mp" -> MpV(TRUE, <<>>)
Rep(T) == {Base(T), Alt(T)}

(* all values of a type: products over exported struct fields (an unexported field holds its Base value, which
   must not leak), nil / non-nil pointers, nil / empty / one / two element slices and maps over Rep *)
FV(f) == IF f.x THEN Vals(f.t) ELSE {Base(f.t)}
Vals(T) ==
  CASE T.k = "sc" -> {[k |-> "sc", txt |-> Prim(T.kind)], [k |-> "sc", txt |-> Sec(T.kind)]}
    [] T.k = "st" -> IF Len(T.fs) = 0 THEN {[k |-> "st", fs |-> <<>>]}
                     ELSE IF Len(T.fs) = 1 THEN {[k |-> "st", fs |-> <<a>>] : a \in FV(T.fs[1])}
                     ELSE {[k |-> "st", fs |-> <<a, b>>] : a \in FV(T.fs[1]), b \in FV(T.fs[2])}
    [] T.k = "pt" -> {NilPt} \cup {PtTo(w) : w \in Vals(T.t)}
    [] T.k = "sl" -> {SlV(TRUE, <<>>), SlV(FALSE, <<>>)}
                     \cup {SlV(FALSE, <<a>>) : a \in Rep(T.t)}
                     \cup {SlV(FALSE, <<a, b>>) : a \in Rep(T.t), b \in Rep(T.t)}
    [] T.k = "mp" -> {MpV(TRUE, <<>>), MpV(FALSE, <<>>)}
                     \cup {MpV(FALSE, <<Ent(KeyTxt(T.key, j), a)>>) : j \in 1..2, a \in Rep(T.t)}
                     \cup {MpV(FALSE, <<Ent(KeyTxt(T.key, 1), a), Ent(KeyTxt(T.key, 2), b)>>) : a \in Rep(T.t), b \in Rep(T.t)}

(* the universe; Init enumerates it with nested quantifiers instead of building this set (measured: 93 492 trees
   at depth 3 take 5 min as one UNION, 26 s as \E T : \E v) *)
Trees(d) == UNION {{[ty |-> T, v |-> v] : v \in Vals(T)} : T \in RootTypes(d)}

(* ------------------------------------------------------------------ *)
(* MC: every tree of the universe is emitted and judged                 *)
(* ------------------------------------------------------------------ *)
VARIABLES tree, phase, out
vars == <<tree, phase, out>>

Init == /\ \E T \in RootTypes(MaxDepth) : \E v \in Vals(T) : tree = [ty |-> T, v |-> v]
        /\ phase = "new"
        /\ out = <<>>

EmitStep == /\ phase = "new"
            /\ out' = MechTokens(tree.ty, tree.v)
            /\ phase' = "emitted"
            /\ UNCHANGED tree

Next == EmitStep
Spec == Init /\ [][Next]_vars

(* B => A *)
EmitterMeetsContract == phase = "emitted" => Contract(tree.ty, tree.v, out)
(* the directly written expectation is the standard document up to exactly the documented deviations *)
DocIsStdUpToDeviations ==
  /\ Fits(tree.ty, StdDoc(tree.ty, tree.v))
  /\ DocEq(Doc(tree.ty, tree.v), Dev(tree.ty, StdDoc(tree.ty, tree.v)))
(* the emitter never produces a bad token on the repaired mechanism *)
NoBadToken == \A i \in 1..Len(out) : out[i].t # "bad"
=============================================================================
