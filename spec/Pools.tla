------------------------------- MODULE Pools -------------------------------
(***************************************************************************)
(* Validation calls over recycled objects (C11, C12).                      *)
(*                                                                         *)
(* Layer A (contract).  A call is described by a descriptor d (carrier,    *)
(* type, tag, value, rule overrides, per-call functions).  Its result is   *)
(*      Expected(d) == Eval(d, OwnCfg(d))                                  *)
(* a clause sequence computed from the call's OWN arguments only, and what *)
(* was handed out (error text, tokens) never changes afterwards.           *)
(*                                                                         *)
(* Layer B (mechanism).  Three sync.Pools (VStruct, VVar, strings.Builder),*)
(* the objects' fields (tag, ruleMap, fns, groups, buf), the builder's     *)
(* backing array (String() aliases it, Reset detaches it), the type cache. *)
(* A call is Get -> ReInit -> GetBuf -> SetRule* -> SetFn* -> Lookup ->    *)
(* Walk -> Append* -> ReadError -> ResetBuf -> Clear -> Put -> Return.     *)
(* The walk evaluates  Eval(d, configuration found IN THE OBJECT), so      *)
(* B => A holds exactly when the object holds the call's own arguments.    *)
(***************************************************************************)
EXTENDS Integers, Sequences, FiniteSets, SequencesExt, TLC

NIL == "nil"

----------------------------------------------------------------------------
(* Rules.  One record shape for all: k kind, n name, a integer argument,   *)
(* text the rule as written in a tag, key/val/lab what ParseValidNameKV    *)
(* yields for it, msg the custom message.                                  *)
Lab(msg) == IF msg = "" THEN "" ELSE "explain: " \o msg
R_req      == [k |-> "req",   n |-> "required", a |-> 0, text |-> "required", key |-> "required", val |-> "", msg |-> "", lab |-> ""]
R_reqm(m)  == [k |-> "req",   n |-> "required", a |-> 0, text |-> "required|" \o m, key |-> "required", val |-> "", msg |-> m, lab |-> Lab(m)]
R_exist    == [k |-> "exist", n |-> "exist",    a |-> 0, text |-> "exist", key |-> "exist", val |-> "", msg |-> "", lab |-> ""]
R_fn(name) == [k |-> "fn",    n |-> name,       a |-> 0, text |-> name, key |-> name, val |-> "", msg |-> "", lab |-> ""]
R_ge(i)    == [k |-> "ge",    n |-> "ge",       a |-> i, text |-> "ge=" \o ToString(i), key |-> "ge", val |-> ToString(i), msg |-> "", lab |-> ""]
R_le(i)    == [k |-> "le",    n |-> "le",       a |-> i, text |-> "le=" \o ToString(i), key |-> "le", val |-> ToString(i), msg |-> "", lab |-> ""]
\* a quoted value containing the list separator: forces the slow path of the splitter
RePat      == "'^[a,b]+$'"
R_re       == [k |-> "re",    n |-> "re",       a |-> 0, text |-> "re=" \o RePat, key |-> "re", val |-> RePat, msg |-> "", lab |-> ""]
R_rem(m)   == [k |-> "re",    n |-> "re",       a |-> 0, text |-> "re=" \o RePat \o "|" \o m, key |-> "re", val |-> RePat, msg |-> m, lab |-> Lab(m)]
\* a second pattern for the same fields (given by a rule-map override where the tag carries RePat): matches "zz" only
RePat2     == "'^z+$'"
R_re2      == [k |-> "re",    n |-> "re",       a |-> 0, text |-> "re=" \o RePat2, key |-> "re", val |-> RePat2, msg |-> "", lab |-> ""]

\* datetime with the default separators and with a PARTIAL separator list (only the date separator given: the other two
\* keep their defaults, for this rule instance only)
R_dt       == [k |-> "dt",    n |-> "datetime", a |-> 0, text |-> "datetime", key |-> "datetime", val |-> "", msg |-> "", lab |-> ""]
R_dts      == [k |-> "dt",    n |-> "datetime", a |-> 0, text |-> "datetime='/'", key |-> "datetime", val |-> "'/'", msg |-> "", lab |-> ""]
DtDash  == "2024-02-29 23:59:58"
DtSlash == "2024/02/29 23:59:58"

\* a cross-field group rule (its clause is written after all per-field clauses of the call)
R_either   == [k |-> "either", n |-> "either",  a |-> 0, text |-> "either=1", key |-> "either", val |-> "1", msg |-> "", lab |-> ""]

\* an empty item of a rule list (two separators in a row): carries no rule, must be skipped without any side effect
R_empty    == [k |-> "empty", n |-> "", a |-> 0, text |-> "", key |-> "", val |-> "", msg |-> "", lab |-> ""]

JoinText(rs) == IF rs = <<>> THEN "" ELSE FoldLeft(LAMBDA acc, r : acc \o "," \o r.text, rs[1].text, Tail(rs))

\* functions registered globally before any call starts (SetCustomerValidFn)
GlobalFns == {"g_1", "g_2"}
\* The global table is process state.  A sequential run passes through epochs: 0 = as registered before the first call;
\* 1 = LateFn registered as well (a name earlier calls could only find missing); 2 = g_1 registered again, with another
\* function (it reports itself as g_1#2).  A call's result depends on the table as it is WHEN THE CALL RUNS.
LateFn == "g_3"
Epochs == 0..2
GlobAt(ep) == [n \in GlobalFns \cup (IF ep >= 1 THEN {LateFn} ELSE {}) |-> IF ep = 2 /\ n = "g_1" THEN "g_1#2" ELSE n]
TagNames == <<"valid", "a", "b">>

----------------------------------------------------------------------------
(* Types.  kind: int | str | ptr | slice (ptr/slice of struct type elem).  *)
(* name "" = anonymous (reflect.StructOf) type: the root contributes no    *)
(* object name to paths.  T1/P1 and T2/P2 have the same shape.             *)
F(name, kind, elem, v, a, b) == [name |-> name, kind |-> kind, elem |-> elem, tags |-> [valid |-> v, a |-> a, b |-> b]]
Types == [
  T1 |-> [name |-> "PoolsT1", fields |-> <<
            F("A", "int", "", <<R_req, R_ge(2)>>, <<R_fn("p_t1"), R_le(5)>>, <<>>),
            F("B", "int", "", <<R_fn("p_t2")>>, <<R_req>>, <<R_fn("p_t3")>>),
            F("S", "str", "", <<R_re, R_fn("p_t4")>>, <<>>, <<R_reqm("need S please")>>) >>],
  T2 |-> [name |-> "PoolsT2", fields |-> <<
            F("X", "int", "", <<R_ge(1), R_fn("p_t1")>>, <<R_fn("g_1")>>, <<R_req>>),
            F("N", "ptr", "T3", <<R_exist>>, <<R_req>>, <<>>),
            F("L", "slice", "T3", <<R_exist>>, <<>>, <<R_exist>>) >>],
  T3 |-> [name |-> "PoolsT3", fields |-> <<
            F("P", "int", "", <<R_fn("p_t2"), R_le(5)>>, <<R_ge(2)>>, <<R_req>>),
            F("Q", "str", "", <<R_req>>, <<R_fn("p_t5")>>, <<R_fn("g_2")>>) >>],
  P1 |-> [name |-> "", fields |-> <<
            F("A", "int", "", <<R_fn("p_t3"), R_le(5)>>, <<R_req>>, <<R_ge(2)>>),
            F("B", "int", "", <<R_req>>, <<R_fn("p_t2"), R_ge(4)>>, <<>>),
            F("S", "str", "", <<R_reqm("S is needed")>>, <<R_rem("only a or b")>>, <<R_fn("p_t1")>>) >>],
  P2 |-> [name |-> "", fields |-> <<
            F("X", "int", "", <<R_req>>, <<R_le(2)>>, <<R_fn("p_t6")>>),
            F("N", "ptr", "T3", <<R_req>>, <<R_exist>>, <<>>),
            F("L", "slice", "T3", <<>>, <<R_exist>>, <<R_req>>) >>],
  \* an either group (E1, E2) next to a required field: a call whose group is violated writes its clause through a
  \* second (scratch) builder taken from the same pool as the error buffers
  T4 |-> [name |-> "PoolsT4", fields |-> <<
            F("E1", "int", "", <<R_either>>, <<>>, <<>>),
            F("E2", "int", "", <<R_either>>, <<>>, <<>>),
            F("A", "int", "", <<R_req>>, <<>>, <<>>) >>] ]
TypeIds == <<"T1", "T2", "T3", "P1", "P2", "T4">>
RootTypes == <<"T1", "T2", "P1", "P2">>
ShapeA(T) == T \in {"T1", "P1"}

----------------------------------------------------------------------------
(* Values: one record shape; fs = field values (struct) / pointee (ptr) /  *)
(* elements (slice).  re = the string matches RePat.                       *)
I(n)        == [k |-> "int", n |-> n, s |-> "", re |-> FALSE, fs |-> <<>>]
S(s, n, re) == [k |-> "str", n |-> n, s |-> s, re |-> re, fs |-> <<>>]        \* n = length in runes (the measure of ge/le)
St(T, fs)   == [k |-> "struct", n |-> 0, s |-> T, re |-> FALSE, fs |-> fs]
Ptr(T, fs)  == [k |-> "ptr", n |-> 0, s |-> T, re |-> FALSE, fs |-> <<St(T, fs)>>]
NilPtr(T)   == [k |-> "nilptr", n |-> 0, s |-> T, re |-> FALSE, fs |-> <<>>]
Sl(T, es)   == [k |-> "slice", n |-> 0, s |-> T, re |-> FALSE, fs |-> es]
\* arguments Var cannot validate: a struct value, a nil interface (the call ends early with one error)
BadVar == [k |-> "badvar", n |-> 0, s |-> "", re |-> FALSE, fs |-> <<>>]
NilVar == [k |-> "nilvar", n |-> 0, s |-> "", re |-> FALSE, fs |-> <<>>]
\* a non-zero array of a type NO EARLIER CALL has used (the harness gives every such call a new array length): whatever
\* the library remembers per type is written for the first time, possibly by several calls at once
ArrVar == [k |-> "arrvar", n |-> 0, s |-> "", re |-> FALSE, fs |-> <<>>]
Sdash  == S(DtDash, 19, FALSE)
Sslash == S(DtSlash, 19, FALSE)
Sab == S("ab", 2, TRUE)
Szz == S("zz", 2, FALSE)
Se  == S("", 0, FALSE)

Zero(v) == CASE v.k = "int" -> v.n = 0
             [] v.k = "str" -> v.s = ""
             [] v.k = "nilptr" -> TRUE
             [] v.k = "slice" -> Len(v.fs) = 0
             [] OTHER -> FALSE
EchoOf(v) == IF v.k = "int" THEN ToString(v.n) ELSE v.s

ValsA(T) == << St(T, <<I(0), I(3), Szz>>), St(T, <<I(7), I(0), Sab>>), St(T, <<I(3), I(3), Se>>) >>
ValsB(T) == << St(T, <<I(3), Ptr("T3", <<I(7), Se>>), Sl("T3", <<St("T3", <<I(3), Sab>>)>>)>>),
               St(T, <<I(0), NilPtr("T3"), Sl("T3", <<>>)>>),
               St(T, <<I(1), Ptr("T3", <<I(2), Sab>>), Sl("T3", <<St("T3", <<I(0), Se>>), St("T3", <<I(7), Szz>>)>>)>>) >>
ValsC(T) == << St(T, <<I(0), I(0), I(0)>>), St(T, <<I(0), I(5), I(0)>>), St(T, <<I(3), I(0), I(2)>>) >>
ValsOf(T) == IF T = "T4" THEN ValsC(T) ELSE IF ShapeA(T) THEN ValsA(T) ELSE ValsB(T)

----------------------------------------------------------------------------
(* Rule maps are sequences of [f, rs]; typed rule sets sequences of [T, rm]*)
RME(f, rs) == [f |-> f, rs |-> rs]
TE(T, rm)  == [T |-> T, rm |-> rm]
RMGet(rm, name) == LET hits == SelectSeq(rm, LAMBDA e : e.f = name) IN IF hits = <<>> THEN <<>> ELSE hits[1].rs
TypedGet(typed, T) == LET hits == SelectSeq(typed, LAMBDA e : e.T = T) IN IF hits = <<>> THEN <<>> ELSE hits[1].rm

UnscopedOf(T) == IF ShapeA(T) THEN <<RME("A", <<R_fn("p_t6")>>), RME("S", <<R_re2, R_req>>)>>
                 ELSE <<RME("X", <<R_le(2)>>), RME("L", <<R_req>>)>>
TypedOf(T) == IF ShapeA(T) THEN <<TE(T, <<RME("B", <<R_ge(4), R_fn("p_t5")>>)>>)>>
              ELSE <<TE("T3", <<RME("P", <<R_fn("p_t1")>>)>>)>>
Typed2Of(T) == <<TE(T, <<RME("A", <<R_fn("p_t6"), R_ge(4)>>), RME("S", <<R_req>>)>>)>>
FnSets == << <<>>, <<"p_t1", "p_t2", "p_t4">>, <<"p_t1", "p_t2", "p_t3", "p_t4", "p_t5", "p_t6", "g_1">> >>

----------------------------------------------------------------------------
(* Descriptors (one record shape).                                         *)
D(key, car, T, tag, val, typed, unscoped, fns, rules, entries) ==
  [key |-> key, car |-> car, T |-> T, tag |-> tag, val |-> val, typed |-> typed, unscoped |-> unscoped,
   fns |-> fns, rules |-> rules, entries |-> entries]
NoVal == I(0)
DStruct(key, T, tag, val, typed, unscoped, fns) == D(key, "struct", T, tag, val, typed, unscoped, fns, <<>>, <<>>)
DVar(key, val, rules, fns)      == D(key, "var", "", "valid", val, <<>>, <<>>, fns, rules, <<>>)
DMap(key, entries, rm, fns)     == D(key, "map", "", "valid", NoVal, <<>>, rm, fns, <<>>, entries)
DUrl(key, entries, rm, fns)     == D(key, "url", "", "valid", NoVal, <<>>, rm, fns, <<>>, entries)
DSplit(key, rules)              == D(key, "split", "", "valid", NoVal, <<>>, <<>>, <<>>, rules, <<>>)
DParse(key, r)                  == D(key, "parse", "", "valid", NoVal, <<>>, <<>>, <<>>, <<r>>, <<>>)
E(k, v) == [k |-> k, v |-> v]

(* the 12 heterogeneous descriptors of the C12 histories *)
Menu12 == <<
  DStruct("m01", "T1", "valid", ValsA("T1")[1], <<>>, <<>>, <<"p_t2">>),
  DStruct("m02", "T1", "a",     ValsA("T1")[2], <<>>, <<>>, <<"p_t1">>),
  DStruct("m03", "T1", "valid", ValsA("T1")[1], <<>>, UnscopedOf("T1"), <<>>),    \* S = "zz": under the override's pattern, not the tag's
  DStruct("m04", "T1", "valid", ValsA("T1")[3], <<TE("T1", <<RME("B", <<R_ge(2)>>)>>)>>, <<>>, <<"p_t4">>),
  DStruct("m05", "T2", "valid", ValsB("T2")[1], TypedOf("T2"), <<>>, <<"p_t1">>),
  DStruct("m06", "T2", "a",     ValsB("T2")[2], <<>>, <<>>, <<>>),
  DVar("m07", I(7), <<R_ge(2), R_empty, R_le(5), R_fn("p_t1")>>, <<>>),
  DVar("m08", Sab, <<R_req, R_re, R_fn("p_t1")>>, <<"p_t1">>),
  DMap("m09", <<E("k1", I(3)), E("k2", I(0))>>, <<RME("k1", <<R_ge(4), R_fn("p_t2")>>), RME("k2", <<R_req>>)>>, <<"p_t2">>),
  DUrl("m10", <<E("u1", Szz), E("u2", Se), E("u3", Sab)>>,
       <<RME("u1", <<R_re, R_fn("p_t3")>>), RME("u2", <<R_reqm("u2 must be given")>>), RME("u3", <<R_fn("g_2")>>)>>, <<>>),
  DSplit("m11", <<R_req, R_re, R_fn("p_t4")>>),
  DParse("m12", R_rem("only a or b")),
  DStruct("m13", "T4", "valid", ValsC("T4")[1], <<>>, <<>>, <<>>),      \* either group violated and A missing: two clauses
  DStruct("m14", "T4", "valid", ValsC("T4")[2], <<>>, <<>>, <<>>),      \* group satisfied, A missing: one clause
  \* a nil root pointer handed over together with rule sets and functions: the call ends early with one error
  DStruct("m15", "T1", "valid", NilPtr("T1"), <<>>, UnscopedOf("T1"), <<"p_t6">>),
  \* Var on something it cannot validate, with rules and functions set: ends early, and must leave nothing behind
  DVar("m16", BadVar, <<R_ge(8), R_fn("p_t5")>>, <<"p_t5">>),
  DVar("m17", NilVar, <<R_reqm("never asked")>>, <<>>),
  \* names looked up in the global table: missing in epoch 0, found from epoch 1 on (g_3); another function from epoch 2 on (g_1)
  DVar("m18", I(7), <<R_fn("g_3"), R_ge(8)>>, <<>>),
  DStruct("m19", "T1", "valid", ValsA("T1")[2], <<>>, <<RME("B", <<R_fn("g_3")>>), RME("A", <<R_fn("g_1")>>)>>, <<>>),
  DVar("m20", Sab, <<R_fn("g_1")>>, <<>>),
  \* datetime: a partial separator list, then the default list - on the value the OTHER list accepts, and on its own
  DVar("m21", Sslash, <<R_dts>>, <<>>),
  DVar("m22", Sdash, <<R_dt>>, <<>>),
  DVar("m23", Sslash, <<R_dt>>, <<>>),
  \* Url: a pair that cannot be decoded after a good one (some error; which clauses accompany it is not fixed), and a query
  \* that lacks a key its rule map requires
  DUrl("m24", <<E("u1", Sab), E("u2", S("%zz", 3, FALSE))>>, <<RME("u1", <<R_req>>), RME("u2", <<R_req>>)>>, <<>>),
  DUrl("m25", <<E("u2", Sab)>>, <<RME("u1", <<R_reqm("u1 must be given")>>), RME("u2", <<R_req>>)>>, <<>>),
  DVar("m26", ArrVar, <<R_req>>, <<>>),                   \* required on a non-zero array of a brand-new type: satisfied
  \* cross-key groups in Url and Map calls (no per-call function): all members empty - one group clause
  DUrl("m27", <<E("u1", Se), E("u2", Se), E("u3", Sab)>>, <<RME("u1", <<R_either>>), RME("u2", <<R_either>>), RME("u3", <<R_req>>)>>, <<>>),
  DMap("m28", <<E("k1", I(0)), E("k2", I(0))>>, <<RME("k1", <<R_either>>), RME("k2", <<R_either>>)>>, <<>>),
  DUrl("m29", <<E("u1", Se), E("u2", Sab)>>, <<RME("u1", <<R_either>>), RME("u2", <<R_either>>)>>, <<>>),   \* one member set: satisfied
  \* a per-call function that panics in the middle of the walk (after an either member was registered and a clause was
  \* written), the caller recovers: the call itself has no result to speak of, every LATER call is as if it had not happened
  DStruct("m30", "T4", "valid", ValsC("T4")[2], <<>>, <<RME("E1", <<R_either>>), RME("E2", <<R_either, R_fn("p_panic")>>)>>, <<"p_panic", "p_t4">>),
  DStruct("m31", "T1", "valid", ValsA("T1")[2], <<>>, <<RME("A", <<R_fn("p_t4"), R_fn("p_panic")>>)>>, <<"p_panic", "p_t4">>) >>
\* descriptors on which the contract fixes only THAT the call fails
FreeKeys == {"m24", "m30", "m31"}

(* the product family used by the concurrent streams *)
NT == Len(RootTypes)
StructCount == NT * 3 * 3 * 4 * 3
StructAt(i) ==
  LET j == i - 1
      fi == (j % 3) + 1
      ri == ((j \div 3) % 4) + 1
      vi == ((j \div 12) % 3) + 1
      gi == ((j \div 36) % 3) + 1
      ti == (j \div 108) + 1
      T == RootTypes[ti]
  IN DStruct("s/" \o T \o "/" \o TagNames[gi] \o "/v" \o ToString(vi) \o "/r" \o ToString(ri) \o "/f" \o ToString(fi),
             T, TagNames[gi], ValsOf(T)[vi],
             \* r1 none, r2 unscoped, r3 typed, r4 both - but never a typed set for the ROOT type together with an
             \* unscoped set (which of the two wins is C16's subject): for the flat shape r4 is a second typed set
             IF ri = 3 THEN TypedOf(T) ELSE IF ri = 4 THEN (IF ShapeA(T) THEN Typed2Of(T) ELSE TypedOf(T)) ELSE <<>>,
             IF ri = 2 \/ (ri = 4 /\ ~ShapeA(T)) THEN UnscopedOf(T) ELSE <<>>,
             FnSets[fi])
VarRules == << <<R_ge(2), R_le(5), R_fn("p_t1")>>, <<R_req, R_re, R_fn("g_1")>>, <<R_reqm("value wanted"), R_fn("p_t2"), R_fn("p_t1")>> >>
\* (value, rule list) pairs; `re` only meets strings (on a number it is a rule-writing error, outside this family)
VarPairs == << <<I(7), 1>>, <<I(1), 1>>, <<I(7), 3>>, <<I(0), 3>>, <<Szz, 1>>, <<Szz, 2>>, <<Sab, 2>>, <<Se, 2>>, <<Szz, 3>>, <<Se, 3>> >>
VarAt(i) == LET j == i - 1
                pr == VarPairs[(j % 10) + 1] IN
  DVar("v/" \o ToString(i), pr[1], VarRules[pr[2]], FnSets[((j \div 10) % 3) + 1])
VarCount == 30
MapRMs == << <<RME("k1", <<R_ge(4), R_fn("p_t2")>>), RME("k2", <<R_req>>)>>,
             <<RME("k1", <<R_fn("g_1")>>), RME("k2", <<R_fn("p_t1"), R_le(2)>>)>> >>
MapEnts == << <<E("k1", I(3)), E("k2", I(0))>>, <<E("k1", I(7)), E("k2", I(5)), E("k3", I(1))>> >>
MapAt(i) == LET j == i - 1 IN
  DMap("mp/" \o ToString(i), MapEnts[(j % 2) + 1], MapRMs[((j \div 2) % 2) + 1], FnSets[((j \div 4) % 3) + 1])
MapCount == 12
UrlRMs == << <<RME("u1", <<R_re, R_fn("p_t3")>>), RME("u2", <<R_reqm("u2 must be given")>>), RME("u3", <<R_fn("g_2")>>)>>,
             <<RME("u1", <<R_req, R_fn("p_t1")>>), RME("u3", <<R_rem("only a or b")>>)>> >>
UrlEnts == << <<E("u1", Szz), E("u2", Se), E("u3", Sab)>>, <<E("u1", Sab), E("u2", Szz), E("u3", Szz)>> >>
UrlAt(i) == LET j == i - 1 IN
  DUrl("u/" \o ToString(i), UrlEnts[(j % 2) + 1], UrlRMs[((j \div 2) % 2) + 1], FnSets[((j \div 4) % 3) + 1])
UrlCount == 12
Splits == << DSplit("sp/1", <<R_fn("p_t1"), R_rem("only a or b")>>), DSplit("sp/2", <<R_req, R_ge(2)>>),
             DSplit("sp/3", <<R_re>>), DSplit("sp/4", <<R_re, R_rem("x y z"), R_le(5)>>),
             DParse("pa/1", R_ge(2)), DParse("pa/2", R_reqm("need S please")), DParse("pa/3", R_fn("p_t1")), DParse("pa/4", R_re) >>

Universe == Menu12 \o [i \in 1..StructCount |-> StructAt(i)] \o [i \in 1..VarCount |-> VarAt(i)]
            \o [i \in 1..MapCount |-> MapAt(i)] \o [i \in 1..UrlCount |-> UrlAt(i)] \o Splits
NDesc == Len(Universe)

----------------------------------------------------------------------------
(* Layer A: the evaluation of a call under a configuration                 *)
(*   cfg = [tag, typed, unscoped, fns]                                     *)
(* Clause = [p path, m marker class, x detail, v echoed input]             *)
Cl(p, m, x, v) == [p |-> p, m |-> m, x |-> x, v |-> v]
\* path conventions of GetJoinValidErrStr / GetJoinFieldErr (DESIGN Appendix A)
VPath(obj, f)  == IF obj # "" /\ f # "" THEN obj \o "." \o f ELSE f
NEPath(obj, f) == IF obj # "" /\ f # "" THEN obj \o "." \o f ELSE ""

OwnCfgAt(d, ep) == [tag |-> d.tag, typed |-> d.typed,
                    unscoped |-> IF d.car = "var" THEN <<RME("validVar", d.rules)>> ELSE d.unscoped,
                    fns |-> d.fns, glob |-> GlobAt(ep)]
OwnCfg(d) == OwnCfgAt(d, 0)

EffRules(cfg, T, f, depth) ==
  LET trm  == TypedGet(cfg.typed, T)
      root == IF depth = 0 /\ trm = <<>> THEN cfg.unscoped ELSE trm
      ov   == RMGet(root, f.name)
  IN IF ov # <<>> THEN ov ELSE f.tags[cfg.tag]

RECURSIVE EvObj(_, _, _, _, _)
Desc(cfg, obj, fname, depth, fv) ==
  CASE fv.k = "ptr"   -> EvObj(cfg, fv.s, obj \o "." \o fname, depth + 1, fv.fs[1])
    [] fv.k = "slice" -> FlattenSeq([i \in 1..Len(fv.fs) |->
                            EvObj(cfg, fv.s, obj \o "." \o fname \o "[" \o ToString(i - 1) \o "]", depth + 1, fv.fs[i])])
    [] OTHER -> <<>>
EvRule(cfg, obj, fname, depth, fv, r) ==
  CASE r.k = "fn" ->
         IF r.n \in Range(cfg.fns)
         THEN IF Zero(fv) THEN <<>> ELSE <<Cl(VPath(obj, fname), "tok", r.n, "own")>>
         ELSE IF r.n \in DOMAIN cfg.glob
         THEN IF Zero(fv) THEN <<>> ELSE <<Cl(VPath(obj, fname), "glob", cfg.glob[r.n], "")>>
         ELSE <<Cl(NEPath(obj, fname), "notexist", r.n, "")>>
    [] r.k = "req" ->
         IF Zero(fv) THEN <<Cl(VPath(obj, fname), IF r.msg = "" THEN "required" ELSE "custom", r.msg, "")>>
         ELSE Desc(cfg, obj, fname, depth, fv)
    [] r.k = "exist" -> IF Zero(fv) THEN <<>> ELSE Desc(cfg, obj, fname, depth, fv)
    [] r.k = "empty" -> <<>>
    [] r.k = "either" -> <<>>                       \* member registered; judged at the end of the call (EvGroups)
    [] r.k = "ge" -> IF Zero(fv) \/ fv.n >= r.a THEN <<>> ELSE <<Cl(VPath(obj, fname), "lt", ToString(r.a), EchoOf(fv))>>
    [] r.k = "le" -> IF Zero(fv) \/ fv.n <= r.a THEN <<>> ELSE <<Cl(VPath(obj, fname), "gt", ToString(r.a), EchoOf(fv))>>
    [] r.k = "dt" -> IF Zero(fv) \/ fv.s = (IF r.val = "" THEN DtDash ELSE DtSlash) THEN <<>>
                     ELSE <<Cl(VPath(obj, fname), "dt", "", fv.s)>>
    [] r.k = "re" -> IF Zero(fv) \/ (IF r.val = RePat2 THEN fv.s = "zz" ELSE fv.re) THEN <<>>
                     ELSE <<Cl(VPath(obj, fname), IF r.msg = "" THEN "re" ELSE "custom", r.msg, fv.s)>>
EvRules(cfg, obj, fname, depth, fv, rs) ==
  FlattenSeq([i \in 1..Len(rs) |-> EvRule(cfg, obj, fname, depth, fv, rs[i])])
EvObj(cfg, T, obj, depth, v) ==
  LET fsT == Types[T].fields IN
  FlattenSeq([i \in 1..Len(fsT) |-> EvRules(cfg, obj, fsT[i].name, depth, v.fs[i], EffRules(cfg, T, fsT[i], depth))])

\* the one group of the menu: T4.E1 / T4.E2 under tag "valid"; violated iff both are empty; its clause comes last and
\* has no `input` part - the harness files it under class "other" with the text after the first quoted path
EvGroups(cfg, T, v) ==
  IF T = "T4" /\ cfg.tag = "valid" /\ TypedGet(cfg.typed, T) = <<>> /\ cfg.unscoped = <<>> /\ Zero(v.fs[1]) /\ Zero(v.fs[2])
  THEN <<Cl("PoolsT4.E1", "other", ", \"PoolsT4.E2\" explain: they shouldn't all be empty", "")>>
  ELSE <<>>

\* the group of a Map / Url call: the keys whose rule list holds either=1; violated iff every member is empty; one clause
\* naming the members - in query order for a Url, in EITHER order for the two members of a Map (Go map iteration)
GroupText == " explain: they shouldn't all be empty"
KVMembers(d, cfg) == SelectSeq(d.entries, LAMBDA e : \E j \in 1..Len(RMGet(cfg.unscoped, e.k)) : RMGet(cfg.unscoped, e.k)[j].k = "either")
KVGroupClause(names) == Cl(names[1], "other", ", \"" \o names[2] \o "\"" \o GroupText, "")
EvGroupsKV(d, cfg, nameOf(_), swap) ==
  LET ms == KVMembers(d, cfg) IN
  IF Len(ms) = 2 /\ \A i \in 1..2 : Zero(ms[i].v)
  THEN <<KVGroupClause(IF swap THEN <<nameOf(ms[2].k), nameOf(ms[1].k)>> ELSE <<nameOf(ms[1].k), nameOf(ms[2].k)>>)>>
  ELSE <<>>
MapField(k) == "map[" \o k \o "]"
Ident(k) == k
\* keys the rule map requires and the query lacks (fix a4b66b2), after the clauses of the pairs that are there; the menu
\* has at most one such key per call, so their mutual order (Go map iteration) does not arise
MissingReq(d, cfg) ==
  LET have == {d.entries[i].k : i \in 1..Len(d.entries)}
      miss == SelectSeq(cfg.unscoped, LAMBDA e : e.f \notin have /\ \E j \in 1..Len(e.rs) : e.rs[j].k = "req")
  IN FlattenSeq([i \in 1..Len(miss) |->
       LET r == (SelectSeq(miss[i].rs, LAMBDA x : x.k = "req"))[1]
       IN <<Cl(miss[i].f, IF r.msg = "" THEN "required" ELSE "custom", r.msg, "")>>])
Eval(d, cfg) ==
  CASE d.car = "struct" /\ d.val.k = "nilptr" ->        \* a nil root pointer: one error, nothing walked (fix 00f6dc3)
         <<Cl("", "other", "src \"*main." \o Types[d.T].name \o "\" is nil", "")>>
    [] d.car = "struct" -> EvObj(cfg, d.T, Types[d.T].name, 0, d.val) \o EvGroups(cfg, d.T, d.val)
    [] d.car = "var" /\ d.val.k = "badvar" -> <<Cl("", "other", "src no support", "")>>
    [] d.car = "var" /\ d.val.k = "nilvar" -> <<Cl("", "other", "src is nil", "")>>
    [] d.car = "var"    -> EvRules(cfg, "", "", 0, d.val, RMGet(cfg.unscoped, "validVar"))
    [] d.car = "map"    -> FlattenSeq([i \in 1..Len(d.entries) |->
                              EvRules(cfg, "", MapField(d.entries[i].k), 0, d.entries[i].v, RMGet(cfg.unscoped, d.entries[i].k))])
                           \o EvGroupsKV(d, cfg, MapField, FALSE)
    [] d.car = "url"    -> FlattenSeq([i \in 1..Len(d.entries) |->
                              EvRules(cfg, "", d.entries[i].k, 0, d.entries[i].v, RMGet(cfg.unscoped, d.entries[i].k))])
                           \o MissingReq(d, cfg) \o EvGroupsKV(d, cfg, Ident, FALSE)
    [] d.car = "split"  -> [i \in 1..Len(d.rules) |-> Cl("", "token", d.rules[i].text, "")]
    [] d.car = "parse"  -> <<Cl(d.rules[1].key, "kv", d.rules[1].val, d.rules[1].lab)>>

Expected(d) == Eval(d, OwnCfg(d))
ExpTable == [i \in 1..NDesc |-> Expected(Universe[i])]
ExpectedAt(d, ep) == Eval(d, OwnCfgAt(d, ep))
ExpTableAt == [ep \in Epochs |-> IF ep = 0 THEN ExpTable ELSE [i \in 1..NDesc |-> ExpectedAt(Universe[i], ep)]]
IsFree(di) == Universe[di].key \in FreeKeys

\* Go map iteration order is unspecified: a map call's clauses are compared as a bag
Count(s, x) == Cardinality({i \in 1..Len(s) : s[i] = x})
BagEq(s, t) == /\ Len(s) = Len(t)
               /\ \A i \in 1..Len(s) : Count(s, s[i]) = Count(t, s[i])
\* a Map call with a violated group: the members are named in the order the map was walked
MapAlt(di, ep) == LET d == Universe[di] IN
                  IF d.car = "map" /\ Len(KVMembers(d, OwnCfgAt(d, ep))) = 2
                  THEN FlattenSeq([i \in 1..Len(d.entries) |->
                          EvRules(OwnCfgAt(d, ep), "", MapField(d.entries[i].k), 0, d.entries[i].v, RMGet(OwnCfgAt(d, ep).unscoped, d.entries[i].k))])
                       \o EvGroupsKV(d, OwnCfgAt(d, ep), MapField, TRUE)
                  ELSE ExpTableAt[ep][di]
MatchesAt(di, clauses, ep) == IF IsFree(di) THEN clauses # <<>>
                              ELSE IF Universe[di].car = "map" /\ BagEq(clauses, MapAlt(di, ep)) THEN TRUE
                              ELSE IF Universe[di].car = "map" THEN BagEq(clauses, ExpTableAt[ep][di]) ELSE clauses = ExpTableAt[ep][di]
Matches(di, clauses) == MatchesAt(di, clauses, 0)

\* Contract steps of a history of calls (used by Trace_Pools): a return must be the call's own expectation and must
\* leave the inputs alone; a later re-read of what was handed out must show the same thing.
RetOK(di, clauses, inputSame, rmSame) == Matches(di, clauses) /\ inputSame /\ rmSame
RetOKAt(di, clauses, inputSame, rmSame, ep) == MatchesAt(di, clauses, ep) /\ inputSame /\ rmSame
RecheckOK(handed, clauses, same) == same /\ clauses = handed

\* default wording by which the harness recognises a marker class (single source; DESIGN Appendix A)
Markers == << [m |-> "required", t |-> "it is required"], [m |-> "lt", t |-> "it is less than "],
              [m |-> "gt", t |-> "it is more than "], [m |-> "re", t |-> "regex match is failed"],
              [m |-> "dt", t |-> "it is not datetime"], [m |-> "notexist", t |-> "is not exist"] >>

----------------------------------------------------------------------------
(* Layer B: the mechanism, for a fixed small set of concurrent calls       *)
CONSTANTS Calls,              \* call ids (a set of naturals); the greatest is the "later" call
          MCDescs,            \* descriptor ids the calls may use
          ClearRuleMapOnFree, \* VStruct.free sets ruleMap = nil                  (validstruct.go:51)
          FreshVC,            \* NewVStruct/NewVVar install a new validCommon      (validstruct.go:44)
          ReInitBuf,          \* NewVStruct/NewVVar take a builder from newStrBuf  (validstruct.go:43)
          ResetDetaches,      \* strings.Builder.Reset drops the backing array     (init.go:229)
          KeyWithTag,         \* the type cache key contains the tag               (C08)
          WriteThrough,       \* a rule override is written into the cached entry  (validstruct.go:164 copies)
          EarlyDistinct,      \* quick configurations: the concurrent calls use different descriptors
          MaxObj              \* = |Calls| + 1: ids of objects, builders and backing arrays

VARIABLES pc, desc, obj, objs, blds, arrays, pool, cache, info, step, todo, handedOut, result
mvars == <<pc, desc, obj, objs, blds, arrays, pool, cache, info, step, todo, handedOut, result>>

Later == CHOOSE c \in Calls : \A x \in Calls : x <= c
Early == Calls \ {Later}
Ghost == 0                                   \* the call that left the initial dirty object behind
DOf(c) == Universe[desc[c]]
Kind(c) == DOf(c).car                        \* struct and var are pooled validators; url/map only use the builder pool
Pooled(c) == Kind(c) \in {"struct", "var"}

\* what SetRule / SetRules / SetValidFn the call issues, in order
RuleOps(d) == IF d.car = "struct"
              THEN (IF d.unscoped = <<>> THEN <<>> ELSE <<[key |-> "outer", rm |-> d.unscoped]>>)
                   \o [i \in 1..Len(d.typed) |-> [key |-> d.typed[i].T, rm |-> d.typed[i].rm]]
              ELSE IF d.car = "var" THEN <<[key |-> "outer", rm |-> <<RME("validVar", d.rules)>>]>>
              ELSE <<[key |-> "outer", rm |-> d.unscoped]>>

\* every call allocates at most one validator, one builder and one backing array: name them after the call
\* (id 1 is what the ghost call left behind), so that the state does not depend on the order of allocation
FreshId(c) == c + 1
NoInfo == [tag |-> "", ovrm |-> <<>>, w |-> 0]
NoObj == [kind |-> "none", tag |-> "", ruleMap |-> {}, fns |-> {}, groups |-> {}, buf |-> 0]
NoBld == [arr |-> 0, len |-> 0]
ObjIds == 1..MaxObj
GhostRule == [key |-> "outer", rm |-> UnscopedOf("T1"), w |-> Ghost]

MInit ==
  /\ pc = [c \in Calls |-> "idle"]
  /\ desc \in [Calls -> MCDescs]
  \* the early calls are interchangeable: only non-decreasing assignments (EarlyDistinct: strictly increasing ones)
  /\ \A x, y \in Early : x < y => (IF EarlyDistinct THEN desc[x] < desc[y] ELSE desc[x] <= desc[y])
  /\ obj = [c \in Calls |-> 0]
  /\ \E dirty \in BOOLEAN :
       \* object 1 / builder 1 / array 1 are what a ghost call left in the pools, per the mechanism flags
       /\ objs = [i \in ObjIds |-> IF dirty /\ i = 1
                                  THEN [kind |-> "struct", tag |-> "a",
                                        ruleMap |-> IF ClearRuleMapOnFree THEN {} ELSE {GhostRule},
                                        fns |-> IF FreshVC THEN {} ELSE {[n |-> "p_t6", w |-> Ghost]},
                                        groups |-> {}, buf |-> 1]
                                  ELSE NoObj]
       /\ blds = [i \in ObjIds |-> IF dirty /\ i = 1 /\ ~ResetDetaches THEN [arr |-> 1, len |-> 0] ELSE NoBld]
       /\ arrays = [i \in ObjIds |-> IF dirty /\ i = 1 /\ ~ResetDetaches
                                    THEN <<[cl |-> Cl("ghost", "tok", "p_t6", "own"), w |-> Ghost]>> ELSE <<>>]
       /\ pool = [vs |-> IF dirty THEN {1} ELSE {}, vv |-> {}, sb |-> IF dirty THEN {1} ELSE {}]
  /\ cache = {}
  /\ info = [c \in Calls |-> NoInfo]
  /\ step = [c \in Calls |-> 0]
  /\ todo = [c \in Calls |-> <<>>]
  /\ handedOut = [c \in Calls |-> NoBld]
  /\ result = [c \in Calls |-> <<>>]

\* a fixed quiet state of the mechanism variables, for the modules that only use layer A
MQuiet ==
  /\ pc = [c \in Calls |-> "idle"] /\ desc = [c \in Calls |-> 1] /\ obj = [c \in Calls |-> 0]
  /\ objs = [i \in ObjIds |-> NoObj] /\ blds = [i \in ObjIds |-> NoBld] /\ arrays = [i \in ObjIds |-> <<>>]
  /\ pool = [vs |-> {}, vv |-> {}, sb |-> {}] /\ cache = {} /\ info = [c \in Calls |-> NoInfo]
  /\ step = [c \in Calls |-> 0] /\ todo = [c \in Calls |-> <<>>]
  /\ handedOut = [c \in Calls |-> NoBld] /\ result = [c \in Calls |-> <<>>]

Goto(c, l) == pc' = [pc EXCEPT ![c] = l]
PoolName(c) == IF Kind(c) = "struct" THEN "vs" ELSE "vv"

\* the later call starts only after the early ones have returned
Start(c) == /\ pc[c] = "idle"
            /\ (c = Later => \A x \in Early : pc[x] = "done")
            /\ Goto(c, "get")
            /\ UNCHANGED <<desc, obj, objs, blds, arrays, pool, cache, info, step, todo, handedOut, result>>

\* sync.Pool.Get: any pooled object of the kind, or a new one.  VMap/VUrl objects are never pooled.
Get(c) ==
  /\ pc[c] = "get"
  /\ \/ /\ Pooled(c)
        /\ \E o \in pool[PoolName(c)] :
             /\ obj' = [obj EXCEPT ![c] = o]
             /\ pool' = [pool EXCEPT ![PoolName(c)] = @ \ {o}]
             /\ UNCHANGED objs
     \/ LET o == FreshId(c) IN
        /\ obj' = [obj EXCEPT ![c] = o]
        /\ objs' = [objs EXCEPT ![o] = [NoObj EXCEPT !.kind = Kind(c)]]
        /\ UNCHANGED pool
  /\ Goto(c, "reinit")
  /\ UNCHANGED <<desc, blds, arrays, cache, info, step, todo, handedOut, result>>

\* exactly the fields NewVStruct / NewVVar reset (the builder is taken in the next step)
ReInit(c) ==
  /\ pc[c] = "reinit"
  /\ LET o == obj[c]
         old == objs[o]
     IN objs' = [objs EXCEPT ![o] =
          [kind |-> old.kind,
           tag |-> IF Kind(c) = "struct" THEN DOf(c).tag ELSE old.tag,              \* obj.targetTag = tagName
           ruleMap |-> IF Kind(c) = "struct" THEN old.ruleMap ELSE {},              \* NOT reset by NewVStruct; NewVVar: NewRule()
           fns |-> IF FreshVC THEN {} ELSE old.fns,                                 \* obj.vc = new(validCommon)
           groups |-> IF FreshVC THEN {} ELSE old.groups,
           buf |-> old.buf]]
  /\ Goto(c, "getbuf")
  /\ UNCHANGED <<desc, obj, blds, arrays, pool, cache, info, step, todo, handedOut, result>>

\* obj.errBuf = newStrBuf(): syncBufPool.Get
GetBuf(c) ==
  /\ pc[c] = "getbuf"
  /\ IF ~ReInitBuf /\ objs[obj[c]].buf # 0
     THEN UNCHANGED <<objs, pool>>
     ELSE \/ \E b \in pool.sb :
               /\ objs' = [objs EXCEPT ![obj[c]].buf = b]
               /\ pool' = [pool EXCEPT !.sb = @ \ {b}]
          \/ /\ objs' = [objs EXCEPT ![obj[c]].buf = FreshId(c)]
             /\ UNCHANGED pool
  /\ Goto(c, "setrule")
  /\ UNCHANGED <<desc, obj, blds, arrays, cache, info, step, todo, handedOut, result>>

\* v.ruleMap[ty] = rule for every SetRule of the call, in order (one entry per key; an entry left by somebody else
\* under the same key is overwritten, entries under other keys stay)
RECURSIVE ApplyRules(_, _, _)
ApplyRules(rmap, ops, c) ==
  IF ops = <<>> THEN rmap
  ELSE ApplyRules({e \in rmap : e.key # Head(ops).key} \cup {[key |-> Head(ops).key, rm |-> Head(ops).rm, w |-> c]}, Tail(ops), c)
SetRule(c) ==
  /\ pc[c] = "setrule"
  /\ objs' = [objs EXCEPT ![obj[c]].ruleMap = ApplyRules(@, RuleOps(DOf(c)), c)]
  /\ Goto(c, "setfn")
  /\ UNCHANGED <<desc, obj, blds, arrays, pool, cache, info, step, todo, handedOut, result>>

\* v.vc.validFn[name] = fn for every SetValidFn of the call
SetFn(c) ==
  /\ pc[c] = "setfn"
  /\ LET names == Range(DOf(c).fns) IN
     objs' = [objs EXCEPT ![obj[c]].fns = {e \in @ : e.n \notin names} \cup {[n |-> x, w |-> c] : x \in names}]
  /\ Goto(c, IF Kind(c) = "struct" THEN "lookup" ELSE "walk")
  /\ UNCHANGED <<desc, obj, blds, arrays, pool, cache, info, step, todo, handedOut, result>>

\* the type cache: the analysed field list of (T under tag), possibly carrying a written-through override
KeyOf(T, tag) == IF KeyWithTag THEN <<T, tag>> ELSE <<T, "">>
Lookup(c) ==
  /\ pc[c] = "lookup"
  /\ LET k == KeyOf(DOf(c).T, objs[obj[c]].tag)
         hit == {e \in cache : e.key = k}
     IN IF hit # {}
        THEN /\ LET e == CHOOSE e \in hit : TRUE IN info' = [info EXCEPT ![c] = [tag |-> e.tag, ovrm |-> e.ovrm, w |-> e.w]]
             /\ UNCHANGED cache
        ELSE /\ info' = [info EXCEPT ![c] = [tag |-> objs[obj[c]].tag, ovrm |-> <<>>, w |-> 0]]   \* analyse under the requested tag
             /\ cache' = cache \cup {[key |-> k, tag |-> objs[obj[c]].tag, ovrm |-> <<>>, w |-> 0]}  \* StoreInfo
  /\ Goto(c, "walk")
  /\ UNCHANGED <<desc, obj, objs, blds, arrays, pool, step, todo, handedOut, result>>
\* LRU eviction: any entry may disappear at any time
Evict == /\ cache # {}
         /\ \E c \in Calls : pc[c] \in {"lookup", "walk"}      \* only a lookup (or a write-through) can tell
         /\ \E e \in cache : cache' = cache \ {e}
         /\ UNCHANGED <<pc, desc, obj, objs, blds, arrays, pool, info, step, todo, handedOut, result>>

\* the configuration the walk finds IN THE OBJECT
TypedOfObj(o) == LET es == {e \in o.ruleMap : e.key # "outer"} IN
                 IF es = {} THEN <<>> ELSE LET s == SetToSeq(es) IN [i \in 1..Len(s) |-> TE(s[i].key, s[i].rm)]
UnscopedOfObj(o) == LET es == {e \in o.ruleMap : e.key = "outer"} IN IF es = {} THEN <<>> ELSE (CHOOSE e \in es : TRUE).rm
FnsOfObj(o) == IF o.fns = {} THEN <<>> ELSE LET s == SetToSeq(o.fns) IN [i \in 1..Len(s) |-> s[i].n]
\* the field rules come from the (copy of the) cached entry: its tag, and whatever override was written into it
CfgOf(c) == LET o == objs[obj[c]] IN
            [tag |-> IF Kind(c) = "struct" THEN info[c].tag ELSE DOf(c).tag,
             typed |-> TypedOfObj(o),
             unscoped |-> IF UnscopedOfObj(o) = <<>> /\ Kind(c) = "struct" THEN info[c].ovrm ELSE UnscopedOfObj(o),
             fns |-> FnsOfObj(o), glob |-> GlobAt(0)]

\* `fieldInfo := cacheStructType.fieldInfos[i]` copies the entry, so an override stays local; with WriteThrough it would not
Walk(c) ==
  /\ pc[c] = "walk"
  /\ todo' = [todo EXCEPT ![c] = Eval(DOf(c), CfgOf(c))]
  /\ LET own == UnscopedOfObj(objs[obj[c]])
         k == KeyOf(DOf(c).T, objs[obj[c]].tag)
     IN IF WriteThrough /\ Kind(c) = "struct" /\ own # <<>>
        THEN cache' = {IF e.key = k THEN [e EXCEPT !.ovrm = own, !.w = c] ELSE e : e \in cache}
        ELSE UNCHANGED cache
  /\ Goto(c, "append")
  /\ UNCHANGED <<desc, obj, objs, blds, arrays, pool, info, step, handedOut, result>>

\* errBuf.WriteString: writes at position len+1 of the backing array (allocating one when there is none)
AppendCl(c) ==
  /\ pc[c] = "append"
  /\ IF todo[c] = <<>>
     THEN /\ Goto(c, "read")
          /\ UNCHANGED <<blds, arrays, pool, todo>>
     ELSE LET b == objs[obj[c]].buf
              fresh == blds[b].arr = 0
              a == IF fresh THEN FreshId(c) ELSE blds[b].arr
              n == IF fresh THEN 0 ELSE blds[b].len
          IN /\ arrays' = [arrays EXCEPT ![a] = SubSeq(@, 1, n) \o <<[cl |-> Head(todo[c]), w |-> c]>> \o SubSeq(@, n + 2, Len(@))]
             /\ blds' = [blds EXCEPT ![b] = [arr |-> a, len |-> n + 1]]
             /\ UNCHANGED pool
             /\ todo' = [todo EXCEPT ![c] = Tail(@)]
             /\ UNCHANGED pc
  /\ UNCHANGED <<desc, obj, objs, cache, info, step, handedOut, result>>

\* errors.New(strings.TrimSuffix(errBuf.String(), ...)): the string ALIASES the builder's backing array
ReadError(c) ==
  /\ pc[c] = "read"
  /\ handedOut' = [handedOut EXCEPT ![c] = blds[objs[obj[c]].buf]]
  /\ Goto(c, "resetbuf")
  /\ UNCHANGED <<desc, obj, objs, blds, arrays, pool, cache, info, step, todo, result>>

\* putStrBuf: Reset when non-empty, then syncBufPool.Put
ResetBuf(c) ==
  /\ pc[c] = "resetbuf"
  /\ LET b == objs[obj[c]].buf IN
     /\ blds' = [blds EXCEPT ![b] = IF @.len > 0 THEN (IF ResetDetaches THEN NoBld ELSE [arr |-> @.arr, len |-> 0]) ELSE @]
     /\ pool' = [pool EXCEPT !.sb = @ \cup {b}]
  /\ Goto(c, "clear")
  /\ UNCHANGED <<desc, obj, objs, arrays, cache, info, step, todo, handedOut, result>>

\* free(): ruleMap = nil (ruleObj = nil), vc = nil; the errBuf field keeps its stale pointer
Clear(c) ==
  /\ pc[c] = "clear"
  /\ objs' = [objs EXCEPT ![obj[c]] = [@ EXCEPT !.ruleMap = IF ClearRuleMapOnFree \/ Kind(c) # "struct" THEN {} ELSE @,
                                                 !.fns = IF FreshVC THEN {} ELSE @,
                                                 !.groups = IF FreshVC THEN {} ELSE @]]
  /\ Goto(c, "put")
  /\ UNCHANGED <<desc, obj, blds, arrays, pool, cache, info, step, todo, handedOut, result>>

Put(c) ==
  /\ pc[c] = "put"
  /\ pool' = IF Pooled(c) THEN [pool EXCEPT ![PoolName(c)] = @ \cup {obj[c]}] ELSE pool
  /\ Goto(c, "return")
  /\ UNCHANGED <<desc, obj, objs, blds, arrays, cache, info, step, todo, handedOut, result>>

Deref(h) == IF h.arr = 0 THEN <<>> ELSE [i \in 1..h.len |-> arrays[h.arr][i]]
Return(c) ==
  /\ pc[c] = "return"
  /\ result' = [result EXCEPT ![c] = [i \in 1..Len(Deref(handedOut[c])) |-> Deref(handedOut[c])[i].cl]]
  /\ Goto(c, "done")
  /\ UNCHANGED <<desc, obj, objs, blds, arrays, pool, cache, info, step, todo, handedOut>>

AllDone == \A c \in Calls : pc[c] = "done"
MNext == \/ \E c \in Calls : \/ Start(c) \/ Get(c) \/ ReInit(c) \/ GetBuf(c) \/ SetRule(c) \/ SetFn(c) \/ Lookup(c)
                             \/ Walk(c) \/ AppendCl(c) \/ ReadError(c) \/ ResetBuf(c) \/ Clear(c) \/ Put(c) \/ Return(c)
         \/ Evict
         \/ (AllDone /\ UNCHANGED mvars)
MSpec == MInit /\ [][MNext]_mvars /\ WF_mvars(MNext)

----------------------------------------------------------------------------
(* Properties of the mechanism (B => A)                                    *)
InFlight(c) == pc[c] \in {"reinit", "getbuf", "setrule", "setfn", "lookup", "walk", "append", "read", "resetbuf", "clear", "put"}
Configured(c) == pc[c] \in {"lookup", "walk", "append", "read"}
\* a validator / builder is used by one call at a time
Exclusive == \A c, e \in Calls : (c # e /\ InFlight(c) /\ InFlight(e)) =>
               /\ obj[c] # obj[e]
               /\ (pc[c] \in {"setrule", "setfn", "lookup", "walk", "append", "read", "resetbuf"}
                   /\ pc[e] \in {"setrule", "setfn", "lookup", "walk", "append", "read", "resetbuf"})
                    => objs[obj[c]].buf # objs[obj[e]].buf
\* a call never observes another call's rule map / function table / buffer content / cache entry of another tag
NoForeign == \A c \in Calls : Configured(c) =>
               LET o == objs[obj[c]] IN
               /\ \A e \in o.ruleMap : e.w = c
               /\ \A e \in o.fns : e.w = c
               /\ o.tag = (IF Kind(c) = "struct" THEN DOf(c).tag ELSE o.tag)
               /\ (pc[c] \in {"walk", "append", "read"} /\ Kind(c) = "struct") => (info[c].tag = DOf(c).tag /\ info[c].w \in {0, c})
               /\ LET b == blds[o.buf] IN b.arr # 0 => \A i \in 1..b.len : arrays[b.arr][i].w = c
\* Result(c) = Own(c)
ResultOwn == \A c \in Calls : pc[c] = "done" => result[c] = ExpTable[desc[c]]
\* handedOut[c] never changes after Return(c)
HandedOutStable == \A c \in Calls : pc[c] = "done" =>
                      [i \in 1..Len(Deref(handedOut[c])) |-> Deref(handedOut[c])[i].cl] = result[c]
HandedOutFrozen == [][\A c \in Calls : pc[c] = "done" => Deref(handedOut[c])' = Deref(handedOut[c])]_mvars
\* objects in a pool are clean as far as the next user relies on it
PooledClean == \A o \in pool.vs : objs[o].ruleMap = {}
Terminates == <>[]AllDone
MTypeOK == /\ \A c \in Calls : pc[c] \in {"idle", "get", "reinit", "getbuf", "setrule", "setfn", "lookup", "walk", "append",
                                          "read", "resetbuf", "clear", "put", "return", "done"}
           /\ pool.vs \cup pool.vv \cup pool.sb \subseteq ObjIds
mview == <<pc, desc, obj, objs, blds, arrays, pool, cache, info, step, todo, handedOut, result>>
=============================================================================
