---------------------------- MODULE Gen_Scope ----------------------------
(* Emits every scenario of the window with the CONTRACT's allowed clause     *)
(* sequences ("@@SCN"), plus once the tables the concretiser needs ("@@META").*)
EXTENDS Scope, Json

ASSUME PrintT("@@META " \o ToJson([text |-> TextTab, nameof |-> NameOf, globals |-> SetToSeq(GlobalFns), fields |-> FieldSeq]))

GenNext == /\ pc = "enter"
           /\ pc' = "done"
           /\ UNCHANGED <<scn, ni, fi, ri, cus, buf>>
           /\ PrintT("@@SCN " \o ToJson([scn |-> scn, alts |-> SetToSeq(Alts(scn))]))
GenSpec == Init /\ [][GenNext]_vars
=============================================================================
