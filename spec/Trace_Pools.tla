---------------------------- MODULE Trace_Pools ----------------------------
(* Trace validation for C11/C12 against layer A of Pools.                                           *)
(* A recording of the real library is a sequence of events                                          *)
(*   reset                          a new batch: nothing pending, nothing kept                      *)
(*   call  c d key                  call c starts; it was concretised from descriptor d (key = guard)*)
(*   ret   c clauses keep inputSame rmSame                                                          *)
(*                                  call c returned; clauses = its abstracted error text            *)
(*   recheck c clauses same         what call c handed out, re-read (and re-abstracted) much later   *)
(* Calls of many goroutines interleave; each event is judged by the contract:                       *)
(*   ret      must equal Expected(d) - the table is computed by TLC once per descriptor (ExpTable)  *)
(*   recheck  must equal what was handed out at ret (handedOut never changes)                       *)
(* Pool and cache steps of the mechanism are not logged and not needed for the verdict.             *)
EXTENDS Pools, Json, IOUtils

Trace == ndJsonDeserialize(IOEnv.TRACE)

VARIABLES l, pending, kept, keptMap, ep
tvars == <<mvars, l, pending, kept, keptMap, ep>>
\* kept[c] remembers descriptor and epoch of the call in one number
EPBASE == 100000
Code(d, e) == d + EPBASE * e
Empty == [x \in {} |-> 0]
Drop(f, c) == [x \in DOMAIN f \ {c} |-> f[x]]
\* kept is hashed into NB buckets: an update rebuilds one small bucket instead of a function over thousands of calls
NB == 64
NoneKept == [b \in 0..(NB - 1) |-> Empty]
KHas(k, c) == c \in DOMAIN k[c % NB]
KPut(k, c, x) == [k EXCEPT ![c % NB] = @ @@ (c :> x)]
KDel(k, c) == [k EXCEPT ![c % NB] = Drop(@, c)]

\* What a call handed out is remembered until its recheck.  A return is accepted only if its clauses ARE ExpTable[d]
\* (RetOK), so remembering d remembers the clauses: kept[c] = d.  Only a Map call (compared as a bag) needs its own
\* clause order: keptMap[c].  (Thousands of calls are remembered at a time; small entries keep the states small.)
IsMap(di) == Universe[di].car = "map"
HandedOut(c) == IF c \in DOMAIN keptMap THEN keptMap[c]
                ELSE LET v == kept[c % NB][c] IN ExpTableAt[v \div EPBASE][v % EPBASE]

ASSUME TLCSet(1, 0)

TraceInit == /\ MQuiet /\ l = 1 /\ pending = Empty /\ kept = NoneKept /\ keptMap = Empty /\ ep = 0

IsEv(name) == l <= Len(Trace) /\ Trace[l].e = name

TReset == /\ IsEv("reset")
          /\ pending' = Empty /\ kept' = NoneKept /\ keptMap' = Empty
          /\ l' = l + 1 /\ UNCHANGED <<mvars, ep>>

\* the harness registered a global function between two calls (nothing is pending): the next epoch of Pools!GlobAt
TEpoch == /\ IsEv("epoch")
          /\ pending = Empty
          /\ Trace[l].c = ep + 1 /\ Trace[l].c \in Epochs
          /\ ep' = Trace[l].c
          /\ l' = l + 1 /\ UNCHANGED <<mvars, pending, kept, keptMap>>

TCall == /\ IsEv("call")
         /\ LET ev == Trace[l] IN
            /\ ev.c \notin DOMAIN pending
            /\ ev.d \in 1..NDesc
            /\ Universe[ev.d].key = ev.key                 \* harness and spec talk about the same descriptor
            /\ pending' = pending @@ (ev.c :> ev.d)
         /\ l' = l + 1 /\ UNCHANGED <<mvars, kept, keptMap, ep>>

TRet == /\ IsEv("ret")
        /\ LET ev == Trace[l] IN
           /\ ev.c \in DOMAIN pending
           /\ RetOKAt(pending[ev.c], ev.clauses, ev.inputSame, ev.rmSame, ep)
           /\ pending' = Drop(pending, ev.c)
           /\ kept' = IF ev.keep THEN KPut(kept, ev.c, Code(pending[ev.c], ep)) ELSE kept
           /\ keptMap' = IF ev.keep /\ (IsMap(pending[ev.c]) \/ IsFree(pending[ev.c])) THEN keptMap @@ (ev.c :> ev.clauses) ELSE keptMap
        /\ l' = l + 1 /\ UNCHANGED <<mvars, ep>>

TRecheck == /\ IsEv("recheck")
            /\ LET ev == Trace[l] IN
               /\ KHas(kept, ev.c)
               /\ RecheckOK(HandedOut(ev.c), ev.clauses, ev.same)
               /\ kept' = KDel(kept, ev.c)
               /\ keptMap' = IF ev.c \in DOMAIN keptMap THEN Drop(keptMap, ev.c) ELSE keptMap
            /\ l' = l + 1 /\ UNCHANGED <<mvars, pending, ep>>

TraceNext == TReset \/ TEpoch \/ TCall \/ TRet \/ TRecheck
TraceSpec == TraceInit /\ [][TraceNext]_tvars

HW == TLCSet(1, IF l > TLCGet(1) THEN l ELSE TLCGet(1))
Accepted == IF TLCGet(1) = Len(Trace) + 1 THEN TRUE
            ELSE PrintT("@@REJECT " \o ToJson([line |-> TLCGet(1), len |-> Len(Trace)])) /\ FALSE
=============================================================================
