--------------------------- MODULE Judge_Groups ---------------------------
(* Constant-mode judge (code -> model): every line of IOEnv.RECS is a record  *)
(*   [id, scn, obs]  where obs is the clause list the REAL code produced for  *)
(* scn, abstracted into the spec's vocabulary (kind, members = <<inst,field>>).*)
(* The contract decides: obs, as a bag, must be exactly Expected(scn).         *)
EXTENDS Groups, Json, IOUtils

Recs == ndJsonDeserialize(IOEnv.RECS)

\* Normal form used on BOTH sides before comparing (abstraction of what the clause text can show):
\*  - map / URL input: a rule-writing clause names no member; a member is named by its key, the element index of a
\*    []map only when the text carries it (r.hasinst)
Singles == {"single_either", "single_botheq"}
Norm(s, c, hasinst) ==
  IF s.carrier = "struct" THEN c
  ELSE IF c.kind \in Singles THEN [kind |-> c.kind, members |-> <<>>]
  ELSE [kind |-> c.kind, members |-> [k \in 1..Len(c.members) |-> <<IF hasinst THEN c.members[k][1] ELSE 0, c.members[k][2]>>]]
Count(seq, c) == Cardinality({x \in 1..Len(seq) : seq[x] = c})
BagEq(a, b) == Len(a) = Len(b) /\ \A x \in 1..Len(a) : Count(a, a[x]) = Count(b, a[x])
ExpN(r) == LET e == ExpectedSeq(r.scn) IN [x \in 1..Len(e) |-> Norm(r.scn, e[x], r.hasinst)]
ObsN(r) == [x \in 1..Len(r.obs) |-> Norm(r.scn, r.obs[x], r.hasinst)]
\* the scenario must lie inside the property's domain (the concretiser may not wander off it)
ObsOK(r) == WellFormed(r.scn) /\ Len(r.scn.inst) = NInst(r.scn.layout) /\ BagEq(ObsN(r), ExpN(r))

Judge(i) == IF ObsOK(Recs[i]) THEN TRUE
            ELSE PrintT("@@BAD " \o ToJson([id |-> Recs[i].id, exp |-> ExpectedSeq(Recs[i].scn)]))
ASSUME \A i \in 1..Len(Recs) : Judge(i)
ASSUME PrintT("@@JUDGED " \o ToJson([n |-> Len(Recs)]))

JInit == scn = 0 /\ pc = "done" /\ pos = 0 /\ tab = 0 /\ todo = 0 /\ out = 0
JSpec == JInit /\ [][UNCHANGED vars]_vars
=============================================================================
