------------------------- MODULE Trace_TypeCache -------------------------
(* Trace validation for C08 (code -> model).  A recording of the real validator, made by one harness     *)
(* process per cache configuration, must be explained line by line:                                       *)
(*   {e:"reset",kind,cap,mode}            a fresh cache of that configuration                             *)
(*   {e:"call",c,T,S,tag,ov,val}          a validation call: type id, its declared rule sets, tag, override, value *)
(*   {e:"load",key,hit}                   the cache was asked for key (ids by first appearance)           *)
(*   {e:"store",key,ev}                   the cache was given key; ev = ids evicted by this store         *)
(*   {e:"ret",c,clauses}                  the call returned these clauses (<<>> = nil error)              *)
(* Every "ret" must carry exactly TypeCache!Result(S, tag, ov, val) - the CONTRACT, which knows no cache. *)
(* In mode "mech" the load/store lines are additionally bound to the mechanism actions of TypeCache       *)
(* (hit <=> resident, key identity, evictions of the LRU instance); AnalyseStep and ApplyOverrideToCopy   *)
(* are silent steps.  In mode "contract" (the library's own default cache, which cannot be wrapped, or a  *)
(* re-run after a mechanism mismatch) load/store lines are skipped and only call/ret are judged.          *)
EXTENDS TypeCache, Json, IOUtils

Trace == ndJsonDeserialize(IOEnv.TRACE)
ForceContract == "FORCE_CONTRACT" \in DOMAIN IOEnv /\ IOEnv.FORCE_CONTRACT = "1"

VARIABLES l,      \* next line of the trace
          kid,    \* key ids seen so far -> model keys
          mode
tvars == <<vars, l, kid, mode>>

ASSUME TLCSet(1, 0)

Ev == Trace[l]
More == l <= Len(Trace)

FreshCache(k, c) == /\ ckind' = k /\ lcap' = c
                    /\ lorder' = <<>> /\ lval' = [key \in CKeys |-> None] /\ lidx' = {} /\ ldels' = 0
                    /\ lret' = L!NoRet /\ lcb' = <<>>
                    /\ mp' = [key \in CKeys |-> None]

TraceInit == /\ l = 1 /\ kid = <<>> /\ mode = "mech"
             /\ InitCache([kind |-> "forget", cap |-> 0])
             /\ pc = "idle" /\ cur = NoCall /\ info = NoInfo /\ eff = NoInfo /\ last = NoLast /\ n = 0

TraceReset == /\ More /\ Ev.e = "reset" /\ pc = "idle"
              /\ FreshCache(Ev.kind, Ev.cap)
              /\ kid' = <<>>
              /\ mode' = IF ForceContract THEN "contract" ELSE Ev.mode
              /\ cur' = NoCall /\ info' = NoInfo /\ eff' = NoInfo /\ last' = NoLast /\ n' = 0 /\ pc' = "idle"
              /\ l' = l + 1

(* ---- mode "mech": one mechanism action per line, plus two silent steps ---- *)
TraceCall == /\ More /\ Ev.e = "call" /\ mode = "mech"
             /\ Call(Ev.T, Ev.S, Ev.tag, Ev.ov, Ev.val)
             /\ l' = l + 1 /\ UNCHANGED <<kid, mode>>

BindKey(id, k) == IF id < Len(kid) THEN kid[id + 1] = k /\ UNCHANGED kid
                  ELSE id = Len(kid) /\ kid' = Append(kid, k)

TraceLoad == /\ More /\ Ev.e = "load" /\ mode = "mech"
             /\ IF Ev.hit THEN LookupHit ELSE LookupMiss
             /\ BindKey(Ev.key, CurKey)
             /\ l' = l + 1 /\ UNCHANGED mode

TraceStore == /\ More /\ Ev.e = "store" /\ mode = "mech"
              /\ StoreInfo
              /\ BindKey(Ev.key, CurKey)
              /\ IF ckind = "lru"
                 THEN /\ Len(Ev.ev) = Len(lcb')
                      /\ \A i \in 1..Len(Ev.ev) : Ev.ev[i] < Len(kid') /\ kid'[Ev.ev[i] + 1] = lcb'[i][1]
                 ELSE Ev.ev = <<>>
              /\ l' = l + 1 /\ UNCHANGED mode

TraceRet == /\ More /\ Ev.e = "ret" /\ mode = "mech"
            /\ Return
            /\ last'.res = Ev.clauses
            /\ Ev.clauses = Result(cur.S, cur.tag, cur.ov, cur.val)
            /\ l' = l + 1 /\ UNCHANGED <<kid, mode>>

Silent == /\ mode = "mech"
          /\ AnalyseStep \/ ApplyOverrideToCopy
          /\ UNCHANGED <<l, kid, mode>>

(* ---- mode "contract": only call/ret are judged ---- *)
ContractCall == /\ More /\ Ev.e = "call" /\ mode = "contract" /\ pc = "idle"
                /\ cur' = [T |-> Ev.T, S |-> Ev.S, tag |-> Ev.tag, ov |-> Ev.ov, val |-> Ev.val]
                /\ pc' = "contract"
                /\ l' = l + 1 /\ UNCHANGED <<ckind, cachevars, info, eff, last, n, kid, mode>>

ContractSkip == /\ More /\ Ev.e \in {"load", "store"} /\ mode = "contract"
                /\ l' = l + 1 /\ UNCHANGED <<vars, kid, mode>>

ContractRet == /\ More /\ Ev.e = "ret" /\ mode = "contract" /\ pc = "contract"
               /\ Ev.clauses = Result(cur.S, cur.tag, cur.ov, cur.val)
               /\ last' = [T |-> cur.T, tag |-> cur.tag, ov |-> cur.ov, val |-> cur.val, res |-> Ev.clauses, seq |-> n + 1]
               /\ n' = n + 1 /\ pc' = "idle"
               /\ l' = l + 1 /\ UNCHANGED <<ckind, cachevars, cur, info, eff, kid, mode>>

TraceNext == TraceReset \/ TraceCall \/ TraceLoad \/ TraceStore \/ TraceRet \/ Silent
             \/ ContractCall \/ ContractSkip \/ ContractRet
TraceSpec == TraceInit /\ [][TraceNext]_tvars

HW == TLCSet(1, IF l > TLCGet(1) THEN l ELSE TLCGet(1))
Accepted == IF TLCGet(1) = Len(Trace) + 1 THEN TRUE
            ELSE PrintT("@@REJECT " \o ToJson([line |-> TLCGet(1), len |-> Len(Trace)])) /\ FALSE

(* the O(n^2) LRU invariants (NoDup, DomainsAgree over ~2000 keys) are proved in MC_TypeCache; here only the cheap ones *)
MechInv == mode = "mech" => Transparent /\ (ckind = "lru" => L!Bounded)
=============================================================================
