CONSTANTS
  Fixed = TRUE
  SplitAlpha = {"a", ",", "'", "=", "|", "~"}
  MaxLen = 0
  NV = 1
  NM = 1
INIT InitSplit
NEXT Next
CHECK_DEADLOCK FALSE
