----------------------------- MODULE Gen_Total -----------------------------
(* Emits (1) one "@@CONST" record: the factors of the scenario catalogue (the harness enumerates the products from  *)
(* them, so the spec is the single source of entry points, shape tokens, rules, rule names, alphabet, directed      *)
(* arguments), and (2) one "@@RET" record per Return step of the shape machine: the outcome the mechanism model     *)
(* predicts for (entry point, shape, rule class). The contract allows both outcomes everywhere; a real outcome      *)
(* outside the mechanism's prediction is a DRIFT note, not a violation.                                             *)
EXTENDS Total, Json

SetToSeq(S) == CHOOSE f \in [1..Cardinality(S) -> S] : \A i, j \in 1..Cardinality(S) : i # j => f[i] # f[j]

ASSUME PrintT("@@CONST " \o ToJson([
         eps |-> EPs, outcomes |-> Outcomes, wrappers |-> Wrappers, leaves |-> Leaves,
         deepwrappers |-> DeepWrappers, classreps |-> ClassReps,
         shaperules |-> [r \in ShapeRules |-> ShapeRuleClass[r]],
         names |-> RuleNames, alphabet |-> Alphabet, forms |-> Forms, vals |-> Vals,
         batchmaxlen |-> [t \in {"quick", "thorough"} |-> [v \in Vals |-> BatchMaxLen(t, v)]],
         directed |-> Directed, ndirected |-> Cardinality(Directed),
         nargs |-> [n \in 0..4 |-> NArgs(n)],
         guards |-> AllGuards, necessary |-> NecessaryGuards, bdepth |-> MaxDepth]))

Emit == IF pc' = "returned" /\ pc # "returned"
        THEN PrintT("@@RET " \o ToJson([ep |-> ep, shape |-> shape, rc |-> rc, out |-> ret']))
        ELSE TRUE
(* (3) one "@@SCAN" record per finished scanner run: what the scanner model extracts from the rule text *)
EmitScan == IF spc' = "done" /\ spc # "done"
            THEN PrintT("@@SCAN " \o ToJson([sc |-> sc, text |-> text, res |-> sres', out |-> sout',
                                             parts |-> IF sc \in {"Parse", "DatetimeSeps"} THEN sparts' ELSE <<>>,
                                             msg |-> ScanMsg']))
            ELSE TRUE
GenScanNext == SNext /\ UNCHANGED wvars /\ EmitScan
GenScanSpec == (SInit /\ WIdle) /\ [][GenScanNext]_vars

GenNext == WNext /\ UNCHANGED svars /\ Emit
GenSpec == (WInit /\ SIdle) /\ [][GenNext]_vars
=============================================================================
