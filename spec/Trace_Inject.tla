--------------------------- MODULE Trace_Inject ---------------------------
(* Run histories of the real injector (C07, and C06 on every run of a history).                         *)
(* One "file" event introduces an abstract file; every following "run" event carries what the harness   *)
(* observed after one more run of the real tool (library, -f, -d or -p): the tag items of every field,  *)
(* whether the bytes outside the rewritable literals are unchanged, whether the bytes are identical to  *)
(* those before the run, exit status and panic flag.  The contract operators of InjectBase judge each   *)
(* event: the step must be an allowed run of the current file (FileStepOK), and from the second run on  *)
(* (and on a file without annotations from the first) the bytes must not change (Idempotent).           *)
(* A refused event is printed as @@REJECT with its line; the monitor then continues from the observed   *)
(* state so that one TLC run reports every offending scenario.                                          *)
EXTENDS InjectBase, Json, IOUtils

Trace == ndJsonDeserialize(IOEnv.TRACE)

VARIABLES l, cur, n
tvars == <<l, cur, n>>

ASSUME TLCSet(1, 0)

TraceInit == l = 1 /\ cur = <<>> /\ n = 0

TraceFile == /\ l <= Len(Trace) /\ Trace[l].e = "file"
             /\ cur' = Trace[l].segs /\ n' = 0 /\ l' = l + 1

Observed(ev) == [i \in DOMAIN cur |-> [cur[i] EXCEPT !.tag = ev.tags[i]]]
\* the contract of one run
RunOK(ev) ==
  /\ ~ev.panic                                                \* NoCrash (panic / fatal error text, killed by a signal)
  /\ ev.parsed                                                 \* still a Go file
  /\ Len(ev.tags) = Len(cur)
  /\ FileStepOK(cur, Observed(ev))                             \* FieldsMerged for this run
  /\ ev.outside                                                \* OutsideUnchanged
  /\ (ev.same => Observed(ev) = cur)                           \* (binding: identical bytes abstract identically)
  /\ (~HasAnnotation(cur) => ev.same)                          \* nothing to inject: content unchanged
  /\ (n >= 1 => ev.same)                                       \* Idempotent: only the first run may change bytes
TraceRun == /\ l <= Len(Trace) /\ Trace[l].e = "run"
            /\ LET ev == Trace[l] IN
               /\ Len(ev.tags) = Len(cur)
               /\ IF RunOK(ev) THEN TRUE ELSE PrintT("@@REJECT " \o ToJson([line |-> l, run |-> n + 1]))
               /\ cur' = Observed(ev)
            /\ n' = n + 1 /\ l' = l + 1

TraceNext == TraceFile \/ TraceRun
TraceSpec == TraceInit /\ [][TraceNext]_tvars

HW == TLCSet(1, IF l > TLCGet(1) THEN l ELSE TLCGet(1))
Accepted == IF TLCGet(1) = Len(Trace) + 1 THEN TRUE
            ELSE PrintT("@@STUCK " \o ToJson([line |-> TLCGet(1), len |-> Len(Trace)])) /\ FALSE
=============================================================================
