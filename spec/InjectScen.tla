----------------------------- MODULE InjectScen -----------------------------
(* Scenario spaces for the injector specs: the segment option sets of the abstract files and the entry   *)
(* kinds of the abstract directories, shared by Inject (initial states of the model checker) and         *)
(* Gen_Inject (scenario emission), so that what is model-checked and what is replayed into the real      *)
(* code are the same sets.                                                                               *)
EXTENDS InjectBase

CONSTANTS Profile,        \* which option set / directory kind set
          MaxSegs         \* bound on segments per file / entries per directory

KA == "a"
KB == "b"
KC == "c"
T1 == << <<KA, "o">> >>
T2 == << <<KA, "o">>, <<KB, "o">> >>
F(hasTag, tag, ck, inj) == FieldSeg(hasTag, "raw", tag, ck, inj)

\* file profile "wide": every combination of literal and comment on up to MaxSegs segments
TagOptsWide == {<<>>, T1, T2}
InjOptsWide == { << <<KA, "n">> >>, << <<KA, "o">> >>, << <<KC, "n">> >>, << <<KB, "n">>, <<KC, "n">> >>,
                 << <<KC, "n">>, <<KA, "n">> >>, << <<KB, "n">>, <<KA, "m">> >> }
FieldOptsWide ==
  {F(TRUE, t, k, <<>>) : t \in TagOptsWide \ {<<>>}, k \in {None, "plain", "mention"}}
  \cup {F(FALSE, <<>>, k, <<>>) : k \in {None, "plain", "mention"}}
  \cup {F(TRUE, t, "inj", i) : t \in TagOptsWide \ {<<>>}, i \in InjOptsWide}
  \cup {F(FALSE, <<>>, "inj", i) : i \in {<< <<KA, "n">> >>}}
SegOptsWide == FieldOptsWide \cup {OpaqueSeg, BreakSeg("top")}
\* file profile "deep": few options, more segments (offset shifts across several rewritten fields)
SegOptsDeep == { F(TRUE, T2, "inj", << <<KB, "n">>, <<KC, "n">> >>), F(TRUE, T1, "inj", << <<KA, "m">> >>),
                 F(TRUE, T1, None, <<>>), F(FALSE, <<>>, "inj", << <<KA, "n">> >>), F(TRUE, T2, "mention", <<>>),
                 BreakSeg("top") }
\* unexpected shapes (C19): grouped / local declarations, double-quoted literal, leading @tag comment
SegOptsOdd == { F(TRUE, T1, "inj", << <<KC, "n">> >>), FieldSeg(TRUE, "interp", T1, "inj", << <<KC, "n">> >>),
                F(TRUE, T1, "doc", << <<KA, "n">> >>), F(FALSE, <<>>, "mention", <<>>),
                BreakSeg("grp"), BreakSeg("loc"), BreakSeg("top") }
SegOpts == CASE Profile = "wide" -> SegOptsWide [] Profile = "deep" -> SegOptsDeep [] Profile = "odd" -> SegOptsOdd
             [] OTHER -> {}
Files == UNION {[1..n -> SegOpts] : n \in 1..MaxSegs}

GoEntry(f) == [kind |-> "go", file |-> f, disk |-> Render(f)]
Annotated == << F(TRUE, T2, "inj", << <<KB, "n">>, <<KC, "n">> >>), BreakSeg("top"), F(TRUE, T1, "inj", << <<KA, "n">> >>) >>
Plain == << F(TRUE, T1, None, <<>>), F(FALSE, <<>>, "plain", <<>>) >>
DirEntry(k) ==
  CASE k = "annotated" -> GoEntry(Annotated)
    [] k = "plain" -> GoEntry(Plain)
    [] k = "broken" -> [kind |-> "broken", file |-> Annotated, disk |-> Render(Annotated) \o <<C("x", "", 0)>>]
    [] k = "nongo" -> [kind |-> "nongo", file |-> Annotated, disk |-> Render(Annotated)]
    [] k = "subdir" -> [kind |-> "subdir", file |-> Annotated, disk |-> Render(Annotated)]
    [] k = "subdirgo" -> [kind |-> "subdirgo", file |-> Annotated, disk |-> Render(Annotated)]
    [] k = "u_notag" -> GoEntry(<< F(FALSE, <<>>, "inj", << <<KA, "n">> >>), F(TRUE, T1, "inj", << <<KC, "n">> >>) >>)
    [] k = "u_mention" -> GoEntry(<< F(FALSE, <<>>, "mention", <<>>), F(TRUE, T2, "mention", <<>>), F(TRUE, T1, "inj", << <<KC, "n">> >>) >>)
    [] k = "u_group" -> GoEntry(<< BreakSeg("grp"), F(TRUE, T1, "inj", << <<KC, "n">> >>), BreakSeg("grp"), F(TRUE, T1, "inj", << <<KC, "n">> >>),
                                   F(FALSE, <<>>, "inj", << <<KA, "n">> >>) >>)
    [] k = "u_local" -> GoEntry(<< F(TRUE, T1, "inj", << <<KC, "n">> >>), BreakSeg("loc"), F(TRUE, T1, "inj", << <<KC, "n">> >>),
                                   F(FALSE, <<>>, "inj", << <<KA, "n">> >>) >>)
    [] k = "u_interp" -> GoEntry(<< FieldSeg(TRUE, "interp", T1, "inj", << <<KC, "n">> >>), F(TRUE, T1, "inj", << <<KC, "n">> >>) >>)
DirKinds == {"annotated", "plain", "broken", "nongo", "subdir", "subdirgo", "u_notag", "u_mention", "u_group", "u_local", "u_interp"}
DirKindsSmall == {"annotated", "plain", "broken", "nongo", "subdirgo", "u_notag"}
Dirs(kinds) == UNION {[1..n -> {DirEntry(k) : k \in kinds}] : n \in 1..MaxSegs}
InitDirs == CASE Profile = "dir" -> Dirs(DirKinds)
              [] Profile = "dirsmall" -> Dirs(DirKindsSmall)
              [] OTHER -> {<<GoEntry(f)>> : f \in Files}

=============================================================================
