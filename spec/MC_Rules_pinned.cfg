\* the mechanism as pinned (defect D1): TLC must find MechanismIsContract violated (sanity: the model sees the bug class)
CONSTANTS
  W = 1
  Pinned = TRUE
SPECIFICATION Spec
CHECK_DEADLOCK FALSE
INVARIANTS MechanismIsContract
