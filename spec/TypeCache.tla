----------------------------- MODULE TypeCache -----------------------------
(***************************************************************************)
(* The struct-type cache of the validator (valid/validstruct.go            *)
(* getCacheStructType + validate, valid/init.go cacheStructType,           *)
(* SetStructTypeCache; cache implementations: valid/cache.go LRUCache,     *)
(* sync.Map, any CacheEr).                                                 *)
(*                                                                         *)
(* Layer A (contract, C08): the result of a validation call is             *)
(*     Result(S, tag, ov, val) = Eval(Override(Analyse(S, tag), ov), val)  *)
(* - a function of the struct type's declared rule sets S, the tag name    *)
(* requested in THIS call, the per-call rule override and the value.       *)
(* The cache does not occur in it.                                         *)
(*                                                                         *)
(* Layer B (mechanism): the per-type field information is looked up in a   *)
(* process-wide cache under KeyOf(T, tag); on a miss the type is analysed  *)
(* (rule strings read from the requested tag) and stored; a per-call       *)
(* override is applied to a copy of the looked-up information; the rules   *)
(* are evaluated.  Cache kinds: the LRU of spec/LRU.tla (INSTANCE, any     *)
(* capacity), an unbounded map, a cache that forgets everything.           *)
(* TLC checks B => A (Transparent) for every call history up to MaxCalls.  *)
(*                                                                         *)
(* Abstract data.  A struct type has the fields of Fields (declaration     *)
(* order); under each tag name every field carries one rule token or none  *)
(* ("-").  A rule token is a size rule over small integers (RuleSem); a    *)
(* value assigns a non-zero small integer to every field.  A clause is     *)
(* <<field, token>>: the field violated the token's rule.                  *)
(***************************************************************************)
EXTENDS Integers, Sequences, FiniteSets, TLC

CONSTANTS Types,        \* type identities (strings)
          Tags,         \* tag names (strings)
          ShapeOf,      \* [Types -> [Tags -> [FieldSet -> Toks \cup {NoRule}]]]  declared rule sets
          Ovs,          \* per-call overrides offered: subset of [FieldSet -> Toks \cup {NoRule}]
          Kinds,        \* cache configurations: set of [kind : {"lru","map","forget"}, cap : Nat]
          MaxCalls,     \* history bound
          CallVals,     \* values offered to calls: subset of ValSet (Transparent quantifies over ALL of ValSet)
          WriteThrough, \* FALSE = the override is applied to a copy (the code); TRUE = planted fault
          KeyOf(_, _)   \* cache key of (type, tag)

None   == "none"         \* the same sentinel as LRU!None
NoRule == "-"

Fields   == <<"A", "B">>
FieldSet == {Fields[i] : i \in 1..Len(Fields)}

(* rule tokens; the harness concretises a token t as "<op>=<bounds>|m_<t>" on an int field *)
RuleSem == [le1  |-> [op |-> "le", lo |-> 0, hi |-> 1],
            le2  |-> [op |-> "le", lo |-> 0, hi |-> 2],
            ge2  |-> [op |-> "ge", lo |-> 2, hi |-> 0],
            ge3  |-> [op |-> "ge", lo |-> 3, hi |-> 0],
            to23 |-> [op |-> "to", lo |-> 2, hi |-> 3]]
Toks    == DOMAIN RuleSem
Slots   == Toks \cup {NoRule}
ValRange == 1..4                          \* zero values are not generated (zero-skip belongs to C03)
ValSet  == [FieldSet -> ValRange]
Infos   == [FieldSet -> Slots]            \* analysed field information: rule slot per field

Violates(t, v) == LET s == RuleSem[t] IN
                  CASE s.op = "le" -> v > s.hi
                    [] s.op = "ge" -> v < s.lo
                    [] s.op = "to" -> v < s.lo \/ v > s.hi

----------------------------------------------------------------------------
(* Layer A: the contract *)
Analyse(S, tag)   == S[tag]                                        \* the rule set declared under the requested tag
Override(inf, ov) == [f \in FieldSet |-> IF ov[f] # NoRule THEN ov[f] ELSE inf[f]]
ClauseOf(inf, val, f) == IF inf[f] # NoRule /\ Violates(inf[f], val[f]) THEN << <<f, inf[f]>> >> ELSE <<>>
RECURSIVE EvalFrom(_, _, _)
EvalFrom(inf, val, i) == IF i > Len(Fields) THEN <<>>
                         ELSE ClauseOf(inf, val, Fields[i]) \o EvalFrom(inf, val, i + 1)
Eval(inf, val)    == EvalFrom(inf, val, 1)                         \* clauses in declaration order; <<>> = nil error
Result(S, tag, ov, val) == Eval(Override(Analyse(S, tag), ov), val)

----------------------------------------------------------------------------
(* Layer B: the mechanism *)
Enc(inf) == inf["A"] \o "," \o inf["B"]          \* cached values travel through the LRU as strings
EncSet   == {Enc(i) : i \in Infos}
DecTab   == [s \in EncSet |-> CHOOSE i \in Infos : Enc(i) = s]
Dec(s)   == DecTab[s]
NoInfo   == [f \in FieldSet |-> NoRule]
NoOv     == [f \in FieldSet |-> NoRule]

CKeys == {KeyOf(T, tag) : T \in Types, tag \in Tags}
LCaps == {k.cap : k \in Kinds}

VARIABLES ckind,                                    \* cache configuration of this process
          lcap, lorder, lval, lidx, ldels, lret, lcb, \* the LRU instance
          mp,                                       \* the unbounded map: key -> encoded info / None
          pc, cur, info, eff,                       \* the call in progress
          last, n                                   \* last returned call (output) and number of calls made

L == INSTANCE LRU WITH Keys <- CKeys, Vals <- EncSet, Caps <- LCaps,
                       cap <- lcap, order <- lorder, val <- lval, idx <- lidx, dels <- ldels, ret <- lret, cb <- lcb

lruvars == <<lcap, lorder, lval, lidx, ldels, lret, lcb>>
cachevars == <<lruvars, mp>>
vars == <<ckind, lruvars, mp, pc, cur, info, eff, last, n>>
view == <<ckind, lcap, lorder, lval, lidx, ldels, mp, pc, cur, info, eff, n>>   \* outputs (last, lret, lcb) excluded

NoCall == [T |-> None, S |-> None, tag |-> None, ov |-> NoOv, val |-> None]
NoLast == [T |-> None, tag |-> None, ov |-> NoOv, val |-> None, res |-> <<>>, seq |-> 0]

InitCache(k) == /\ ckind = k.kind
                /\ L!Init /\ lcap = k.cap
                /\ mp = [key \in CKeys |-> None]
Init == /\ \E k \in Kinds : InitCache(k)
        /\ pc = "idle" /\ cur = NoCall /\ info = NoInfo /\ eff = NoInfo
        /\ last = NoLast /\ n = 0

Resident(k) == CASE ckind = "lru" -> k \in L!Live
                 [] ckind = "map" -> mp[k] # None
                 [] OTHER -> FALSE
CacheVal(k) == IF ckind = "lru" THEN lval[k] ELSE mp[k]

CLoad(k) == IF ckind = "lru" THEN L!Load(k) /\ UNCHANGED mp           \* a hit refreshes recency
            ELSE UNCHANGED cachevars
CStore(k, s) == CASE ckind = "lru" -> L!Store(k, s) /\ UNCHANGED mp    \* may evict the least recent entry
                  [] ckind = "map" -> mp' = [mp EXCEPT ![k] = s] /\ UNCHANGED lruvars
                  [] OTHER -> UNCHANGED cachevars

CurKey == KeyOf(cur.T, cur.tag)

(* a validation call arrives: type T (declared rule sets S), requested tag, override, value *)
Call(T, S, tag, ov, val) ==
  /\ pc = "idle" /\ n < MaxCalls
  /\ cur' = [T |-> T, S |-> S, tag |-> tag, ov |-> ov, val |-> val]
  /\ pc' = "lookup"
  /\ UNCHANGED <<ckind, cachevars, info, eff, last, n>>

LookupHit ==
  /\ pc = "lookup" /\ Resident(CurKey)
  /\ info' = Dec(CacheVal(CurKey))
  /\ CLoad(CurKey)
  /\ pc' = "apply"
  /\ UNCHANGED <<ckind, cur, eff, last, n>>

LookupMiss ==
  /\ pc = "lookup" /\ ~Resident(CurKey)
  /\ CLoad(CurKey)
  /\ pc' = "analyse"
  /\ UNCHANGED <<ckind, cur, info, eff, last, n>>

Lookup == LookupHit \/ LookupMiss

AnalyseStep ==                                   \* reflect over the type, reading the rules of the REQUESTED tag
  /\ pc = "analyse"
  /\ info' = Analyse(cur.S, cur.tag)
  /\ pc' = "store"
  /\ UNCHANGED <<ckind, cachevars, cur, eff, last, n>>

StoreInfo ==
  /\ pc = "store"
  /\ CStore(CurKey, Enc(info))
  /\ pc' = "apply"
  /\ UNCHANGED <<ckind, cur, info, eff, last, n>>

(* the override replaces the rule of the named fields in the call's own copy; the planted fault writes
   the overridden rules into the resident entry as well (the slice shared with the cache) *)
ApplyOverrideToCopy ==
  /\ pc = "apply"
  /\ eff' = Override(info, cur.ov)
  /\ IF WriteThrough /\ Resident(CurKey)
     THEN IF ckind = "lru"
          THEN /\ lval' = [lval EXCEPT ![CurKey] = Enc(eff')]
               /\ UNCHANGED <<lcap, lorder, lidx, ldels, lret, lcb, mp>>
          ELSE /\ mp' = [mp EXCEPT ![CurKey] = Enc(eff')]
               /\ UNCHANGED lruvars
     ELSE UNCHANGED cachevars
  /\ pc' = "ret"
  /\ UNCHANGED <<ckind, cur, info, last, n>>

Return ==
  /\ pc = "ret"
  /\ last' = [T |-> cur.T, tag |-> cur.tag, ov |-> cur.ov, val |-> cur.val, res |-> Eval(eff, cur.val), seq |-> n + 1]
  /\ n' = n + 1
  /\ pc' = "idle"
  /\ UNCHANGED <<ckind, cachevars, cur, info, eff>>

Next == \/ \E T \in Types, tag \in Tags, ov \in Ovs, val \in CallVals : Call(T, ShapeOf[T], tag, ov, val)
        \/ LookupHit \/ LookupMiss \/ AnalyseStep \/ StoreInfo \/ ApplyOverrideToCopy \/ Return

Spec == Init /\ [][Next]_vars

----------------------------------------------------------------------------
(* B => A *)
TypeOK == /\ ckind \in {"lru", "map", "forget"}
          /\ pc \in {"idle", "lookup", "analyse", "store", "apply", "ret"}
          /\ info \in Infos /\ eff \in Infos
          /\ mp \in [CKeys -> EncSet \cup {None}]
          /\ n \in 0..MaxCalls

(* C08: what the call is about to return is the contract's result - whatever the cache held *)
Transparent == pc = "ret" => \A val \in ValSet : Eval(eff, val) = Result(cur.S, cur.tag, cur.ov, val)
ReturnsResult == [][pc = "ret" /\ pc' = "idle" =>
                      last'.res = Result(cur.S, cur.tag, cur.ov, cur.val) /\ last'.seq = n + 1]_vars

(* every resident entry is the analysis of the (type, tag) pairs it is served for *)
ResidentCorrect == \A T \in Types, tag \in Tags :
                      Resident(KeyOf(T, tag)) => Dec(CacheVal(KeyOf(T, tag))) = Analyse(ShapeOf[T], tag)

(* only a lookup (recency) or a store touches the cache; applying the override never does *)
OverrideOnCopy == [][pc = "apply" => UNCHANGED cachevars]_vars
OnlyStoreChangesContent ==
  [][pc # "store" => \A k \in CKeys : (Resident(k) <=> Resident(k)') /\ (Resident(k) => CacheVal(k)' = CacheVal(k))]_vars
ForgetNeverHits == ckind = "forget" => \A k \in CKeys : ~Resident(k)
MapNeverForgets == [][ckind = "map" => \A k \in CKeys : Resident(k) => Resident(k)']_vars

(* the LRU instance keeps its own invariants inside this composition *)
LRUInv == ckind = "lru" => L!NoDup /\ L!Bounded /\ L!DomainsAgree /\ L!IndexAgrees

(* reachability companions: each of these must be VIOLATED by TLC (MC_TypeCache_reach.cfg) *)
NeverHit == ~(pc = "apply" /\ lret.op = "Load" /\ lret.ok)
NeverEvict == lcb = <<>>
NeverOverrideOnHit == ~(pc = "ret" /\ eff # info)

----------------------------------------------------------------------------
(* constants of the bounded configurations *)
KeyTT(T, tag) == T \o "/" \o tag        \* the repaired code: the key carries the tag
KeyT(T, tag)  == T                      \* the pinned code (defect D7): keyed by the type only

Slot(a, b) == [A |-> a, B |-> b]
AllShapes == [T1 |-> [a |-> Slot("le1", "-"),    b |-> Slot("le2", "ge3"),  valid |-> Slot("ge2", "le2")],
              T2 |-> [a |-> Slot("ge2", "le2"),  b |-> Slot("ge2", "le2"),  valid |-> Slot("-", "-")],
              T3 |-> [a |-> Slot("-", "-"),      b |-> Slot("to23", "le1"), valid |-> Slot("to23", "ge3")],
              T4 |-> [a |-> Slot("ge3", "ge3"),  b |-> Slot("-", "to23"),   valid |-> Slot("ge3", "ge3")],
              T5 |-> [a |-> Slot("le2", "to23"), b |-> Slot("le1", "-"),    valid |-> Slot("le2", "ge2")]]
Val(a, b) == [A |-> a, B |-> b]
QuickVals == {Val(1, 4), Val(4, 1), Val(2, 3), Val(3, 3)}
MCOvs   == {NoOv, Slot("ge3", "-"), Slot("-", "le1")}
GenOvs  == MCOvs \cup {Slot("le1", "ge2")}
TwoOvs  == {NoOv, Slot("-", "le1")}
MCKinds == {[kind |-> "lru", cap |-> 0], [kind |-> "lru", cap |-> 1], [kind |-> "lru", cap |-> 2],
            [kind |-> "map", cap |-> 0], [kind |-> "forget", cap |-> 0]}
=============================================================================
