---------------------------- MODULE Gen_Rules ----------------------------
(* Vector emission for C01 / C18 (model -> code).                           *)
(* "@@VALS": per field kind the ordered list of abstract values of the      *)
(*           window; "@@GRP": per (rule, lo, hi, kind) the contract's        *)
(*           verdict for every value of that list (1 = violated).           *)
(* The harness concretises kind and value, sends the value through every    *)
(* carrier and compares the observed verdicts with these bits.              *)
EXTENDS Rules, TLC, Json

CONSTANTS GenRules,     \* subset of IntervalRules emitted by this run (runs are sharded by rule)
          EmitVals      \* BOOLEAN: print the @@VALS records (one shard does)

Range(a, b) == [i \in 1..(b - a + 1) |-> a + i - 1]
NonZero(s) == SelectSeq(s, LAMBDA x : x # 0)
Vs(ns) == [i \in 1..Len(ns) |-> V(ns[i])]
FarV(f) == [n |-> 0, far |-> f, cps |-> <<>>, eps |-> 0]
\* the representable neighbours just below / above the integers of the window (floats only; 0 included: the smallest denormals)
Evens(a, b) == SelectSeq(Range(a, b), LAMBDA x : x % 2 = 0)
VsE(ns, e) == [i \in 1..Len(ns) |-> [n |-> ns[i], far |-> 0, cps |-> <<>>, eps |-> e]]
Cyc(c, n) == [i \in 1..n |-> c[((i - 1) % Len(c)) + 1]]
Strs(cycles) == [j \in 1..(Len(cycles) * (W + 3)) |->
                   [n |-> 0, far |-> 0, cps |-> Cyc(cycles[((j - 1) \div (W + 3)) + 1], ((j - 1) % (W + 3)) + 1), eps |-> 0]]

Kinds == <<"string", "string_delim",
           "int8", "int16", "int32", "int64", "int",
           "uint8", "uint16", "uint32", "uint64", "uint",
           "float32", "float64", "slice_int", "slice_string">>

Values(kind) ==
  CASE kind = "int8"  -> Vs(NonZero(Range(-128, 127)))                         \* every non-zero 8-bit value
    [] kind = "uint8" -> Vs(Range(1, 255))
    [] kind \in {"int16", "int32", "int64", "int"} -> <<FarV(-1)>> \o Vs(NonZero(Range(-W - 2, W + 2))) \o <<FarV(1)>>
    [] kind \in {"uint16", "uint32", "uint64", "uint"} -> Vs(Range(1, W + 2)) \o <<FarV(1)>>
    [] kind \in {"float32", "float64"} -> <<FarV(-1)>> \o Vs(NonZero(Range(-2 * W - 3, 2 * W + 3)))            \* halves
                                           \o VsE(Evens(-2 * W - 2, 2 * W + 2), -1) \o VsE(Evens(-2 * W - 2, 2 * W + 2), 1) \o <<FarV(1)>>
    [] kind = "string" -> Strs(<< <<97>>, <<233>>, <<20013>>, <<128512>>, <<97, 233, 20013, 128512>>, <<32, 97, 32>> >>)  \* 1-,2-,3-,4-byte runes, mixed, blanks at the ends
    [] kind = "string_delim" -> Strs(<< <<38, 97, 61, 98, 63, 99>>, <<97, 37, 43, 35, 98, 38>> >>)          \* & = ? % + # inside the value
    [] kind \in {"slice_int", "slice_string"} -> Vs(Range(1, W + 3))

Groups == {[rule |-> r, lo |-> l, hi |-> h, kind |-> Kinds[k]] :
             r \in GenRules, l \in Bounds, h \in Bounds, k \in DOMAIN Kinds}
Wanted(grp) == grp.rule \in TwoBound \/ grp.hi = grp.lo

VARIABLE g
GenInit == Init /\ g \in {x \in Groups : Wanted(x)}
GenNext == UNCHANGED <<vars, g>>
GenSpec == GenInit /\ [][GenNext]_<<vars, g>>

Bits(grp) == LET vs == Values(grp.kind) IN
             [i \in 1..Len(vs) |-> IF Violated(grp.rule, grp.lo, grp.hi, Measure(grp.kind, vs[i])) THEN 1 ELSE 0]
(* boundary points: the measure is at bound-1, bound or bound+1 of one of the rule's bounds (for non-vacuity counts) *)
Abs(x) == IF x < 0 THEN -x ELSE x
NearBits(grp) == LET vs == Values(grp.kind) IN
                 [i \in 1..Len(vs) |-> LET m == Measure(grp.kind, vs[i]) IN
                    IF Abs(m - 4 * grp.lo) <= 4 \/ Abs(m - 4 * grp.hi) <= 4 THEN 1 ELSE 0]
Emit == PrintT("@@GRP " \o ToJson([rule |-> g.rule, lo |-> g.lo, hi |-> g.hi, kind |-> g.kind, viol |-> Bits(g), near |-> NearBits(g)]))

ASSUME EmitVals => \A k \in DOMAIN Kinds : PrintT("@@VALS " \o ToJson([kind |-> Kinds[k], vals |-> Values(Kinds[k])]))
=============================================================================
