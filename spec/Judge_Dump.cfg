\* repaired mechanism (mech/DRIFT column only; the verdict columns do not depend on Pinned)
CONSTANTS
  Pinned = FALSE
  MaxDepth = 0
  SibSet = "small"
SPECIFICATION JSpec
CHECK_DEADLOCK FALSE
