CONSTANTS
  Keys <- TraceKeys
  Vals <- TraceVals
  Caps <- TraceCaps
SPECIFICATION TraceSpec
CONSTRAINT HW
POSTCONDITION Accepted
CHECK_DEADLOCK FALSE
INVARIANTS NoDup Bounded DomainsAgree IndexAgrees LenNeverSentinel
