CONSTANTS
  Mode = "none"
  Alpha = "probe"
  Tier = "quick"
  NSample = 0
  Depth = 1
  Width = 1
SPECIFICATION TraceSpec
CONSTRAINT HW
POSTCONDITION Accepted
CHECK_DEADLOCK FALSE
INVARIANTS PrefixOK TerminalOK
