---------------------------- MODULE Judge_Empty ----------------------------
(* Constant-mode judge: every recorded observation of the real library (one call = one record, written by      *)
(* `vh empty-run` and joined with its cell by lib/fam_empty.py) is judged against the contract of Empty.tla.    *)
(* Records: {id, carrier, kind, state, by, seq, gotReq, gotOther ("none"|"some"), gotSent}.                    *)
(* Output: one @@BAD line per record the contract forbids, one @@WEAK line per record whose witness rule did    *)
(* not fire although Live says it is defined there (non-vacuity only), and one @@JUDGED summary line.           *)
EXTENDS Empty, Json, IOUtils

Obs == ndJsonDeserialize(IOEnv.OBS)

CellOf(o) == [carrier |-> o.carrier, kind |-> o.kind, state |-> o.state, by |-> o.by, seq |-> o.seq]
GotOf(o)  == [req |-> o.gotReq, other |-> o.gotOther, sent |-> o.gotSent]

WellFormed(o) == /\ o.carrier \in Carriers /\ o.kind \in KindsOf(o.carrier) /\ o.state \in States(o.carrier, o.kind)
                 /\ Len(o.seq) >= 1 /\ Range(o.seq) \subseteq AllRules \cup ReqTokens
                 /\ Cardinality(Range(o.seq) \cap ReqTokens) <= 1
                 /\ o.gotOther \in {"none", "some"}

Bad  == {i \in 1..Len(Obs) : ~WellFormed(Obs[i]) \/ ~Allowed(CellOf(Obs[i]), GotOf(Obs[i]))}
Weak == {i \in 1..Len(Obs) : WellFormed(Obs[i]) /\ Expected(CellOf(Obs[i])).other = "some" /\ Obs[i].gotOther = "none"}

ASSUME \A i \in Bad : PrintT("@@BAD " \o ToJson([id |-> Obs[i].id, known |-> KnownDeviation(CellOf(Obs[i]))]))
ASSUME \A i \in Weak : PrintT("@@WEAK " \o ToJson([id |-> Obs[i].id]))
ASSUME PrintT("@@JUDGED " \o ToJson([n |-> Len(Obs), bad |-> Cardinality(Bad), weak |-> Cardinality(Weak)]))

JInit == cell = NoCell /\ todo = <<>> /\ pc = "done" /\ out = Out0 /\ budget = 0
JNext == UNCHANGED vars
JSpec == JInit /\ [][JNext]_vars
=============================================================================
