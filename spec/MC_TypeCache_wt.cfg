\* sanity configuration: the override is written through to the resident entry. TLC must report Transparent
\* violated with the 2-call counterexample Validate(T,a,ov) ; Validate(T,a,none).
CONSTANTS
  Types = {"T1", "T2", "T3"}
  Tags = {"a", "b"}
  ShapeOf <- AllShapes
  Ovs <- MCOvs
  Kinds <- MCKinds
  MaxCalls = 3
  CallVals <- QuickVals
  WriteThrough = TRUE
  KeyOf <- KeyTT
SPECIFICATION Spec
VIEW view
CHECK_DEADLOCK FALSE
INVARIANTS Transparent
