------------------------------ MODULE Rules ------------------------------
(***************************************************************************)
(* Size / comparison rules of protoc-go-valid (C01, C18).                  *)
(*                                                                         *)
(* Layer A (contract): InSet / Measure / Violated.  The verdict is a       *)
(*   function of (rule, lo, hi, measure) only: neither the field kind, its *)
(*   width or signedness, nor the carrier (struct, Var, Map, Url) occurs   *)
(*   in it - that IS the independence claim of C01 / C18.                  *)
(* Layer B (mechanism): the rule functions To/Ge/Le/OTo/Gt/Lt/Eq/NoEq of   *)
(*   valid/validfn.go calling validInputSize / eq of valid/common.go,      *)
(*   transcribed branch by branch (string / float / int / uint / slice x   *)
(*   inclusive / exclusive).  Unsigned fields are modelled at width 8      *)
(*   (values 1..255, conversion U(b) = b mod 256).  Pinned = TRUE is the   *)
(*   code as pinned (defect D1), Pinned = FALSE the repaired code.         *)
(*   TLC checks  mechanism = contract  on the whole window.                *)
(*                                                                         *)
(* All magnitudes are compared in units of 1/2 so that the half-integer    *)
(* floats of the window stay integers: Measure returns twice the measure,  *)
(* Violated doubles the bounds.  FAR is a symbolic exterior point (the     *)
(* harness concretises it as the extreme value of the Go type); it is      *)
(* outside every bound the suite generates (|bound| <= 5*10^8).              *)
(***************************************************************************)
EXTENDS Integers, Sequences, FiniteSets

CONSTANTS W,        \* bounds are drawn from -W..W
          Pinned    \* BOOLEAN: mechanism of the pinned tree (TRUE) or of the repaired tree (FALSE)

FAR == 1050000000      \* beyond every bound (|bound| <= 5*10^8: 4 * bound and 2 * FAR both fit TLC's 32-bit integers)
IntervalRules == {"to", "ge", "le", "oto", "gt", "lt", "eq", "noeq"}
TwoBound == {"to", "oto"}
Classes == {"string", "int", "uint", "float", "slice"}

(* ------------------------------ A: contract ----------------------------- *)
InSet(rule, lo, hi, m) ==
  CASE rule = "to"   -> lo <= m /\ m <= hi
    [] rule = "ge"   -> m >= lo
    [] rule = "le"   -> m <= hi
    [] rule = "oto"  -> lo < m /\ m < hi
    [] rule = "gt"   -> m > lo
    [] rule = "lt"   -> m < hi
    [] rule = "eq"   -> m = lo
    [] rule = "noeq" -> m # lo

ClassOf(kind) ==
  CASE kind \in {"string", "string_delim", "string_rep"} -> "string"
    [] kind \in {"int8", "int16", "int32", "int64", "int"} -> "int"
    [] kind \in {"uint8", "uint16", "uint32", "uint64", "uint"} -> "uint"
    [] kind \in {"float32", "float64"} -> "float"
    [] kind \in {"slice_int", "slice_string"} -> "slice"

(* A value is [n, far, cps, eps]:  cps = code points of a string;  n = the integer, the number of halves of a
   float, or the length of a slice;  far = -1 / 1 for the symbolic exterior points, else 0;  eps = -1 / 1 for
   a float that is the nearest representable neighbour below / above n halves (an infinitesimal offset: it
   decides strict vs. non-strict comparisons at a bound and nothing else), else 0.                          *)
Measure2(kind, v) ==                \* twice the documented measure
  LET c == ClassOf(kind) IN
  IF v.far # 0 THEN v.far * FAR
  ELSE CASE kind = "string_rep" -> 2 * v.n          \* a long string: n characters (the pattern cps repeated)
         [] c = "string" -> 2 * Len(v.cps)          \* characters (runes), not bytes
         [] c = "float"  -> v.n                     \* n counts halves
         [] OTHER        -> 2 * v.n                 \* numeric value / slice length
Measure(kind, v) == 2 * Measure2(kind, v) + v.eps   \* four times the measure, plus the infinitesimal

Violated(rule, lo, hi, m) == ~InSet(rule, 4 * lo, 4 * hi, m)

(* number of bytes of the UTF-8 encoding - only to state that the measure is NOT this *)
Utf8Len(cp) == IF cp < 128 THEN 1 ELSE IF cp < 2048 THEN 2 ELSE IF cp < 65536 THEN 3 ELSE 4
RECURSIVE ByteLen(_)
ByteLen(cps) == IF cps = <<>> THEN 0 ELSE Utf8Len(Head(cps)) + ByteLen(Tail(cps))

(* ------------------------------ B: mechanism ---------------------------- *)
VARIABLES pc, rule, lo, hi, cls, val, amin, amax, heq, less, more, iseq, verdict
vars == <<pc, rule, lo, hi, cls, val, amin, amax, heq, less, more, iseq, verdict>>

Bounds == (-W)..W
Rep(c) == IF c = "string" THEN "string" ELSE IF c = "int" THEN "int8" ELSE IF c = "uint" THEN "uint8"
          ELSE IF c = "float" THEN "float64" ELSE "slice_int"
Str(n, cp) == [i \in 1..n |-> cp]
V(n) == [n |-> n, far |-> 0, cps |-> <<>>, eps |-> 0]
MCValues(c) ==
  CASE c = "string" -> {[n |-> 0, far |-> 0, cps |-> Str(n, cp), eps |-> 0] : n \in 1..(W + 3), cp \in {97, 20013}}
    [] c = "int"    -> {V(n) : n \in (-128..127) \ {0}}
    [] c = "uint"   -> {V(n) : n \in 1..255}
    [] c = "float"  -> {V(n) : n \in ((-2 * W - 3)..(2 * W + 3)) \ {0}} \cup {[n |-> 0, far |-> f, cps |-> <<>>, eps |-> 0] : f \in {-1, 1}}
    [] c = "slice"  -> {V(n) : n \in 1..(W + 3)}

Init == /\ pc = "idle" /\ rule = "to" /\ lo = 0 /\ hi = 0 /\ cls = "int" /\ val = V(1)
        /\ amin = 0 /\ amax = 0 /\ heq = TRUE /\ less = FALSE /\ more = FALSE /\ iseq = TRUE /\ verdict = FALSE

Pick == /\ pc = "idle"
        /\ rule' \in IntervalRules
        /\ lo' \in Bounds
        /\ hi' \in (IF rule' \in TwoBound THEN Bounds ELSE {lo'})
        /\ cls' \in Classes
        /\ val' \in MCValues(cls')
        /\ pc' = "call"
        /\ UNCHANGED <<amin, amax, heq, less, more, iseq, verdict>>

(* the rule functions choose the arguments of validInputSize: Ge/Gt pass max = 0, Le/Lt pass min = 0 *)
Call(r, mn, mx, he) == /\ pc = "call" /\ rule = r
                       /\ amin' = mn /\ amax' = mx /\ heq' = he
                       /\ pc' = "size"
                       /\ UNCHANGED <<rule, lo, hi, cls, val, less, more, iseq, verdict>>
CallTo  == Call("to", lo, hi, TRUE)
CallGe  == Call("ge", lo, 0, TRUE)
CallLe  == Call("le", 0, hi, TRUE)
CallOTo == Call("oto", lo, hi, FALSE)
CallGt  == Call("gt", lo, 0, FALSE)
CallLt  == Call("lt", 0, hi, FALSE)
CallEq  == /\ pc = "call" /\ rule \in {"eq", "noeq"}
           /\ amin' = lo /\ amax' = lo /\ heq' = TRUE /\ pc' = "eq"
           /\ UNCHANGED <<rule, lo, hi, cls, val, less, more, iseq, verdict>>

Sized(l, m) == /\ less' = l /\ more' = m /\ pc' = "ret"
               /\ UNCHANGED <<rule, lo, hi, cls, val, amin, amax, heq, iseq, verdict>>

(* case reflect.String: inLen := len([]rune(valStr)) *)
SizeString == /\ pc = "size" /\ cls = "string"
              /\ LET n == Len(val.cps) IN
                 IF heq THEN Sized(n < amin, n > amax) ELSE Sized(n <= amin, n >= amax)
(* case reflect.Float32, reflect.Float64: val compared with float64(min); halves in the model *)
SizeFloat == /\ pc = "size" /\ cls = "float"
             /\ LET x == IF val.far # 0 THEN val.far * FAR ELSE val.n IN
                IF heq THEN Sized(x < 2 * amin, x > 2 * amax) ELSE Sized(x <= 2 * amin, x >= 2 * amax)
(* case reflect.Int...: val compared with int64(min) *)
SizeInt == /\ pc = "size" /\ cls = "int"
           /\ IF heq THEN Sized(val.n < amin, val.n > amax) ELSE Sized(val.n <= amin, val.n >= amax)
(* case reflect.Uint...:
     pinned:   val </> uint64(min) in BOTH the inclusive and the exclusive part, bound converted to unsigned
     repaired: cmpUintInt(val, bound): a negative bound is below every unsigned value, no conversion of it *)
U(b) == IF b < 0 THEN 256 + b ELSE b
CmpU(v, b) == IF b < 0 \/ v > U(b) THEN 1 ELSE IF v < U(b) THEN -1 ELSE 0
SizeUint == /\ pc = "size" /\ cls = "uint"
            /\ IF Pinned
               THEN Sized(val.n < U(amin), val.n > U(amax))
               ELSE IF heq THEN Sized(CmpU(val.n, amin) < 0, CmpU(val.n, amax) > 0)
                           ELSE Sized(CmpU(val.n, amin) <= 0, CmpU(val.n, amax) >= 0)
(* case reflect.Slice: l := tv.Len(); pinned: exclusive part repeats the inclusive comparisons *)
SizeSlice == /\ pc = "size" /\ cls = "slice"
             /\ IF heq \/ Pinned THEN Sized(val.n < amin, val.n > amax) ELSE Sized(val.n <= amin, val.n >= amax)

(* eq(): per-kind equality of the measure; pinned: slices fall into `default: isEq = false` *)
EqDone(e) == /\ iseq' = e /\ pc' = "ret"
             /\ UNCHANGED <<rule, lo, hi, cls, val, amin, amax, heq, less, more, verdict>>
EqString == pc = "eq" /\ cls = "string" /\ EqDone(Len(val.cps) = amin)
EqInt    == pc = "eq" /\ cls = "int" /\ EqDone(val.n = amin)
EqUint   == pc = "eq" /\ cls = "uint" /\ EqDone(IF Pinned THEN val.n = U(amin) ELSE CmpU(val.n, amin) = 0)
EqFloat  == pc = "eq" /\ cls = "float" /\ EqDone(val.far = 0 /\ val.n = 2 * amin)
EqSlice  == pc = "eq" /\ cls = "slice" /\ EqDone(IF Pinned THEN FALSE ELSE val.n = amin)

(* back in the rule function: which flags produce a clause *)
Ret == /\ pc = "ret"
       /\ verdict' = CASE rule \in {"to", "oto"} -> less \/ more
                       [] rule \in {"ge", "gt"}  -> less
                       [] rule \in {"le", "lt"}  -> more
                       [] rule = "eq"            -> ~iseq
                       [] rule = "noeq"          -> iseq
       /\ pc' = "done"
       /\ UNCHANGED <<rule, lo, hi, cls, val, amin, amax, heq, less, more, iseq>>

Next == \/ Pick
        \/ CallTo \/ CallGe \/ CallLe \/ CallOTo \/ CallGt \/ CallLt \/ CallEq
        \/ SizeString \/ SizeFloat \/ SizeInt \/ SizeUint \/ SizeSlice
        \/ EqString \/ EqInt \/ EqUint \/ EqFloat \/ EqSlice
        \/ Ret
Spec == Init /\ [][Next]_vars

(* --------------------------- B => A on the window ------------------------ *)
MechanismIsContract ==
  pc = "done" => verdict = Violated(rule, lo, hi, Measure(Rep(cls), val))
(* reachability companions (must be VIOLATED when checked as invariants; used once, by hand) *)
NeverViolated == pc = "done" => ~verdict
NeverSatisfied == pc = "done" => verdict
(* the measure of a string is its rune count, which differs from its byte length on the window *)
ASSUME \E n \in 1..3 : ByteLen(Str(n, 20013)) # Len(Str(n, 20013))
=============================================================================
