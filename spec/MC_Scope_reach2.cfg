\* reachability companion 2: the deliberately false invariant must be violated (unknown-rule clauses occur)
CONSTANTS
  Window = "mc"
SPECIFICATION Spec
INVARIANTS NeverUnknown
CHECK_DEADLOCK FALSE
