---------------------------- MODULE Gen_Walker ----------------------------
(* Emits every scenario of the configured window together with the contract's *)
(* expectation (one set of allowed clause sequences per carrier style), and   *)
(* the marker table the harness uses to classify clause bodies.               *)
EXTENDS Walker, Json

RECURSIVE WithText(_)
RulesWithText(rs) == [j \in 1..Len(rs) |-> [key |-> rs[j].key, lo |-> rs[j].lo, hi |-> rs[j].hi, msg |-> rs[j].msg,
                                            text |-> RuleText(rs[j])]]
TypesWithText(ts) == [t \in 1..Len(ts) |->
                        [name |-> ts[t].name,
                         fields |-> [i \in 1..Len(ts[t].fields) |->
                                       [name |-> ts[t].fields[i].name, exp |-> ts[t].fields[i].exp, emb |-> ts[t].fields[i].emb,
                                        ty |-> ts[t].fields[i].ty, rules |-> RulesWithText(ts[t].fields[i].rules)]]]]
WithText(S) == [styles |-> S.styles, types |-> TypesWithText(S.types), rootTy |-> S.rootTy, root |-> S.root]
SeqOfSet(X) == LET RECURSIVE F(_) F(Y) == IF Y = {} THEN <<>> ELSE LET x == CHOOSE x \in Y : TRUE IN <<x>> \o F(Y \ {x}) IN F(X)
ExpJson(S) == [st \in Styles(S) |-> LET e == Expected(S, st) IN [any |-> e.any, seqs |-> SeqOfSet(e.seqs)]]

ASSUME PrintT("@@MARKERS " \o ToJson(MarkerTable))

GenInit == \E S \in Scenarios :
             /\ InitWith(S, S.styles[1])
             /\ PrintT("@@SCN " \o ToJson([scn |-> WithText(S), exp |-> ExpJson(S)]))
GenNext == FALSE /\ UNCHANGED vars
GenSpec == GenInit /\ [][GenNext]_vars
=============================================================================
