\* mechanism predictions for every chain of length <= 4
CONSTANTS
  MaxDepth = 4
  MaxLen = 0
  Guards = {"struct.root", "struct.elem", "var.nil", "map.nil", "map.kind", "url.nil", "in.order", "datetime.count", "re.tail"}
SPECIFICATION GenSpec
CHECK_DEADLOCK FALSE
