\* 2 keys, 2 values, capacity 1, three processes with one call each (every triple of overlapping calls)
CONSTANTS
  Keys = {"k1", "k2"}
  Vals = {"v1", "v2"}
  Caps = {1}
  Procs = {"p1", "p2", "p3"}
  MaxOps = 1
SPECIFICATION CSpec
VIEW cview
INVARIANTS NoRace LockSane NoDup Bounded DomainsAgree IndexAgrees LenNeverSentinel
PROPERTIES EventuallyDone
