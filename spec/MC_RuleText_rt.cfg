\* round trip builder -> join -> split -> parse of the mechanism (repaired parser) on the single-rule window + Pool3 pairs
CONSTANTS
  Fixed = TRUE
  SplitAlpha = {"a"}
  MaxLen = 0
  NV = 2
  NM = 2
INIT InitRT
NEXT Next
CHECK_DEADLOCK FALSE
INVARIANTS StackSmall NoLossInv QuotedInv RulesInDomain RoundTripInv
