CONSTANTS
  MaxDepth = 4
  MaxLen = 4
  Guards = {}
SPECIFICATION TraceSpec
CONSTRAINT HW
POSTCONDITION Accepted
CHECK_DEADLOCK FALSE
