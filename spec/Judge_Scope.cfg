CONSTANTS
  Window = "none"
SPECIFICATION JSpec
CHECK_DEADLOCK FALSE
