\* sampled: chains of 3 struct types, up to 2 child fields each, every choice drawn by TLC (seeded)
CONSTANTS
  Mode = "rand"
  Alpha = "probe"
  Tier = "quick"
  NSample = 300
  Depth = 3
  Width = 2
SPECIFICATION Spec
CHECK_DEADLOCK FALSE
INVARIANTS PrefixOK TerminalOK NilIffNone NoStuck StackSane
PROPERTIES AppendOnly ScnFixed
