\* B => A for the mechanism of the repaired tree, over every cell (all single tokens, all pairs with required)
CONSTANTS
  Variant = "repaired"
  RuleSubset = {}
  Mode = "pairs"
  MaxRules = 2
SPECIFICATION Spec
CHECK_DEADLOCK FALSE
INVARIANTS TypeOK Conforms
PROPERTIES SkipKeepsRest RequiredOnce
