CONSTANTS
  Alpha <- AlphaDef
  MaxLen <- MaxLenDef
SPECIFICATION Spec
INVARIANTS AccessOK PosBound PrefixDone MechIsContract RoundTrip LengthLaw NoRawSpecial EmitEsc
CHECK_DEADLOCK FALSE
