\* sanity: the known deviation (zero value inside an interface{} map value) must be reachable and must really depart
\* from the contract in the mechanism model: TLC has to report NeverDeviates violated
CONSTANTS
  Variant = "repaired"
  RuleSubset = {"phone", "probe"}
  Mode = "pairs"
  MaxRules = 2
SPECIFICATION Spec
CHECK_DEADLOCK FALSE
INVARIANTS NeverDeviates
