CONSTANTS
  KeyMode = "obj"
  MapWrap = FALSE
  Window = "quick_struct"
SPECIFICATION GenSpec
CHECK_DEADLOCK FALSE
