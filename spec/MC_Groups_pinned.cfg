\* sanity configuration: the PINNED mechanism (table keyed by rule text only; VMap wraps the value) must NOT refine
\* the contract - TLC is expected to report a violation of Refines (this is defect D13 as a model counterexample)
CONSTANTS
  KeyMode = "text"
  MapWrap = TRUE
  Window = "mc"
SPECIFICATION Spec
INVARIANTS TypeOK Refines
CHECK_DEADLOCK FALSE
