----------------------------- MODULE MC_Formats -----------------------------
(* C05, design check of the oracle: on EVERY string up to MaxLen over a small  *)
(* alphabet the recognisers of Formats (contract, written from the             *)
(* documentation) agree with a second, mechanism-level formulation:            *)
(*   - character automata of the (repaired) patterns for int / float / email,  *)
(*   - the per-character quote-aware splitter (fast path / slow path with its  *)
(*     quote flag) on documented option lists,                                 *)
(*   - split / join and calendar laws.                                         *)
(* A disagreement is an error of the specification (exit 2), never a verdict.  *)
EXTENDS Formats, TLC

CONSTANT MaxLen
VARIABLE s

Init == s = <<>>
AppendDigit == Len(s) < MaxLen /\ s' = Append(s, 49)
AppendLetter == Len(s) < MaxLen /\ s' = Append(s, 97)
AppendDot == Len(s) < MaxLen /\ s' = Append(s, DOT)
AppendComma == Len(s) < MaxLen /\ s' = Append(s, COMMA)
AppendAt == Len(s) < MaxLen /\ s' = Append(s, AT)
AppendQuote == Len(s) < MaxLen /\ s' = Append(s, QUOTE)
AppendSlash == Len(s) < MaxLen /\ s' = Append(s, SLASH)
AppendMinus == Len(s) < MaxLen /\ s' = Append(s, MINUS)
AppendPlus == Len(s) < MaxLen /\ s' = Append(s, PLUS)
Next == \/ AppendDigit \/ AppendLetter \/ AppendDot \/ AppendComma \/ AppendAt
        \/ AppendQuote \/ AppendSlash \/ AppendMinus \/ AppendPlus
Spec == Init /\ [][Next]_s

\* ---- B: deterministic automata for ^\d+$ and ^\d+\.\d+$  (state 0 = dead)
RECURSIVE RunDFA(_, _, _, _)
RunDFA(delta(_, _), q, t, i) == IF i > Len(t) THEN q ELSE RunDFA(delta, delta(q, t[i]), t, i + 1)
IntDelta(q, c) == IF q \in {1, 2} /\ IsDigit(c) THEN 2 ELSE 0                 \* 1 start, 2 digits
FloatDelta(q, c) == CASE q \in {1, 2} /\ IsDigit(c) -> 2                       \* 1 start, 2 int digits
                      [] q = 2 /\ c = DOT -> 3                                 \* 3 after the dot
                      [] q \in {3, 4} /\ IsDigit(c) -> 4                       \* 4 fraction digits
                      [] OTHER -> 0
IntAgree == IsInt(s) <=> (RunDFA(IntDelta, 1, s, 1) = 2)
FloatAgree == IsFloat(s) <=> (RunDFA(FloatDelta, 1, s, 1) = 4)

\* ---- B: the e-mail pattern  \w+([-+.]\w+)*@\w+([-.]\w+)*\.\w+([-.]\w+)*  as a nondeterministic automaton
S1(c) == c \in {MINUS, PLUS, DOT}
S2(c) == c \in {MINUS, DOT}
EStep(q, c) == CASE q = 0 -> IF IsWordCh(c) THEN {1} ELSE {}
                 [] q = 1 -> (IF IsWordCh(c) THEN {1} ELSE {}) \cup (IF S1(c) THEN {2} ELSE {}) \cup (IF c = AT THEN {3} ELSE {})
                 [] q = 2 -> IF IsWordCh(c) THEN {1} ELSE {}
                 [] q = 3 -> IF IsWordCh(c) THEN {4} ELSE {}
                 [] q = 4 -> (IF IsWordCh(c) THEN {4} ELSE {}) \cup (IF S2(c) THEN {5} ELSE {}) \cup (IF c = DOT THEN {6} ELSE {})
                 [] q = 5 -> IF IsWordCh(c) THEN {4} ELSE {}
                 [] q = 6 -> IF IsWordCh(c) THEN {7} ELSE {}
                 [] q = 7 -> (IF IsWordCh(c) THEN {7} ELSE {}) \cup (IF S2(c) THEN {8} ELSE {})
                 [] q = 8 -> IF IsWordCh(c) THEN {7} ELSE {}
RECURSIVE RunNFA(_, _, _)
RunNFA(Q, t, i) == IF i > Len(t) THEN Q ELSE RunNFA(UNION {EStep(q, t[i]) : q \in Q}, t, i + 1)
EmailAgree == IsEmail(s) <=> (7 \in RunNFA({0}, s, 1))

\* ---- B: the per-character list splitter (separator "/"): fast path without quotes, slow path with a quote flag
SStep(st, v) ==
  LET tmp1 == IF st.inq \/ v # SLASH THEN Append(st.tmp, v) ELSE st.tmp IN
  IF ~st.inq /\ v = QUOTE THEN [tmp |-> tmp1, res |-> st.res, inq |-> TRUE]
  ELSE IF st.inq /\ v = QUOTE THEN [tmp |-> tmp1, res |-> st.res, inq |-> FALSE]
  ELSE IF v = SLASH /\ ~st.inq THEN [tmp |-> <<>>, res |-> Append(st.res, tmp1), inq |-> FALSE]
  ELSE [tmp |-> tmp1, res |-> st.res, inq |-> st.inq]
RECURSIVE RunSplit(_, _, _)
RunSplit(st, t, i) == IF i > Len(t) THEN st ELSE RunSplit(SStep(st, t[i]), t, i + 1)
MachineSplit(t) ==
  IF t = <<>> THEN <<>>
  ELSE IF ~Has(t, QUOTE) THEN Split(t, <<SLASH>>)
  ELSE LET f == RunSplit([tmp |-> <<>>, res |-> <<>>, inq |-> FALSE], t, 1) IN
       IF f.tmp # <<>> THEN Append(f.res, f.tmp) ELSE f.res
AllPiecesDocumented(t) == \A i \in 1..Len(QSplit(t, SLASH)) : RawOptDocumented(QSplit(t, SLASH)[i])
SplitAgree == s # <<>> /\ AllPiecesDocumented(s) => MachineSplit(s) = QSplit(s, SLASH)
\* reachability companion of SplitAgree (checked to be VIOLATED by the negative run in bin/check ... see lib/c05.py)
NoQuotedDocumented == ~(Has(s, QUOTE) /\ Has(s, SLASH) /\ AllPiecesDocumented(s))

\* ---- laws
RECURSIVE Join(_, _)
Join(ps, sep) == IF Len(ps) = 1 THEN ps[1] ELSE ps[1] \o sep \o Join(Tail(ps), sep)
JoinLaw == /\ Join(Split(s, <<COMMA>>), <<COMMA>>) = s
           /\ Join(Split(s, <<MINUS, MINUS>>), <<MINUS, MINUS>>) = s
           /\ \A i \in 1..Len(Split(s, <<COMMA>>)) : ~Has(Split(s, <<COMMA>>)[i], COMMA)
IntsLaw == /\ (IsInts(s, <<COMMA>>) => \A i \in 1..Len(s) : IsDigit(s[i]) \/ s[i] = COMMA)
           /\ (IsInt(s) => IsInts(s, <<COMMA>>) /\ IsUnique(Split(s, <<COMMA>>)))
           /\ (IsFloat(s) => ~IsInt(s))
PrefixLaw == \A k \in 0..Len(s) : HasPrefix(s, Sub(s, 1, k)) /\ HasSuffix(s, Sub(s, k + 1, Len(s))) /\ IsSubstring(Sub(s, k + 1, Len(s)), s)

\* ---- calendar and documentation examples (constant level)
ASSUME \A y \in 1..2400 : LET n == DaysIn(y, 1) + DaysIn(y, 2) + DaysIn(y, 3) + DaysIn(y, 4) + DaysIn(y, 5) + DaysIn(y, 6) + DaysIn(y, 7)
                                   + DaysIn(y, 8) + DaysIn(y, 9) + DaysIn(y, 10) + DaysIn(y, 11) + DaysIn(y, 12)
                          IN n = (IF Leap(y) THEN 366 ELSE 365)
ASSUME Cardinality({y \in 1..400 : Leap(y)}) = 97
ASSUME Leap(2000) /\ Leap(2024) /\ ~Leap(1900) /\ ~Leap(2023) /\ ~Leap(2100)
\* README / examples: in=(a/'/d') has the options a and /d
ASSUME Options(<<40, 97, 47, 39, 47, 100, 39, 41>>) = << <<97>>, <<47, 100>> >>
\* 2022/11-09 10:05:00 is not a datetime with the default separators; 2022-11-09 10:05:00 is
ASSUME ~IsDatetime(<<50,48,50,50,47,49,49,45,48,57,32,49,48,58,48,53,58,48,48>>, <<MINUS>>, <<SPACE>>, <<COLON>>)
ASSUME IsDatetime(<<50,48,50,50,45,49,49,45,48,57,32,49,48,58,48,53,58,48,48>>, <<MINUS>>, <<SPACE>>, <<COLON>>)
\* datetime=',,' : 20221109100500
ASSUME IsDatetime(<<50,48,50,50,49,49,48,57,49,48,48,53,48,48>>, <<>>, <<>>, <<>>)
ASSUME DtSep(<<39, 47, 44, 32, 44, 47, 39>>, 1) = <<SLASH>> /\ DtSep(<<39, 47, 44, 32, 44, 47, 39>>, 2) = <<SPACE>> /\ DtSep(<<39, 47, 44, 32, 44, 47, 39>>, 3) = <<SLASH>>
ASSUME DtSep(<<47>>, 1) = <<SLASH>> /\ DtSep(<<47>>, 2) = <<SPACE>> /\ DtSep(<<47>>, 3) = <<COLON>>
\* re='^a\'b,c$'|msg : the pattern is ^a\'b,c$
ASSUME RePattern(<<39, 94, 97, 92, 39, 98, 44, 99, 36, 39, 124, 109, 115, 103>>) = <<94, 97, 92, 39, 98, 44, 99, 36>>
ASSUME IsIPv6(<<58, 58>>) /\ IsIPv6(<<58, 58, 49>>) /\ ~IsIPv6(<<58, 58, 58>>) /\ ~IsIPv6(<<49>>) /\ IsIPv4(<<49, 46, 50, 46, 51, 46, 52>>)
=============================================================================
