\* all interleavings of 2 concurrent calls + 1 later call over 4 descriptors (same type under two tags, with and
\* without a rule override / per-call functions, one Var call), pools initially empty or holding a dirty object;
\* mechanism flags as read off the code
CONSTANTS
  Calls = {1, 2, 3}
  MCDescs = {1, 2, 3, 8}
  ClearRuleMapOnFree = TRUE
  FreshVC = TRUE
  ReInitBuf = TRUE
  ResetDetaches = TRUE
  KeyWithTag = TRUE
  WriteThrough = FALSE
  EarlyDistinct = FALSE
  MaxObj = 4
SPECIFICATION MSpec
CHECK_DEADLOCK FALSE
INVARIANTS MTypeOK Exclusive NoForeign ResultOwn HandedOutStable PooledClean
PROPERTIES HandedOutFrozen
