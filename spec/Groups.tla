------------------------------- MODULE Groups -------------------------------
(***************************************************************************)
(* C17 - either / botheq groups are judged per object.                     *)
(*                                                                         *)
(* Scenario (wire format = JSON: records, sequences, strings, ints only):  *)
(*   carrier  "struct" | "map" | "url"                                     *)
(*   layout   how the object instances hang in the input (concretised by   *)
(*            the harness; the spec only needs the number of instances)    *)
(*   kinds    Seq(kind)            kind of member field f                   *)
(*   rules    Seq(Seq(ruleId))     group rules carried by field f, in order *)
(*   inst     Seq(Seq(0..2))       inst[i][f] = abstract value of field f   *)
(*                                 of object instance i (0 = empty; equal   *)
(*                                 numbers of one kind = equal values)      *)
(*                                                                         *)
(* Layer A (contract): a group = the fields of ONE object instance that    *)
(*   carry the same rule; either violated <=> all members empty; botheq    *)
(*   <=> members not all equal; single member => rule-writing clause; one  *)
(*   clause per violated group listing all members in declaration order.   *)
(* Layer B (mechanism): validCommon.valid2FieldsMap - a table filled while *)
(*   walking (initValid2FieldsMap) and evaluated once at the end of the    *)
(*   call (validCommon.valid). KeyMode = "text" keys it by the rule text   *)
(*   only (pinned tree, D13), "obj" by (object, rule text) (repaired).     *)
(*   MapWrap = TRUE models VMap storing reflect.ValueOf(reflect.Value):    *)
(*   such a member is never zero and never equal to another (pinned).      *)
(***************************************************************************)
EXTENDS Integers, Sequences, FiniteSets, SequencesExt, TLC

CONSTANTS KeyMode,     \* "text" | "obj"
          MapWrap,     \* BOOLEAN
          Window       \* name of the scenario window (see Space)

GroupRules == <<"e1", "e2", "b1", "b2">>
IsEither(g) == g \in {"e1", "e2"}
RuleText == [e1 |-> "either=1", e2 |-> "either=2", b1 |-> "botheq=1", b2 |-> "botheq=2"]

NInst(layout) == IF layout \in {"single", "ptr", "nested", "nptr"} THEN 1
                 ELSE IF layout \in {"slice3", "nslice3", "nmap3"} THEN 3 ELSE 2

--------------------------------------------------------------------------
(* Layer A *)
NF(scn) == Len(scn.kinds)
Carries(scn, f, g) == \E r \in 1..Len(scn.rules[f]) : scn.rules[f][r] = g
Members(scn, g) == SelectSeq([f \in 1..NF(scn) |-> f], LAMBDA f : Carries(scn, f, g))
Val(scn, i, f) == scn.inst[i][f]

Violated(scn, i, g) ==
  LET M == Members(scn, g) IN
  \/ Len(M) = 1
  \/ IsEither(g) /\ \A k \in 1..Len(M) : Val(scn, i, M[k]) = 0
  \/ ~IsEither(g) /\ \E k \in 1..Len(M) : Val(scn, i, M[k]) # Val(scn, i, M[1])

ClauseKind(g, n) == IF n = 1 THEN (IF IsEither(g) THEN "single_either" ELSE "single_botheq")
                    ELSE (IF IsEither(g) THEN "either" ELSE "botheq")

\* a clause: the group it reports (g; not visible in the clause text), kind + member list, member = <<instance, field>>
Clause(scn, i, g) == LET M == Members(scn, g) IN
  [g |-> g, kind |-> ClauseKind(g, Len(M)), members |-> [k \in 1..Len(M) |-> <<i, M[k]>>]]

UsedRules(scn) == {GroupRules[x] : x \in {y \in 1..Len(GroupRules) : Members(scn, GroupRules[y]) # <<>>}}
ObjClauses(scn, i) == {Clause(scn, i, g) : g \in {h \in UsedRules(scn) : Violated(scn, i, h)}}
Expected(scn) == UNION {ObjClauses(scn, i) : i \in 1..Len(scn.inst)}
\* distinct (instance, group) pairs give distinct clauses, so this set is the bag of clauses the contract demands;
\* Visible drops what the text of a clause cannot show (two groups with the same members give two equal clauses)
Visible(c) == [kind |-> c.kind, members |-> c.members]
ExpectedSeq(scn) == LET e == SetToSeq(Expected(scn)) IN [x \in 1..Len(e) |-> Visible(e[x])]

--------------------------------------------------------------------------
(* Layer B: the table *)
VARIABLES scn,      \* the scenario of this behaviour
          pc,       \* "walk" | "eval" | "done"
          pos,      \* <<instance, field, rule index>> of the next rule occurrence to register
          tab,      \* key -> Seq of members [i, f]
          todo,     \* keys not yet evaluated (Go map iteration: any order)
          out       \* clauses written so far
vars == <<scn, pc, pos, tab, todo, out>>

KeyOf(i, g) == IF KeyMode = "text" THEN <<0, g>> ELSE <<i, g>>
Opaque(s) == MapWrap /\ s.carrier = "map"
MZero(s, m) == ~Opaque(s) /\ Val(s, m[1], m[2]) = 0
MEq(s, m1, m2) == ~Opaque(s) /\ Val(s, m1[1], m1[2]) = Val(s, m2[1], m2[2])

\* next rule occurrence after p (or <<0,0,0>> when the walk is over); fields without rules are skipped
RECURSIVE Advance(_, _)
Advance(s, p) ==
  LET i == p[1] f == p[2] r == p[3] IN
  IF i > Len(s.inst) THEN <<0, 0, 0>>
  ELSE IF f > NF(s) THEN Advance(s, <<i + 1, 1, 1>>)
  ELSE IF r > Len(s.rules[f]) THEN Advance(s, <<i, f + 1, 1>>)
  ELSE p

Register ==
  /\ pc = "walk" /\ pos # <<0, 0, 0>>
  /\ LET i == pos[1] f == pos[2] g == scn.rules[f][pos[3]] k == KeyOf(i, g)
         old == IF k \in DOMAIN tab THEN tab[k] ELSE <<>> IN
     tab' = [x \in DOMAIN tab \cup {k} |-> IF x = k THEN Append(old, <<i, f>>) ELSE tab[x]]
  /\ pos' = Advance(scn, <<pos[1], pos[2], pos[3] + 1>>)
  /\ UNCHANGED <<scn, pc, todo, out>>

EndWalk ==
  /\ pc = "walk" /\ pos = <<0, 0, 0>>
  /\ pc' = "eval" /\ todo' = DOMAIN tab
  /\ UNCHANGED <<scn, pos, tab, out>>

EvalKey(k) ==
  LET g == k[2] M == tab[k] n == Len(M)
      bad == \/ n = 1
             \/ IsEither(g) /\ \A x \in 1..n : MZero(scn, M[x])
             \/ ~IsEither(g) /\ \E x \in 1..n : ~MEq(scn, M[1], M[x])
  IN IF bad THEN {[g |-> g, kind |-> ClauseKind(g, n), members |-> M]} ELSE {}

Eval ==
  /\ pc = "eval"
  /\ \E k \in todo :
       /\ out' = out \cup EvalKey(k)
       /\ todo' = todo \ {k}
  /\ UNCHANGED <<scn, pc, pos, tab>>

Finish ==
  /\ pc = "eval" /\ todo = {}
  /\ pc' = "done"
  /\ UNCHANGED <<scn, pos, tab, todo, out>>

Next == Register \/ EndWalk \/ Eval \/ Finish

--------------------------------------------------------------------------
(* scenario windows *)
KindOK(k, v) == (k = "bool" => v \in {0, 1})
\* botheq groups have members of one kind (the property's domain)
BothEqSameKind(s) == \A g \in {"b1", "b2"} : LET M == Members(s, g) IN
                        \A x \in 1..Len(M) : s.kinds[M[x]] = s.kinds[M[1]]
ValsOK(s) == \A i \in 1..Len(s.inst) : \A f \in 1..NF(s) : KindOK(s.kinds[f], s.inst[i][f])
HasGroup(s) == UsedRules(s) # {}
\* interface-valued maps: emptiness of interface values is another property's business (C03), so no either
\* group of an interface map is all-empty
IfaceOK(s) == (s.carrier = "map" /\ \E f \in 1..NF(s) : s.kinds[f] = "iface") =>
                 \A i \in 1..Len(s.inst) : \A g \in {"e1", "e2"} : LET M == Members(s, g) IN
                     Len(M) >= 2 => \E x \in 1..Len(M) : Val(s, i, M[x]) # 0
WellFormed(s) == HasGroup(s) /\ BothEqSameKind(s) /\ ValsOK(s) /\ IfaceOK(s)

RMenuS == {<<>>, <<"e1">>, <<"b1">>}
RMenuM == {<<>>, <<"e1">>, <<"b1">>, <<"e1", "b1">>, <<"e2">>, <<"e1", "e2">>}
RMenuL == {<<>>, <<"e1">>, <<"b1">>, <<"e1", "b1">>, <<"e2">>, <<"b2">>, <<"b1", "e2">>, <<"e1", "e2">>}
V3all == [1..3 -> 0..2]
V3a == {<<0,0,0>>, <<1,0,0>>, <<0,0,1>>, <<1,1,1>>, <<1,1,0>>, <<1,1,2>>, <<1,2,1>>, <<2,1,1>>, <<0,1,2>>}
V3b == {<<0,0,0>>, <<1,1,1>>, <<1,2,0>>}
V2all == [1..2 -> 0..2]

Scns(carriers, layouts, kindvecs, rmenu, v1, v2) ==
  {s \in [carrier : carriers, layout : layouts, kinds : kindvecs,
          rules : [1..3 -> rmenu], inst : (v1 \X v2) \cup {<<a>> : a \in v1}] :
       Len(s.inst) = NInst(s.layout) /\ WellFormed(s)}

StructLayouts == {"single", "ptr", "nested", "nptr", "slice2", "pslice2", "map2", "pair", "nslice2", "nmap2"}
Space ==
  CASE Window = "mc" ->
         Scns({"struct"}, {"single", "slice2"}, {<<"int", "int", "int">>}, RMenuM, V3a, V3b)
         \cup Scns({"map"}, {"single", "slice2"}, {<<"int", "int", "int">>}, RMenuS, V3a, V3b)
    [] Window = "quick_struct" ->
         Scns({"struct"}, {"single", "nested", "slice2", "pslice2", "map2", "pair", "nslice2", "nmap2"}, {<<"int", "int", "int">>}, RMenuM, V3a, V3b)
         \cup Scns({"struct"}, {"ptr", "nptr", "slice2", "nmap2"}, {<<"string", "string", "int">>}, RMenuM, V3a, V3b)
         \* pointer members (*int): value 0 = nil (empty), 1 = pointer to 0 (NOT empty), 2 = pointer to 5; equality of pointees
         \cup Scns({"struct"}, {"single", "slice2"}, {<<"ptr", "ptr", "ptr">>, <<"ptr", "ptr", "int">>}, RMenuS, V3a, V3b)
         \cup Scns({"struct"}, {"single", "slice2", "nslice2"}, {<<"int", "string", "bool">>}, {<<>>, <<"e1">>, <<"e2">>, <<"e1", "e2">>}, [1..3 -> 0..1], {<<0,0,0>>, <<1,0,0>>})
    [] Window = "quick_flat" ->
         Scns({"map"}, {"single", "slice2"}, {<<"int", "int", "int">>, <<"string", "string", "string">>, <<"bool", "bool", "bool">>}, RMenuM, V3a, V3b)
         \cup Scns({"map"}, {"single", "slice2"}, {<<"iface", "iface", "iface">>}, RMenuS, V3a, V3b)
         \cup Scns({"url"}, {"single"}, {<<"string", "string", "string">>}, RMenuL, V3all, {<<0,0,0>>})
    [] Window = "thorough_struct1" ->
         Scns({"struct"}, StructLayouts, {<<"int", "int", "int">>}, RMenuL, V3a, V3b)
    [] Window = "thorough_struct2" ->
         Scns({"struct"}, StructLayouts, {<<"float", "float", "int">>, <<"string", "bool", "bool">>, <<"uint", "uint", "uint">>, <<"string", "string", "string">>,
                                         <<"ptr", "ptr", "ptr">>, <<"ptr", "ptr", "int">>}, RMenuM, V3a, V3b)
    [] Window = "thorough_struct3" ->
         Scns({"struct"}, StructLayouts, {<<"int", "string", "bool">>, <<"float", "uint", "string">>}, {<<>>, <<"e1">>, <<"e2">>, <<"e1", "e2">>}, V3all, V3b)
    [] Window = "thorough_flat" ->
         Scns({"map"}, {"single", "slice2"}, {<<"int", "int", "int">>, <<"string", "string", "string">>, <<"bool", "bool", "bool">>, <<"float", "float", "float">>}, RMenuL, V3a, V3b)
         \cup Scns({"map"}, {"single", "slice2"}, {<<"iface", "iface", "iface">>}, RMenuM, V3a, V3b)
         \cup Scns({"url"}, {"single"}, {<<"string", "string", "string">>}, RMenuL, V3all, {<<0,0,0>>})

Init == /\ scn \in Space
        /\ pc = "walk"
        /\ pos = Advance(scn, <<1, 1, 1>>)
        /\ tab = <<>>
        /\ todo = {}
        /\ out = {}

Spec == Init /\ [][Next]_vars

--------------------------------------------------------------------------
(* B => A *)
TypeOK == /\ pc \in {"walk", "eval", "done"}
          /\ \A k \in DOMAIN tab : Len(tab[k]) >= 1
\* the table never loses a member, the output only grows
Monotone == [][/\ \A k \in DOMAIN tab : k \in DOMAIN tab' /\ Len(tab'[k]) >= Len(tab[k])
               /\ out \subseteq out']_vars
\* refinement: what the table mechanism reports at the end is exactly what the contract demands
Refines == pc = "done" => out = Expected(scn)
\* nothing is reported that the contract does not demand, at any time (only meaningful once evaluation started)
NoSpurious == pc \in {"eval", "done"} => out \subseteq Expected(scn)
\* reachability companions (deliberately false; must be violated): a violated multi-member group exists
NeverViolatedGroup == ~(pc = "done" /\ \E c \in out : c.kind \in {"either", "botheq"})
=============================================================================
