\* exhaustive: flat struct/var/map/url scenarios over the probe alphabet (B => A on every step)
CONSTANTS
  Mode = "flat"
  Alpha = "probe"
  Tier = "quick"
  NSample = 0
  Depth = 1
  Width = 1
SPECIFICATION Spec
CHECK_DEADLOCK FALSE
INVARIANTS PrefixOK TerminalOK NilIffNone NoStuck StackSane
PROPERTIES AppendOnly ScnFixed
