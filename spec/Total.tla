------------------------------- MODULE Total -------------------------------
(***************************************************************************)
(* C13 - validation is total: bad input or bad rules yield an error, never *)
(* a crash.                                                                *)
(*                                                                         *)
(* Layer A (contract): a call of an entry point is followed by             *)
(*   Return("nil") or Return("error").  There is no Panic action: an       *)
(*   observed panic can be explained by no step of this module.            *)
(*                                                                         *)
(* Layer B (mechanism), two machines that refine A:                        *)
(*  (a) the guard structure of the four entry points (valid/validstruct.go,*)
(*      validvar.go, validmap.go, validurl.go, RemoveValuePtr in common.go)*)
(*      run over a catalogue of value SHAPES: chains of constructors       *)
(*      (nil, typed nil pointer, pointer to pointer with nil inner, nil    *)
(*      elements in slices/arrays/maps, non-string-keyed maps, scalars,    *)
(*      interface holding any of these).  Every reflect operation that is  *)
(*      undefined on its operand (Type/Key on the zero Value, Key of a     *)
(*      non-map type, dereference of a nil *string) sets `fault`;          *)
(*      invariant NoFault.                                                 *)
(*  (b) the index arithmetic of the rule-argument scanners (validfn.go,    *)
(*      common.go): ParseValidNameKV's two index searches, parseTagTo's    *)
(*      split on "~", in/include's first "(" / last ")", Re's quote scan,  *)
(*      Datetime's split + assignment into 3 slots - over ALL argument     *)
(*      strings up to MaxLen over a 12-symbol alphabet.  Every index or    *)
(*      slice expression is announced in `acc` before it is used;          *)
(*      invariant AccessOK (idx \in DOMAIN / 0 <= lo <= hi <= len).        *)
(* Guards = AllGuards is the repaired code; every guard the pinned code    *)
(* lacked is a named element, and leaving one out (MC_Total_*_pinned.cfg,  *)
(* and one run per guard in the thorough tier) must violate the            *)
(* invariants - they are not vacuous, and each omission is a prediction    *)
(* that the harness reproduces on the pinned tree.                         *)
(***************************************************************************)
EXTENDS Integers, Sequences, FiniteSets, TLC

CONSTANTS MaxDepth,   \* longest shape chain (wrappers + leaf)
          MaxLen,     \* longest enumerated rule argument
          Guards      \* the guards present in the code (AllGuards = the repaired code; {} = the pinned code)

----------------------------------------------------------------------------
(* Domains (printed by Gen_Total for the harness - single source)          *)

AllGuards == {"struct.root", "struct.elem", "var.nil", "map.nil", "map.kind", "url.nil",   \* shape guards
              "in.order", "datetime.count", "re.tail"}                                       \* scanner guards
Guarded(g) == g \in Guards
(* guards whose omission alone makes an operation undefined (the other two only turn a silent nil / a generic
   clause into the proper "src ... is nil" error) *)
NecessaryGuards == AllGuards \ {"struct.root", "map.nil"}

EPs == {"Struct", "Var", "Map", "Url"}
Outcomes == {"nil", "error"}

Wrappers == {"ptr", "nilptr", "slice", "nilslice", "array", "mapS", "mapI", "nilmap", "iface", "field"}
Leaves == {"nilif", "struct", "string", "estring", "int", "uint", "bool", "float", "time", "func", "chan"}

IsShape(s) == /\ Len(s) \in 1..MaxDepth
              /\ s[Len(s)] \in Leaves
              /\ \A i \in 1..(Len(s) - 1) : s[i] \in Wrappers
ShapesOfLen(n) == {w \o <<l>> : w \in [1..(n - 1) -> Wrappers], l \in Leaves}
Shapes == UNION {ShapesOfLen(n) : n \in 1..MaxDepth}

(* rules used on shapes, with the class the walkers dispatch on *)
ShapeRuleClass == [r \in {"required", "exist", "either=1", "botheq=1", "to=1~3", "eq=1", "in=(a1/7)", "unique", "ints",
                          "phone", "datetime", "re='^a'", "json", "nosuch", ""} |->
                     CASE r = "required" -> "required"
                       [] r = "exist" -> "exist"
                       [] r \in {"either=1", "botheq=1"} -> "group"
                       [] r = "nosuch" -> "unknown"
                       [] r = "" -> "none"
                       [] OTHER -> "fn"]
ShapeRules == DOMAIN ShapeRuleClass
RuleClasses == {"required", "exist", "group", "unknown", "none", "fn"}

RuleNames == {"required", "exist", "either", "botheq", "to", "ge", "le", "oto", "gt", "lt", "eq", "noeq", "in", "include",
              "phone", "email", "idcard", "year", "year2month", "date", "datetime", "int", "ints", "float", "re", "ip",
              "ipv4", "ipv6", "unique", "json", "prefix", "suffix", "file", "dir"}
Alphabet == {"a", "1", "~", ",", "'", "(", ")", "/", "|", "=", "\\", "-"}
Forms == {"eq", "raw"}          \* name=arg | name immediately followed by arg
(* value kinds the rule texts are applied to: a short string, an int, a slice - with every argument string - and
   three strings aimed at the value-scanning rules (40 characters that need escaping, 900 bytes, multi-byte text)
   with every argument string of length <= 2 *)
Vals == {"str", "int", "slice", "esc", "long", "uni"}
ValMaxLen == [v \in Vals |-> IF v \in {"str", "int", "slice"} THEN 4 ELSE 2]
TierMaxLen(tier) == IF tier = "thorough" THEN 4 ELSE 3
BatchMaxLen(tier, v) == IF ValMaxLen[v] < TierMaxLen(tier) THEN ValMaxLen[v] ELSE TierMaxLen(tier)
Args(n) == UNION {[1..k -> Alphabet] : k \in 0..n}
(* longer malformed arguments, directed at the scanners (quoted separators reach Datetime only inside quotes) *)
Directed == { <<"'", "a", ",", "a", ",", "a", ",", "a", "'">>,        \* 'a,a,a,a'   four datetime separators
              <<"'", ",", ",", ",", "'">>,                            \* ',,,'
              <<"'", "a", ",", "a", ",", "a", "'">>,                  \* 'a,a,a'
              <<"'", "/", ",", "-", ",", "/", "'", "|", "a", "a">>,   \* '/,-,/'|aa
              <<"'", ",", ",", ",", ",", ",", ",", ",", "'">>,
              <<")", "a", "/", "1", "(">>,                            \* )a/1(
              <<"(", "a", "/", "1", ")", ")", "(">>,
              <<"(", "'", "a", "/", "1", "'", "/", "a", ")">>,        \* ('a/1'/a)
              <<"(", "a", "/", "1">>, <<"a", "/", "1", ")">>,
              <<"'", "a", "\\", "'", "a", "'">>,                      \* 'a\'a'
              <<"'", "a", "\\", "'">>, <<"'", "\\", "\\", "'", "'">>,
              <<"'", "(", "a", "'", "|", "a", "a">>,                  \* '(a'|aa   invalid regular expression
              <<"'", "a", "'", "'", "a", "'", "'">>,
              <<"1", "~", "1", "~", "1", "~", "1">>, <<"-", "1", "~", "-", "-", "1">>,
              <<"1", "1", "1", "1", "1", "1", "1", "1", "1", "1", "1", "1", "1", "1", "1", "1", "1", "1", "1", "1", "~", "1">>,
              <<"|", "|", "|", "|", "|">>, <<"=", "=", "|", "=", "|">>, <<"a", "|", "a", "a", "|", "=", "a">> }

(* The catalogue of shape scenarios per tier (the harness enumerates exactly this product from the printed factors):
   quick    = every chain of length <= 3 x ShapeRules  +  chains of length 4 over DeepWrappers x ClassReps
   thorough = every chain of length <= 4 x ShapeRules *)
DeepWrappers == {"ptr", "nilptr", "slice", "mapS", "iface", "field"}
ClassReps == {"required", "exist", "either=1", "eq=1", "nosuch", ""}
InCatalogue(tier, s, r) ==
  /\ Len(s) \in 1..4 /\ s[Len(s)] \in Leaves /\ \A i \in 1..(Len(s) - 1) : s[i] \in Wrappers
  /\ IF tier = "thorough" THEN r \in ShapeRules
     ELSE \/ Len(s) <= 3 /\ r \in ShapeRules
          \/ Len(s) = 4 /\ r \in ClassReps /\ \A i \in 1..3 : s[i] \in DeepWrappers

(* number of argument strings of length 0..n over the alphabet *)
RECURSIVE NArgs(_)
NArgs(n) == IF n = 0 THEN 1 ELSE 1 + Cardinality(Alphabet) * NArgs(n - 1)

----------------------------------------------------------------------------
(* Layer A                                                                 *)

VARIABLES cur,    \* "idle" | "pending"
          ret     \* "none" | outcome of the last call
avars == <<cur, ret>>

ACall == cur = "idle" /\ cur' = "pending" /\ ret' = "none"
AReturn(o) == cur = "pending" /\ o \in Outcomes /\ cur' = "idle" /\ ret' = o
ANext == ACall \/ \E o \in Outcomes : AReturn(o)

----------------------------------------------------------------------------
(* Layer B (a): reflect over chain shapes                                  *)

KindOf(t) == CASE t \in {"ptr", "nilptr"} -> "Ptr"
               [] t \in {"slice", "nilslice"} -> "Slice"
               [] t = "array" -> "Array"
               [] t \in {"mapS", "mapI", "nilmap"} -> "Map"
               [] t \in {"iface", "nilif"} -> "Interface"
               [] t \in {"field", "struct", "time"} -> "Struct"
               [] t \in {"string", "estring"} -> "String"
               [] t = "int" -> "Int"
               [] t = "uint" -> "Uint"
               [] t = "bool" -> "Bool"
               [] t = "float" -> "Float"
               [] t = "func" -> "Func"
               [] t = "chan" -> "Chan"
NumKinds == {"Int", "Uint", "Float"}

(* reflect.ValueOf(src) sees through the interface the argument travels in *)
RECURSIVE TopOf(_, _)
TopOf(sh, p) == IF sh[p] = "iface" THEN TopOf(sh, p + 1) ELSE p
TopNil(sh) == sh[TopOf(sh, 1)] = "nilif"

(* RemoveValuePtr: for v.Kind() == Ptr { v = v.Elem() }; Elem of a nil pointer is the zero Value *)
RECURSIVE Strip(_, _)
Strip(sh, p) == IF sh[p] = "ptr" THEN Strip(sh, p + 1)
                ELSE IF sh[p] = "nilptr" THEN [p |-> p, valid |-> FALSE]
                ELSE [p |-> p, valid |-> TRUE]

RECURSIVE IsZero(_, _)
IsZero(sh, p) == CASE sh[p] \in {"nilptr", "nilslice", "nilmap", "nilif", "estring"} -> TRUE
                   [] sh[p] \in {"array", "field"} -> IsZero(sh, p + 1)
                   [] sh[p] = "iface" -> sh[p + 1] \in {"iface", "nilif"} /\ IsZero(sh, p + 1)   \* interfaces do not nest
                   [] OTHER -> FALSE
HasElem(t) == t \in {"slice", "array", "mapS", "mapI"}      \* the generated containers hold exactly one element
EmptyColl(t) == t \in {"nilslice", "nilmap"}

VARIABLES ep, shape, rc,     \* the scenario: entry point, shape, rule class
          pc, pos, gather, strict, dirty, fault, steps
wvars == <<ep, shape, rc, pc, pos, gather, strict, dirty, fault, steps>>

Tok == shape[pos]
Goto(l) == pc' = l /\ steps' = steps + 1
Ret(o) == /\ AReturn(o) /\ Goto("returned")
          /\ UNCHANGED <<ep, shape, rc, pos, gather, strict, dirty, fault>>
Fault(f) == /\ fault' = f /\ Goto("undefined")
            /\ UNCHANGED <<avars, ep, shape, rc, pos, gather, strict, dirty>>
Step(l, p, g, s, d) == /\ Goto(l) /\ pos' = p /\ gather' = g /\ strict' = s /\ dirty' = d
                       /\ UNCHANGED <<avars, ep, shape, rc, fault>>
Jump(l) == Step(l, pos, gather, strict, dirty)
Finish == Ret(IF dirty THEN "error" ELSE "nil")

Begin == /\ pc = "idle" /\ ACall
         /\ pc' = ep /\ steps' = 1
         /\ UNCHANGED <<ep, shape, rc, pos, gather, strict, dirty, fault>>

(* every entry point: `if src == nil { return errors.New("src is nil") }` *)
NilCheck == /\ pc \in EPs
            /\ IF TopNil(shape) THEN Ret("error")
               ELSE Step(pc \o ".strip", TopOf(shape, 1), FALSE, FALSE, FALSE)

(* ---------------- Struct ---------------- *)
SStrip == /\ pc = "Struct.strip"
          /\ LET r == Strip(shape, pos) IN
             IF ~r.valid
             THEN IF Guarded("struct.root") THEN Ret("error")     \* case reflect.Invalid: src "<type>" is nil
                  ELSE Step("V.enter", pos, FALSE, FALSE, FALSE)   \* default: validate("", <zero Value>, false)
             ELSE LET t == shape[r.p] IN
                  IF KindOf(t) \in {"Slice", "Array", "Map"}
                  THEN IF HasElem(t) THEN Step("V.enter", r.p + 1, TRUE, FALSE, FALSE)
                       ELSE Step("finish", r.p, FALSE, FALSE, FALSE)
                  ELSE Step("V.enter", r.p, FALSE, FALSE, FALSE)

(* VStruct.validate(structName, value, isValidGatherObj) *)
VEnter == /\ pc = "V.enter"
          /\ LET r == Strip(shape, pos) IN
             IF ~r.valid
             THEN IF Guarded("struct.elem") THEN Jump("finish")   \* nil element / nil inner pointer: nothing to validate
                  ELSE Fault("Struct: Value.Type on zero Value")
             ELSE Step("V.kind", r.p, gather, strict, dirty)
VKind == /\ pc = "V.kind"
         /\ IF KindOf(Tok) # "Struct"
            THEN Step("finish", pos, gather, strict, IF gather THEN dirty ELSE TRUE)   \* "is not struct" unless element
            ELSE IF Tok = "time" THEN Jump("finish")               \* no exported fields
            ELSE Jump("V.rule")
(* the one field: for "field" the value is the rest of the chain, for the leaf struct a non-empty string *)
FieldIsLeafString == Tok = "struct"
FZero == IF FieldIsLeafString THEN FALSE ELSE IsZero(shape, pos + 1)
FTok == IF FieldIsLeafString THEN "string" ELSE shape[pos + 1]
VRule == /\ pc = "V.rule"
         /\ CASE rc = "none" \/ FTok = "time" -> Jump("finish")       \* fields of type time.Time carry no rules
              [] rc = "unknown" -> Step("finish", pos, gather, strict, TRUE)
              \* the harness gives a group two members (two fields of the same type and value): either reports iff both
              \* are empty, botheq never - the rule class does not tell them apart, so both outcomes are allowed here
              [] rc = "group" -> \E d \in {dirty, TRUE} : Step("finish", pos, gather, strict, d)
              [] rc = "required" -> IF EmptyColl(FTok) \/ FZero THEN Step("finish", pos, gather, strict, TRUE)
                                    ELSE Step("V.exist", pos, gather, FALSE, dirty)
              [] rc = "exist" -> Step("V.exist", pos, gather, TRUE, dirty)
              [] rc = "fn" -> IF FZero THEN Jump("finish") ELSE Jump("V.callfn")
VCallFn == /\ pc \in {"V.callfn", "Var.callfn", "Map.callfn"}
           /\ \E d \in {dirty, TRUE} : Step("finish", pos, gather, strict, d)    \* a rule function appends a clause or not
(* static pointee of a pointer chain starting at p (RemoveTypePtr): only pointers to structs are descended into (fix 32d2500) *)
RECURSIVE PointeeKind(_, _)
PointeeKind(sh, p) == IF p \in DOMAIN sh /\ KindOf(sh[p]) = "Ptr" THEN PointeeKind(sh, p + 1)
                      ELSE IF p \in DOMAIN sh THEN KindOf(sh[p]) ELSE "Invalid"
VExist == /\ pc = "V.exist"
          /\ IF FZero THEN Jump("finish")
             ELSE CASE KindOf(FTok) = "Ptr" /\ PointeeKind(shape, pos + 1) = "Struct" -> Step("V.enter", pos + 1, FALSE, strict, dirty)
                    [] KindOf(FTok) = "Struct" -> IF FTok = "time" THEN Jump("finish")
                                                  ELSE Step("V.enter", pos + 1, FALSE, strict, dirty)
                    [] KindOf(FTok) \in {"Slice", "Array", "Map"} ->
                         IF HasElem(FTok) THEN Step("V.enter", pos + 2, TRUE, strict, dirty) ELSE Jump("finish")
                    [] OTHER -> Step("finish", pos, gather, strict, IF strict THEN TRUE ELSE dirty)

(* ---------------- Var ---------------- *)
RECURSIVE VarSupported(_, _)
VarSupported(sh, p) == CASE KindOf(sh[p]) \in {"String", "Bool"} -> TRUE      \* bool since fix 2c620dd
                         [] KindOf(sh[p]) \in {"Slice", "Array"} -> VarSupported(sh, p + 1)   \* ty = ty.Elem()
                         [] OTHER -> KindOf(sh[p]) \in NumKinds
VarStrip == /\ pc = "Var.strip"
            /\ LET r == Strip(shape, pos) IN
               IF ~r.valid
               THEN IF Guarded("var.nil") THEN Ret("error") ELSE Fault("Var: Value.Type on zero Value")
               ELSE IF ~VarSupported(shape, r.p) THEN Ret("error")                \* src no support
               ELSE Step("Var.rule", r.p, FALSE, FALSE, FALSE)
VarRule == /\ pc = "Var.rule"
           /\ CASE rc \in {"none", "unknown", "exist", "group"} -> Step("finish", pos, gather, strict, TRUE)
                [] rc = "required" -> Step("finish", pos, gather, strict, EmptyColl(Tok) \/ IsZero(shape, pos))
                [] rc = "fn" -> IF IsZero(shape, pos) THEN Jump("finish") ELSE Jump("Var.callfn")

(* ---------------- Map ---------------- *)
MapStrip == /\ pc = "Map.strip"
            /\ LET r == Strip(shape, pos) IN
               IF ~r.valid
               THEN IF Guarded("map.nil") THEN Ret("error")                          \* case reflect.Invalid
                    ELSE Step("Map.invalid", r.p, FALSE, FALSE, FALSE)                  \* default: validate("", <zero Value>)
               ELSE IF KindOf(shape[r.p]) \in {"Slice", "Array"}
                    THEN IF HasElem(shape[r.p]) THEN Step("Map.validate", r.p + 1, FALSE, FALSE, FALSE)
                         ELSE Step("finish", r.p, FALSE, FALSE, FALSE)
                    ELSE Step("Map.validate", r.p, FALSE, FALSE, FALSE)
MapInvalid == /\ pc = "Map.invalid"
              /\ IF Guarded("map.kind") THEN Step("finish", pos, gather, strict, TRUE)   \* Kind() = Invalid: val must map
                 ELSE Fault("Map: Value.Type on zero Value")
MapValidate == /\ pc = "Map.validate"
               /\ IF KindOf(Tok) # "Map"
                  THEN IF Guarded("map.kind") THEN Step("finish", pos, gather, strict, TRUE)   \* val must map
                       ELSE Fault("Map: Key of non-map type")                             \* tv.Type().Key() first
                  ELSE IF Tok = "mapI" THEN Step("finish", pos, gather, strict, TRUE)     \* map key must string
                  ELSE IF Tok = "nilmap"      \* no entry to walk; the scan for absent required keys (fix a4b66b2) reports the ruled key
                       THEN IF rc = "required" THEN Step("finish", pos, gather, strict, TRUE) ELSE Jump("finish")
                  ELSE Jump("Map.rule")
MapRule == /\ pc = "Map.rule"
           /\ CASE rc = "none" -> Jump("finish")
                [] rc \in {"unknown", "exist", "group"} -> Step("finish", pos, gather, strict, TRUE)
                [] rc = "required" -> Step("finish", pos, gather, strict, IsZero(shape, pos + 1))
                [] rc = "fn" -> IF IsZero(shape, pos + 1) THEN Jump("finish") ELSE Jump("Map.callfn")

(* ---------------- Url ---------------- *)
UrlSwitch == /\ pc = "Url.strip"
             \* the generated strings carry no query part, so nothing is walked; the scan for absent required keys
             \* (fix a4b66b2) reports the ruled key under `required`
             /\ CASE KindOf(Tok) = "String" -> Ret(IF rc = "required" THEN "error" ELSE "nil")
                  [] Tok = "ptr" /\ KindOf(shape[pos + 1]) = "String" -> Ret(IF rc = "required" THEN "error" ELSE "nil")
                  [] Tok = "nilptr" /\ KindOf(shape[pos + 1]) = "String" ->
                       IF Guarded("url.nil") THEN Ret("error") ELSE Fault("Url: nil *string dereference")
                  [] OTHER -> Ret("error")                                 \* src must is string/*string

FinishStep == pc = "finish" /\ Finish
Done == pc = "returned" /\ UNCHANGED <<avars, wvars>>

WNext == \/ Begin \/ NilCheck
         \/ SStrip \/ VEnter \/ VKind \/ VRule \/ VCallFn \/ VExist
         \/ VarStrip \/ VarRule
         \/ MapStrip \/ MapInvalid \/ MapValidate \/ MapRule
         \/ UrlSwitch
         \/ FinishStep \/ Done

WInit == /\ ep \in EPs /\ shape \in Shapes /\ rc \in RuleClasses
         /\ pc = "idle" /\ pos = 1 /\ gather = FALSE /\ strict = FALSE /\ dirty = FALSE /\ fault = "none" /\ steps = 0
         /\ cur = "idle" /\ ret = "none"

----------------------------------------------------------------------------
(* Layer B (b): scanners over rule text (Go indices are 0-based)           *)

IndexOf(s, c) == IF \E k \in 1..Len(s) : s[k] = c
                 THEN (CHOOSE k \in 1..Len(s) : s[k] = c /\ \A m \in 1..(k - 1) : s[m] # c) - 1 ELSE -1
LastIndexOf(s, c) == IF \E k \in 1..Len(s) : s[k] = c
                     THEN (CHOOSE k \in 1..Len(s) : s[k] = c /\ \A m \in (k + 1)..Len(s) : s[m] # c) - 1 ELSE -1
(* s[a:b] and s[i]; out-of-range uses yield a marker instead of stopping TLC - AccessOK reports them *)
GoSlice(s, a, b) == IF 0 <= a /\ a <= b /\ b <= Len(s) THEN SubSeq(s, a + 1, b) ELSE <<"OOB">>
GoAt(s, i) == IF i + 1 \in DOMAIN s THEN s[i + 1] ELSE "OOB"
AccSlice(a, b, n) == [kind |-> "slice", lo |-> a, hi |-> b, len |-> n]
AccIndex(i, n) == [kind |-> "index", lo |-> i, hi |-> i, len |-> n]
InDomain(a) == IF a.kind = "index" THEN 0 <= a.lo /\ a.lo < a.len ELSE 0 <= a.lo /\ a.lo <= a.hi /\ a.hi <= a.len

RECURSIVE SplitOn(_, _)
SplitOn(s, c) == LET k == IndexOf(s, c) IN
                 IF k = -1 THEN <<s>> ELSE <<SubSeq(s, 1, k)>> \o SplitOn(SubSeq(s, k + 2, Len(s)), c)
RECURSIVE TrimLeft(_, _)
TrimLeft(s, c) == IF Len(s) > 0 /\ s[1] = c THEN TrimLeft(Tail(s), c) ELSE s
RECURSIVE TrimRight(_, _)
TrimRight(s, c) == IF Len(s) > 0 /\ s[Len(s)] = c THEN TrimRight(SubSeq(s, 1, Len(s) - 1), c) ELSE s
TrimBoth(s, c) == TrimRight(TrimLeft(s, c), c)
IsAtoi(s) == LET d == IF Len(s) > 0 /\ s[1] = "-" THEN Tail(s) ELSE s IN
             Len(d) > 0 /\ Len(d) < 10 /\ \A k \in 1..Len(d) : d[k] = "1"

Scanners == {"Parse", "ToBounds", "InBrackets", "ReExtract", "DatetimeSeps"}

(* ParseValidNameKV as repaired (fix 69e7d1e): the custom message is everything after the FIRST "|"; the key/value *)
(* split on "=" is done on the text before it.  The accesses it makes and its result:                             *)
ParseHead(t) == LET b == IndexOf(t, "|") IN IF b = -1 THEN t ELSE GoSlice(t, 0, b)
ParseAcc(t) ==
  LET b == IndexOf(t, "|")
      h == ParseHead(t)
      i == IndexOf(h, "=") IN
  (IF b # -1 THEN {AccSlice(b + 1, Len(t), Len(t)), AccSlice(0, b, Len(t))} ELSE {}) \cup
  (IF i # -1 THEN {AccSlice(0, i, Len(h)), AccSlice(i + 1, Len(h), Len(h))} ELSE {})
ParseRes(t) ==
  LET b == IndexOf(t, "|")
      h == ParseHead(t)
      m == IF b = -1 THEN <<>> ELSE GoSlice(t, b + 1, Len(t))
      i == IndexOf(h, "=") IN
  IF i = -1 THEN [key |-> h, value |-> <<>>, msg |-> m]
  ELSE [key |-> GoSlice(h, 0, i), value |-> GoSlice(h, i + 1, Len(h)), msg |-> m]

VARIABLES sc, text, spc, si, sparts, acc, sres, sout
svars == <<sc, text, spc, si, sparts, acc, sres, sout>>

SGoto(l, i, parts, a, r, o) == /\ spc' = l /\ si' = i /\ sparts' = parts /\ acc' = a /\ sres' = r /\ sout' = o
                               /\ UNCHANGED <<sc, text>>
(* a scanner finishes like every rule function: it returns (a clause was written or not); A-level Return *)
SDoneP(r, o, a, parts) == SGoto("done", si, parts, a, r, o) /\ AReturn(IF r = "ok" THEN "nil" ELSE "error")
SDone(r, o, a) == SDoneP(r, o, a, sparts)

SBegin == /\ spc = "idle" /\ ACall
          /\ SGoto("parse", 0, <<>>, {}, "none", <<>>)
SParse == /\ spc = "parse" /\ UNCHANGED avars
          /\ IF sc = "ReExtract" THEN SGoto("re.find", 0, <<>>, {}, "none", <<>>)       \* Re scans validName itself
             ELSE SGoto(sc, 0, <<>>, ParseAcc(text), "none", <<>>)
PV == ParseRes(text).value
SParseOnly == /\ spc = "Parse"
              /\ SDoneP("ok", ParseRes(text).key, {}, <<ParseRes(text).key, ParseRes(text).value, ParseRes(text).msg>>)

(* parseTagTo *)
SToBounds == /\ spc = "ToBounds"
             /\ LET parts == SplitOn(PV, "~") IN
                IF Len(parts) # 2 THEN SDone("err", <<>>, {})
                ELSE IF ~IsAtoi(parts[1]) \/ ~IsAtoi(parts[2])
                     THEN SDone("atoi", <<>>, {AccIndex(0, Len(parts)), AccIndex(1, Len(parts))})   \* strconv.Atoi error
                     ELSE SDone("ok", <<>>, {AccIndex(0, Len(parts)), AccIndex(1, Len(parts))})

(* in / include *)
SInBrackets == /\ spc = "InBrackets"
               /\ LET li == IndexOf(PV, "(")
                      ri == LastIndexOf(PV, ")") IN
                  IF li = -1 \/ (IF Guarded("in.order") THEN ri < li ELSE ri = -1) THEN SDone("err", <<>>, {})
                  ELSE SDone("ok", GoSlice(PV, li + 1, ri), {AccSlice(li + 1, ri, Len(PV))})

(* Datetime *)
DefaultSeps == << <<"-">>, <<" ">>, <<":">> >>
SDatetime == /\ spc = "DatetimeSeps"
             /\ IF PV = <<>> THEN SDoneP("ok", <<>>, {}, DefaultSeps)
                ELSE LET parts == SplitOn(TrimBoth(PV, "'"), ",") IN
                     IF Guarded("datetime.count") /\ Len(parts) > 3 THEN SDone("err", <<>>, {})
                     ELSE SDoneP("ok", <<>>, {AccIndex(k - 1, 3) : k \in 1..Len(parts)},      \* defaultSplit[i] = split
                                 [k \in 1..3 |-> IF k <= Len(parts) THEN parts[k] ELSE DefaultSeps[k]])

(* Re: splitIndex, then one step per loop iteration *)
SReFind == /\ spc = "re.find" /\ UNCHANGED avars
           /\ LET q == IndexOf(text, "'") IN
              IF q = -1 \/ (Guarded("re.tail") /\ q = Len(text) - 1) THEN SGoto("re.err", q, <<>>, {}, "err", <<>>)
              ELSE SGoto("re.loop", q + 1, <<q>>, {}, "none", <<>>)
SReErr == spc = "re.err" /\ SDone("err", <<>>, {})
SReLoop == /\ spc = "re.loop"
           /\ LET l == Len(text)
                  q == sparts[1] IN
              IF si >= l                                                   \* loop condition i < l fails
              THEN /\ SGoto("re.tail", si, sparts, {AccSlice(0, q, l), AccSlice(si + 1, l, l)}, "none", sout)
                   /\ UNCHANGED avars
              ELSE IF si + 1 > l - 1                                       \* no closing quote
                   THEN /\ SGoto("re.err", si, sparts, {AccIndex(si, l)}, "err", <<>>) /\ UNCHANGED avars
                   ELSE IF GoAt(text, si) # "\\" /\ GoAt(text, si + 1) = "'"
                        THEN /\ SGoto("re.tail", si, sparts,
                                      {AccIndex(si, l), AccIndex(si + 1, l), AccSlice(0, q, l), AccSlice(si + 1, l, l)},
                                      "none", Append(sout, GoAt(text, si)))
                             /\ UNCHANGED avars
                        ELSE /\ SGoto("re.loop", si + 1, sparts, {AccIndex(si, l), AccIndex(si + 1, l)},
                                      "none", Append(sout, GoAt(text, si)))
                             /\ UNCHANGED avars
(* newValidName = validName[:splitIndex] + validName[i+1:], parsed again for the message *)
SReTail == /\ spc = "re.tail"
           /\ LET nn == GoSlice(text, 0, sparts[1]) \o GoSlice(text, si + 1, Len(text)) IN
              SDone("ok", sout, ParseAcc(nn))

ScanMsg == IF sc = "ReExtract" /\ sres = "ok"
           THEN ParseRes(GoSlice(text, 0, sparts[1]) \o GoSlice(text, si + 1, Len(text))).msg
           ELSE ParseRes(text).msg
SFinished == spc = "done" /\ UNCHANGED <<avars, svars>>

SNext == \/ SBegin \/ SParse \/ SParseOnly \/ SToBounds \/ SInBrackets \/ SDatetime
         \/ SReFind \/ SReErr \/ SReLoop \/ SReTail \/ SFinished

Texts == {<<"N">> \o f \o a : f \in {<<"=">>, <<>>}, a \in Args(MaxLen) \cup Directed}
SInit == /\ sc \in Scanners /\ text \in Texts
         /\ spc = "idle" /\ si = 0 /\ sparts = <<>> /\ acc = {} /\ sres = "none" /\ sout = <<>>
         /\ cur = "idle" /\ ret = "none"

----------------------------------------------------------------------------
(* the two machines share layer A; the idle one keeps its variables *)
WIdle == /\ ep = "Struct" /\ shape = <<"nilif">> /\ rc = "none" /\ pc = "off" /\ pos = 1 /\ gather = FALSE
         /\ strict = FALSE /\ dirty = FALSE /\ fault = "none" /\ steps = 0
SIdle == /\ sc = "Parse" /\ text = <<>> /\ spc = "off" /\ si = 0 /\ sparts = <<>> /\ acc = {} /\ sres = "none" /\ sout = <<>>

vars == <<avars, wvars, svars>>
ShapeSpec == (WInit /\ SIdle) /\ [][WNext /\ UNCHANGED svars]_vars
ScanSpec == (SInit /\ WIdle) /\ [][SNext /\ UNCHANGED wvars]_vars

----------------------------------------------------------------------------
(* Properties *)
NoFault == fault = "none"                                      \* no reflect operation outside its domain
AccessOK == \A a \in acc : InDomain(a)                         \* idx \in DOMAIN before every access
Terminates == steps <= 4 * MaxDepth + 6                        \* bounded number of steps, then "returned"
ReturnedOK == (pc = "returned" => ret \in Outcomes /\ cur = "idle") /\ (spc = "done" => ret \in Outcomes /\ cur = "idle")
NoUndefined == pc # "undefined"
ScanTyped == /\ sres \in {"none", "ok", "err", "atoi"}
             /\ spc = "done" => sres \in {"ok", "err", "atoi"}
             /\ \A k \in 1..Len(sout) : sout[k] # "OOB"
(* B refines A: every step of either machine is a step of the contract or leaves cur/ret alone *)
RefinesA == [][ANext]_avars
=============================================================================
