\* pinned mechanism (D16) (mech/DRIFT column only; the verdict columns do not depend on Pinned)
CONSTANTS
  Pinned = TRUE
  MaxDepth = 0
  SibSet = "small"
SPECIFICATION JSpec
CHECK_DEADLOCK FALSE
