--------------------------- MODULE Gen_RuleText ---------------------------
(* Emits the windows of C14 as component sets (the harness forms the products and the      *)
(* judge re-checks membership of every rule in the grammar):                                *)
(*   @@ALPHA  splitter alphabet + maximal length of the arbitrary strings (by IOEnv.TIER)     *)
(*   @@VALS   per key the documented values of <= 3 symbols, @@MSGS the documented messages *)
(*   @@POOL2 / @@POOL3  the rule pools for lists of two / three rules                       *)
(*   @@PLAN   the (nv,nm) windows of the single-rule sweep (IOEnv.TIER)                     *)
EXTENDS RuleText, Json, IOUtils

RECURSIVE ToSeq(_)
ToSeq(S) == IF S = {} THEN <<>> ELSE LET x == CHOOSE y \in S : TRUE IN <<x>> \o ToSeq(S \ {x})

Quick == IOEnv.TIER # "thorough"
Plan  == IF Quick THEN <<<<2, 2>>>> ELSE <<<<3, 2>>, <<2, 3>>>>

ASSUME PrintT("@@ALPHA " \o ToJson([alpha |-> ToSeq(SplitAlpha), maxlen |-> IF Quick THEN 6 ELSE 7]))
ASSUME \A k \in Keys : PrintT("@@VALS " \o ToJson([k |-> k, chars |-> KeyChars[k], vals |-> ToSeq(Vals(k, 3))]))
ASSUME PrintT("@@MSGS " \o ToJson([msgs |-> ToSeq(Msgs(3))]))
ASSUME PrintT("@@POOL2 " \o ToJson([rules |-> ToSeq(Pool2)]))
ASSUME PrintT("@@POOL3 " \o ToJson([rules |-> ToSeq(Pool3)]))
ASSUME PrintT("@@PLAN " \o ToJson([singles |-> Plan,
          npool2 |-> Cardinality(Pool2), npool3 |-> Cardinality(Pool3)]))
=============================================================================
