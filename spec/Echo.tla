-------------------------------- MODULE Echo --------------------------------
(* The text every clause is made of (valid/common.go):                        *)
(*   GetJoinValidErrStr(obj, field, input, others...)  - clause of a rule     *)
(*   GetJoinFieldErr(obj, field, msg)                  - clause of a rule-     *)
(*                                                       writing error        *)
(*   StrEscape(s)                                      - echoed input of json *)
(* A: contract - ClauseOf / FieldClauseOf / Escape as plain definitions, with *)
(*    the laws the walkers and the explanation extractor rely on (exactly one *)
(*    separator, at the end; exactly one label in front of the explanation;   *)
(*    Unescape o Escape = identity).                                          *)
(* B: mechanism of StrEscape - a buffer of 2*len bytes filled through a write *)
(*    position; every index is announced before it is used (AccessOK), which  *)
(*    is the part C13 (totality) leans on when json echoes arbitrary bytes.   *)
(* Text is a tuple of byte values (0..255).                                   *)
EXTENDS Integers, Sequences, FiniteSets

\* ------------------------------------------------------------ bytes
DQ == 34   SQ == 39   BSL == 92   NUL == 0   NL == 10   CR == 13   TAB == 9   SUB == 26
SP == 32   COMMA == 44   DOT == 46   COLON == 58   SEMI == 59
ExplainEn == <<101, 120, 112, 108, 97, 105, 110, 58>>                  \* explain:
ExplainZh == <<232, 175, 180, 230, 152, 142, 58>>                      \* 说明:  (UTF-8)
EndFlag == <<SEMI, SP>>                                                \* "; "
Input == <<105, 110, 112, 117, 116, SP>>                               \* input_

Sub(s, a, b) == IF a > b THEN <<>> ELSE SubSeq(s, a, b)
Contains(s, t) == \E i \in 1..(Len(s) - Len(t) + 1) : SubSeq(s, i, i + Len(t) - 1) = t
EndsWith(s, t) == Len(s) >= Len(t) /\ SubSeq(s, Len(s) - Len(t) + 1, Len(s)) = t
RECURSIVE JoinSp(_)
JoinSp(ws) == IF ws = <<>> THEN <<>> ELSE IF Len(ws) = 1 THEN ws[1] ELSE ws[1] \o <<SP>> \o JoinSp(Tail(ws))
Quoted(s) == <<DQ>> \o s \o <<DQ>>

\* ------------------------------------------------------------ contract: clauses
\* the path in front of a rule clause: "obj.field" when both are known, "field" alone for map / URL / variable inputs
PathOf(obj, field) == IF obj # <<>> /\ field # <<>> THEN Quoted(obj \o <<DOT>> \o field) \o <<SP>>
                      ELSE IF obj = <<>> /\ field # <<>> THEN Quoted(field) \o <<SP>>
                      ELSE <<>>
HasLabel(w) == Contains(w, ExplainEn) \/ Contains(w, ExplainZh)
ClauseOf(obj, field, input, others) ==
  PathOf(obj, field) \o Input \o Quoted(input) \o
  (IF others = <<>> THEN EndFlag
   ELSE <<COMMA, SP>> \o (IF HasLabel(others[1]) THEN <<>> ELSE ExplainEn \o <<SP>>) \o JoinSp(others) \o EndFlag)
\* rule-writing errors carry a path only when object and field are both known
FieldClauseOf(obj, field, msg) ==
  (IF obj # <<>> /\ field # <<>> THEN Quoted(obj \o <<DOT>> \o field) \o <<SP>> ELSE <<>>) \o msg \o EndFlag

\* laws (checked on the enumerated window by MC_Echo)
ClauseLaws(obj, field, input, others) ==
  LET c == ClauseOf(obj, field, input, others) IN
  /\ EndsWith(c, EndFlag)                                         \* the walkers trim exactly one separator at the end
  /\ others # <<>> => HasLabel(c)                                 \* an explanation is always labelled ...
  /\ (others # <<>> /\ ~HasLabel(JoinSp(others)) /\ ~HasLabel(input) /\ ~HasLabel(obj) /\ ~HasLabel(field)) =>
       Cardinality({i \in 1..(Len(c) - Len(ExplainEn) + 1) : SubSeq(c, i, i + Len(ExplainEn) - 1) = ExplainEn}) = 1   \* ... exactly once

\* ------------------------------------------------------------ contract: escaping
Special == {SQ, DQ, NUL, NL, CR, TAB, SUB, BSL}
CodeOf(b) == CASE b = SQ -> SQ [] b = DQ -> DQ [] b = NUL -> 48 [] b = NL -> 110 [] b = CR -> 114
               [] b = TAB -> 116 [] b = SUB -> 90 [] b = BSL -> BSL
Image(b) == IF b \in Special THEN <<BSL, CodeOf(b)>> ELSE <<b>>
RECURSIVE Escape(_)
Escape(s) == IF s = <<>> THEN <<>> ELSE Image(s[1]) \o Escape(Tail(s))
ByteOfCode(c) == CHOOSE b \in Special : CodeOf(b) = c
IsCode(c) == \E b \in Special : CodeOf(b) = c
RECURSIVE Unescape(_)
Unescape(t) == IF t = <<>> THEN <<>>
               ELSE IF t[1] = BSL /\ Len(t) >= 2 /\ IsCode(t[2]) THEN <<ByteOfCode(t[2])>> \o Unescape(Sub(t, 3, Len(t)))
               ELSE <<t[1]>> \o Unescape(Tail(t))
CountSpecial(s) == Cardinality({i \in 1..Len(s) : s[i] \in Special})

\* ------------------------------------------------------------ mechanism: StrEscape
CONSTANTS Alpha, MaxLen
VARIABLES s, i, pos, buf, pc, fault
vars == <<s, i, pos, buf, pc, fault>>

Strs == UNION {[1..k -> Alpha] : k \in 0..MaxLen}
Init == /\ s \in Strs /\ i = 1 /\ pos = 0 /\ pc = "loop" /\ fault = FALSE
        /\ buf = [k \in 1..(2 * Len(s)) |-> 0]                      \* make([]byte, vLen*2)
\* indices are 1-based here: slot pos+1 is the code's buf[pos]
Put2 == /\ pc = "loop" /\ i <= Len(s) /\ s[i] \in Special
        /\ IF pos + 2 <= Len(buf)
           THEN buf' = [buf EXCEPT ![pos + 1] = BSL, ![pos + 2] = CodeOf(s[i])] /\ fault' = fault
           ELSE buf' = buf /\ fault' = TRUE
        /\ pos' = pos + 2 /\ i' = i + 1 /\ UNCHANGED <<s, pc>>
Put1 == /\ pc = "loop" /\ i <= Len(s) /\ s[i] \notin Special
        /\ IF pos + 1 <= Len(buf)
           THEN buf' = [buf EXCEPT ![pos + 1] = s[i]] /\ fault' = fault
           ELSE buf' = buf /\ fault' = TRUE
        /\ pos' = pos + 1 /\ i' = i + 1 /\ UNCHANGED <<s, pc>>
Done == /\ pc = "loop" /\ i > Len(s) /\ pc' = "done" /\ UNCHANGED <<s, i, pos, buf, fault>>
Next == Put2 \/ Put1 \/ Done
Spec == Init /\ [][Next]_vars

Result == Sub(buf, 1, pos)                                            \* buf[:pos]
AccessOK == ~fault /\ pos <= Len(buf)
PosBound == pos <= 2 * (i - 1)
PrefixDone == pc = "loop" => Sub(buf, 1, pos) = Escape(Sub(s, 1, i - 1))
MechIsContract == pc = "done" => Result = Escape(s)
RoundTrip == pc = "done" => Unescape(Result) = s
LengthLaw == pc = "done" => Len(Result) = Len(s) + CountSpecial(s)
NoRawSpecial == pc = "done" =>                                        \* every special byte of the result follows a backslash
  \A k \in 1..Len(Result) : Result[k] \in (Special \ {BSL}) => k > 1 /\ Result[k - 1] = BSL
=============================================================================
