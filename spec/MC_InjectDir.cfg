\* directory level (C19): every directory of up to 3 entries over 11 kinds, one run in each of -d / -p / -f
CONSTANTS
  MaxRuns = 1
  Modes = {"d", "p", "f"}
  SpliceOrder = "last"
  SkipUntagged = TRUE
  Profile = "dir"
  MaxSegs = 3
SPECIFICATION Spec
CHECK_DEADLOCK FALSE
INVARIANTS FieldsMergedInv OutsideUnchangedInv PlainUnchanged StillParses NoCrash UnprocessableUntouched SubdirEither NeverCorrupt OthersStillProcessed
PROPERTIES Idempotent RunFileAgrees
