---------------------------- MODULE Judge_Dump ----------------------------
(* Constant-mode judge for recorded runs of the real dumper.                  *)
(* Input: ndjson file IOEnv.FILE, one record per real call                    *)
(*   [id, ty, v, tokens, jtokens]  tokens  = lexed output of GetDumpStructStr *)
(*                                 jtokens = lexed output of the standard     *)
(*                                           encoder for the same Go value    *)
(* Verdict per record (all computed here, from the definitions of Dump.tla):  *)
(*   wf    WellFormed(tokens)                                                 *)
(*   eq    DocEq(Decode(tokens), Doc(ty,v))            -- the contract        *)
(*   std   the standard encoder's output is well-formed, fits the type and    *)
(*         decodes to StdDoc(ty,v): the Go value really is the tree           *)
(*   rel   DocEq(Decode(tokens), Dev(ty, Decode(jtokens))): the property as   *)
(*         stated, against the real standard encoder, up to the deviations    *)
(*   mech  tokens = MechTokens(ty,v) (mechanism-level agreement; only         *)
(*         meaningful without multi-entry maps, whose order is unspecified)   *)
(* One "@@BAD" line per record with a false wf/eq/std/rel, one "@@DRIFT" line *)
(* per record with only mech false, and a final "@@SUM" line.                 *)
EXTENDS Dump, Json, IOUtils

Recs == ndJsonDeserialize(IOEnv.FILE)

RECURSIVE Ordered(_, _)
Ordered(T, v) ==
  CASE T.k = "sc" -> TRUE
    [] T.k = "st" -> \A i \in 1..Len(T.fs) : T.fs[i].x => Ordered(T.fs[i].t, v.fs[i])
    [] T.k = "pt" -> v.nil \/ Ordered(T.t, v.to)
    [] T.k = "sl" -> \A i \in 1..Len(v.es) : Ordered(T.t, v.es[i])
    [] T.k = "mp" -> Len(v.en) <= 1 /\ \A i \in 1..Len(v.en) : Ordered(T.t, v.en[i].v)

Judge(r) ==
  LET wf   == WellFormed(r.tokens)
      got  == Decode(r.tokens)
      jwf  == WellFormed(r.jtokens)
      jdoc == Decode(r.jtokens)
      std  == jwf /\ Fits(r.ty, jdoc) /\ DocEq(jdoc, StdDoc(r.ty, r.v))
  IN [id   |-> r.id,
      wf   |-> wf,
      eq   |-> wf /\ DocEq(got, Doc(r.ty, r.v)),
      std  |-> std,
      rel  |-> wf /\ jwf /\ Fits(r.ty, jdoc) /\ DocEq(got, Dev(r.ty, jdoc)),
      mech |-> IF Ordered(r.ty, r.v) THEN r.tokens = MechTokens(r.ty, r.v) ELSE TRUE]

Good(j) == j.wf /\ j.eq /\ j.std /\ j.rel
Verdicts == [i \in 1..Len(Recs) |-> Judge(Recs[i])]

ASSUME \A i \in 1..Len(Recs) :
         LET j == Verdicts[i] IN
         IF ~Good(j) THEN PrintT("@@BAD " \o ToJson(j))
         ELSE IF ~j.mech THEN PrintT("@@DRIFT " \o ToJson(j))
         ELSE TRUE
ASSUME PrintT("@@SUM " \o ToJson([n |-> Len(Recs),
                                  good |-> Cardinality({i \in 1..Len(Recs) : Good(Verdicts[i])}),
                                  mech |-> Cardinality({i \in 1..Len(Recs) : Verdicts[i].mech}),
                                  ordered |-> Cardinality({i \in 1..Len(Recs) : Ordered(Recs[i].ty, Recs[i].v)})]))

JInit == tree = 0 /\ phase = "judge" /\ out = <<>>
JNext == FALSE /\ UNCHANGED vars
JSpec == JInit /\ [][JNext]_vars
=============================================================================
