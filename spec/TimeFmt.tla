------------------------------ MODULE TimeFmt ------------------------------
(* The layout builder behind the date rules (valid/init.go GetTimeFmt):       *)
(* a bit mask selects components out of  year month day | hour minute second, *)
(* up to three separators say what stands between the date components, between*)
(* date and time, and between the time components.                            *)
(*                                                                            *)
(* A: contract  Layout(mask, splits)  - what the documentation of the         *)
(*    function and of the rules year / year2month / date / datetime says.     *)
(* B: mechanism - the code's fold with its three-way join function, one step  *)
(*    per component test, the mask taken as an int8 (bits 6 and 7 exist and   *)
(*    are ignored; "x & bit > 0" on the sign bit of a negative mask).         *)
(* TLC checks B => A on every mask 0..255 x every separator tuple of length   *)
(* 0..3 over SepAlpha, and the laws that tie the layouts to the recognisers   *)
(* of Formats (IsYear2Month / IsDate / IsDatetime): a member written with the *)
(* layout's separators is in the rule's language.                             *)
(* Text is a tuple of code points, as in Formats.                             *)
EXTENDS Formats, TLC

\* ------------------------------------------------------------ contract (A)
Comp(i) == CASE i = 0 -> <<50, 48, 48, 54>>     \* "2006"
             [] i = 1 -> <<48, 49>>             \* "01"
             [] i = 2 -> <<48, 50>>             \* "02"
             [] i = 3 -> <<49, 53>>             \* "15"
             [] i = 4 -> <<48, 52>>             \* "04"
             [] i = 5 -> <<48, 53>>             \* "05"
Width(i) == IF i = 0 THEN 4 ELSE 2
Pow2(i) == CASE i = 0 -> 1 [] i = 1 -> 2 [] i = 2 -> 4 [] i = 3 -> 8 [] i = 4 -> 16 [] i = 5 -> 32 [] i = 6 -> 64 [] i = 7 -> 128
\* the mask is the byte of an int8: 0..127 as they are, 128..255 stand for -128..-1
Bit(m, i) == (m \div Pow2(i)) % 2 = 1
AsInt8(m) == IF m >= 128 THEN m - 256 ELSE m

DefaultSeps == <<(<<MINUS>>), (<<SPACE>>), (<<COLON>>)>>
\* documented: splits[0] date separator, splits[1] between date and time, splits[2] time separator; missing ones default
SepsOf(sp) == [k \in 1..3 |-> IF k <= Len(sp) THEN sp[k] ELSE DefaultSeps[k]]

RECURSIVE SelFrom(_, _, _)
SelFrom(m, lo, hi) == IF lo > hi THEN <<>> ELSE (IF Bit(m, lo) THEN <<lo>> ELSE <<>>) \o SelFrom(m, lo + 1, hi)
RECURSIVE JoinC(_, _)
JoinC(ix, sep) == IF ix = <<>> THEN <<>>
                  ELSE IF Len(ix) = 1 THEN Comp(ix[1])
                  ELSE Comp(ix[1]) \o sep \o JoinC(Tail(ix), sep)
DatePart(m, s) == JoinC(SelFrom(m, 0, 2), s[1])
TimePart(m, s) == JoinC(SelFrom(m, 3, 5), s[3])
Layout(m, sp) == LET s == SepsOf(sp) d == DatePart(m, s) t == TimePart(m, s) IN
                 IF d = <<>> THEN t ELSE IF t = <<>> THEN d ELSE d \o s[2] \o t
\* the documentation names three separators; what a fourth argument does is not said
Documented(sp) == Len(sp) <= 3

\* the layout with every component replaced by the decimal digits of a value (year 4 digits, the others 2)
D2v(n) == <<48 + (n \div 10), 48 + (n % 10)>>
D4v(n) == <<48 + (n \div 1000), 48 + ((n \div 100) % 10), 48 + ((n \div 10) % 10), 48 + (n % 10)>>
Digits(i, v) == IF i = 0 THEN D4v(v[1]) ELSE D2v(v[i + 1])
RECURSIVE JoinV(_, _, _)
JoinV(ix, sep, v) == IF ix = <<>> THEN <<>>
                     ELSE IF Len(ix) = 1 THEN Digits(ix[1], v)
                     ELSE Digits(ix[1], v) \o sep \o JoinV(Tail(ix), sep, v)
Fill(m, sp, v) == LET s == SepsOf(sp) d == JoinV(SelFrom(m, 0, 2), s[1], v) t == JoinV(SelFrom(m, 3, 5), s[3], v) IN
                  IF d = <<>> THEN t ELSE IF t = <<>> THEN d ELSE d \o s[2] \o t

\* masks the rules use (validfn.go: Year, Year2Month, Date, Datetime)
YearMask == 1      Year2MonthMask == 3      DateMask == 7      DateTimeMask == 63

\* ------------------------------------------------------------ mechanism (B)
CONSTANTS SepAlpha,       \* set of separator texts
          MaxSplits,      \* 0..MaxSplits separators are passed
          TimeSepIdx      \* which separator joins the time components: 3 (the code); 1 = negative control
VARIABLES mask, splits, i, prefix, suffix, res, pc
vars == <<mask, splits, i, prefix, suffix, res, pc>>

SplitTuples == UNION {[1..k -> SepAlpha] : k \in 0..MaxSplits}

\* the switch on len(splits) has the cases 1, 2, 3 only: four or more arguments leave all three defaults in place
MechSeps(sp) == IF Len(sp) \in 1..3 THEN SepsOf(sp) ELSE DefaultSeps
JoinFn(old, split, join) == IF old = <<>> THEN join ELSE IF join = <<>> THEN old ELSE old \o split \o join

Init == /\ mask \in 0..255 /\ splits \in SplitTuples
        /\ i = 0 /\ prefix = <<>> /\ suffix = <<>> /\ res = <<>> /\ pc = "bits"
TakeDate == /\ pc = "bits" /\ i \in 0..2 /\ Bit(mask, i)
            /\ prefix' = JoinFn(prefix, MechSeps(splits)[1], Comp(i))
            /\ i' = i + 1 /\ UNCHANGED <<mask, splits, suffix, res, pc>>
TakeTime == /\ pc = "bits" /\ i \in 3..5 /\ Bit(mask, i)
            /\ suffix' = JoinFn(suffix, MechSeps(splits)[TimeSepIdx], Comp(i))
            /\ i' = i + 1 /\ UNCHANGED <<mask, splits, prefix, res, pc>>
SkipBit == /\ pc = "bits" /\ i \in 0..5 /\ ~Bit(mask, i)
           /\ i' = i + 1 /\ UNCHANGED <<mask, splits, prefix, suffix, res, pc>>
Finish == /\ pc = "bits" /\ i = 6
          /\ res' = JoinFn(prefix, MechSeps(splits)[2], suffix)
          /\ pc' = "done" /\ UNCHANGED <<mask, splits, i, prefix, suffix>>
Next == TakeDate \/ TakeTime \/ SkipBit \/ Finish
Spec == Init /\ [][Next]_vars

\* ------------------------------------------------------------ B => A
MechIsContract == pc = "done" /\ Documented(splits) => res = Layout(mask, splits)
PartsGrow == pc = "bits" =>
               /\ prefix = JoinC(SelFrom(mask, 0, (IF i > 3 THEN 3 ELSE i) - 1), MechSeps(splits)[1])
               /\ suffix = (IF i <= 3 THEN <<>> ELSE JoinC(SelFrom(mask, 3, i - 1), MechSeps(splits)[3]))
HighBitsIgnored == pc = "done" /\ Documented(splits) => res = Layout(mask % 64, splits)
NoCompNoText == pc = "done" /\ mask % 64 = 0 => res = <<>>
\* an empty component text never occurs, so the join function's middle branch is only taken for an empty suffix
TypeOK == /\ i \in 0..6 /\ pc \in {"bits", "done"} /\ mask \in 0..255

\* ------------------------------------------------------------ laws tying layouts to the rule languages
NoDigit(sep) == \A k \in 1..Len(sep) : ~IsDigit(sep[k])
SampleV == <<2024, 2, 29, 23, 59, 58>>
RuleLaws ==
  /\ Layout(DateTimeMask, <<>>) = <<50,48,48,54, 45, 48,49, 45, 48,50, 32, 49,53, 58, 48,52, 58, 48,53>>   \* 2006-01-02 15:04:05
  /\ Layout(YearMask, <<>>) = Comp(0)
  /\ IsYear(Fill(YearMask, <<>>, SampleV))
  /\ \A a \in SepAlpha : NoDigit(a) =>
       /\ IsYear2Month(Fill(Year2MonthMask, <<a>>, SampleV), a)
       /\ IsDate(Fill(DateMask, <<a>>, SampleV), a)
       /\ \A b \in SepAlpha : \A c \in SepAlpha : NoDigit(b) /\ NoDigit(c) =>
            IsDatetime(Fill(DateTimeMask, <<a, b, c>>, SampleV), a, b, c)
=============================================================================
