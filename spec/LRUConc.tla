------------------------------ MODULE LRUConc ------------------------------
(***************************************************************************)
(* Concurrent use of the LRU cache (C10).                                  *)
(* Each call is Invoke -> Acquire -> Enter -> Leave -> Release.  The data  *)
(* effect (the LRU action) happens atomically at Enter, which is the       *)
(* linearization point: when the lock protocol excludes conflicting        *)
(* accesses every behaviour is linearizable by construction, and every     *)
(* LRU invariant holds in every state.  The lock mode of each method is a  *)
(* parameter: the check instantiates it with the table *measured* on the   *)
(* real code through the verif hook (VerifLockState inside the method).    *)
(***************************************************************************)
EXTENDS LRU, TLC, IOUtils, Json

CONSTANTS Procs, MaxOps

VARIABLES pc, cur, writer, readers, nops
cvars == <<vars, pc, cur, writer, readers, nops>>
cview == <<view, pc, cur, writer, readers, nops>>

Ops == {"Store", "Load", "Delete", "Len", "Dump"}
\* measured lock table, e.g. LM_Store=W ; "W" exclusive, "R" shared, "N" none
LockMode(op) == CASE op = "Store" -> IOEnv.LM_Store [] op = "Load" -> IOEnv.LM_Load
                  [] op = "Delete" -> IOEnv.LM_Delete [] op = "Len" -> IOEnv.LM_Len
                  [] op = "Dump" -> IOEnv.LM_Dump
\* an operation writes shared state iff its LRU action can change order/val/idx/dels
Writes(op) == op \in {"Store", "Load", "Delete"}

NoProc == "noproc"
Idle == [op |-> "none", k |-> None, v |-> None]

CInit == /\ Init
         /\ pc = [p \in Procs |-> "idle"]
         /\ cur = [p \in Procs |-> Idle]
         /\ writer = NoProc
         /\ readers = {}
         /\ nops = [p \in Procs |-> 0]

Invoke(p) == /\ pc[p] = "idle" /\ nops[p] < MaxOps
             /\ \E op \in Ops, k \in Keys, v \in Vals :
                  cur' = [cur EXCEPT ![p] = [op |-> op,
                                              k |-> IF op \in {"Len", "Dump"} THEN None ELSE k,
                                              v |-> IF op = "Store" THEN v ELSE None]]
             /\ pc' = [pc EXCEPT ![p] = "want"]
             /\ nops' = [nops EXCEPT ![p] = @ + 1]
             /\ UNCHANGED <<vars, writer, readers>>

Acquire(p) == /\ pc[p] = "want"
              /\ LET m == LockMode(cur[p].op) IN
                 CASE m = "W" -> writer = NoProc /\ readers = {} /\ writer' = p /\ UNCHANGED readers
                   [] m = "R" -> writer = NoProc /\ readers' = readers \cup {p} /\ UNCHANGED writer
                   [] OTHER   -> UNCHANGED <<writer, readers>>
              /\ pc' = [pc EXCEPT ![p] = "in"]
              /\ UNCHANGED <<vars, cur, nops>>

Enter(p) == /\ pc[p] = "in"
            /\ LET c == cur[p] IN
               CASE c.op = "Store" -> Store(c.k, c.v)
                 [] c.op = "Load" -> Load(c.k)
                 [] c.op = "Delete" -> Delete(c.k)
                 [] c.op = "Len" -> LenOp
                 [] c.op = "Dump" -> DumpOp
            /\ pc' = [pc EXCEPT ![p] = "out"]
            /\ UNCHANGED <<cur, writer, readers, nops>>

Release(p) == /\ pc[p] = "out"
              /\ writer' = IF writer = p THEN NoProc ELSE writer
              /\ readers' = readers \ {p}
              /\ pc' = [pc EXCEPT ![p] = "idle"]
              /\ cur' = [cur EXCEPT ![p] = Idle]
              /\ UNCHANGED <<vars, nops>>

AllDone == \A p \in Procs : pc[p] = "idle" /\ nops[p] = MaxOps
Finished == AllDone /\ UNCHANGED cvars

CNext == \/ \E p \in Procs : Invoke(p) \/ Acquire(p) \/ Enter(p) \/ Release(p)
         \/ Finished
CSpec == CInit /\ [][CNext]_cvars /\ WF_cvars(CNext)

----------------------------------------------------------------------------
Inside(p) == pc[p] \in {"in", "out"}
RacePair(p, q) == p # q /\ Inside(p) /\ Inside(q) /\ (Writes(cur[p].op) \/ Writes(cur[q].op))
NoRace == \A p, q \in Procs :
            RacePair(p, q) => PrintT("@@RACE " \o ToJson([a |-> cur[p].op, b |-> cur[q].op])) /\ FALSE
LockSane == /\ (writer # NoProc => readers = {})
            /\ \A p \in Procs : (writer = p \/ p \in readers) => Inside(p)
EventuallyDone == <>AllDone
=============================================================================
