------------------------------ MODULE LRUConc ------------------------------
(***************************************************************************)
(* Concurrent use of the LRU cache (C10).                                  *)
(* Each call is Invoke -> Acquire -> Enter -> Leave -> Release.  The data  *)
(* effect (the LRU action) happens atomically at Enter, which is the       *)
(* linearization point: when the lock protocol excludes conflicting        *)
(* accesses every behaviour is linearizable by construction, and every     *)
(* LRU invariant holds in every state.  The lock mode of each method is a  *)
(* parameter: the check instantiates it with the table *measured* on the   *)
(* real code through the verif hook (VerifLockState inside the method).    *)
(* The mutex is Go's sync.RWMutex: a writer first announces itself         *)
(* (pendingW) and then waits for the active readers; a reader is admitted  *)
(* only while no writer holds or is waiting for the lock - so a method     *)
(* that re-acquires the read lock while holding it (a locked method        *)
(* calling another locked method; measured as Nested) deadlocks as soon as *)
(* a writer arrives in between, and TLC finds that interleaving.           *)
(***************************************************************************)
EXTENDS LRU, TLC, IOUtils, Json

CONSTANTS Procs, MaxOps

VARIABLES pc, cur, writer, readers, nops, pendingW, rdepth
cvars == <<vars, pc, cur, writer, readers, nops, pendingW, rdepth>>
cview == <<view, pc, cur, writer, readers, nops, pendingW, rdepth>>

Ops == {"Store", "Load", "Delete", "Len", "Dump"}
\* measured lock table, e.g. LM_Store=W ; "W" exclusive, "R" shared, "N" none
LockMode(op) == CASE op = "Store" -> IOEnv.LM_Store [] op = "Load" -> IOEnv.LM_Load
                  [] op = "Delete" -> IOEnv.LM_Delete [] op = "Len" -> IOEnv.LM_Len
                  [] op = "Dump" -> IOEnv.LM_Dump
\* measured nesting: the locked method (if any) that `op` calls while still holding its own lock, else "none"
Nested(op) == CASE op = "Store" -> IOEnv.NEST_Store [] op = "Load" -> IOEnv.NEST_Load
                [] op = "Delete" -> IOEnv.NEST_Delete [] op = "Len" -> IOEnv.NEST_Len
                [] op = "Dump" -> IOEnv.NEST_Dump
\* an operation writes shared state iff its LRU action can change order/val/idx/dels
Writes(op) == op \in {"Store", "Load", "Delete"}

NoProc == "noproc"
Idle == [op |-> "none", k |-> None, v |-> None]

CInit == /\ Init
         /\ pc = [p \in Procs |-> "idle"]
         /\ cur = [p \in Procs |-> Idle]
         /\ writer = NoProc
         /\ readers = {}
         /\ nops = [p \in Procs |-> 0]
         /\ pendingW = {}
         /\ rdepth = [p \in Procs |-> 0]

Invoke(p) == /\ pc[p] = "idle" /\ nops[p] < MaxOps
             /\ \E op \in Ops, k \in Keys, v \in Vals :
                  cur' = [cur EXCEPT ![p] = [op |-> op,
                                              k |-> IF op \in {"Len", "Dump"} THEN None ELSE k,
                                              v |-> IF op = "Store" THEN v ELSE None]]
             /\ pc' = [pc EXCEPT ![p] = "want"]
             /\ nops' = [nops EXCEPT ![p] = @ + 1]
             /\ UNCHANGED <<vars, writer, readers, pendingW, rdepth>>

\* sync.RWMutex admission rules
CanRead == writer = NoProc /\ pendingW = {}
CanWrite(p) == writer = NoProc /\ \A q \in Procs : rdepth[q] = 0

Acquire(p) == /\ pc[p] = "want"
              /\ LET m == LockMode(cur[p].op) IN
                 CASE m = "W" -> /\ pendingW' = pendingW \cup {p}          \* Lock(): announce, then wait for readers
                                 /\ pc' = [pc EXCEPT ![p] = "wantw"]
                                 /\ UNCHANGED <<writer, readers, rdepth>>
                   [] m = "R" -> /\ CanRead
                                 /\ readers' = readers \cup {p}
                                 /\ rdepth' = [rdepth EXCEPT ![p] = @ + 1]
                                 /\ pc' = [pc EXCEPT ![p] = "in"]
                                 /\ UNCHANGED <<writer, pendingW>>
                   [] OTHER   -> /\ pc' = [pc EXCEPT ![p] = "in"]
                                 /\ UNCHANGED <<writer, readers, pendingW, rdepth>>
              /\ UNCHANGED <<vars, cur, nops>>

AcquireW(p) == /\ pc[p] = "wantw"
               /\ CanWrite(p)
               /\ writer' = p
               /\ pendingW' = pendingW \ {p}
               /\ pc' = [pc EXCEPT ![p] = "in"]
               /\ UNCHANGED <<vars, cur, nops, readers, rdepth>>

Enter(p) == /\ pc[p] = "in"
            /\ LET c == cur[p] IN
               CASE c.op = "Store" -> Store(c.k, c.v)
                 [] c.op = "Load" -> Load(c.k)
                 [] c.op = "Delete" -> Delete(c.k)
                 [] c.op = "Len" -> LenOp
                 [] c.op = "Dump" -> DumpOp
            /\ pc' = [pc EXCEPT ![p] = IF Nested(cur[p].op) = "none" THEN "out" ELSE "nwant"]
            /\ UNCHANGED <<cur, writer, readers, nops, pendingW, rdepth>>

\* the inner locked call of a nesting method: acquires its own lock mode while the outer one is still held
NAcquire(p) == /\ pc[p] = "nwant"
               /\ LET m == LockMode(Nested(cur[p].op)) IN
                  CASE m = "W" -> /\ pendingW' = pendingW \cup {p}
                                  /\ pc' = [pc EXCEPT ![p] = "nwantw"]
                                  /\ UNCHANGED <<rdepth>>
                    [] m = "R" -> /\ CanRead
                                  /\ rdepth' = [rdepth EXCEPT ![p] = @ + 1]
                                  /\ pc' = [pc EXCEPT ![p] = "nin"]
                                  /\ UNCHANGED pendingW
                    [] OTHER   -> /\ pc' = [pc EXCEPT ![p] = "nin"]
                                  /\ UNCHANGED <<pendingW, rdepth>>
               /\ UNCHANGED <<vars, cur, nops, writer, readers>>
\* (an exclusive re-acquisition waits for rdepth = 0 everywhere and for writer = NoProc: never, it holds one itself)
NAcquireW(p) == /\ pc[p] = "nwantw" /\ CanWrite(p)
                /\ writer' = p /\ pendingW' = pendingW \ {p}
                /\ pc' = [pc EXCEPT ![p] = "nin"]
                /\ UNCHANGED <<vars, cur, nops, readers, rdepth>>
NRelease(p) == /\ pc[p] = "nin"
               /\ rdepth' = [rdepth EXCEPT ![p] = IF LockMode(Nested(cur[p].op)) = "R" THEN @ - 1 ELSE @]
               /\ pc' = [pc EXCEPT ![p] = "out"]
               /\ UNCHANGED <<vars, cur, nops, writer, readers, pendingW>>

Release(p) == /\ pc[p] = "out"
              /\ writer' = IF writer = p THEN NoProc ELSE writer
              /\ readers' = readers \ {p}
              /\ rdepth' = [rdepth EXCEPT ![p] = 0]
              /\ pc' = [pc EXCEPT ![p] = "idle"]
              /\ cur' = [cur EXCEPT ![p] = Idle]
              /\ UNCHANGED <<vars, nops, pendingW>>

AllDone == \A p \in Procs : pc[p] = "idle" /\ nops[p] = MaxOps
Finished == AllDone /\ UNCHANGED cvars

CNext == \/ \E p \in Procs : Invoke(p) \/ Acquire(p) \/ AcquireW(p) \/ Enter(p) \/ NAcquire(p) \/ NAcquireW(p) \/ NRelease(p) \/ Release(p)
         \/ Finished
CSpec == CInit /\ [][CNext]_cvars /\ WF_cvars(CNext)

----------------------------------------------------------------------------
Inside(p) == pc[p] \in {"in", "out", "nwant", "nwantw", "nin"}
RacePair(p, q) == p # q /\ Inside(p) /\ Inside(q) /\ (Writes(cur[p].op) \/ Writes(cur[q].op))
NoRace == \A p, q \in Procs :
            RacePair(p, q) => PrintT("@@RACE " \o ToJson([a |-> cur[p].op, b |-> cur[q].op])) /\ FALSE
LockSane == /\ (writer # NoProc => readers = {})
            /\ \A p \in Procs : (p \in readers) <=> (rdepth[p] > 0)
            /\ \A p \in Procs : (writer = p \/ p \in readers) => Inside(p)
EventuallyDone == <>AllDone
=============================================================================
