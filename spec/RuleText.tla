------------------------------ MODULE RuleText ------------------------------
(* C14 - rule text: builder (GenValidKV), per-field accumulation (RM.Set), splitter          *)
(* (ValidNamesSplit) and parser (ParseValidNameKV).                                          *)
(*                                                                                           *)
(* Text is a sequence of one-character strings.  Wire symbols: "Z" stands for one CJK        *)
(* character (3 bytes), "S","M" for the two CJK characters of the Chinese explanation label; *)
(* every other symbol is the ASCII character itself.  The generated alphabets never contain  *)
(* the letters Z, S, M.                                                                      *)
(*                                                                                           *)
(* Part A (contract): grammar of documented rule lists (IsRule), the documented builder      *)
(*   output (GenText), the laws NoLoss, QuotedCommasKept, OuterCommasSplit, RoundTrip.       *)
(*   The laws are predicates over (input, OUTPUT): they are evaluated by TLC on the outputs  *)
(*   of the real code (Judge_RuleText) and on the outputs of the mechanism below.            *)
(* Part B (mechanism): the splitter as a per-character machine with its fast path, quote     *)
(*   flag and quote stack, the parser with its two index searches and length conditions.     *)
(*   Fixed = TRUE is the repaired parser, Fixed = FALSE the pinned one (exhibits D11).       *)
EXTENDS Naturals, Sequences, FiniteSets, TLC

CONSTANTS Fixed,        \* BOOLEAN: parser variant of the mechanism
          SplitAlpha,   \* alphabet of the arbitrary strings for the splitter laws
          MaxLen,       \* their maximal length
          NV, NM        \* maximal value / message length of the single-rule window of InitRT

Q   == "'"
C   == ","
EQ  == "="
BAR == "|"
ZH  == "Z"

LabelZh == <<"S", "M", ":">>
LabelEn == <<"e", "x", "p", "l", "a", "i", "n", ":">>

Keys == {"required", "to", "in", "re", "phone"}
KeyChars == [k \in Keys |->
    CASE k = "required" -> <<"r","e","q","u","i","r","e","d">>
      [] k = "to"       -> <<"t","o">>
      [] k = "in"       -> <<"i","n">>
      [] k = "re"       -> <<"r","e">>
      [] k = "phone"    -> <<"p","h","o","n","e">>]

Syms == {"a", " ", ZH, EQ, "~", "/", "(", ")", BAR, Q, C}

-----------------------------------------------------------------------------
(* helpers *)
Has(s, c)     == \E i \in 1..Len(s) : s[i] = c
IndexOf(s, c) == IF Has(s, c) THEN CHOOSE i \in 1..Len(s) : s[i] = c /\ \A j \in 1..(i-1) : s[j] # c ELSE 0
Front(s)      == SubSeq(s, 1, Len(s) - 1)
Last(s)       == s[Len(s)]
From(s, i)    == SubSeq(s, i, Len(s))

RECURSIVE JoinC(_)
JoinC(ps) == IF Len(ps) = 0 THEN <<>>
             ELSE IF Len(ps) = 1 THEN ps[1]
             ELSE ps[1] \o <<C>> \o JoinC(Tail(ps))

SeqsUpTo(A, n) == UNION {[1..m -> A] : m \in 0..n}

BS == "\\"
\* quoting state after the first n characters: a quote opens a segment; inside a segment a quote closes it unless it is
\* escaped by a preceding backslash (the escaped quote belongs to the content - this is how `re` reads its pattern,
\* and since fix a9ff0c5 how the splitter reads it too).  Without backslashes this is the parity of the quote count.
RECURSIVE InQ(_, _)
InQ(s, n) == IF n = 0 THEN FALSE
             ELSE LET prev == InQ(s, n - 1) IN
                  IF s[n] # Q THEN prev
                  ELSE IF ~prev THEN TRUE
                  ELSE (n > 1 /\ s[n - 1] = BS)
NQ(s, n)       == Cardinality({i \in 1..n : s[i] = Q})
Balanced(s)    == ~InQ(s, Len(s))
OuterCommas(s) == {i \in 1..Len(s) : s[i] = C /\ ~InQ(s, i - 1)}
CommasQuoted(s) == OuterCommas(s) = {}

-----------------------------------------------------------------------------
(* A. grammar of documented rule lists                                                      *)
(*   rule ::= key ["=" value] ["|" msg]     list ::= rule ("," rule)*                        *)
(*   value: non-empty, no "|" (the first "|" starts the message), does not start with "="    *)
(*          (the builder treats a leading "=" as the connector), quotes balanced, commas     *)
(*          only inside quotes; for re not the undocumented shape x'...                      *)
(*   msg  : non-empty, quotes balanced, commas only inside quotes (README 4.2.1 item 3)      *)
IsValue(k, v) == /\ Len(v) > 0 /\ ~Has(v, BAR) /\ v[1] # EQ
                 /\ Balanced(v) /\ CommasQuoted(v)
                 /\ (k = "re" /\ Len(v) > 1 /\ v[1] # Q => v[2] # Q)
IsMsg(m)      == Len(m) > 0 /\ Balanced(m) /\ CommasQuoted(m)
IsRule(r)     == /\ r.k \in Keys
                 /\ IF r.hv THEN IsValue(r.k, r.v) ELSE r.v = <<>>
                 /\ IF r.hm THEN IsMsg(r.m) ELSE r.m = <<>>

(* documented builder output *)
WrapVal(k, v) == IF k \in {"in", "include"} THEN <<"(">> \o v \o <<")">>
                 ELSE IF k = "re" /\ v[1] # Q THEN <<Q>> \o v \o <<Q>>
                 ELSE v
GenText(r) == KeyChars[r.k] \o (IF r.hv THEN <<EQ>> \o WrapVal(r.k, r.v) ELSE <<>>)
                            \o (IF r.hm THEN <<BAR>> \o r.m ELSE <<>>)
RECURSIVE GenAll(_)
GenAll(rs) == IF rs = <<>> THEN <<>> ELSE <<GenText(rs[1])>> \o GenAll(Tail(rs))
SetJoin(texts) == JoinC(texts)

Label(m) == IF Has(m, ZH) THEN LabelZh ELSE LabelEn
ExpParsed(r) == [k |-> KeyChars[r.k],
                 v |-> IF r.hv THEN WrapVal(r.k, r.v) ELSE <<>>,
                 m |-> IF r.hm THEN Label(r.m) \o <<" ">> \o r.m ELSE <<>>]

(* laws over (input, output) *)
NoLoss(s, out) == \/ JoinC(out) = s
                  \/ (Len(s) > 0 /\ Last(s) = C /\ JoinC(out) = Front(s))
QuotedCommasKept(s, out) == Balanced(s) => \A i \in 1..Len(out) : Balanced(out[i])
OuterCommasSplit(s, out) == Balanced(s) => \A i \in 1..Len(out) : CommasQuoted(out[i])
RoundTrip(rs, parsed) == /\ Len(parsed) = Len(rs)
                         /\ \A i \in 1..Len(rs) : /\ parsed[i].k = ExpParsed(rs[i]).k
                                                  /\ parsed[i].v = ExpParsed(rs[i]).v
                                                  /\ parsed[i].m = ExpParsed(rs[i]).m

-----------------------------------------------------------------------------
(* B. mechanism *)
ByteLen(s) == Len(s) + 2 * Cardinality({i \in 1..Len(s) : s[i] \in {ZH, "S", "M"}})

(* strings.Split(s, ",") - platform primitive *)
RECURSIVE SplitOn(_)
SplitOn(s) == LET i == IndexOf(s, C) IN
              IF i = 0 THEN <<s>> ELSE <<SubSeq(s, 1, i - 1)>> \o SplitOn(From(s, i + 1))

SplitInit == [i |-> 1, tmp |-> <<>>, res |-> <<>>, inq |-> FALSE, stack |-> <<>>]

(* one iteration of the slow-path loop at character s[st.i] *)
SplitStepF(s, st) ==
  LET v    == s[st.i]
      tmp1 == IF st.inq \/ v # C THEN Append(st.tmp, v) ELSE st.tmp
  IN  IF ~st.inq /\ v = Q
        THEN [st EXCEPT !.i = @ + 1, !.tmp = tmp1, !.stack = Append(@, v), !.inq = TRUE]
      ELSE IF st.inq /\ st.stack # <<>> /\ Last(st.stack) = v /\ ~(st.i > 1 /\ s[st.i - 1] = BS)
        THEN [st EXCEPT !.i = @ + 1, !.tmp = tmp1, !.stack = Front(@), !.inq = FALSE]
      ELSE IF v = C /\ st.stack = <<>>
        THEN [st EXCEPT !.i = @ + 1, !.tmp = <<>>, !.res = Append(@, tmp1)]
      ELSE [st EXCEPT !.i = @ + 1, !.tmp = tmp1]
SplitFinish(st) == IF Len(st.tmp) > 0 THEN Append(st.res, st.tmp) ELSE st.res

ParseF(t) ==
  LET Lbl(m) == IF m = <<>> THEN <<>> ELSE Label(m) \o <<" ">> \o m
      e0 == IndexOf(t, EQ)
      b  == IndexOf(t, BAR)
      e  == IF Fixed /\ b # 0 /\ e0 > b THEN 0 ELSE e0          \* repaired: "=" after the first "|" belongs to the message
      Cut(txt, i) == IF Fixed THEN TRUE ELSE ByteLen(From(txt, i + 1)) > 1   \* pinned: len(txt)-1 > idx+1
  IN  IF e = 0
        THEN IF b # 0 /\ Cut(t, b)
               THEN [k |-> SubSeq(t, 1, b - 1), v |-> <<>>, m |-> Lbl(From(t, b + 1))]
               ELSE [k |-> t, v |-> <<>>, m |-> <<>>]
        ELSE LET val == From(t, e + 1)
                 b2  == IndexOf(val, BAR)
             IN  IF b2 # 0 /\ Cut(val, b2)
                   THEN [k |-> SubSeq(t, 1, e - 1), v |-> SubSeq(val, 1, b2 - 1), m |-> Lbl(From(val, b2 + 1))]
                   ELSE [k |-> SubSeq(t, 1, e - 1), v |-> val, m |-> <<>>]

-----------------------------------------------------------------------------
(* windows *)
Vals(k, n) == {v \in SeqsUpTo(Syms, n) : IsValue(k, v)}
Msgs(n)    == {m \in SeqsUpTo(Syms, n) : IsMsg(m)}
Mk(k, hv, v, hm, m) == [k |-> k, hv |-> hv, v |-> v, hm |-> hm, m |-> m]
RulesOver(K, VS(_), MS) ==
  {Mk(k, FALSE, <<>>, FALSE, <<>>) : k \in K} \cup
  {Mk(x[1], TRUE, x[2], FALSE, <<>>) : x \in UNION {{<<k, v>> : v \in VS(k)} : k \in K}} \cup
  {Mk(x[1], FALSE, <<>>, TRUE, x[2]) : x \in K \X MS} \cup
  {Mk(x[1], TRUE, x[2], TRUE, x[3]) : x \in UNION {{<<k, v, m>> : v \in VS(k), m \in MS} : k \in K}}
Singles(nv, nm) == LET VS(k) == Vals(k, nv) IN RulesOver(Keys, VS, Msgs(nm))

PoolV == {<<"a">>, <<Q, C, Q>>, <<Q, Q>>}
PoolM == {<<"a">>, <<ZH>>, <<EQ>>, <<Q, C, Q>>, <<"a", EQ, "a">>, <<BAR>>, <<" ", "a", " ">>}
Pool2 == LET VS(k) == PoolV IN RulesOver(Keys, VS, PoolM)
Pool3 == LET VS(k) == {<<Q, C, Q>>} IN RulesOver({"to", "re", "phone"}, VS, {<<"a">>, <<Q, C, Q>>, <<EQ>>})

-----------------------------------------------------------------------------
(* state machine: choose an input, run the splitter one character per step *)
VARIABLES s, st, done, rules
vars == <<s, st, done, rules>>

InitSplit == /\ s \in SeqsUpTo(SplitAlpha, MaxLen)
             /\ st = SplitInit /\ done = FALSE /\ rules = <<>>
InitRT    == /\ rules \in {<<r>> : r \in Singles(NV, NM)} \cup {<<x[1], x[2]>> : x \in Pool3 \X Pool3}
             /\ s = SetJoin(GenAll(rules))
             /\ st = SplitInit /\ done = FALSE

Empty  == ~done /\ s = <<>> /\ done' = TRUE /\ UNCHANGED <<s, st, rules>>                  \* returns nil
Fast   == /\ ~done /\ s # <<>> /\ ~Has(s, Q) /\ st.i = 1
          /\ st' = [st EXCEPT !.res = SplitOn(s), !.i = Len(s) + 1]
          /\ done' = TRUE /\ UNCHANGED <<s, rules>>
Step   == /\ ~done /\ Has(s, Q) /\ st.i <= Len(s)
          /\ st' = SplitStepF(s, st) /\ UNCHANGED <<s, done, rules>>
Finish == /\ ~done /\ Has(s, Q) /\ st.i = Len(s) + 1
          /\ st' = [st EXCEPT !.res = SplitFinish(st), !.tmp = <<>>]
          /\ done' = TRUE /\ UNCHANGED <<s, rules>>
Next == Empty \/ Fast \/ Step \/ Finish

SpecSplit == InitSplit /\ [][Next]_vars
SpecRT    == InitRT /\ [][Next]_vars

StackSmall   == Len(st.stack) <= 1 /\ (st.inq <=> st.stack # <<>>)
NoLossInv    == done => NoLoss(s, st.res)
QuotedInv    == done => QuotedCommasKept(s, st.res) /\ OuterCommasSplit(s, st.res)
RoundTripInv == done /\ rules # <<>> =>
                  RoundTrip(rules, [i \in 1..Len(st.res) |-> ParseF(st.res[i])])
RulesInDomain == \A i \in 1..Len(rules) : IsRule(rules[i])
=============================================================================
