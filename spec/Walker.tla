------------------------------- MODULE Walker -------------------------------
(***************************************************************************)
(* The validation walkers of protoc-go-valid (valid/validstruct.go,        *)
(* validvar.go, validmap.go, validurl.go).                                 *)
(*                                                                         *)
(* Layer A (contract, C02 + C04): Expected(S, style) - the set of allowed  *)
(*   clause sequences of one validation call, by structural recursion over *)
(*   the object graph: field-declaration order x rule order, zero-skip,    *)
(*   required, exist, descent through values / pointer chains / slices /   *)
(*   arrays / maps, paths P.F, P.F[i], P.F[k]; entries of Go maps in any   *)
(*   order (hence a SET of sequences, one per entry order).                *)
(* Layer B (mechanism): the loop of the code - an explicit frame stack     *)
(*   (object, field index, rule index), an append-only error buffer, one   *)
(*   action per step of the loop.  TLC checks B => A: the buffer is always *)
(*   a prefix of an allowed sequence and the returned value is one.        *)
(*                                                                         *)
(* A scenario S (JSON on the wire, all records uniform):                   *)
(*   types  : Seq([name, fields : Seq([name, exp, emb, ty, rules])])       *)
(*   ty     : [k, n, of]   k in int str time struct ptr slice array map    *)
(*                         struct: n = index into types; array: n = length *)
(*   value  : [k, nil, n, kids]  int: n = the number; str: n = rune count  *)
(*            time: n = 0 zero time; struct: n = type index, kids = fields *)
(*            ptr: nil or kids = <<target>>; slice/array: kids = elements  *)
(*            map: kids = entry values, entry i has key KeyOf(i)           *)
(*   rule   : [key, lo, hi, msg]                                           *)
(*   styles : the carriers the scenario makes sense for                    *)
(*            struct (Struct...), var (Var), map (Map), url (Url)          *)
(***************************************************************************)
EXTENDS Integers, Sequences, FiniteSets, TLC

CONSTANTS Mode,      \* "flat" | "nest" | "rec" | "rand" | "none" (trace validation: scenarios come from the trace)
          Alpha,     \* flat: "probe" | "builtin"
          Tier,      \* flat: "quick" | "thorough" (size of the exhaustive windows)
          NSample,   \* rand: number of sampled scenarios
          Depth, Width  \* rand: nesting depth / child fields per struct

Ty(k, n, of) == [k |-> k, n |-> n, of |-> of]
Val(k, nil, n, kids) == [k |-> k, nil |-> nil, n |-> n, kids |-> kids]
Rule(key, lo, hi, msg) == [key |-> key, lo |-> lo, hi |-> hi, msg |-> msg]
Fld(name, exp, emb, ty, rules) == [name |-> name, exp |-> exp, emb |-> emb, ty |-> ty, rules |-> rules]
Cl(path, echo, cls) == [path |-> path, echo |-> echo, cls |-> cls]
NoEcho == "<none>"          \* the clause has no `input "..."` part
AnyPath == "*"              \* the carrier prints no usable path for this clause (unknown rule in Var/Map/Url)

IntT == Ty("int", 0, <<>>)
StrT == Ty("str", 0, <<>>)
TimeT == Ty("time", 0, <<>>)
StructT(i) == Ty("struct", i, <<>>)
IntV(n) == Val("int", FALSE, n, <<>>)
StrV(n) == Val("str", FALSE, n, <<>>)
TimeV(n) == Val("time", FALSE, n, <<>>)
NilV == Val("nil", TRUE, 0, <<>>)
PtrTo(v) == Val("ptr", FALSE, 0, <<v>>)
NilPtr == Val("ptr", TRUE, 0, <<>>)
KeyOf(i) == "k" \o ToString(i)
StrOf(n) == CASE n = 0 -> "" [] n = 1 -> "a" [] n = 2 -> "ab" [] n = 3 -> "abc" [] n = 4 -> "abcd"
              [] n = 5 -> "abcde" [] n = 6 -> "abcdef" [] OTHER -> "abcdefg"

----------------------------------------------------------------------------
(* Rule vocabulary *)
SizeRules == {"to", "oto", "ge", "le", "gt", "lt", "eq", "noeq"}
CoreRules == {"required", "exist", "either", "botheq"}
ProbeRules == {"p_ok", "p_bad"}
Resolve(key) == IF key \in CoreRules THEN "core"
                ELSE IF key \in ProbeRules THEN "call"
                ELSE IF key \in SizeRules THEN "builtin" ELSE "unknown"

RuleText(r) ==
  LET base == CASE r.key \in {"to", "oto"} -> r.key \o "=" \o ToString(r.lo) \o "~" \o ToString(r.hi)
                [] r.key \in {"ge", "gt", "eq", "noeq"} -> r.key \o "=" \o ToString(r.lo)
                [] r.key \in {"le", "lt"} -> r.key \o "=" \o ToString(r.hi)
                [] OTHER -> r.key
  IN IF r.msg = "" THEN base ELSE base \o "|" \o r.msg

(* C01's contract for the size rules; m is the measure (number / rune count) *)
InSet(r, m) == CASE r.key = "to" -> r.lo <= m /\ m <= r.hi
                 [] r.key = "oto" -> r.lo < m /\ m < r.hi
                 [] r.key = "ge" -> m >= r.lo
                 [] r.key = "gt" -> m > r.lo
                 [] r.key = "le" -> m <= r.hi
                 [] r.key = "lt" -> m < r.hi
                 [] r.key = "eq" -> m = r.lo
                 [] r.key = "noeq" -> m # r.lo
Violates(r, v) == CASE r.key = "p_bad" -> TRUE
                    [] r.key = "p_ok" -> FALSE
                    [] OTHER -> ~InSet(r, v.n)
(* clause classes: what the abstraction function of the harness maps a clause body to *)
Cls(r) == IF r.key = "p_bad" THEN "tok:" \o RuleText(r)
          ELSE IF r.msg # "" THEN "msg:" \o r.msg ELSE "size"
ReqCls(r) == IF r.msg # "" THEN "msg:" \o r.msg ELSE "required"
Echo(v) == IF v.k = "int" THEN ToString(v.n) ELSE IF v.k = "str" THEN StrOf(v.n) ELSE "<" \o v.k \o ">"   \* only scalars are echoed

(* default wording -> class (prefix match on the text after the label); printed by Gen_Walker, so the
   harness holds no table of its own *)
MarkerTable == <<
  [cls |-> "required", pre |-> "it is required"],
  [cls |-> "size", pre |-> "it is less than "],
  [cls |-> "size", pre |-> "it is more than "],
  [cls |-> "size", pre |-> "it should equal "],
  [cls |-> "size", pre |-> "it is not equal "],
  [cls |-> "tok", pre |-> "tok "],
  [cls |-> "notexist", pre |-> "valid \""] >>

----------------------------------------------------------------------------
(* Layer A: the contract *)
RECURSIVE IsZero(_)
IsZero(v) == CASE v.k \in {"int", "str", "time"} -> v.n = 0
               [] v.k \in {"ptr", "slice", "map", "nil"} -> v.nil
               [] OTHER -> \A i \in 1..Len(v.kids) : IsZero(v.kids[i])      \* struct, array
Empty(v) == IsZero(v) \/ (v.k \in {"slice", "array", "map"} /\ Len(v.kids) = 0)
RECURSIVE Deref(_)
Deref(v) == IF v.k = "ptr" THEN (IF v.nil THEN NilV ELSE Deref(v.kids[1])) ELSE v

Cat(A, B) == {a \o b : a \in A, b \in B}
RECURSIVE CatAll(_)
CatAll(ss) == IF Len(ss) = 0 THEN {<<>>} ELSE Cat(ss[1], CatAll(Tail(ss)))
RECURSIVE Perms(_)
Perms(S) == IF S = {} THEN {<<>>} ELSE UNION {{<<x>> \o p : p \in Perms(S \ {x})} : x \in S}
CatBag(ss) == UNION {CatAll([i \in 1..Len(ss) |-> ss[p[i]]]) : p \in Perms(1..Len(ss))}

FPath(st, p, name) == CASE st = "var" -> ""
                        [] st = "map" -> "map[" \o name \o "]"
                        [] st = "url" -> name
                        [] OTHER -> p \o "." \o name
UPath(st, p, name) == IF st = "struct" THEN p \o "." \o name ELSE AnyPath
Idx(p, i) == p \o "[" \o ToString(i - 1) \o "]"
Key(p, i) == p \o "[" \o KeyOf(i) \o "]"
Walked(f) == f.exp /\ f.ty.k # "time"          \* unexported and time.Time fields are never looked at

RECURSIVE ExpObj(_, _, _, _), ExpDesc(_, _, _, _)
ExpElem(S, st, p, e) == LET d == Deref(e) IN IF d.k = "struct" THEN ExpObj(S, st, p, d) ELSE {<<>>}
ExpRule(S, st, p, f, v, r) ==
  LET fp == FPath(st, p, f.name) IN
  CASE r.key = "" -> {<<>>}
    [] Resolve(r.key) = "unknown" -> {<<Cl(UPath(st, p, f.name), NoEcho, "notexist")>>}
    [] r.key = "required" -> IF Empty(v) THEN {<<Cl(fp, "", ReqCls(r))>>} ELSE ExpDesc(S, st, fp, v)
    [] r.key = "exist" -> IF IsZero(v) THEN {<<>>} ELSE ExpDesc(S, st, fp, v)
    [] r.key \in {"either", "botheq"} -> {<<>>}             \* group member: no per-field clause (C17)
    [] OTHER -> IF IsZero(v) \/ ~Violates(r, v) THEN {<<>>} ELSE {<<Cl(fp, Echo(v), Cls(r))>>}
ExpField(S, st, p, f, v) ==
  IF ~Walked(f) THEN {<<>>}
  ELSE CatAll([j \in 1..Len(f.rules) |-> ExpRule(S, st, p, f, v, f.rules[j])])
ExpObj(S, st, p, o) ==
  LET fs == S.types[o.n].fields
      per == [i \in 1..Len(fs) |-> ExpField(S, st, p, fs[i], o.kids[i])]
  IN IF st = "map" THEN CatBag(per) ELSE CatAll(per)
ExpDesc(S, st, fp, v) ==
  CASE v.k \in {"ptr", "struct"} -> ExpElem(S, st, fp, v)
    [] v.k \in {"slice", "array"} -> CatAll([i \in 1..Len(v.kids) |-> ExpElem(S, st, Idx(fp, i), v.kids[i])])
    [] v.k = "map" -> CatBag([i \in 1..Len(v.kids) |-> ExpElem(S, st, Key(fp, i), v.kids[i])])
    [] OTHER -> {<<>>}

RootLabel == "$"          \* a top-level slice/array/map names its elements <opaque prefix>[i] / [key]
RootName(S, st, d) == IF st = "struct" THEN S.types[d.n].name ELSE ""
RootIsNil(S) == S.root.k = "ptr" /\ Deref(S.root).k = "nil"
ExpRoot(S, st) ==
  LET r == S.root IN
  CASE r.k \in {"ptr", "struct"} ->
         LET d == Deref(r) IN IF d.k = "struct" THEN ExpObj(S, st, RootName(S, st, d), d) ELSE {<<>>}
    [] r.k \in {"slice", "array"} -> CatAll([i \in 1..Len(r.kids) |-> ExpElem(S, st, Idx(RootLabel, i), r.kids[i])])
    [] r.k = "map" -> CatBag([i \in 1..Len(r.kids) |-> ExpElem(S, st, Key(RootLabel, i), r.kids[i])])
    [] OTHER -> {<<>>}
(* any = TRUE: a nil root pointer; the properties fix no result for it (it must only be a result) *)
Expected(S, st) == [any |-> RootIsNil(S), seqs |-> ExpRoot(S, st)]

(* Scenarios on which two readings of "zero sub-objects are skipped" differ are not generated: a zero
   struct that is reached through a pointer or as a collection element and would yield clauses. *)
RECURSIVE AmbObj(_, _), AmbVal(_, _, _)
AmbVal(S, v, viaRef) ==
  CASE v.k = "struct" -> (viaRef /\ IsZero(v) /\ ExpObj(S, "struct", "x", v) # {<<>>}) \/ AmbObj(S, v)
    [] v.k \in {"ptr", "slice", "array", "map"} -> \E i \in 1..Len(v.kids) : AmbVal(S, v.kids[i], TRUE)
    [] OTHER -> FALSE
(* ... except under a field that carries required and no exist: a non-nil pointer is not the zero value of its type
   (C03), "skipped silently" is said of exist only, so the pointed-to struct, zero or not, must be validated *)
HasKey(f, k) == \E j \in 1..Len(f.rules) : f.rules[j].key = k
ReqOnly(f) == Walked(f) /\ HasKey(f, "required") /\ ~HasKey(f, "exist")
AmbObj(S, o) == \E i \in 1..Len(o.kids) :
                  LET f == S.types[o.n].fields[i]
                      v == o.kids[i]
                  IN IF ReqOnly(f) /\ v.k = "ptr" THEN AmbVal(S, Deref(v), FALSE) ELSE AmbVal(S, v, FALSE)
AmbRootElem(S, e) == LET d == Deref(e) IN d.k = "struct" /\ AmbObj(S, d)   \* the roots themselves are always validated
Ambiguous(S) == IF S.root.k \in {"ptr", "struct"} THEN AmbRootElem(S, S.root)
                ELSE \E i \in 1..Len(S.root.kids) : AmbRootElem(S, S.root.kids[i])

----------------------------------------------------------------------------
(* Layer B: the mechanism *)
VARIABLES scn, style, exp, stack, errBuf, phase, result
vars == <<scn, style, exp, stack, errBuf, phase, result>>

IsPrefix(a, b) == Len(a) <= Len(b) /\ SubSeq(b, 1, Len(a)) = a
Res(kind, cs) == [kind |-> kind, clauses |-> cs]
Frame(k, p, node, todo, st) == [k |-> k, path |-> p, node |-> node, todo |-> todo, fi |-> 0, ri |-> 0, st |-> st]
ObjFrame(p, d) == Frame("obj", p, d, 1..Len(d.kids), "new")
SeqFrame(p, v) == Frame("seq", p, v, {}, "elem")
BagFrame(p, v) == Frame("bag", p, v, 1..Len(v.kids), "elem")
Top == stack[Len(stack)]
SetTop(f) == [stack EXCEPT ![Len(stack)] = f]
Pop == SubSeq(stack, 1, Len(stack) - 1)
Min(S) == CHOOSE x \in S : \A y \in S : x <= y
(* frames needed to visit a value that may deref to a struct *)
EnterFrames(p, e) == LET d == Deref(e) IN IF d.k = "struct" THEN <<ObjFrame(p, d)>> ELSE <<>>

CurFields == scn.types[Top.node.n].fields
CurField == CurFields[Top.fi]
CurVal == Top.node.kids[Top.fi]
CurRule == CurField.rules[Top.ri]
CurFP == FPath(style, Top.path, CurField.name)
Walking == phase = "walk" /\ Len(stack) > 0
AtObj(st) == Walking /\ Top.k = "obj" /\ Top.st = st
Keep == UNCHANGED <<scn, style, exp>>

InitWith(S, st) == /\ scn = S /\ style = st /\ exp = Expected(S, st)
                   /\ stack = <<>> /\ errBuf = <<>> /\ phase = "start" /\ result = Res("none", <<>>)

(* Valid(): dispatch on the kind of the top-level input *)
NilRoot == /\ phase = "start" /\ RootIsNil(scn)
           /\ phase' = "done" /\ result' = Res("any", <<>>)
           /\ UNCHANGED <<stack, errBuf>> /\ Keep
StartRoot == /\ phase = "start" /\ ~RootIsNil(scn)
             /\ LET r == scn.root IN
                stack' = CASE r.k \in {"ptr", "struct"} -> EnterFrames(RootName(scn, style, Deref(r)), r)
                           [] r.k \in {"slice", "array"} -> <<SeqFrame(RootLabel, r)>>
                           [] r.k = "map" -> <<BagFrame(RootLabel, r)>>
                           [] OTHER -> <<>>
             /\ phase' = "walk"
             /\ UNCHANGED <<errBuf, result>> /\ Keep

EnterObject == /\ AtObj("new")
               /\ stack' = SetTop([Top EXCEPT !.st = "field"])
               /\ UNCHANGED <<errBuf, phase, result>> /\ Keep
(* the field loop: declaration order (Map carrier: Go map order, i.e. any) *)
PickField(i) == /\ i \in Top.todo
                /\ (style # "map" => i = Min(Top.todo))
SkipField == /\ AtObj("field")
             /\ \E i \in Top.todo :
                  /\ PickField(i)
                  /\ (~Walked(CurFields[i]) \/ Len(CurFields[i].rules) = 0)
                  /\ stack' = SetTop([Top EXCEPT !.todo = @ \ {i}])
             /\ UNCHANGED <<errBuf, phase, result>> /\ Keep
NextField == /\ AtObj("field")
             /\ \E i \in Top.todo :
                  /\ PickField(i)
                  /\ Walked(CurFields[i]) /\ Len(CurFields[i].rules) > 0
                  /\ stack' = SetTop([Top EXCEPT !.todo = @ \ {i}, !.fi = i, !.ri = 0, !.st = "rule"])
             /\ UNCHANGED <<errBuf, phase, result>> /\ Keep
LeaveObject == /\ AtObj("field") /\ Top.todo = {}
               /\ stack' = Pop
               /\ UNCHANGED <<errBuf, phase, result>> /\ Keep
(* the rule loop: never leaves early *)
NextRule == /\ AtObj("rule")
            /\ stack' = IF Top.ri < Len(CurField.rules)
                        THEN SetTop([Top EXCEPT !.ri = @ + 1, !.st = "disp"])
                        ELSE SetTop([Top EXCEPT !.st = "field"])
            /\ UNCHANGED <<errBuf, phase, result>> /\ Keep
Done(st) == stack' = SetTop([Top EXCEPT !.st = st])
SkipEmptyItem == /\ AtObj("disp") /\ CurRule.key = ""
                 /\ Done("rule") /\ UNCHANGED <<errBuf, phase, result>> /\ Keep
UnknownRule == /\ AtObj("disp") /\ CurRule.key # "" /\ Resolve(CurRule.key) = "unknown"
               /\ errBuf' = Append(errBuf, Cl(UPath(style, Top.path, CurField.name), NoEcho, "notexist"))
               /\ Done("rule") /\ UNCHANGED <<phase, result>> /\ Keep
Required == /\ AtObj("disp") /\ CurRule.key = "required"
            /\ IF Empty(CurVal)
               THEN errBuf' = Append(errBuf, Cl(CurFP, "", ReqCls(CurRule))) /\ Done("rule")
               ELSE UNCHANGED errBuf /\ Done("desc")
            /\ UNCHANGED <<phase, result>> /\ Keep
Exist == /\ AtObj("disp") /\ CurRule.key = "exist"
         /\ IF IsZero(CurVal) THEN Done("rule") ELSE Done("desc")
         /\ UNCHANGED <<errBuf, phase, result>> /\ Keep
GroupMember == /\ AtObj("disp") /\ CurRule.key \in {"either", "botheq"}
               /\ Done("rule") /\ UNCHANGED <<errBuf, phase, result>> /\ Keep
IsExt == Resolve(CurRule.key) \in {"call", "builtin"}
ZeroSkip == /\ AtObj("disp") /\ IsExt /\ IsZero(CurVal)
            /\ Done("rule") /\ UNCHANGED <<errBuf, phase, result>> /\ Keep
CallFn == /\ AtObj("disp") /\ IsExt /\ ~IsZero(CurVal)
          /\ errBuf' = IF Violates(CurRule, CurVal)
                       THEN Append(errBuf, Cl(CurFP, Echo(CurVal), Cls(CurRule))) ELSE errBuf
          /\ Done("rule") /\ UNCHANGED <<phase, result>> /\ Keep
(* required (non-empty) / exist (non-zero): visit what the field holds *)
Descend == /\ AtObj("desc")
           /\ LET v == CurVal
                  cont == SetTop([Top EXCEPT !.st = "rule"])
              IN stack' = CASE v.k \in {"ptr", "struct"} -> cont \o EnterFrames(CurFP, v)
                            [] v.k \in {"slice", "array"} -> cont \o <<SeqFrame(CurFP, v)>>
                            [] v.k = "map" -> cont \o <<BagFrame(CurFP, v)>>
                            [] OTHER -> cont
           /\ UNCHANGED <<errBuf, phase, result>> /\ Keep
NextElem == /\ Walking /\ Top.k = "seq"
            /\ IF Top.fi < Len(Top.node.kids)
               THEN stack' = SetTop([Top EXCEPT !.fi = @ + 1]) \o EnterFrames(Idx(Top.path, Top.fi + 1), Top.node.kids[Top.fi + 1])
               ELSE stack' = Pop
            /\ UNCHANGED <<errBuf, phase, result>> /\ Keep
NextEntry == /\ Walking /\ Top.k = "bag"
             /\ IF Top.todo # {}
                THEN \E i \in Top.todo :
                       stack' = SetTop([Top EXCEPT !.todo = @ \ {i}]) \o EnterFrames(Key(Top.path, i), Top.node.kids[i])
                ELSE stack' = Pop
             /\ UNCHANGED <<errBuf, phase, result>> /\ Keep
(* getError(): drop the trailing separator, nil when nothing was written *)
Trim == /\ phase = "walk" /\ Len(stack) = 0
        /\ phase' = "trimmed"
        /\ UNCHANGED <<stack, errBuf, result>> /\ Keep
Return == /\ phase = "trimmed"
          /\ result' = IF Len(errBuf) = 0 THEN Res("nil", <<>>) ELSE Res("err", errBuf)
          /\ phase' = "done"
          /\ UNCHANGED <<stack, errBuf>> /\ Keep

Step == \/ NilRoot \/ StartRoot \/ EnterObject \/ SkipField \/ NextField \/ LeaveObject \/ NextRule
        \/ SkipEmptyItem \/ UnknownRule \/ Required \/ Exist \/ GroupMember \/ ZeroSkip \/ CallFn
        \/ Descend \/ NextElem \/ NextEntry \/ Trim \/ Return

----------------------------------------------------------------------------
(* B => A *)
PrefixOK == exp.any \/ \E e \in exp.seqs : IsPrefix(errBuf, e)
TerminalOK == (phase = "done" /\ ~exp.any) =>
                 /\ errBuf \in exp.seqs
                 /\ result = (IF Len(errBuf) = 0 THEN Res("nil", <<>>) ELSE Res("err", errBuf))
NilIffNone == (phase = "done" /\ ~exp.any) => ((result.kind = "nil") <=> (\A e \in exp.seqs : Len(e) = 0))
NoStuck == phase # "done" => ENABLED Step
StackSane == \A i \in 1..Len(stack) : stack[i].k \in {"obj", "seq", "bag"}
AppendOnly == [][IsPrefix(errBuf, errBuf')]_vars
ScnFixed == [][scn' = scn /\ exp' = exp]_vars

----------------------------------------------------------------------------
(* Scenario windows *)
R0(key) == Rule(key, 0, 0, "")
ProbeAlpha == {R0("required"), Rule("required", 0, 0, "m1"), R0("p_ok"), R0("p_bad"), Rule("p_bad", 0, 0, "m2"),
               R0("nosuch"), R0("")}
(* real built-in rules standing in for the probes; judged by InSet on the measure 3 *)
BuiltinAlpha == {R0("required"), R0("nosuch"), R0(""),
                 Rule("ge", 1, 0, ""), Rule("ge", 4, 0, ""), Rule("le", 0, 2, ""), Rule("le", 0, 2, "m3"),
                 Rule("to", 1, 5, ""), Rule("to", 5, 1, ""), Rule("oto", 3, 9, ""), Rule("oto", 0, 3, ""), Rule("oto", 9, 1, "m4"),
                 Rule("eq", 3, 0, ""), Rule("noeq", 3, 0, ""), Rule("gt", 3, 0, ""), Rule("lt", 0, 3, "")}
RuleLists(A, n) == UNION {[1..k -> A] : k \in 0..n}
FName(i) == CASE i = 1 -> "A" [] i = 2 -> "B" [] i = 3 -> "C" [] OTHER -> "D"
RulesText(rs) == IF Len(rs) >= 2 THEN "x" ELSE IF Len(rs) = 1 THEN rs[1].key ELSE ""   \* only emptiness matters
FlatStyles(fs) ==
  LET kinds == {fs[i].ty.k : i \in 1..Len(fs)}
      some == \E i \in 1..Len(fs) : RulesText(fs[i].rules) # ""
  IN <<"struct">>
     \o (IF Len(fs) = 1 /\ some THEN <<"var">> ELSE <<>>)
     \o (IF Cardinality(kinds) = 1 THEN <<"map">> ELSE <<>>)
     \o (IF kinds = {"str"} THEN <<"url">> ELSE <<>>)
RECURSIVE KindLetters(_)
KindLetters(fs) == IF Len(fs) = 0 THEN "" ELSE (IF fs[1].ty.k = "int" THEN "i" ELSE "s") \o KindLetters(Tail(fs))
FlatName(fs) == "walkerF" \o KindLetters(fs)        \* a fixed named Go type of the harness
FlatScn(fields, vals) ==
  [styles |-> FlatStyles(fields),
   types |-> <<[name |-> FlatName(fields), fields |-> fields]>>,
   rootTy |-> StructT(1),
   root |-> Val("struct", FALSE, 1, vals)]
A == IF Alpha = "builtin" THEN BuiltinAlpha ELSE ProbeAlpha
(* one exhaustive window: n fields, the given kind vectors, every rule list of 0..nr items per field,
   every zero / non-zero assignment *)
FlatWin(n, kindsets, nr) ==
  {FlatScn([i \in 1..n |-> Fld(FName(i), TRUE, FALSE, Ty(ks[i], 0, <<>>), rls[i])],
           [i \in 1..n |-> Val(ks[i], FALSE, ns[i], <<>>)])
     : ks \in kindsets, rls \in [1..n -> RuleLists(A, nr)], ns \in [1..n -> {0, 3}]}
K1 == [1..1 -> {"int", "str"}]
Mixed2 == {<<"int", "str">>}
Same2 == {<<"str", "str">>, <<"int", "int">>}
FlatScenarios ==
  CASE Alpha = "probe" /\ Tier = "quick" ->
         FlatWin(1, K1, 3) \cup FlatWin(2, Mixed2, 2) \cup FlatWin(2, Same2, 1)
    [] Alpha = "probe" ->
         FlatWin(1, K1, 4) \cup FlatWin(2, Mixed2 \cup Same2, 2)
         \cup FlatWin(3, {<<"int", "str", "int">>, <<"str", "str", "str">>}, 1)
    [] Alpha = "builtin" /\ Tier = "quick" ->
         FlatWin(1, K1, 2) \cup FlatWin(2, Mixed2 \cup Same2, 1)
    [] OTHER ->
         FlatWin(1, K1, 3) \cup FlatWin(2, Mixed2 \cup Same2, 1) \cup FlatWin(3, {<<"int", "str", "int">>}, 1)

(* ---- nested windows ---- *)
\* the rule that marks a reached object (always violated on a non-zero value) and its satisfied companion: per-call probe
\* functions, or - Alpha = "builtin" - built-in rules, so that the call needs no function and no rule set of its own
\* (N holds 1..4: below 5; M holds 0 or 1: at most 2)
BadRule == IF Alpha = "builtin" THEN Rule("ge", 5, 0, "") ELSE R0("p_bad")
OkRule == IF Alpha = "builtin" THEN Rule("le", 0, 2, "") ELSE R0("p_ok")
ContKinds == {"value", "ptr", "ptrptr", "slice", "sliceptr", "array", "arrayptr", "map", "mapptr"}
Markers == {"none", "required", "exist", "other", "mixed"}
Flavors == {"plain", "unexp", "emb"}
Wrap(kind, t) ==
  CASE kind = "value" -> t
    [] kind = "ptr" -> Ty("ptr", 0, <<t>>)
    [] kind = "ptrptr" -> Ty("ptr", 0, <<Ty("ptr", 0, <<t>>)>>)
    [] kind = "slice" -> Ty("slice", 0, <<t>>)
    [] kind = "sliceptr" -> Ty("slice", 0, <<Ty("ptr", 0, <<t>>)>>)
    [] kind = "array" -> Ty("array", 2, <<t>>)
    [] kind = "arrayptr" -> Ty("array", 2, <<Ty("ptr", 0, <<t>>)>>)
    [] kind = "map" -> Ty("map", 0, <<t>>)
    [] kind = "mapptr" -> Ty("map", 0, <<Ty("ptr", 0, <<t>>)>>)
MarkRules(m) == CASE m = "required" -> <<R0("required")>> [] m = "exist" -> <<R0("exist")>>
                  [] m = "other" -> <<R0("p_ok")>>
                  [] m = "mixed" -> <<R0(""), R0("exist"), R0("nosuch")>> [] OTHER -> <<>>
Sl(nil, kids) == Val("slice", nil, 0, kids)
Ar(kids) == Val("array", FALSE, 2, kids)
Mp(nil, kids) == Val("map", nil, 0, kids)
(* the states a child field of the given container kind can be in; Z zero child, P populated children *)
ChildStates(kind, Z, P) ==
  CASE kind = "value" -> {Z} \cup P
    [] kind = "ptr" -> {NilPtr, PtrTo(Z)} \cup {PtrTo(p) : p \in P}
    [] kind = "ptrptr" -> {NilPtr, PtrTo(NilPtr)} \cup {PtrTo(PtrTo(p)) : p \in P}
    [] kind = "slice" -> {Sl(TRUE, <<>>), Sl(FALSE, <<>>)} \cup {Sl(FALSE, <<p>>) : p \in P}
                           \cup {Sl(FALSE, <<Z, p>>) : p \in P} \cup {Sl(FALSE, <<p, q>>) : p \in P, q \in P}
    [] kind = "sliceptr" -> {Sl(TRUE, <<>>), Sl(FALSE, <<NilPtr>>)} \cup {Sl(FALSE, <<PtrTo(p)>>) : p \in P}
                           \cup {Sl(FALSE, <<NilPtr, PtrTo(p)>>) : p \in P} \cup {Sl(FALSE, <<PtrTo(p), NilPtr, PtrTo(q)>>) : p \in P, q \in P}
    [] kind = "array" -> {Ar(<<Z, Z>>)} \cup {Ar(<<p, Z>>) : p \in P} \cup {Ar(<<Z, p>>) : p \in P}
                           \cup {Ar(<<p, q>>) : p \in P, q \in P}
    [] kind = "arrayptr" -> {Ar(<<NilPtr, NilPtr>>)} \cup {Ar(<<NilPtr, PtrTo(p)>>) : p \in P}
                           \cup {Ar(<<PtrTo(p), PtrTo(q)>>) : p \in P, q \in P}
    [] kind = "map" -> {Mp(TRUE, <<>>), Mp(FALSE, <<>>)} \cup {Mp(FALSE, <<p>>) : p \in P}
                           \cup {Mp(FALSE, <<Z, p>>) : p \in P} \cup {Mp(FALSE, <<p, q>>) : p \in P, q \in P}
    [] kind = "mapptr" -> {Mp(FALSE, <<NilPtr>>)} \cup {Mp(FALSE, <<PtrTo(p)>>) : p \in P}
                           \cup {Mp(FALSE, <<NilPtr, PtrTo(p)>>) : p \in P}
(* a struct type of the chain: probe N (always violated when non-zero), probe M (satisfied), W child fields *)
ChildName(fl, j, d) == CASE fl = "emb" -> "T" \o ToString(d + 1)
                         [] fl = "unexp" -> "c" \o ToString(j)
                         [] OTHER -> "C" \o ToString(j)
LevelType(d, childs, tm) ==   \* childs: Seq([kind, marker, flavor]); tm: has a time.Time field
  [name |-> "T" \o ToString(d),
   fields |-> <<Fld("N", TRUE, FALSE, IntT, <<BadRule>>), Fld("M", TRUE, FALSE, IntT, <<OkRule>>)>>
              \o (IF tm THEN <<Fld("W", TRUE, FALSE, TimeT, <<R0("required")>>)>> ELSE <<>>)
              \o [j \in 1..Len(childs) |->
                    Fld(ChildName(childs[j].flavor, j, d), childs[j].flavor # "unexp", childs[j].flavor = "emb",
                        Wrap(childs[j].kind, StructT(d + 1)), MarkRules(childs[j].marker))]]
StructV(d, n, m, tm, kids) ==
  Val("struct", FALSE, d, <<IntV(n), IntV(m)>> \o (IF tm < 0 THEN <<>> ELSE <<TimeV(tm)>>) \o kids)

(* exhaustive window: T1 with one child field of every kind x marker x flavor, child in every state *)
LeafType(d, tm) == LevelType(d, <<>>, tm)
LeafPop(d) == {StructV(d, d, 0, -1, <<>>), StructV(d, 0, 1, -1, <<>>)}
LeafZero(d) == StructV(d, 0, 0, -1, <<>>)
FlavorOK(fl, kind) == fl # "emb" \/ kind \in {"value", "ptr"}
NestScn(types, root) == [styles |-> <<"struct">>, types |-> types, rootTy |-> StructT(1), root |-> root]
Nest2 ==
  UNION {
    {NestScn(<<LevelType(1, <<[kind |-> kind, marker |-> mk, flavor |-> fl]>>, FALSE), LeafType(2, FALSE)>>,
             StructV(1, nm[1], nm[2], -1, <<c>>))
       : c \in IF FlavorOK(fl, kind) THEN ChildStates(kind, LeafZero(2), LeafPop(2)) ELSE {},
         nm \in {<<1, 0>>, <<0, 1>>, <<0, 0>>}}
    : kind \in ContKinds, mk \in Markers, fl \in Flavors}
(* top-level inputs: pointer chains, slices, arrays, maps of T1 (T1 -> C1 *T2 required) *)
RootType2 == <<LevelType(1, <<[kind |-> "ptr", marker |-> "required", flavor |-> "plain"]>>, TRUE), LeafType(2, FALSE)>>
RootPop == {StructV(1, 1, 0, 0, <<PtrTo(p)>>) : p \in LeafPop(2)} \cup {StructV(1, 0, 1, 1, <<NilPtr>>)}
RootZero == StructV(1, 0, 0, 0, <<NilPtr>>)
RootScns ==
  UNION {
    {[styles |-> <<"struct">>, types |-> RootType2, rootTy |-> Wrap(kind, StructT(1)), root |-> r]
       : r \in ChildStates(kind, RootZero, RootPop)}
    : kind \in ContKinds}
NestScenarios == {s \in Nest2 \cup RootScns : ~Ambiguous(s)}

(* sampled window: chains of Depth types, Width child fields each, every choice drawn by TLC *)
Pick(S) == RandomElement(S)
PickW(q) == q[RandomElement(1..Len(q))]
RECURSIVE RandTypes(_), RandVal(_, _, _), ZeroOf(_, _)
RandChild(d) == LET kind == Pick(ContKinds)
                    fl == PickW(<<"plain", "plain", "plain", "plain", "unexp", "emb">>) IN
                [kind |-> kind, marker |-> PickW(<<"none", "other", "mixed", "required", "required", "required", "exist", "exist", "exist">>),
                 flavor |-> IF FlavorOK(fl, kind) THEN fl ELSE "plain"]
DistinctEmb(cs) == \A i, j \in 1..Len(cs) : (i # j /\ cs[i].flavor = "emb") => cs[j].flavor # "emb"
RandChilds(d) == LET cs == [j \in 1..Pick(1..Width) |-> RandChild(d)] IN
                 IF DistinctEmb(cs) THEN cs ELSE [j \in 1..Len(cs) |-> [cs[j] EXCEPT !.flavor = "plain"]]
RandTypes(d) == IF d = Depth THEN <<LeafType(d, Pick(BOOLEAN))>>
                ELSE <<LevelType(d, RandChilds(d), Pick(BOOLEAN))>> \o RandTypes(d + 1)
KidKind(t) == IF t.k = "ptr" THEN (IF t.of[1].k = "ptr" THEN "ptrptr" ELSE "ptr")
              ELSE IF t.k = "struct" THEN "value"
              ELSE IF t.of[1].k = "ptr" THEN t.k \o "ptr" ELSE t.k
ZeroOf(types, t) ==
  CASE t.k = "int" -> IntV(0) [] t.k = "str" -> StrV(0) [] t.k = "time" -> TimeV(0)
    [] t.k = "ptr" -> NilPtr [] t.k = "slice" -> Sl(TRUE, <<>>) [] t.k = "map" -> Mp(TRUE, <<>>)
    [] t.k = "array" -> Val("array", FALSE, t.n, [i \in 1..t.n |-> ZeroOf(types, t.of[1])])
    [] t.k = "struct" -> Val("struct", FALSE, t.n, [i \in 1..Len(types[t.n].fields) |-> ZeroOf(types, types[t.n].fields[i].ty)])
(* a random value of struct type d; pop = must be non-zero *)
RandVal(types, d, pop) ==
  LET fs == types[d].fields
      nm == IF pop THEN Pick({<<d, 0>>, <<0, 1>>, <<d, 1>>}) ELSE Pick({<<d, 0>>, <<0, 1>>, <<0, 0>>, <<0, 0>>})
      kid(i) == LET f == fs[i] IN
                IF f.ty.k = "int" THEN IntV(IF f.name = "N" THEN nm[1] ELSE nm[2])
                ELSE IF f.ty.k = "time" THEN TimeV(Pick({0, 1}))
                ELSE LET Z == ZeroOf(types, StructT(d + 1))
                         P == {RandVal(types, d + 1, TRUE), RandVal(types, d + 1, FALSE)}
                     IN Pick(ChildStates(KidKind(f.ty), Z, P))
  IN Val("struct", FALSE, d, [i \in 1..Len(fs) |-> kid(i)])
RandScn(i) ==
  LET types == RandTypes(1)
      rk == Pick(ContKinds \cup {"value", "ptr"})
      Z == ZeroOf(types, StructT(1))
      P == {RandVal(types, 1, TRUE), RandVal(types, 1, FALSE)}
  IN [styles |-> <<"struct">>, types |-> types, rootTy |-> Wrap(rk, StructT(1)), root |-> Pick(ChildStates(rk, Z, P))]
(* the number of entry orders of the Go maps in a value (bounds the size of Expected) *)
RECURSIVE Orders(_), ProdOrders(_), Fact(_)
Fact(n) == IF n <= 1 THEN 1 ELSE n * Fact(n - 1)
ProdOrders(vs) == IF Len(vs) = 0 THEN 1 ELSE Orders(vs[1]) * ProdOrders(Tail(vs))
Orders(v) == (IF v.k = "map" THEN Fact(Len(v.kids)) ELSE 1) * ProdOrders(v.kids)
RandScenarios == {s \in {RandScn(i) : i \in 1..NSample} : ~Ambiguous(s) /\ Orders(s.root) <= 24}

(* ---- recursive types: T1 -> T2 -> T1 -> ... and the self-recursive T1 -> T1.  The type graph has a cycle, the VALUES are
   finite chains (the last link is nil / a nil slice / a nil map), so the object graph stays acyclic as C04 demands.
   Every level holds the violated probe N and the satisfied probe M in front of or behind its link field; the type on
   the way back (T2) comes with or without probes of its own. *)
RecKinds == {"ptr", "slice", "sliceptr", "mapptr"}
RecType(d, other, kind, marker, linkFirst, probes) ==
  LET link == <<Fld("C1", TRUE, FALSE, Wrap(kind, StructT(other)), MarkRules(marker))>>
      ps == IF probes THEN <<Fld("N", TRUE, FALSE, IntT, <<BadRule>>), Fld("M", TRUE, FALSE, IntT, <<OkRule>>)>> ELSE <<>>
  IN [name |-> "T" \o ToString(d), fields |-> IF linkFirst THEN link \o ps ELSE ps \o link]
RecLink(kind, v, lead) ==          \* the link field holding v (lead: a nil element in front, where the kind has elements)
  CASE kind = "ptr" -> PtrTo(v)
    [] kind = "slice" -> Sl(FALSE, <<v>>)
    [] kind = "sliceptr" -> Sl(FALSE, IF lead THEN <<NilPtr, PtrTo(v)>> ELSE <<PtrTo(v)>>)
    [] kind = "mapptr" -> Mp(FALSE, <<PtrTo(v)>>)
RecEnd(kind) == CASE kind = "ptr" -> NilPtr [] kind \in {"slice", "sliceptr"} -> Sl(TRUE, <<>>) [] OTHER -> Mp(TRUE, <<>>)
RecStruct(types, d, nm, link) ==
  Val("struct", FALSE, d, [i \in 1..Len(types[d].fields) |->
                             LET f == types[d].fields[i] IN
                             IF f.name = "N" THEN IntV(nm[1]) ELSE IF f.name = "M" THEN IntV(nm[2]) ELSE link])
\* a chain of `depth` objects starting with type d; kinds[t] = link kind of type t; nms = (N, M) per level
RECURSIVE RecChain(_, _, _, _, _, _)
RecChain(types, d, kinds, depth, nms, lead) ==
  LET next == IF Len(types) = 1 THEN 1 ELSE 3 - d IN
  RecStruct(types, d, nms[1],
            IF depth = 1 THEN RecEnd(kinds[d])
            ELSE RecLink(kinds[d], RecChain(types, next, kinds, depth - 1, Tail(nms), lead), lead))
\* (N, M) per level: every level violated, or alternating (so that a level that was skipped, or visited twice, shows)
NMSeqs == {<<(<<1, 0>>), (<<1, 0>>), (<<1, 0>>), (<<1, 0>>)>>, <<(<<1, 0>>), (<<0, 1>>), (<<1, 0>>), (<<0, 1>>)>>,
           <<(<<0, 1>>), (<<1, 0>>), (<<0, 1>>), (<<1, 0>>)>>}
RecScn(types, root) == [styles |-> <<"struct">>, types |-> types, rootTy |-> StructT(1), root |-> root]
RecMutual ==
  UNION {
    {RecScn(<<RecType(1, 2, k1, m1, lf, TRUE), RecType(2, 1, k2, m2, lf2, pb)>>,
            RecChain(<<RecType(1, 2, k1, m1, lf, TRUE), RecType(2, 1, k2, m2, lf2, pb)>>, 1, <<k1, k2>>, depth, nms, lead))
       : depth \in 2..4, nms \in NMSeqs, lead \in BOOLEAN}
    : k1 \in RecKinds, k2 \in RecKinds, m1 \in {"required", "exist"}, m2 \in {"required", "exist"},
      lf \in BOOLEAN, lf2 \in BOOLEAN, pb \in BOOLEAN}
RecSelf ==
  UNION {
    {RecScn(<<RecType(1, 1, k1, m1, lf, TRUE)>>, RecChain(<<RecType(1, 1, k1, m1, lf, TRUE)>>, 1, <<k1>>, depth, nms, lead))
       : depth \in 1..4, nms \in NMSeqs, lead \in BOOLEAN}
    : k1 \in RecKinds, m1 \in {"required", "exist"}, lf \in BOOLEAN}
RecScenarios == {s \in RecMutual \cup RecSelf : ~Ambiguous(s)}

Scenarios == CASE Mode = "flat" -> FlatScenarios
               [] Mode = "rec" -> RecScenarios
               [] Mode = "nest" -> NestScenarios
               [] Mode = "rand" -> RandScenarios
               [] OTHER -> {}
Styles(S) == {S.styles[i] : i \in 1..Len(S.styles)}

Init == \E S \in Scenarios : \E st \in Styles(S) : InitWith(S, st)
Next == Step
Spec == Init /\ [][Next]_vars
=============================================================================
