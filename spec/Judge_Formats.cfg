SPECIFICATION JSpec
