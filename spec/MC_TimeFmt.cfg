CONSTANTS
  SepAlpha <- SepAlphaDef
  MaxSplits <- MaxSplitsDef
  TimeSepIdx = 3
SPECIFICATION Spec
INVARIANTS TypeOK MechIsContract PartsGrow HighBitsIgnored NoCompNoText Emit
CHECK_DEADLOCK FALSE
