\* exhaustive: 3 keys, 2 values, capacities 0..3 (one run covers all four capacities)
CONSTANTS
  Keys = {"k1", "k2", "k3"}
  Vals = {"v1", "v2"}
  Caps = {0, 1, 2, 3}
SPECIFICATION Spec
VIEW view
CHECK_DEADLOCK FALSE
INVARIANTS TypeOK NoDup Bounded DomainsAgree IndexAgrees LenNeverSentinel
PROPERTIES LoadHitsLive ValStable StoreStores EvictsLeastRecent OnlyDeleteRemoves DeleteRemovesOnlyK TouchMovesToFront CallbackExactlyOnce
