------------------------------ MODULE MC_Echo ------------------------------
(* Exhaustive check of Echo's escaping mechanism against its contract on all  *)
(* byte strings up to MaxLen over Alpha, the clause laws on a window of       *)
(* names / inputs / words, and model -> code emission: "@@ESC" one vector per *)
(* string with the contract's escaped text, "@@CL" one vector per clause.     *)
EXTENDS Echo, TLC, Json, IOUtils

Wide == "ECHO_WIDE" \in DOMAIN IOEnv /\ IOEnv.ECHO_WIDE = "1"
\* every special byte, two bytes that are the *codes* of specials ('0', 'n'), a letter, a high byte
AlphaDef == Special \cup {48, 110, 97, 255}
MaxLenDef == IF Wide THEN 4 ELSE 3

EmitEsc == pc = "done" => PrintT("@@ESC " \o ToJson([op |-> "escape", s |-> s, want |-> Escape(s)]))

\* clause window
Names == {<<>>, <<79>>}                                   \* "", "O"
Fields == {<<>>, <<70>>, <<70, 91, 49, 93>>}              \* "", "F", "F[1]"
Inputs == {<<>>, <<53>>, <<DQ>>, ExplainEn}               \* "", "5", a quote, a value that itself reads "explain:"
Words == {<<>>, <<109>>, ExplainEn, <<120, SP>> \o ExplainEn \o <<SP, 121>>, ExplainZh \o <<122>>, <<SEMI, SP>>}
OthersSet == UNION {[1..k -> Words] : k \in 0..(IF Wide THEN 3 ELSE 2)}
ASSUME \A o \in Names : \A f \in Fields : \A in \in Inputs : \A ot \in OthersSet :
         /\ ClauseLaws(o, f, in, ot)
         /\ PrintT("@@CL " \o ToJson([op |-> "valid", obj |-> o, field |-> f, input |-> in, others |-> ot,
                                      want |-> ClauseOf(o, f, in, ot)]))
ASSUME \A o \in Names : \A f \in Fields : \A m \in Words : \A ae \in BOOLEAN :
         PrintT("@@CL " \o ToJson([op |-> "field", obj |-> o, field |-> f, input |-> <<>>, others |-> <<m>>, aserr |-> ae,
                                   want |-> FieldClauseOf(o, f, m)]))
=============================================================================
