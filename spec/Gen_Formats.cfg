SPECIFICATION GSpec
