CONSTANTS
  Fixed = TRUE
  MaxClauses = 1
  MsgLens = {1}
SPECIFICATION Spec
CHECK_DEADLOCK FALSE
