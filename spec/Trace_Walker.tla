--------------------------- MODULE Trace_Walker ---------------------------
(* Trace validation for C02 / C04.  A recording of the real library is a sequence of slices                 *)
(*     scn  probe*  (ret | panic)                                                                             *)
(* scn   : the scenario (types, value, carrier style) that was validated                                      *)
(* probe : one call of a per-call probe function (p_ok / p_bad) by the real walker: the field path it was     *)
(*         given, the rule text, the echoed value and the LIVE content of the error buffer at that moment     *)
(* ret   : the returned error, abstracted to clause records (kind nil / err)                                  *)
(* TLC must walk the mechanism of Walker.tla through every slice: built-in steps are silent, every CallFn    *)
(* step on a probe rule must consume the next probe line with equal path, rule text, value and buffer, and    *)
(* Return must produce the logged result, which must be one of the sequences the contract allows.             *)
(* A panic line fits no action of the walker: TLC reports it (@@PANIC) and resumes at the next scenario, so   *)
(* one run lists every panicking slice; any other line that does not fit stops the search (@@REJECT).         *)
EXTENDS Walker, Json, IOUtils

Trace == ndJsonDeserialize(IOEnv.TRACE)

VARIABLE l
tvars == <<vars, l>>

ASSUME TLCSet(1, 0)

Dummy == [styles |-> <<"struct">>, types |-> <<>>, rootTy |-> StructT(1), root |-> NilPtr]
TraceInit == /\ l = 1
             /\ scn = Dummy /\ style = "struct" /\ exp = [any |-> TRUE, seqs |-> {}]
             /\ stack = <<>> /\ errBuf = <<>> /\ phase = "done" /\ result = Res("none", <<>>)

Ev == Trace[l]
More == l <= Len(Trace)

(* scenarios on which the readings of "zero sub-objects are skipped" differ are not judged *)
TraceScn == /\ More /\ Ev.e = "scn" /\ phase \in {"done", "skip"}
            /\ scn' = Ev.scn /\ style' = Ev.style
            /\ exp' = Expected(Ev.scn, Ev.style)
            /\ stack' = <<>> /\ errBuf' = <<>> /\ result' = Res("none", <<>>)
            /\ phase' = IF Ambiguous(Ev.scn) THEN "skip" ELSE "start"
            /\ l' = l + 1
TraceSkip == /\ More /\ Ev.e # "scn" /\ phase = "skip"
             /\ UNCHANGED vars /\ l' = l + 1

AtProbe == AtObj("disp") /\ IsExt /\ ~IsZero(CurVal) /\ CurRule.key \in ProbeRules
TraceProbe == /\ More /\ Ev.e = "probe" /\ AtProbe
              /\ Ev.fp = CurFP
              /\ Ev.rule = RuleText(CurRule)
              /\ Ev.val = Echo(CurVal)
              /\ Ev.buf = errBuf
              /\ CallFn
              /\ l' = l + 1
Silent == /\ phase \in {"start", "walk"} /\ ~AtProbe
          /\ \/ StartRoot \/ EnterObject \/ SkipField \/ NextField \/ LeaveObject \/ NextRule
             \/ SkipEmptyItem \/ UnknownRule \/ Required \/ Exist \/ GroupMember \/ ZeroSkip \/ CallFn
             \/ Descend \/ NextElem \/ NextEntry \/ Trim
          /\ UNCHANGED l
TraceRet == /\ More /\ Ev.e = "ret"
            /\ \/ /\ phase = "trimmed" /\ Return
                  /\ result' = Res(Ev.kind, Ev.clauses)
                  /\ errBuf \in exp.seqs                        \* the contract itself, not only the mechanism
               \/ /\ NilRoot                                    \* nil root pointer: any result, but a result
            /\ l' = l + 1

TracePanic == /\ More /\ Ev.e = "panic" /\ phase # "skip"
              /\ PrintT("@@PANIC " \o ToJson([line |-> l]))
              /\ phase' = "done" /\ stack' = <<>> /\ result' = Res("panic", <<>>)
              /\ exp' = [any |-> TRUE, seqs |-> {}]
              /\ UNCHANGED <<scn, style, errBuf>>
              /\ l' = l + 1

TraceNext == TraceScn \/ TraceSkip \/ TraceProbe \/ Silent \/ TraceRet \/ TracePanic
TraceSpec == TraceInit /\ [][TraceNext]_tvars

HW == TLCSet(1, IF l > TLCGet(1) THEN l ELSE TLCGet(1))
Accepted == IF TLCGet(1) = Len(Trace) + 1 THEN TRUE
            ELSE PrintT("@@REJECT " \o ToJson([line |-> TLCGet(1), len |-> Len(Trace)])) /\ FALSE
=============================================================================
