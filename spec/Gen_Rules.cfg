\* template: lib/fam_rules.py writes one cfg per shard (W, GenRules, EmitVals)
CONSTANTS
  W = 2
  Pinned = FALSE
  GenRules = {"to", "ge", "le", "oto", "gt", "lt", "eq", "noeq"}
  EmitVals = TRUE
SPECIFICATION GenSpec
CHECK_DEADLOCK FALSE
INVARIANTS Emit
