\* every clause sequence of length <= 4 over {zh, en, unlabelled} x message lengths {1,2}: repaired scan = Extract, no slice out of bounds
CONSTANTS
  Fixed = TRUE
  MaxClauses = 4
  MsgLens = {1, 2}
SPECIFICATION Spec
CHECK_DEADLOCK FALSE
INVARIANTS NoPanic ExtractCorrect
PROPERTIES Terminates
