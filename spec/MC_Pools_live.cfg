\* termination (every call returns; nothing blocks on a pool or the cache) on a two-descriptor instance
CONSTANTS
  Calls = {1, 2, 3}
  MCDescs = {2, 3}
  ClearRuleMapOnFree = TRUE
  FreshVC = TRUE
  ReInitBuf = TRUE
  ResetDetaches = TRUE
  KeyWithTag = TRUE
  WriteThrough = FALSE
  EarlyDistinct = FALSE
  MaxObj = 4
SPECIFICATION MSpec
CHECK_DEADLOCK FALSE
INVARIANTS MTypeOK
PROPERTIES Terminates HandedOutFrozen
