\* every history of exactly 3 calls over 3 types x 3 tags (incl. the default tag name "valid") x 4 overrides (36^3 = 46 656)
CONSTANTS
  Types = {"T1", "T2", "T3"}
  Tags = {"a", "b", "valid"}
  ShapeOf <- AllShapes
  Ovs <- GenOvs
  Kinds <- MCKinds
  MaxCalls = 3
  CallVals <- ValSet
  WriteThrough = FALSE
  KeyOf <- KeyTT
SPECIFICATION GenSpec
INVARIANT Emit
CHECK_DEADLOCK FALSE
