\* two processes with two calls each, capacities 0..2
CONSTANTS
  Keys = {"k1", "k2"}
  Vals = {"v1"}
  Caps = {0, 1, 2}
  Procs = {"p1", "p2"}
  MaxOps = 2
SPECIFICATION CSpec
VIEW cview
INVARIANTS NoRace LockSane NoDup Bounded DomainsAgree IndexAgrees LenNeverSentinel
PROPERTIES EventuallyDone
