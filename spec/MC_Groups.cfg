\* repaired mechanism (table keyed by object + rule text, map members stored as themselves) refines the contract
CONSTANTS
  KeyMode = "obj"
  MapWrap = FALSE
  Window = "mc"
SPECIFICATION Spec
INVARIANTS TypeOK Refines NoSpurious
PROPERTIES Monotone
CHECK_DEADLOCK FALSE
