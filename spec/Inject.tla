------------------------------- MODULE Inject -------------------------------
(***************************************************************************)
(* The tag injector + CLI (main.go, file/*.go) as a state machine over a   *)
(* directory.  Contract (layer A) and byte-level definitions: InjectBase.  *)
(*                                                                         *)
(* dir     sequence of entries in name order (os.ReadDir / Glob order)     *)
(*           kind "go" (a parsable .go file), "broken" (.go, no parse),    *)
(*                "nongo" (no .go suffix), "subdir", "subdirgo" (a         *)
(*                sub-directory whose name ends in .go)                    *)
(*           file the abstract file the entry was created from             *)
(*           disk its current bytes                                        *)
(* One CLI run: StartRun(-d | -p | -f one entry), then per entry the       *)
(* suffix filter, ParseFile (field loop collecting areas whose offsets     *)
(* refer to the ORIGINAL bytes), WriteFile (areas applied one by one,      *)
(* SpliceOrder = "last": from the end of the file backwards), write back.  *)
(* Fault steps are separate actions: ParseError, NoTagLiteral,             *)
(* MentionOnly.  SkipUntagged = FALSE models the pinned code (nil          *)
(* dereference on a field with an @tag comment and no tag literal).        *)
(***************************************************************************)
EXTENDS InjectScen

CONSTANTS MaxRuns,        \* CLI invocations per behaviour
          Modes,          \* subset of {"d", "p", "f"}
          SpliceOrder,    \* "last" (the code) | "first" (sanity: must break OutsideUnchanged/FieldsMerged)
          SkipUntagged    \* TRUE: repaired code skips fields without a tag literal; FALSE: crash

VARIABLES dir, mode, run, pc, idx, last, fi, ast, areas, buf, crashed, ever, handled
vars == <<dir, mode, run, pc, idx, last, fi, ast, areas, buf, crashed, ever, handled>>

OrigDisk(e) == IF e.kind = "broken" THEN Render(e.file) \o <<C("x", "", 0)>> ELSE Render(e.file)

----------------------------------------------------------------------------
Init == /\ dir \in InitDirs
        /\ mode = "d" /\ run = 0 /\ pc = "idle" /\ idx = 1 /\ last = 0 /\ fi = 1
        /\ ast = <<>> /\ areas = <<>> /\ buf = <<>>
        /\ crashed = FALSE /\ ever = {} /\ handled = {}

StartRun(m, t) ==
  /\ pc = "idle" /\ run < MaxRuns /\ ~crashed
  /\ mode' = m /\ run' = run + 1 /\ pc' = "loop"
  /\ idx' = (IF m = "f" THEN t ELSE 1)
  /\ last' = (IF m = "f" THEN t ELSE Len(dir))
  /\ handled' = {}
  /\ UNCHANGED <<dir, fi, ast, areas, buf, crashed, ever>>

InLoop == pc = "loop" /\ idx <= last
NextEntry == /\ idx' = idx + 1 /\ handled' = handled \cup {idx}
             /\ UNCHANGED <<dir, mode, run, pc, last, fi, ast, areas, buf, crashed, ever>>
\* handleFile: only names ending in .go
SkipSuffix == InLoop /\ dir[idx].kind \in {"nongo", "subdir"} /\ (dir[idx].kind = "subdir" => mode # "d") /\ NextEntry
\* handleDir: directories are skipped
SkipSubdir == InLoop /\ dir[idx].kind \in {"subdir", "subdirgo"} /\ mode = "d" /\ NextEntry
\* parser.ParseFile returns an error: logged, nothing written
ParseError == InLoop /\ (dir[idx].kind = "broken" \/ (dir[idx].kind = "subdirgo" /\ mode # "d")) /\ NextEntry
BeginParse == /\ InLoop /\ dir[idx].kind = "go"
              /\ ast' = Decode(dir[idx].disk) /\ fi' = 1 /\ areas' = <<>> /\ pc' = "parse"
              /\ UNCHANGED <<dir, mode, run, idx, last, buf, crashed, ever, handled>>

InParse == pc = "parse" /\ fi <= Len(ast)
ParseStep == /\ fi' = fi + 1
             /\ UNCHANGED <<dir, mode, run, pc, idx, last, ast, buf, crashed, ever, handled>>
\* not a field ParseFile looks at, or no @tag comment
PSkip == InParse /\ ~(Visited(ast, fi) /\ TagComment(ast, fi)) /\ ParseStep /\ UNCHANGED areas
\* fault: @tag comment on a field that has no tag literal
NoTagLiteral == /\ InParse /\ Untagged(ast, fi)
                /\ IF SkipUntagged THEN ParseStep /\ UNCHANGED areas
                   ELSE /\ crashed' = TRUE /\ pc' = "idle"
                        /\ UNCHANGED <<dir, mode, run, idx, last, fi, ast, areas, buf, ever, handled>>
\* fault: the comment only mentions @tag: an area with nothing to inject
MentionOnly == InParse /\ Collects(ast, fi) /\ ast[fi].ck = "mention" /\ ParseStep /\ areas' = Append(areas, Area(ast, fi))
Collect == InParse /\ Collects(ast, fi) /\ ast[fi].ck = "inj" /\ ParseStep /\ areas' = Append(areas, Area(ast, fi))
ParseDone == /\ pc = "parse" /\ fi > Len(ast)
             /\ buf' = dir[idx].disk /\ pc' = "apply"
             /\ UNCHANGED <<dir, mode, run, idx, last, fi, ast, areas, crashed, ever, handled>>

ApplyOne == /\ pc = "apply" /\ areas # <<>>
            /\ LET k == IF SpliceOrder = "last" THEN Len(areas) ELSE 1 IN
               /\ buf' = ApplyArea(buf, areas[k])
               /\ areas' = [j \in 1..(Len(areas) - 1) |-> IF j < k THEN areas[j] ELSE areas[j + 1]]
            /\ UNCHANGED <<dir, mode, run, pc, idx, last, fi, ast, crashed, ever, handled>>
WriteBack == /\ pc = "apply" /\ areas = <<>>
             /\ dir' = [dir EXCEPT ![idx].disk = buf]
             /\ ever' = ever \cup {idx} /\ handled' = handled \cup {idx}
             /\ pc' = "loop" /\ idx' = idx + 1
             /\ UNCHANGED <<mode, run, last, fi, ast, areas, buf, crashed>>
EndRun == /\ pc = "loop" /\ idx > last /\ pc' = "idle"
          /\ UNCHANGED <<dir, mode, run, idx, last, fi, ast, areas, buf, crashed, ever, handled>>

Next == \/ \E m \in Modes \ {"f"} : StartRun(m, 0)
        \/ ("f" \in Modes /\ \E t \in DOMAIN dir : StartRun("f", t))
        \/ SkipSuffix \/ SkipSubdir \/ ParseError \/ BeginParse
        \/ PSkip \/ NoTagLiteral \/ MentionOnly \/ Collect \/ ParseDone
        \/ ApplyOne \/ WriteBack \/ EndRun
Spec == Init /\ [][Next]_vars

----------------------------------------------------------------------------
(* Contract, C06 *)
\* the bytes on disk change only in WriteBack (pc' = "loop"), so the byte-level predicates are evaluated at rest
AtRest == pc \in {"loop", "idle"}
Written == IF AtRest THEN {e \in DOMAIN dir : dir[e].kind = "go" /\ e \in ever} ELSE {}
FieldsMergedInv == \A e \in Written : FieldsMerged(dir[e].file, dir[e].disk)
OutsideUnchangedInv == \A e \in Written : OutsideUnchanged(dir[e].file, OrigDisk(dir[e]), dir[e].disk)
PlainUnchanged == AtRest => \A e \in DOMAIN dir : ~HasAnnotation(dir[e].file) => dir[e].disk = OrigDisk(dir[e])
\* the written bytes parse back to the same declarations (same segments apart from the tags)
StillParses == \A e \in Written : FileStepOK(dir[e].file, Decode(dir[e].disk))
(* Contract, C07: a file that was written once is never changed again *)
Idempotent == [][(pc = "apply" /\ pc' = "loop" /\ idx \in ever) => dir' = dir]_vars
(* Contract, C19 *)
NoCrash == ~crashed
UnprocessableUntouched == AtRest => \A e \in DOMAIN dir : dir[e].kind \in {"broken", "nongo"} => dir[e].disk = OrigDisk(dir[e])
SubdirEither == AtRest => \A e \in DOMAIN dir : dir[e].kind \in {"subdir", "subdirgo"}
                   => (dir[e].disk = OrigDisk(dir[e]) \/ FileOK(dir[e].file, OrigDisk(dir[e]), dir[e].disk))
NeverCorrupt == AtRest => \A e \in DOMAIN dir : (dir[e].kind = "go" /\ e \notin ever) => dir[e].disk = OrigDisk(dir[e])
\* when a run is over, every entry in its scope was handled and every processable file is as a single-file run leaves it
OthersStillProcessed ==
  (pc = "idle" /\ run >= 1) =>
     /\ handled = (IF mode = "f" THEN {last} ELSE DOMAIN dir)
     /\ \A e \in handled : dir[e].kind = "go" => (e \in ever /\ FileOK(dir[e].file, OrigDisk(dir[e]), dir[e].disk))
(* mechanism sanity: the step machine and the one-step RunFile agree *)
RunFileAgrees == [][(pc = "apply" /\ pc' = "loop") => dir'[idx].disk = RunFile(dir[idx].disk)]_vars
(* constant-level: the constructed merge set is exactly the declarative contract, and the code's loop is in it *)
MergeSound ==
  \A cur \in TagOptsWide \cup {<< <<KB, "o">>, <<KA, "o">>, <<KC, "o">> >>} :
    \A inj \in InjOptsWide \cup {<< <<KC, "m">>, <<KA, "n">>, <<KB, "n">> >>} :
       /\ Merge(cur, inj) \in MergeSet(cur, inj)
       /\ \A r \in MergeSet(cur, inj) : MergeOK(cur, inj, r)
       /\ LET target == {<<k, IF k \in KeysOf(inj) THEN ValOf(inj, k) ELSE ValOf(cur, k)>> : k \in KeysOf(cur) \cup KeysOf(inj)}
              n == Cardinality(target)
          IN \A r \in {s \in [1..n -> target] : \A i, j \in 1..n : i # j => s[i] # s[j]} :
                MergeOK(cur, inj, r) => r \in MergeSet(cur, inj)
ASSUME MergeSound
=============================================================================
