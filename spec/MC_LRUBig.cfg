CONSTANTS
  Keys = {"1", "2", "3", "4"}
  Vals = {"v"}
  Caps = {0, 1, 2, 3}
SPECIFICATION MSpec
INVARIANTS SameOrder FillLaw
PROPERTIES StepAgrees
CHECK_DEADLOCK FALSE
