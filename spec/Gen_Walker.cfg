CONSTANTS
  Mode = "nest"
  Alpha = "probe"
  Tier = "quick"
  NSample = 0
  Depth = 2
  Width = 1
SPECIFICATION GenSpec
CHECK_DEADLOCK FALSE
