\* sanity: the mechanism of the tree as found must NOT satisfy the contract (D3, D18): TLC has to report Conforms violated
CONSTANTS
  Variant = "pinned"
  RuleSubset = {"phone", "probe"}
  Mode = "pairs"
  MaxRules = 2
SPECIFICATION Spec
CHECK_DEADLOCK FALSE
INVARIANTS Conforms
