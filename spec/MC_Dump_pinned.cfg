\* exhaustive: every typed value tree of root depth <= 2 (quick) over the universe of Dump.tla, mechanism of the pinned tree: must be refuted (D16)
CONSTANTS
  Pinned = TRUE
  MaxDepth = 2
  SibSet = "small"
SPECIFICATION Spec
CHECK_DEADLOCK FALSE
INVARIANTS EmitterMeetsContract DocIsStdUpToDeviations NoBadToken
