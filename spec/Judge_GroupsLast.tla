-------------------------- MODULE Judge_GroupsLast --------------------------
(* C02, "cross-field group clauses last": constant-mode judge over recorded   *)
(* calls.  A record is [id, kinds] where kinds is the sequence of clause      *)
(* classes of the returned error in the order they stand: "g" a group clause  *)
(* (either / botheq), "f" any other clause.  The contract: whatever the input *)
(* - one object, a slice / array / map of objects, nested objects - no field  *)
(* clause stands behind a group clause; and a call that has both kinds of     *)
(* violations shows both (nothing is lost by moving the group clauses back).  *)
EXTENDS Integers, Sequences, TLC, Json, IOUtils

Recs == ndJsonDeserialize(IOEnv.FILE)
GroupsLast(ks) == \A i \in 1..Len(ks) : \A j \in (i + 1)..Len(ks) : ks[i] = "g" => ks[j] = "g"
Count(ks, c) == Len(SelectSeq(ks, LAMBDA x : x = c))
OK(r) == GroupsLast(r.kinds) /\ Count(r.kinds, "g") = r.wantg /\ Count(r.kinds, "f") = r.wantf
Bad == SelectSeq(Recs, LAMBDA r : ~OK(r))
ASSUME PrintT("@@JUDGED " \o ToJson([n |-> Len(Recs), bad |-> [i \in 1..Len(Bad) |-> Bad[i].id]]))
=============================================================================
