\* exhaustive: every call history of <= 5 calls over 3 types x 2 tags x 3 overrides x 4 call values x 5 cache kinds
\* (Transparent quantifies over all 16 values at every return, so the value offered to a call only selects the trace)
CONSTANTS
  Types = {"T1", "T2", "T3"}
  Tags = {"a", "b"}
  ShapeOf <- AllShapes
  Ovs <- MCOvs
  Kinds <- MCKinds
  MaxCalls = 5
  CallVals <- QuickVals
  WriteThrough = FALSE
  KeyOf <- KeyTT
SPECIFICATION Spec
VIEW view
CHECK_DEADLOCK FALSE
INVARIANTS TypeOK Transparent ResidentCorrect ForgetNeverHits LRUInv
PROPERTIES ReturnsResult OverrideOnCopy OnlyStoreChangesContent MapNeverForgets
