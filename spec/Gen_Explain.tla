---------------------------- MODULE Gen_Explain ----------------------------
(* Emits the scenarios of C15 with the contract's expectation:                               *)
(*   @@SEQ   every clause sequence of length 1..MaxSeq over the six clause kinds, per        *)
(*           carrier, optionally followed by a group clause; expect = Extract(clauses)       *)
(*   @@SWEEP every rule instance of the Sweep table x message shape x carrier with the       *)
(*           expected label and explanation (message verbatim / default wording)             *)
EXTENDS Explain, Json, IOUtils

MaxSeq == IF IOEnv.TIER = "thorough" THEN 4 ELSE 4
Carriers == {"struct", "var", "map", "url"}

SeqScn(ks, carrier, grp) ==
  LET n  == Len(ks)
      cs == [i \in 1..n |-> SeqClause(ks[i], i)] \o (IF grp THEN <<GroupClause>> ELSE <<>>)
  IN  [carrier |-> carrier, grp |-> grp, kinds |-> ks, clauses |-> cs, expect |-> Extract(cs)]

SeqOK(n, carrier, grp) == /\ (carrier = "map" => n = 1)          \* Go map order is unspecified
                          /\ (grp => carrier \in {"struct", "url"})
ASSUME \A n \in 1..MaxSeq : \A ks \in [1..n -> Kinds] : \A carrier \in Carriers : \A grp \in BOOLEAN :
         SeqOK(n, carrier, grp) => PrintT("@@SEQ " \o ToJson(SeqScn(ks, carrier, grp)))

ASSUME \A i \in 1..Len(Sweep) : \A shape \in Shapes \cup {"none"} : \A carrier \in Carriers :
         (Sweep[i].only = "" \/ Sweep[i].only = carrier) =>
           PrintT("@@SWEEP " \o ToJson([row |-> i, rule |-> Sweep[i].rule, arg |-> Sweep[i].arg, input |-> Sweep[i].input,
                                        shape |-> shape, carrier |-> carrier,
                                        msg |-> IF shape = "none" THEN NoMsg ELSE MsgId(shape, 1),
                                        expect |-> SweepExpect(Sweep[i], shape)]))
=============================================================================
