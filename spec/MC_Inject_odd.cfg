\* file level: grouped / local declarations, double-quoted literals, leading @tag comments, up to 4 segments (C19)
CONSTANTS
  MaxRuns = 1
  Modes = {"d", "f"}
  SpliceOrder = "last"
  SkipUntagged = TRUE
  Profile = "odd"
  MaxSegs = 4
SPECIFICATION Spec
CHECK_DEADLOCK FALSE
INVARIANTS FieldsMergedInv OutsideUnchangedInv PlainUnchanged StillParses NoCrash UnprocessableUntouched SubdirEither NeverCorrupt OthersStillProcessed
PROPERTIES Idempotent RunFileAgrees
