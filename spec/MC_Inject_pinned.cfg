\* SANITY (must FAIL): pinned behaviour, nil dereference on an @tag field without tag literal (D15)
CONSTANTS
  MaxRuns = 1
  Modes = {"d", "p", "f"}
  SpliceOrder = "last"
  SkipUntagged = FALSE
  Profile = "dirsmall"
  MaxSegs = 2
SPECIFICATION Spec
CHECK_DEADLOCK FALSE
INVARIANTS OthersStillProcessed NoCrash
PROPERTIES Idempotent RunFileAgrees
