CONSTANTS
  Variant = "repaired"
  RuleSubset = {}
  Mode = "free"
  MaxRules = 6
SPECIFICATION JSpec
CHECK_DEADLOCK FALSE
