----------------------------- MODULE InjectBase -----------------------------
(***************************************************************************)
(* Definitions shared by Inject (state machine), Gen_Inject (scenario      *)
(* emission) and Trace_Inject (run histories): the tag injector of         *)
(* file/parse.go, file/handletag.go, file/witre.go.                        *)
(*                                                                         *)
(* Abstract file = sequence of segments, every segment the same record     *)
(*   kind   "field" | "opaque" | "break"                                   *)
(*   shape  break only: declaration that starts here                       *)
(*          "top" ungrouped top-level type, "grp" member of a grouped      *)
(*          type ( ... ) declaration, "loc" type declared inside a func    *)
(*   hasTag field only: the field has a tag literal                        *)
(*   q      "raw" back-quoted literal | "interp" double-quoted literal     *)
(*   tag    the literal's key:"value" items in order, << <<k,v>>, ... >>   *)
(*   ck     comment: "none" | "plain" (no @tag) | "mention" (@tag without  *)
(*          any k:"v" item) | "inj" (trailing @tag k:"v" ...) |            *)
(*          "doc" (the @tag k:"v" text sits in a LEADING comment)          *)
(*   inj    the items of the comment                                       *)
(* A file starts inside an (implicit) top-level ungrouped struct type.     *)
(*                                                                         *)
(* Layer A (contract, C06/C07/C19): MergeOK, AllowedTags, FileOK.          *)
(* Layer B (mechanism): byte layout, Merge (the override loop), AreasOf    *)
(* (offsets of the ORIGINAL bytes), ApplyArea (regexp "`.+`$" on the       *)
(* field expression, spliced into the buffer).                             *)
(***************************************************************************)
EXTENDS Integers, Sequences, FiniteSets, TLC

None == "none"

Max(S) == CHOOSE x \in S : \A y \in S : y <= x
Idx(s) == [i \in 1..Len(s) |-> i]
\* indices of s (ascending) whose element satisfies P
Where(s, P(_)) == SelectSeq(Idx(s), LAMBDA i : P(s[i]))
RECURSIVE Flat(_)
Flat(ss) == IF ss = <<>> THEN <<>> ELSE Head(ss) \o Flat(Tail(ss))
RECURSIVE SumTo(_, _)
SumTo(f, n) == IF n = 0 THEN 0 ELSE f[n] + SumTo(f, n - 1)

----------------------------------------------------------------------------
(* Segments *)
FieldSeg(hasTag, q, tag, ck, inj) ==
  [kind |-> "field", shape |-> "", hasTag |-> hasTag, q |-> q, tag |-> tag, ck |-> ck, inj |-> inj]
OpaqueSeg == [kind |-> "opaque", shape |-> "", hasTag |-> FALSE, q |-> "raw", tag |-> <<>>, ck |-> None, inj |-> <<>>]
BreakSeg(shape) == [kind |-> "break", shape |-> shape, hasTag |-> FALSE, q |-> "raw", tag |-> <<>>, ck |-> None, inj |-> <<>>]

KeysOf(t) == {t[i][1] : i \in DOMAIN t}
NoDupKeys(t) == \A i, j \in DOMAIN t : i # j => t[i][1] # t[j][1]
ValOf(t, k) == t[CHOOSE i \in DOMAIN t : t[i][1] = k][2]

BreaksBefore(f, i) == {j \in 1..(i - 1) : f[j].kind = "break"}
LastBreak(f, i) == IF BreaksBefore(f, i) = {} THEN 0 ELSE Max(BreaksBefore(f, i))
ShapeAt(f, b) == IF b = 0 THEN "top" ELSE f[b].shape
DeclShape(f, i) == ShapeAt(f, LastBreak(f, i))
\* first type of its type ( ... ) group: the break before the group's break is not a "grp" break
\* (the implicit struct at the start of the file counts as a declaration before it)
GroupFirst(f, i) == /\ DeclShape(f, i) = "grp"
                    /\ (LastBreak(f, LastBreak(f, i)) = 0 \/ ShapeAt(f, LastBreak(f, LastBreak(f, i))) # "grp")

----------------------------------------------------------------------------
(* Layer A: the contract of one field and of one file (C06) *)

\* res is an acceptable merge of the comment items inj into the literal's items cur
MergeOK(cur, inj, res) ==
  /\ NoDupKeys(res)                                                     \* no key is duplicated
  /\ KeysOf(res) = KeysOf(cur) \cup KeysOf(inj)
  /\ \A k \in KeysOf(inj) : ValOf(res, k) = ValOf(inj, k)               \* exactly the value v
  /\ \A i \in DOMAIN cur : cur[i][1] \notin KeysOf(inj)                 \* unmentioned keys keep value and position
        => (i \in DOMAIN res /\ res[i] = cur[i])
  /\ \A i \in DOMAIN res : res[i][1] \notin KeysOf(cur) => i > Len(cur) \* new keys are appended

\* all acceptable merges, constructed: overridden keys share their old slots, new keys follow in any order
MergeSet(cur, inj) ==
  LET over == {i \in DOMAIN cur : cur[i][1] \in KeysOf(inj)}
      newIdx == {j \in DOMAIN inj : inj[j][1] \notin KeysOf(cur)}
      nNew == Cardinality(newIdx)
      newSeq == SelectSeq(inj, LAMBDA p : p[1] \notin KeysOf(cur))
  IN { [i \in 1..(Len(cur) + nNew) |->
          IF i <= Len(cur)
          THEN IF i \in over THEN <<cur[po[i]][1], ValOf(inj, cur[po[i]][1])>> ELSE cur[i]
          ELSE newSeq[pn[i - Len(cur)]]]
       : po \in Permutations(over), pn \in Permutations(1..nNew) }

\* the field is inside C06's stated domain and must be merged
InDomain(f, i) == DeclShape(f, i) = "top" /\ f[i].q = "raw"
Mergeable(f, i) == f[i].kind = "field" /\ f[i].hasTag /\ f[i].ck = "inj" /\ InDomain(f, i)
\* the tag literal may differ from the original at all (contract silent: grouped / local types,
\* double-quoted literals, @tag text in a leading comment -> merged or untouched, both accepted)
MayChange(f, i) == f[i].kind = "field" /\ f[i].hasTag /\ f[i].ck \in {"inj", "doc"}
AllowedTags(f, i) ==
  IF Mergeable(f, i) THEN MergeSet(f[i].tag, f[i].inj)
  ELSE IF MayChange(f, i) THEN {f[i].tag} \cup MergeSet(f[i].tag, f[i].inj)
  ELSE {f[i].tag}

\* f2 is an abstract file a correct run over f may leave behind (everything but the tags is fixed)
FileStepOK(f, f2) ==
  /\ Len(f2) = Len(f)
  /\ \A i \in DOMAIN f : /\ f2[i] = [f[i] EXCEPT !.tag = f2[i].tag]
                         /\ f2[i].tag \in AllowedTags(f, i)
HasAnnotation(f) == \E i \in DOMAIN f : MayChange(f, i)

----------------------------------------------------------------------------
(* Layer B: bytes.  A byte string is a sequence of cells [t, s, n]; cells of text the injector never
   rewrites carry the segment number so that a shifted copy is not equal to the original. *)
C(t, s, n) == [t |-> t, s |-> s, n |-> n]
ValW(v) == CASE v = "o" -> 1 [] v = "n" -> 2 [] OTHER -> 3      \* widths differ: a merge changes the length
Item(p, kt, vt) == <<C(kt, p[1], 0)>> \o [j \in 1..ValW(p[2]) |-> C(vt, p[2], j)]
Items(t, kt, vt) == Flat([i \in DOMAIN t |-> IF i = 1 THEN Item(t[i], kt, vt) ELSE <<C("sp", "", 0)>> \o Item(t[i], kt, vt)])
QuoteCell(q) == IF q = "raw" THEN C("bq", "", 0) ELSE C("dq", "", 0)
TagLit(q, t) == <<QuoteCell(q)>> \o Items(t, "k", "v") \o <<QuoteCell(q)>>
ComCells(seg, id) ==
  CASE seg.ck = None -> <<>>
    [] seg.ck = "plain" -> <<C("c", "text", id)>>
    [] seg.ck = "mention" -> <<C("c", "text", id), C("at", "", 0), C("c", "junk", id)>>
    [] OTHER -> <<C("c", "text", id), C("at", "", 0)>> \o Items(seg.inj, "ck", "cv")
DocPart(seg, id) == IF seg.kind = "field" /\ seg.ck = "doc" THEN ComCells(seg, id) \o <<C("dl", "", id)>> ELSE <<>>
RenderSeg(seg, id) ==
  CASE seg.kind = "opaque" -> <<C("o", "", id), C("o", "", id + 100), C("nl", "", id)>>
    [] seg.kind = "break" -> <<C("b", seg.shape, id), C("nl", "", id)>>
    [] OTHER -> DocPart(seg, id)
                \o <<C("f", "", id), C("f", "", id + 100)>>
                \o (IF seg.hasTag THEN TagLit(seg.q, seg.tag) ELSE <<>>)
                \o (IF seg.ck \in {"plain", "mention", "inj"} THEN ComCells(seg, id) ELSE <<>>)
                \o <<C("nl", "", id)>>
Render(f) == Flat([i \in DOMAIN f |-> RenderSeg(f[i], i)])

SegLen(f) == [i \in DOMAIN f |-> Len(RenderSeg(f[i], i))]
SegStart(f, i) == 1 + SumTo(SegLen(f), i - 1)
FieldPos(f, i) == SegStart(f, i) + Len(DocPart(f[i], i))                \* field.Pos()
FieldEnd(f, i) == FieldPos(f, i) + 2 + (IF f[i].hasTag THEN Len(TagLit(f[i].q, f[i].tag)) ELSE 0)  \* field.End(), exclusive
TagPos(f, i) == FieldPos(f, i) + 2

(* the parser of the model: bytes -> abstract file (inverse of Render on well-formed bytes) *)
DecodeItems(cells, kt) ==
  LET ks == Where(cells, LAMBDA c : c.t = kt)
  IN [j \in 1..Len(ks) |-> <<cells[ks[j]].s, IF ks[j] < Len(cells) THEN cells[ks[j] + 1].s ELSE "?">>]
DecodeCom(cells) ==
  IF cells = <<>> THEN [ck |-> None, inj |-> <<>>]
  ELSE LET at == Where(cells, LAMBDA c : c.t = "at")
       IN IF at = <<>> THEN [ck |-> "plain", inj |-> <<>>]
          ELSE IF at[1] < Len(cells) /\ cells[at[1] + 1].t = "c" THEN [ck |-> "mention", inj |-> <<>>]
          ELSE [ck |-> "inj", inj |-> DecodeItems(SubSeq(cells, at[1] + 1, Len(cells)), "ck")]
DecodeSeg(ch) ==
  IF ch[1].t = "o" THEN OpaqueSeg
  ELSE IF ch[1].t = "b" THEN BreakSeg(ch[1].s)
  ELSE LET dl == Where(ch, LAMBDA c : c.t = "dl")
           body == IF dl = <<>> THEN ch ELSE SubSeq(ch, dl[1] + 1, Len(ch))
           qs == Where(body, LAMBDA c : c.t \in {"bq", "dq"})
           hasTag == Len(qs) >= 2
           rest == IF hasTag THEN SubSeq(body, qs[Len(qs)] + 1, Len(body)) ELSE SubSeq(body, 3, Len(body))
           com == IF dl = <<>> THEN DecodeCom(rest) ELSE [ck |-> "doc", inj |-> DecodeCom(SubSeq(ch, 1, dl[1] - 1)).inj]
       IN FieldSeg(hasTag, IF hasTag /\ body[qs[1]].t = "dq" THEN "interp" ELSE "raw",
                   IF hasTag THEN DecodeItems(SubSeq(body, qs[1] + 1, qs[Len(qs)] - 1), "k") ELSE <<>>,
                   com.ck, com.inj)
Decode(bytes) ==
  LET nl == Where(bytes, LAMBDA c : c.t = "nl")
  IN [j \in 1..Len(nl) |-> DecodeSeg(SubSeq(bytes, IF j = 1 THEN 1 ELSE nl[j - 1] + 1, nl[j] - 1))]

(* the override loop of handletag.go: existing items in place (overridden ones take the comment's
   value), the comment's remaining items appended in comment order *)
Merge(cur, inj) ==
  [i \in DOMAIN cur |-> IF cur[i][1] \in KeysOf(inj) THEN <<cur[i][1], ValOf(inj, cur[i][1])>> ELSE cur[i]]
  \o SelectSeq(inj, LAMBDA p : p[1] \notin KeysOf(cur))

\* which fields ParseFile looks at: fields of a top-level declaration's first type spec
Visited(f, i) == f[i].kind = "field" /\ (DeclShape(f, i) = "top" \/ (DeclShape(f, i) = "grp" /\ GroupFirst(f, i)))
\* comment.Text matches "@tag (.*)" with a non-empty group (trailing comment only)
TagComment(f, i) == f[i].ck \in {"inj", "mention"}
\* (fix b0c7677: the area is the tag literal itself, field.Tag.Pos() .. field.Tag.End(); before, it started at field.Pos()
\*  and the pattern could take a back quote of the field's type - an anonymous struct with a tagged inner field)
Area(f, i) == [s |-> IF f[i].hasTag THEN TagPos(f, i) ELSE FieldPos(f, i), e |-> FieldEnd(f, i), cur |-> f[i].tag,
               inj |-> IF f[i].ck = "inj" THEN f[i].inj ELSE <<>>]
\* a visited field with an @tag comment but no tag literal: field.Tag is nil
Untagged(f, i) == Visited(f, i) /\ TagComment(f, i) /\ ~f[i].hasTag
Collects(f, i) == Visited(f, i) /\ TagComment(f, i) /\ f[i].hasTag
AreasOf(f) == LET is == SelectSeq(Idx(f), LAMBDA i : Collects(f, i)) IN [j \in 1..Len(is) |-> Area(f, is[j])]

(* injectTag: expr = buf[s, e); "`.+`$" must match (expr ends with a back quote, an earlier back quote
   with at least one cell between); everything from the first such back quote is replaced *)
ApplyArea(buf, a) ==
  IF a.e - 1 > Len(buf) \/ a.s > a.e - 1 THEN buf       \* (the real code would panic on a bad slice; never reached)
  ELSE LET expr == SubSeq(buf, a.s, a.e - 1)
           bqs == Where(expr, LAMBDA c : c.t = "bq")
           ok == /\ Len(bqs) >= 1 /\ expr[Len(expr)].t = "bq" /\ bqs[1] < Len(expr) - 1
           expr2 == IF ok THEN SubSeq(expr, 1, bqs[1] - 1) \o TagLit("raw", Merge(a.cur, a.inj)) ELSE expr
       IN SubSeq(buf, 1, a.s - 1) \o expr2 \o SubSeq(buf, a.e, Len(buf))
RECURSIVE ApplyAllLast(_, _)
ApplyAllLast(buf, areas) == IF areas = <<>> THEN buf
                            ELSE ApplyAllLast(ApplyArea(buf, areas[Len(areas)]), SubSeq(areas, 1, Len(areas) - 1))
\* one whole run over a parsable file (what the directory level uses as one step)
RunFile(bytes) == ApplyAllLast(bytes, AreasOf(Decode(bytes)))

----------------------------------------------------------------------------
(* Layer A on bytes: locate the rewritten literals in the new bytes by walking the original layout *)
\* fields whose literal may differ, in file order, with their original literal span [s, e)
Spans(f) == LET is == SelectSeq(Idx(f), LAMBDA i : MayChange(f, i))
            IN [j \in 1..Len(is) |-> [i |-> is[j], s |-> TagPos(f, is[j]), e |-> FieldEnd(f, is[j])]]
\* new span of the k-th literal: starts where the unchanged stretch before it ends, closes at the next quote cell
RECURSIVE NewSpans(_, _, _, _, _)
NewSpans(new, spans, k, po, pn) ==
  IF k > Len(spans) THEN <<>>
  ELSE LET sn == pn + (spans[k].s - po)
           closers == IF sn > Len(new) THEN <<>>
                      ELSE SelectSeq(Idx(new), LAMBDA x : x > sn /\ new[x].t \in {"bq", "dq"})
           en == IF closers = <<>> THEN Len(new) + 1 ELSE closers[1] + 1
       IN <<[s |-> sn, e |-> en]>> \o NewSpans(new, spans, k + 1, spans[k].e, en)
Located(f, new) == NewSpans(new, Spans(f), 1, 1, 1)
\* every byte outside the (possibly) rewritten literals is unchanged
OutsideUnchanged(f, old, new) ==
  LET sp == Spans(f)
      ns == Located(f, new)
      n == Len(sp)
  IN /\ \A k \in 1..n : ns[k].e <= Len(new) + 1 /\ ns[k].s < ns[k].e
     /\ \A k \in 1..(n + 1) :
          LET o1 == IF k = 1 THEN 1 ELSE sp[k - 1].e
              o2 == IF k = n + 1 THEN Len(old) ELSE sp[k].s - 1
              n1 == IF k = 1 THEN 1 ELSE ns[k - 1].e
              n2 == IF k = n + 1 THEN Len(new) ELSE ns[k].s - 1
          IN SubSeq(old, o1, o2) = SubSeq(new, n1, n2)
\* every such literal reads as an allowed merge
FieldsMerged(f, new) ==
  LET sp == Spans(f)
      ns == Located(f, new)
  IN \A k \in 1..Len(sp) :
       /\ ns[k].e <= Len(new) + 1 /\ ns[k].e - ns[k].s >= 2
       /\ LET lit == SubSeq(new, ns[k].s, ns[k].e - 1)
              items == DecodeItems(SubSeq(lit, 2, Len(lit) - 1), "k")
          IN /\ items \in AllowedTags(f, sp[k].i)
             /\ lit = TagLit(IF lit[1].t = "dq" THEN "interp" ELSE "raw", items)      \* conventional form, nothing else inside
FileOK(f, old, new) == OutsideUnchanged(f, old, new) /\ FieldsMerged(f, new)
=============================================================================
