\* thorough: every history of exactly 4 calls over 3 types x 2 tags x 3 overrides (18^4 = 104 976)
CONSTANTS
  Types = {"T2", "T4", "T5"}
  Tags = {"a", "b"}
  ShapeOf <- AllShapes
  Ovs <- MCOvs
  Kinds <- MCKinds
  MaxCalls = 4
  CallVals <- ValSet
  WriteThrough = FALSE
  KeyOf <- KeyTT
SPECIFICATION GenSpec
INVARIANT Emit
CHECK_DEADLOCK FALSE
