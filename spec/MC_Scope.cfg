\* the selection / lookup mechanism of VStruct.validate refines the contract on the small window
CONSTANTS
  Window = "mc"
SPECIFICATION Spec
INVARIANTS PrefixOfAllowed Refines SelectionAllowed LookupAgrees StmtReplaceKeep StmtNoLeak StmtUnknownKeepsOthers
PROPERTIES AppendOnly
CHECK_DEADLOCK FALSE
