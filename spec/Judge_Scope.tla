--------------------------- MODULE Judge_Scope ---------------------------
(* Constant-mode judge (code -> model): every line of IOEnv.RECS is a record  *)
(*   [id, scn, obs]  where obs is the clause sequence the REAL code produced  *)
(* for scn, abstracted into the spec's vocabulary (n, f, lvl, rule).          *)
(* The contract decides: obs must be one of the allowed outcomes Alts(scn).   *)
EXTENDS Scope, Json, IOUtils

Recs == ndJsonDeserialize(IOEnv.RECS)

Judge(i) == IF Recs[i].obs \in Alts(Recs[i].scn) THEN TRUE
            ELSE PrintT("@@BAD " \o ToJson([id |-> Recs[i].id, alts |-> SetToSeq(Alts(Recs[i].scn))]))
ASSUME \A i \in 1..Len(Recs) : Judge(i)
ASSUME PrintT("@@JUDGED " \o ToJson([n |-> Len(Recs)]))

JInit == scn = 0 /\ pc = "done" /\ ni = 0 /\ fi = 0 /\ ri = 0 /\ cus = 0 /\ buf = 0
JSpec == JInit /\ [][UNCHANGED vars]_vars
=============================================================================
