---------------------------- MODULE Gen_Groups ----------------------------
(* Emits every scenario of the window with the CONTRACT's expected clause set *)
(* ("@@SCN"), plus once the rule-text table ("@@META").                       *)
EXTENDS Groups, Json

ASSUME PrintT("@@META " \o ToJson([ruletext |-> RuleText]))

GenNext == /\ pc = "walk"
           /\ pc' = "done"
           /\ UNCHANGED <<scn, pos, tab, todo, out>>
           /\ PrintT("@@SCN " \o ToJson([scn |-> scn, exp |-> ExpectedSeq(scn)]))
GenSpec == Init /\ [][GenNext]_vars
=============================================================================
