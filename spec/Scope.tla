------------------------------- MODULE Scope -------------------------------
(***************************************************************************)
(* C16 - programmatic rule sets and functions override declared ones, with *)
(* documented scope.                                                       *)
(*                                                                         *)
(* Scenario (wire format = JSON: records, sequences, strings, ints, bools):*)
(*   rootkind "val" | "ptr" | "slice" | "map"     what is handed to Valid  *)
(*   nodes    Seq([ty, par, link, lkind, key])    the struct instances of  *)
(*            the object graph in walk (pre)order; par = 0 for a root;     *)
(*            link = field of the parent that holds it, lkind in           *)
(*            {"val","ptr","slice","map"}, key = index / map key           *)
(*            Every struct type has the scalar fields A, B (non-empty      *)
(*            ints) declared before its link fields.                       *)
(*   tags     [type -> [A, B -> rule list]]       rules declared in tags   *)
(*   typed    [type -> [present, e : [A, B -> rule list]]]  rule set       *)
(*            registered for that struct type (<<>> = field not mentioned) *)
(*   unscoped [present, e]                        rule set without a type  *)
(*   callFns  Seq(name)                           functions given for the  *)
(*                                                call                     *)
(* A rule list is a sequence of rule kinds; the concrete text of a kind    *)
(* depends on where it is written (TextTab) so that the source of every    *)
(* reported clause is observable.                                          *)
(*                                                                         *)
(* Layer A (contract): AllowedRules / Resolve / Alts.                      *)
(* Layer B (mechanism): VStruct.validate's selection (cusRM) and the       *)
(* local -> global function lookup, as a walk that appends to a buffer.    *)
(***************************************************************************)
EXTENDS Integers, Sequences, FiniteSets, SequencesExt, TLC

CONSTANT Window

FieldSeq == <<"A", "B">>
FieldSet == {"A", "B"}
Types == {"T1", "T2", "T3"}

\* rule kinds and their names; "took" is `to` with bounds the value satisfies
\* "req" is `required` on a non-empty value: the built-in reports nothing, but the NAME can be redefined per call like any other
NameOf == [px |-> "p_x", pglob |-> "p_glob", to |-> "to", took |-> "to", le |-> "le", req |-> "required"]
\* registered once per process before any call (SetCustomerValidFn): p_glob is new, le shadows a built-in
GlobalFns == {"p_glob", "le"}
BuiltIns == {"required", "exist", "either", "botheq", "to", "ge", "le", "oto", "gt", "lt", "eq", "noeq", "in",
             "include", "phone", "email", "idcard", "year", "year2month", "date", "datetime", "int", "ints",
             "float", "re", "ip", "ipv4", "ipv6", "unique", "json", "prefix", "suffix", "file", "dir"}
AllNames == {"p_x", "p_glob", "to", "le", "required"}
\* every scalar field holds 1: to=5~9 .. to=7~9 are violated, to=1~5 .. satisfied, le=0 .. le=-2 violated
TextTab == [px    |-> [tag |-> "p_x=1",    typed |-> "p_x=2",    unscoped |-> "p_x=3"],
            pglob |-> [tag |-> "p_glob=1", typed |-> "p_glob=2", unscoped |-> "p_glob=3"],
            to    |-> [tag |-> "to=5~9",   typed |-> "to=6~9",   unscoped |-> "to=7~9"],
            took  |-> [tag |-> "to=1~5",   typed |-> "to=1~6",   unscoped |-> "to=1~7"],
            le    |-> [tag |-> "le=0",     typed |-> "le=-1",    unscoped |-> "le=-2"],
            req   |-> [tag |-> "required|qt", typed |-> "required|qy", unscoped |-> "required|qu"]]
\* kinds whose built-in is satisfied by the generated values (every scalar field holds 1)
SatisfiedBuiltin == {"took", "req"}

--------------------------------------------------------------------------
(* Layer A *)
Resolve(s, n) == IF \E x \in 1..Len(s.callFns) : s.callFns[x] = n THEN "call"
                 ELSE IF n \in GlobalFns THEN "global"
                 ELSE IF n \in BuiltIns THEN "builtin"
                 ELSE "unknown"

Outermost(s, i) == s.nodes[i].par = 0 /\ s.rootkind \in {"val", "ptr"}

Mentions(set, f) == set.present /\ set.e[f] # <<>>
NonEmpty(set) == \E f \in FieldSet : Mentions(set, f)

\* the rule list in force for field f of node i: <<source, list>>
\*   typed set's entry, else (outermost, no non-empty typed set for its type) the unscoped entry, else the tag.
\* The property does not say what an unscoped entry means for an outermost struct whose type ALSO has a
\* non-empty typed set: there the unscoped entry is allowed as well (pick = TRUE).
Base(s, i, f) ==
  LET T == s.nodes[i].ty ty == s.typed[T] IN
  IF Mentions(ty, f) THEN <<"typed", ty.e[f]>>
  ELSE IF Outermost(s, i) /\ Mentions(s.unscoped, f) /\ ~NonEmpty(ty) THEN <<"unscoped", s.unscoped.e[f]>>
  ELSE <<"tag", s.tags[T][f]>>
Ambiguous(s, i, f) == Outermost(s, i) /\ Mentions(s.unscoped, f) /\ NonEmpty(s.typed[s.nodes[i].ty])
Eff(s, i, f, pick) == IF Ambiguous(s, i, f) /\ pick[f] THEN <<"unscoped", s.unscoped.e[f]>> ELSE Base(s, i, f)
AllowedRules(s, i, f) == {Eff(s, i, f, pick) : pick \in [FieldSet -> BOOLEAN]}

\* clauses of one rule occurrence: every function of the harness reports (level, rule text); the built-in
\* reports only when violated; an unknown name reports and the walk goes on with the next rule
RuleClauses(s, i, f, src, k) ==
  LET lvl == Resolve(s, NameOf[k]) IN
  IF lvl = "unknown" THEN << [n |-> i, f |-> f, lvl |-> "unknown", rule |-> NameOf[k]] >>
  ELSE IF lvl = "builtin" /\ k \in SatisfiedBuiltin THEN <<>>
  ELSE << [n |-> i, f |-> f, lvl |-> lvl, rule |-> TextTab[k][src]] >>

ListClauses(s, i, f, sl) == FlattenSeq([r \in 1..Len(sl[2]) |-> RuleClauses(s, i, f, sl[1], sl[2][r])])
NodeClauses(s, i, pick) == FlattenSeq([x \in 1..Len(FieldSeq) |->
                               ListClauses(s, i, FieldSeq[x], Eff(s, i, FieldSeq[x], pick))])
Expected(s, pick) == FlattenSeq([i \in 1..Len(s.nodes) |-> NodeClauses(s, i, pick)])
Alts(s) == {Expected(s, pick) : pick \in [FieldSet -> BOOLEAN]}

--------------------------------------------------------------------------
(* Layer B: the walk of VStruct.validate *)
VARIABLES scn, pc, ni, fi, ri, cus, buf
vars == <<scn, pc, ni, fi, ri, cus, buf>>

NoSet == [present |-> FALSE, e |-> [f \in FieldSet |-> <<>>]]
SetLen(set) == IF set.present THEN Cardinality({f \in FieldSet : set.e[f] # <<>>}) ELSE 0
\* validstruct.go: structName == "" only for the struct handed to Valid directly
SelectCus(s, i) ==
  LET ty == s.typed[s.nodes[i].ty] IN
  IF Outermost(s, i)
  THEN IF SetLen(ty) = 0 THEN [src |-> "unscoped", set |-> s.unscoped] ELSE [src |-> "typed", set |-> ty]
  ELSE [src |-> "typed", set |-> ty]
MechRules(s, i, f, c) == IF Mentions(c.set, f) THEN <<c.src, c.set.e[f]>> ELSE <<"tag", s.tags[s.nodes[i].ty][f]>>
\* abstract.go getValidFn: the call's table, then ONE global table in which SetCustomerValidFn overwrote built-ins
MechResolve(s, n) == IF \E x \in 1..Len(s.callFns) : s.callFns[x] = n THEN "call"
                     ELSE IF n \in (BuiltIns \cup GlobalFns) THEN (IF n \in GlobalFns THEN "global" ELSE "builtin")
                     ELSE "unknown"

EnterNode == /\ pc = "enter"
             /\ cus' = SelectCus(scn, ni)
             /\ pc' = "field" /\ fi' = 1 /\ ri' = 1
             /\ UNCHANGED <<scn, ni, buf>>

CurList == MechRules(scn, ni, FieldSeq[fi], cus)
NextRule == /\ pc = "field" /\ fi <= Len(FieldSeq) /\ ri <= Len(CurList[2])
            /\ LET k == CurList[2][ri] lvl == MechResolve(scn, NameOf[k]) f == FieldSeq[fi] IN
               buf' = buf \o (IF lvl = "unknown" THEN << [n |-> ni, f |-> f, lvl |-> "unknown", rule |-> NameOf[k]] >>
                              ELSE IF lvl = "builtin" /\ k \in SatisfiedBuiltin THEN <<>>
                              ELSE << [n |-> ni, f |-> f, lvl |-> lvl, rule |-> TextTab[k][CurList[1]]] >>)
            /\ ri' = ri + 1
            /\ UNCHANGED <<scn, pc, ni, fi, cus>>
NextField == /\ pc = "field" /\ fi <= Len(FieldSeq) /\ ri > Len(CurList[2])
             /\ fi' = fi + 1 /\ ri' = 1
             /\ UNCHANGED <<scn, pc, ni, cus, buf>>
\* link fields come after A and B, children follow their parent in `nodes`: leaving the scalar fields of a node
\* means descending into / returning to the next node of the preorder
LeaveNode == /\ pc = "field" /\ fi > Len(FieldSeq)
             /\ IF ni < Len(scn.nodes) THEN ni' = ni + 1 /\ pc' = "enter" ELSE ni' = ni /\ pc' = "done"
             /\ UNCHANGED <<scn, fi, ri, cus, buf>>
Next == EnterNode \/ NextRule \/ NextField \/ LeaveNode

--------------------------------------------------------------------------
(* scenario windows *)
N(ty, par, link, lkind, key) == [ty |-> ty, par |-> par, link |-> link, lkind |-> lkind, key |-> key]
Shape == [
  n1     |-> [rootkind |-> "val",   nodes |-> <<N("T1",0,"","",""), N("T2",1,"N","val","")>>],
  n1p    |-> [rootkind |-> "ptr",   nodes |-> <<N("T1",0,"","",""), N("T2",1,"N","ptr","")>>],
  rec    |-> [rootkind |-> "ptr",   nodes |-> <<N("T1",0,"","",""), N("T1",1,"N","ptr","")>>],
  rec2   |-> [rootkind |-> "val",   nodes |-> <<N("T1",0,"","",""), N("T1",1,"N","ptr",""), N("T1",2,"N","ptr","")>>],
  n2     |-> [rootkind |-> "val",   nodes |-> <<N("T1",0,"","",""), N("T2",1,"N","val",""), N("T3",2,"N","ptr","")>>],
  mix    |-> [rootkind |-> "ptr",   nodes |-> <<N("T1",0,"","",""), N("T2",1,"N","val",""), N("T1",2,"M","ptr","")>>],
  sl     |-> [rootkind |-> "val",   nodes |-> <<N("T1",0,"","",""), N("T2",1,"L","slice","0"), N("T2",1,"L","slice","1")>>],
  sib    |-> [rootkind |-> "val",   nodes |-> <<N("T1",0,"","",""), N("T2",1,"M","map","k"), N("T2",1,"N","val","")>>],
  topsl  |-> [rootkind |-> "slice", nodes |-> <<N("T1",0,"","","0"), N("T2",1,"N","val",""), N("T1",0,"","","1"), N("T2",3,"N","val","")>>],
  topmap |-> [rootkind |-> "map",   nodes |-> <<N("T1",0,"","","k"), N("T1",1,"N","ptr","")>>]
]
UsedTypes(sh) == {sh.nodes[i].ty : i \in 1..Len(sh.nodes)}

\* rule-set families over a menu of rule lists
SetsOver(menu, withEmpty) ==
  {NoSet} \cup {[present |-> TRUE, e |-> e] : e \in {x \in [FieldSet -> menu \cup {<<>>}] : withEmpty \/ \E f \in FieldSet : x[f] # <<>>}}

\* all scenarios of a shape: tags from tagMenu, typed sets per used type from typedFam, unscoped from unFam
\* (unscoped sets only where the property says what "outermost" is: a single struct handed to Valid);
\* types the shape does not use carry nothing
NoTags == [f \in FieldSet |-> <<>>]
Pad(used, fn, dflt) == [T \in Types |-> IF T \in used THEN fn[T] ELSE dflt]
Scns(shn, tagMenu, typedFam, unFam, fnSets) ==
  LET sh == Shape[shn] used == UsedTypes(sh) IN
  {[shape |-> shn, rootkind |-> sh.rootkind, nodes |-> sh.nodes, tags |-> Pad(used, tg, NoTags),
    typed |-> Pad(used, ty, NoSet), unscoped |-> un, callFns |-> fs] :
      tg \in [used -> [FieldSet -> tagMenu]], ty \in [used -> typedFam],
      un \in (IF sh.rootkind \in {"val", "ptr"} THEN unFam ELSE {NoSet}), fs \in fnSets}

TM1 == {<<>>, <<"to">>}
TF1 == SetsOver({<<"to">>}, TRUE)
TF1s == {NoSet, [present |-> TRUE, e |-> [A |-> <<"to">>, B |-> <<>>]], [present |-> TRUE, e |-> [A |-> <<"to">>, B |-> <<"to">>]]}
UF1 == SetsOver({<<"to">>}, TRUE)
ResMenu == {<<"px">>, <<"pglob">>, <<"to">>, <<"took">>, <<"le">>, <<"px", "to">>, <<"to", "px">>,
            <<"pglob", "le">>, <<"took", "px", "le">>, <<"req">>, <<"req", "px">>, <<"to", "req">>}
FnSubsets == {<<>>, <<"p_x">>, <<"p_glob">>, <<"to">>, <<"le">>, <<"p_x", "to">>, <<"p_glob", "le">>, <<"to", "le">>,
              <<"p_x", "p_glob", "to", "le">>, <<"required">>, <<"required", "to">>}
\* name-resolution window: nested once (inner type = type of node 2), rules over every name, given at each of the
\* three places (tag of A, typed entry for A of the inner type, unscoped entry for B), every collision of names
Only(f, l) == [present |-> TRUE, e |-> [g \in FieldSet |-> IF g = f THEN l ELSE <<>>]]
ResScns(shn) ==
  LET sh == Shape[shn] inner == sh.nodes[2].ty IN
  {[shape |-> shn, rootkind |-> sh.rootkind, nodes |-> sh.nodes,
    tags |-> [T \in Types |-> IF T = "T1" THEN [A |-> t1, B |-> <<"took">>]
                              ELSE IF T = inner THEN [A |-> t2, B |-> <<>>] ELSE NoTags],
    typed |-> [T \in Types |-> IF T = inner THEN ty ELSE NoSet], unscoped |-> un, callFns |-> fs] :
      t1 \in ResMenu \cup {<<>>}, t2 \in {<<>>, <<"pglob", "px">>},
      ty \in {NoSet, Only("A", <<"took">>), Only("A", <<"px", "to">>), Only("A", <<"pglob", "le">>)},
      un \in {NoSet, Only("B", <<"to", "px">>), Only("B", <<"le">>)}, fs \in FnSubsets}

Space ==
  CASE Window = "mc" -> Scns("n1", TM1, TF1s, UF1, {<<>>, <<"to">>}) \cup Scns("rec", TM1, TF1, UF1, {<<>>})
                        \cup {s \in ResScns("n1") : Len(s.callFns) <= 1}
    [] Window = "quick_a" -> Scns("n1", TM1, TF1, UF1, {<<>>}) \cup Scns("rec", TM1, TF1, UF1, {<<>>, <<"to">>})
                        \cup Scns("rec2", TM1, TF1, UF1, {<<>>}) \cup Scns("topmap", TM1, TF1, UF1, {<<>>})
                        \cup Scns("n1p", TM1, TF1s, UF1, {<<"to">>})
    [] Window = "quick_b" -> Scns("mix", TM1, TF1, UF1, {<<>>}) \cup Scns("sl", TM1, TF1, {NoSet, [present |-> TRUE, e |-> [A |-> <<"to">>, B |-> <<"to">>]]}, {<<>>})
                        \cup Scns("topsl", TM1, TF1, UF1, {<<>>})
    [] Window = "quick_c" -> Scns("n2", TM1, TF1s, {NoSet, [present |-> TRUE, e |-> [A |-> <<"to">>, B |-> <<>>]]}, {<<>>})
                        \cup Scns("sib", TM1, TF1s, UF1, {<<>>})
    [] Window = "quick_res" -> ResScns("n1")
    [] Window = "thorough_a" -> Scns("n2", TM1, TF1, {NoSet, [present |-> TRUE, e |-> [A |-> <<"to">>, B |-> <<>>]]}, {<<>>})
    [] Window = "thorough_b" -> Scns("sib", TM1, TF1, UF1, {<<>>, <<"to">>}) \cup Scns("sl", TM1, TF1, UF1, {<<>>, <<"to">>})
                        \cup Scns("n1p", {<<>>, <<"to">>, <<"px", "took">>}, TF1, UF1, {<<>>, <<"to">>})
    [] Window = "thorough_res" -> ResScns("n1") \cup ResScns("rec")

Init == /\ scn \in Space
        /\ pc = "enter" /\ ni = 1 /\ fi = 1 /\ ri = 1
        /\ cus = [src |-> "typed", set |-> NoSet]
        /\ buf = <<>>
Spec == Init /\ [][Next]_vars

--------------------------------------------------------------------------
(* B => A *)
AtStart == pc = "enter" /\ ni = 1      \* what depends on the scenario only is checked once per scenario
\* IsPrefix comes from SequencesExt
\* the buffer is always a prefix of an allowed outcome, and finally is one
PrefixOfAllowed == \E e \in Alts(scn) : IsPrefix(buf, e)
Refines == pc = "done" => buf \in Alts(scn)
\* the selected rule list is an allowed one, the lookup order is the contract's
SelectionAllowed == pc = "field" /\ fi <= Len(FieldSeq) => CurList \in AllowedRules(scn, ni, FieldSeq[fi])
LookupAgrees == AtStart => \A n \in AllNames : MechResolve(scn, n) = Resolve(scn, n)
AppendOnly == [][IsPrefix(buf, buf')]_vars

(* the four statements of the property, as checks of the CONTRACT itself (every allowed outcome has them) *)
\* 1 replace entirely / unmentioned keep tag: a typed entry is the only source of that field's clauses; a field no
\*   set mentions reports exactly its tag rules
ClausesOf(e, i, f) == SelectSeq(e, LAMBDA c : c.n = i /\ c.f = f)
StmtReplaceKeep == AtStart =>
  \A e \in Alts(scn) : \A i \in 1..Len(scn.nodes) : \A f \in FieldSet :
     LET T == scn.nodes[i].ty IN
     /\ Mentions(scn.typed[T], f) /\ ~Ambiguous(scn, i, f) => ClausesOf(e, i, f) = ListClauses(scn, i, f, <<"typed", scn.typed[T].e[f]>>)
     /\ ~Mentions(scn.typed[T], f) /\ ~(Outermost(scn, i) /\ Mentions(scn.unscoped, f)) =>
            ClausesOf(e, i, f) = ListClauses(scn, i, f, <<"tag", scn.tags[T][f]>>)
\* 2 a typed set never reaches another type; an unscoped set never reaches a nested struct
StmtNoLeak == AtStart =>
  \A e \in Alts(scn) : \A x \in 1..Len(e) :
     /\ e[x].lvl # "unknown" /\ (\E k \in DOMAIN TextTab : e[x].rule = TextTab[k]["unscoped"]) => Outermost(scn, e[x].n)
     /\ e[x].lvl # "unknown" /\ (\E k \in DOMAIN TextTab : e[x].rule = TextTab[k]["typed"]) => scn.typed[scn.nodes[e[x].n].ty].present
\* 3 an unknown name never silences the other rules of its field
StmtUnknownKeepsOthers == AtStart =>
  \A e \in Alts(scn) : \A i \in 1..Len(scn.nodes) : \A f \in FieldSet : \A sl \in AllowedRules(scn, i, f) :
     (ClausesOf(e, i, f) = ListClauses(scn, i, f, sl)) =>
        Len(ClausesOf(e, i, f)) >= Cardinality({r \in 1..Len(sl[2]) : Resolve(scn, NameOf[sl[2][r]]) \in {"unknown", "call", "global"}})
\* reachability companions (deliberately false)
NeverAmbiguous == ~(\E f \in FieldSet : Ambiguous(scn, 1, f))
NeverUnknown == ~(\E x \in 1..Len(buf) : buf[x].lvl = "unknown")
=============================================================================
