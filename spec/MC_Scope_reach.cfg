\* reachability companion 1: the deliberately false invariant must be violated (ambiguous outermost fields occur)
CONSTANTS
  Window = "mc"
SPECIFICATION Spec
INVARIANTS NeverAmbiguous
CHECK_DEADLOCK FALSE
