\* run with -simulate: every behaviour is one random cell with a duplicate-free rule list of 2..6 tokens
CONSTANTS
  Variant = "repaired"
  RuleSubset = {}
  Mode = "free"
  MaxRules = 6
SPECIFICATION GenSpec
CHECK_DEADLOCK FALSE
