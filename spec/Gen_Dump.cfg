\* thorough: every tree of root depth <= 3
CONSTANTS
  Pinned = FALSE
  MaxDepth = 3
  SibSet = "small"
SPECIFICATION GenSpec
CHECK_DEADLOCK FALSE
INVARIANT EmitTree
