\* reachability companions: lib/fam_typecache.py runs this once per invariant below (replacing NeverHit);
\* each run must END WITH THE INVARIANT VIOLATED (a hit, an eviction, an override applied to a cached entry are reachable)
CONSTANTS
  Types = {"T1", "T2", "T3"}
  Tags = {"a", "b"}
  ShapeOf <- AllShapes
  Ovs <- MCOvs
  Kinds <- MCKinds
  MaxCalls = 3
  CallVals <- QuickVals
  WriteThrough = FALSE
  KeyOf <- KeyTT
SPECIFICATION Spec
VIEW view
CHECK_DEADLOCK FALSE
INVARIANTS NeverHit
