----------------------------- MODULE Gen_LRU -----------------------------
(* Emits one "@@EDGE" record per transition of the complete LRU state graph, *)
(* so the harness can run one implementation test per transition.            *)
EXTENDS LRU, TLC, Json

St(c, o, vl, d) == [cap |-> c, dump |-> DumpOf(o, vl), dels |-> d]
Emit == PrintT("@@EDGE " \o ToJson([from |-> St(cap, order, val, dels),
                                    op |-> ret'.op, k |-> ret'.k, v |-> ret'.v,
                                    ok |-> ret'.ok, res |-> ret'.res, n |-> ret'.n,
                                    cb |-> cb',
                                    to |-> St(cap', order', val', dels')]))
GenNext == Next /\ Emit
GenSpec == Init /\ [][GenNext]_vars
=============================================================================
