----------------------------- MODULE Gen_Dump -----------------------------
(* Emits one "@@TREE" record per typed value tree of the bounded universe of  *)
(* Dump.tla, together with the contract's expected document Doc(T,v), so the  *)
(* harness can build one real Go value per tree.                               *)
EXTENDS Dump, Json

GenNext == FALSE /\ UNCHANGED vars
GenSpec == Init /\ [][GenNext]_vars
EmitTree == PrintT("@@TREE " \o ToJson([ty |-> tree.ty, v |-> tree.v, doc |-> Doc(tree.ty, tree.v)]))
=============================================================================
