CHECK_DEADLOCK FALSE
