\* (a) guard structure of the four entry points over every shape chain of length <= 3 x 6 rule classes
CONSTANTS
  MaxDepth = 3
  MaxLen = 0
  Guards = {"struct.root", "struct.elem", "var.nil", "map.nil", "map.kind", "url.nil", "in.order", "datetime.count", "re.tail"}
SPECIFICATION ShapeSpec
INVARIANTS NoFault Terminates ReturnedOK NoUndefined
PROPERTIES RefinesA
CHECK_DEADLOCK TRUE
