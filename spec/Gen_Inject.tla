---------------------------- MODULE Gen_Inject ----------------------------
(* Scenario emission for C06 / C07 / C19.  Abstract files (Profile "wide", "deep", "odd", "full") and    *)
(* directories (Profile "dir") are built one segment / entry per step; every reached state is printed     *)
(* once (from an invariant, -workers 1) together with what the CONTRACT (InjectBase, layer A) allows     *)
(* after a run: per field the set of acceptable tag item sequences, per directory entry whether it must  *)
(* stay byte-identical.  Breadth-first = complete enumeration up to MaxSegs; -simulate = random sampling *)
(* of longer files from the large option set.                                                            *)
EXTENDS InjectScen, Json, IOUtils, SequencesExt

VARIABLES gfile, gents, gid, gx
gvars == <<gfile, gents, gid, gx>>

K == {KA, KB, KC}
V == {"o", "n", "m"}
\* item sequences without repeated keys, up to length n
RECURSIVE TagSeqs(_)
TagSeqs(n) == IF n = 0 THEN {<<>>}
              ELSE TagSeqs(n - 1) \cup {Append(t, <<k, v>>) : t \in {t \in TagSeqs(n - 1) : Len(t) = n - 1}, k \in K, v \in V}
TagsFull == {t \in TagSeqs(3) : t # <<>> /\ NoDupKeys(t) /\ \A i \in DOMAIN t : t[i][2] = "o"}
InjFull == {t \in TagSeqs(3) : t # <<>> /\ NoDupKeys(t)}
FieldOptsFull ==
  {FieldSeg(TRUE, q, t, k, <<>>) : t \in TagsFull, k \in {None, "plain", "mention"}, q \in {"raw"}}
  \cup {FieldSeg(FALSE, "raw", <<>>, k, <<>>) : k \in {None, "plain", "mention"}}
  \cup {FieldSeg(TRUE, "raw", t, "inj", i) : t \in TagsFull, i \in InjFull}
  \cup {FieldSeg(FALSE, "raw", <<>>, "inj", i) : i \in {j \in InjFull : Len(j) = 1}}
SegOptsFull == FieldOptsFull \cup {OpaqueSeg, BreakSeg("top")}
\* for C19: the same plus the shapes the contract is silent about
SegOptsFullOdd == SegOptsFull
  \cup {FieldSeg(TRUE, "interp", t, "inj", i) : t \in TagsFull, i \in {j \in InjFull : Len(j) <= 2}}
  \cup {FieldSeg(h, "raw", IF h THEN T1 ELSE <<>>, "doc", i) : h \in BOOLEAN, i \in {j \in InjFull : Len(j) = 1}}
  \cup {BreakSeg("grp"), BreakSeg("loc")}
GenSegOpts == CASE Profile = "full" -> SegOptsFull [] Profile = "fullodd" -> SegOptsFullOdd [] OTHER -> SegOpts

ExpOf(f) == [i \in DOMAIN f |-> [must |-> Mergeable(f, i), may |-> MayChange(f, i), allowed |-> AllowedTags(f, i)]]
\* what the mechanism spec predicts (only used for DRIFT notes, never for a verdict)
MechOf(f) == LET g == Decode(RunFile(Render(f))) IN [i \in DOMAIN f |-> g[i].tag]
ExpectOfKind(kind) == CASE kind \in {"broken", "nongo"} -> "same" [] kind \in {"subdir", "subdirgo"} -> "either" [] OTHER -> "ok"

(* Random sampling (Profile "rand" / "randodd" / "randdir"): NSamples independent chains, each driven by its own
   Lehmer generator (Schrage's form, fits TLC's 32-bit integers) seeded from VERIF_SEED and the chain number, so a
   run is reproducible from its seed.  One draw per choice. *)
Rnd(x) == LET t == 16807 * (x % 127773) - 2836 * (x \div 127773) IN IF t > 0 THEN t ELSE t + 2147483647
R1(x) == Rnd(x)
R2(x) == Rnd(Rnd(x))
R3(x) == Rnd(Rnd(Rnd(x)))
R4(x) == Rnd(Rnd(Rnd(Rnd(x))))
EnvInt(name, dflt) == IF name \in DOMAIN IOEnv THEN atoi(IOEnv[name]) ELSE dflt
SeedOf(id) == Rnd(Rnd(((((EnvInt("VERIF_SEED", 1) % 30000) * 65599) + (id * 7919) + 17) % 2147483646) + 1))
GidLo == EnvInt("GEN_LO", 1)
GidHi == EnvInt("GEN_HI", 200)
Random == Profile \in {"rand", "randodd", "randdir"}
TagsSeq == SetToSeq(TagsFull)
InjSeq == SetToSeq(InjFull)
Inj1Seq == SetToSeq({j \in InjFull : Len(j) = 1})
At(sq, r) == sq[(r % Len(sq)) + 1]
ComOf(r) == At(<<None, "plain", "mention">>, r)
\* weighted choice of the next segment from four draws
RandSeg(x) ==
  LET cat == (R1(x) % 20) IN
  CASE cat < 9 -> FieldSeg(TRUE, "raw", At(TagsSeq, R2(x)), "inj", At(InjSeq, R3(x)))
    [] cat < 11 -> FieldSeg(TRUE, "raw", At(TagsSeq, R2(x)), ComOf(R3(x)), <<>>)
    [] cat < 13 -> FieldSeg(FALSE, "raw", <<>>, ComOf(R3(x)), <<>>)
    [] cat = 13 -> FieldSeg(FALSE, "raw", <<>>, "inj", At(Inj1Seq, R3(x)))
    [] cat < 16 -> OpaqueSeg
    [] cat < 18 \/ Profile = "rand" -> BreakSeg("top")
    [] OTHER -> At(<< FieldSeg(TRUE, "interp", At(TagsSeq, R2(x)), "inj", At(InjSeq, R3(x))),
                     FieldSeg(TRUE, "raw", At(TagsSeq, R2(x)), "doc", At(Inj1Seq, R3(x))),
                     FieldSeg(FALSE, "raw", <<>>, "doc", At(Inj1Seq, R3(x))),
                     BreakSeg("grp"), BreakSeg("grp"), BreakSeg("loc") >>, R4(x))
KindsSeq == SetToSeq(DirKinds)

GenInit == /\ gfile = <<>> /\ gents = <<>>
           /\ IF Random THEN gid \in GidLo..GidHi /\ gx = SeedOf(gid) ELSE gid = 0 /\ gx = 0
AddSeg == /\ Profile \notin {"dir", "dirsmall", "randdir"} /\ Len(gfile) < MaxSegs
          /\ IF Random THEN gfile' = Append(gfile, RandSeg(gx)) /\ gx' = R4(gx)
                       ELSE (\E s \in GenSegOpts : gfile' = Append(gfile, s)) /\ gx' = gx
          /\ UNCHANGED <<gents, gid>>
AddEnt == /\ Profile \in {"dir", "dirsmall", "randdir"} /\ Len(gents) < MaxSegs
          /\ IF Random THEN gents' = Append(gents, At(KindsSeq, R1(gx))) /\ gx' = R1(gx)
                       ELSE (\E k \in (IF Profile = "dir" THEN DirKinds ELSE DirKindsSmall) : gents' = Append(gents, k)) /\ gx' = gx
          /\ UNCHANGED <<gfile, gid>>
GenNext == AddSeg \/ AddEnt
GenSpec == GenInit /\ [][GenNext]_gvars

EmitFile == PrintT("@@FILE " \o ToJson([segs |-> gfile, exp |-> ExpOf(gfile), mech |-> MechOf(gfile)]))
EmitDir == PrintT("@@DIR " \o ToJson([ents |-> [j \in DOMAIN gents |->
                 LET e == DirEntry(gents[j]) IN
                 [k |-> gents[j], kind |-> e.kind, expect |-> ExpectOfKind(e.kind), segs |-> e.file, exp |-> ExpOf(e.file)]]]))
Emit == IF gfile # <<>> THEN EmitFile ELSE IF gents # <<>> THEN EmitDir ELSE TRUE
=============================================================================
