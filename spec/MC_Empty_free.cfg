\* B => A over every duplicate-free rule list of up to 3 tokens drawn from a 6-rule subset (lists beyond pairs)
CONSTANTS
  Variant = "repaired"
  RuleSubset = {"phone", "to", "in", "unique", "probe", "exist"}
  Mode = "free"
  MaxRules = 3
SPECIFICATION Spec
CHECK_DEADLOCK FALSE
INVARIANTS TypeOK Conforms
PROPERTIES SkipKeepsRest RequiredOnce
