---------------------------- MODULE Trace_LRUBig ----------------------------
(* Trace validation of large-capacity recordings of the real LRUCache against *)
(* LRUBig.  Events (one json object per line):                                *)
(*   reset cap              a new cache of that capacity                      *)
(*   fill a b cb            Store(a) .. Store(b), keys never used before;     *)
(*                          cb = keys whose removal callback fired, in order  *)
(*   store k cb | load k ok | delete k cb | len n                             *)
(* Every step is deterministic in the model; a wrong result disables it.      *)
EXTENDS LRUBig, TLC, Json, IOUtils

Trace == ndJsonDeserialize(IOEnv.TRACE)
VARIABLES l, cap, order
tvars == <<l, cap, order>>
ASSUME TLCSet(1, 0)

TInit == l = 1 /\ cap = 0 /\ order = <<>>
Is(name) == l <= Len(Trace) /\ Trace[l].e = name
Adv == l' = l + 1
TReset == Is("reset") /\ cap' = Trace[l].cap /\ order' = <<>> /\ Adv
TFill == /\ Is("fill")
         /\ LET r == BFill(order, cap, Trace[l].a, Trace[l].b) IN r.cb = Trace[l].cb /\ order' = r.order
         /\ Adv /\ UNCHANGED cap
TStore == /\ Is("store")
          /\ LET r == BStore(order, cap, Trace[l].k) IN r.cb = Trace[l].cb /\ order' = r.order
          /\ Adv /\ UNCHANGED cap
TLoad == /\ Is("load")
         /\ LET r == BLoad(order, cap, Trace[l].k) IN r.hit = Trace[l].ok /\ (Trace[l].ok => Trace[l].resok) /\ order' = r.order
         /\ Adv /\ UNCHANGED cap
TDelete == /\ Is("delete")
           /\ LET r == BDelete(order, cap, Trace[l].k) IN r.cb = Trace[l].cb /\ order' = r.order
           /\ Adv /\ UNCHANGED cap
TLen == Is("len") /\ Trace[l].n = Len(order) /\ Adv /\ UNCHANGED <<cap, order>>
TNext == TReset \/ TFill \/ TStore \/ TLoad \/ TDelete \/ TLen
TraceSpec == TInit /\ [][TNext]_tvars

Bounded == Len(order) <= cap
HW == TLCSet(1, IF l > TLCGet(1) THEN l ELSE TLCGet(1))
Accepted == IF TLCGet(1) = Len(Trace) + 1 THEN TRUE
            ELSE PrintT("@@REJECT " \o ToJson([line |-> TLCGet(1), len |-> Len(Trace)])) /\ FALSE
=============================================================================
