------------------------------- MODULE LRUBig -------------------------------
(***************************************************************************)
(* The LRU contract of LRU.tla restated for LARGE capacities (C09:          *)
(* "capacities 0..4 and larger").  Keys are integers, the state is the       *)
(* recency sequence alone (values are a fixed function of the key in these  *)
(* runs), and besides the single operations there is the macro step         *)
(*      Fill(a, b)  =  Store(a) ; Store(a+1) ; ... ; Store(b)               *)
(* of keys never used before, in closed form - so that a recording with     *)
(* 10^5 stores is a handful of events for TLC.                              *)
(* MC_LRUBig ties it to LRU.tla at small scope: every single operation      *)
(* agrees with the LRU action of the same name in lockstep, and the closed  *)
(* form of Fill equals the iterated single Store.                           *)
(***************************************************************************)
EXTENDS Integers, Sequences

Rev(s) == [i \in 1..Len(s) |-> s[Len(s) + 1 - i]]
Asc(a, b) == [i \in 1..(b - a + 1) |-> a + i - 1]
Has(o, k) == \E i \in 1..Len(o) : o[i] = k
Sub(s, a, b) == IF a > b THEN <<>> ELSE SubSeq(s, a, b)
MinI(x, y) == IF x < y THEN x ELSE y

\* each operator returns [order, cb (keys whose removal callback fires, in firing order), hit]
BStore(o, c, k) ==
  IF Has(o, k) THEN [order |-> <<k>> \o SelectSeq(o, LAMBDA x : x # k), cb |-> <<>>, hit |-> TRUE]
  ELSE LET o1 == <<k>> \o o IN
       IF Len(o1) > c THEN [order |-> Sub(o1, 1, Len(o1) - 1), cb |-> <<o1[Len(o1)]>>, hit |-> FALSE]
       ELSE [order |-> o1, cb |-> <<>>, hit |-> FALSE]
BLoad(o, c, k) ==
  IF Has(o, k) THEN [order |-> <<k>> \o SelectSeq(o, LAMBDA x : x # k), cb |-> <<>>, hit |-> TRUE]
  ELSE [order |-> o, cb |-> <<>>, hit |-> FALSE]
BDelete(o, c, k) ==
  IF Has(o, k) THEN [order |-> SelectSeq(o, LAMBDA x : x # k), cb |-> <<k>>, hit |-> TRUE]
  ELSE [order |-> o, cb |-> <<>>, hit |-> FALSE]
\* keys a..b, none of them in o: the newest in front, whatever does not fit falls off the end - oldest first
BFill(o, c, a, b) ==
  LET all == Rev(Asc(a, b)) \o o
      keep == MinI(c, Len(all))
  IN [order |-> Sub(all, 1, keep), cb |-> Rev(Sub(all, keep + 1, Len(all))), hit |-> FALSE]

RECURSIVE BFillIter(_, _, _, _)
BFillIter(o, c, a, b) ==          \* the same by iterating the single Store (small scope only)
  IF a > b THEN [order |-> o, cb |-> <<>>, hit |-> FALSE]
  ELSE LET s == BStore(o, c, a)
           r == BFillIter(s.order, c, a + 1, b)
       IN [order |-> r.order, cb |-> s.cb \o r.cb, hit |-> FALSE]
=============================================================================
