------------------------------- MODULE Explain -------------------------------
(* C15 - custom messages and the explanation extractor (GetOnlyExplainErr).                 *)
(*                                                                                           *)
(* Part A (contract).  An error is a sequence of clauses.  A clause either carries an        *)
(*   explanation, introduced by the Chinese label (iff the explanation text contains a CJK   *)
(*   character) or by the English label, or it is unlabelled (unknown rule, rule-writing     *)
(*   error).  The explanation of a violated rule is its custom message verbatim when it has  *)
(*   one and the rule's default wording otherwise (table Sweep below, from README 4.2.1 and  *)
(*   the wording the library documents in its examples).                                     *)
(*   Extract(clauses) = explanations of the labelled clauses, in order (joined by the        *)
(*   clause separator on the wire); it is total.                                             *)
(* Part B (mechanism).  The extractor as a loop over the error TEXT, at byte grain:          *)
(*   label zh = 7 bytes, label en = 8 bytes, separator = 2 bytes.  Fixed = FALSE is the      *)
(*   pinned loop (two Index searches on the remaining text, label length never reset),       *)
(*   Fixed = TRUE the repaired clause-wise scan.  TLC checks loop result = Extract and that  *)
(*   no slice is out of bounds (exhibits D12 for Fixed = FALSE).                             *)
EXTENDS Integers, Sequences, FiniteSets, TLC

CONSTANTS Fixed, MaxClauses, MsgLens

-----------------------------------------------------------------------------
(* A. contract *)
Kinds == {"zhC", "zhM", "en", "def", "unk", "rwe"}
\* "latin" = non-ASCII text without any character of the CJK block (accents, Greek/Cyrillic, symbols, emoji): English label
Shapes == {"ascii", "cjk", "mixed", "latin"}
HasCJK(shape) == shape \in {"cjk", "mixed"}
LabelOfShape(shape) == IF HasCJK(shape) THEN "zh" ELSE "en"
ShapeOfKind == [k \in {"zhC", "zhM", "en"} |-> CASE k = "zhC" -> "cjk" [] k = "zhM" -> "mixed" [] k = "en" -> "ascii"]
LabelOfKind(k) == CASE k \in {"zhC", "zhM"} -> "zh" [] k \in {"en", "def", "grp"} -> "en" [] OTHER -> "none"

(* abstract clause: [label, expl]; expl is compared for equality only *)
Extract(cs) == LET lab == SelectSeq(cs, LAMBDA c : c.label # "none")
               IN  [i \in 1..Len(lab) |-> lab[i].expl]

(* default wording per rule instance: [rule, arg, input, def]; def = "*" where the wording is not *)
(* specified (missing path: the OS error text); input tokens DIR / FILE / MISSING / EMPTY are     *)
(* concretised by the harness; only = carriers restriction ("" = all four carriers)              *)
Row(r, a, i, d, o) == [rule |-> r, arg |-> a, input |-> i, def |-> d, only |-> o]
Sweep == <<
  Row("required", "", "EMPTY", "it is required", ""),
  Row("exist", "", "abc", "it is nonsupport exist", "struct"),
  Row("to", "5~6", "abc", "it is less than 5 str-length", ""),
  Row("to", "1~2", "abc", "it is more than 2 str-length", ""),
  Row("ge", "5", "abc", "it is less than 5 str-length", ""),
  Row("le", "2", "abc", "it is more than 2 str-length", ""),
  Row("oto", "3~6", "abc", "it is less than or equal 3 str-length", ""),
  Row("oto", "1~3", "abc", "it is more than or equal 3 str-length", ""),
  Row("gt", "3", "abc", "it is less than or equal 3 str-length", ""),
  Row("lt", "3", "abc", "it is more than or equal 3 str-length", ""),
  Row("eq", "5", "abc", "it should equal 5 str-length", ""),
  Row("noeq", "3", "abc", "it is not equal 3 str-length", ""),
  Row("in", "x/y", "abc", "it should in (x/y)", ""),
  Row("include", "x/y", "abc", "it should include (x/y)", ""),
  Row("phone", "", "abc", "it is not phone", ""),
  Row("email", "", "abc", "it is not email", ""),
  Row("idcard", "", "abc", "it is not idcard", ""),
  Row("ip", "", "abc", "it is not ip", ""),
  Row("ipv4", "", "abc", "it is not ipv4", ""),
  Row("ipv6", "", "abc", "it is not ipv6", ""),
  Row("year", "", "abc", "it is not year, eg: 1996", ""),
  Row("year2month", "", "abc", "it is not year2month, eg: 1996-09", ""),
  Row("date", "", "abc", "it is not date, eg: 1996-09-28", ""),
  Row("datetime", "", "abc", "it is not datetime, eg: 1996-09-28 23:00:00", ""),
  Row("int", "", "abc", "it is not integer", ""),
  Row("ints", "", "1,b", "it is not separated by \",\" num", ""),
  Row("float", "", "abc", "it is not float", ""),
  Row("re", "^x+$", "abc", "regex match is failed, pattern: ^x+$", ""),
  Row("re", "^(x|y)+$", "abc", "regex match is failed, pattern: ^(x|y)+$", ""),     \* alternation: the pattern's own | is not the message bar
  Row("re", "^x{1,2}$", "abc", "regex match is failed, pattern: ^x{1,2}$", ""),     \* comma protected by the quotes
  \* @Z / @Y: one CJK character each (concretised by the harness): byte and character offsets differ inside the pattern
  Row("re", "^(@Z@Y|@Y@Z|a)$", "abc", "regex match is failed, pattern: ^(@Z@Y|@Y@Z|a)$", ""),
  Row("in", "'x,y'/z", "abc", "it should in ('x,y'/z)", ""),
  Row("unique", "", "a,a", "they're not unique", ""),
  Row("json", "", "abc", "it is not json", ""),
  Row("prefix", "x", "abc", "prefix is not ok", ""),
  Row("suffix", "x", "abc", "suffix is not ok", ""),
  Row("file", "", "DIR", "it is not file", ""),
  Row("file", "", "MISSING", "*", ""),
  Row("dir", "", "FILE", "it is not dir", ""),
  Row("dir", "", "MISSING", "*", "") >>
GroupDefault == "they shouldn't all be empty"

(* expected clause of one sweep case: the message verbatim with its label, else the default wording *)
MsgId(shape, pos) == [shape |-> shape, pos |-> pos]
NoMsg == [shape |-> "none", pos |-> 0]
SweepExpect(row, shape) ==
  IF shape = "none" THEN [label |-> "en", expl |-> [def |-> row.def, msg |-> NoMsg]]
  ELSE [label |-> LabelOfShape(shape), expl |-> [def |-> "", msg |-> MsgId(shape, 1)]]

(* concretisation of a clause kind at position p of a sequence scenario *)
SeqClause(kind, p) ==
  CASE kind = "zhC" -> [kind |-> kind, rule |-> "to", arg |-> "5~6", input |-> "abc", msg |-> MsgId("cjk", p),
                        label |-> "zh", expl |-> [def |-> "", msg |-> MsgId("cjk", p)]]
    [] kind = "zhM" -> [kind |-> kind, rule |-> "phone", arg |-> "", input |-> "abc", msg |-> MsgId("mixed", p),
                        label |-> "zh", expl |-> [def |-> "", msg |-> MsgId("mixed", p)]]
    [] kind = "en"  -> [kind |-> kind, rule |-> "eq", arg |-> "5", input |-> "abc", msg |-> MsgId("ascii", p),
                        label |-> "en", expl |-> [def |-> "", msg |-> MsgId("ascii", p)]]
    [] kind = "def" -> [kind |-> kind, rule |-> "int", arg |-> "", input |-> "abc", msg |-> NoMsg,
                        label |-> "en", expl |-> [def |-> "it is not integer", msg |-> NoMsg]]
    [] kind = "unk" -> [kind |-> kind, rule |-> "nosuch", arg |-> "", input |-> "abc", msg |-> NoMsg,
                        label |-> "none", expl |-> [def |-> "*", msg |-> NoMsg]]
    [] kind = "rwe" -> [kind |-> kind, rule |-> "to", arg |-> "1", input |-> "abc", msg |-> NoMsg,
                        label |-> "none", expl |-> [def |-> "*", msg |-> NoMsg]]
GroupClause == [kind |-> "grp", rule |-> "either", arg |-> "1", input |-> "EMPTY", msg |-> NoMsg,
                label |-> "en", expl |-> [def |-> GroupDefault, msg |-> NoMsg]]

-----------------------------------------------------------------------------
(* B. mechanism at byte grain *)
ZHL == <<"z1", "z2", "z3", "z4", "z5", "z6", "z7">>
ENL == <<"e1", "e2", "e3", "e4", "e5", "e6", "e7", "e8">>
SEP == <<";", "_">>
SP  == "_"

SymTab == <<<<"a1", "b1">>, <<"a2", "b2">>, <<"a3", "b3">>, <<"a4", "b4">>>>
MsgBytes(id, n) == [j \in 1..n |-> SymTab[id][j]]
(* model clause: [kind, label, expl (= message bytes)] *)
MClause(kind, id, n) == [kind |-> kind, label |-> LabelOfKind(kind), expl |-> MsgBytes(id, n)]
ClauseText(c) == CASE c.label = "zh" -> <<"p">> \o ZHL \o <<SP>> \o c.expl
                   [] c.label = "en" -> <<"p">> \o ENL \o <<SP>> \o c.expl
                   [] OTHER          -> <<"p", "u">>
RECURSIVE JoinSep(_)
JoinSep(ts) == IF Len(ts) = 0 THEN <<>> ELSE IF Len(ts) = 1 THEN ts[1] ELSE ts[1] \o SEP \o JoinSep(Tail(ts))
ErrText(cs) == JoinSep([i \in 1..Len(cs) |-> ClauseText(cs[i])])
ExtractBytes(cs) == JoinSep(Extract(cs))

(* strings.Index: 0-based, -1 when absent *)
IndexSub(t, p) == LET hits == {i \in 0..(Len(t) - Len(p)) : SubSeq(t, i + 1, i + Len(p)) = p}
                  IN  IF hits = {} THEN -1 ELSE CHOOSE i \in hits : \A j \in hits : i <= j
SliceOK(t, lo, hi) == 0 <= lo /\ lo <= hi /\ hi <= Len(t)
Slice(t, lo, hi)   == SubSeq(t, lo + 1, hi)

VARIABLES clauses, rem, splitLen, out, pc
vars == <<clauses, rem, splitLen, out, pc>>

ModelKinds == {"zhC", "en", "unk"}
Init == /\ clauses \in UNION {{[i \in 1..n |-> MClause(ks[i], i, ls[i])] : ks \in [1..n -> ModelKinds], ls \in [1..n -> MsgLens]}
                              : n \in 1..MaxClauses}
        /\ rem = ErrText(clauses) /\ splitLen = Len(ZHL) /\ out = <<>> /\ pc = "loop"

(* pinned loop: one iteration *)
PinnedIter ==
  /\ ~Fixed /\ pc = "loop"
  /\ LET s0 == IndexSub(rem, ZHL)
         e  == IndexSub(rem, SEP)
         useEn == s0 = -1 \/ (e # -1 /\ s0 > e)
         s  == IF useEn THEN IndexSub(rem, ENL) ELSE s0
         sl == IF useEn THEN Len(ENL) ELSE splitLen
     IN  /\ splitLen' = sl
         /\ IF s = -1 THEN pc' = "done" /\ UNCHANGED <<out, rem>>
            ELSE IF e = -1
              THEN IF SliceOK(rem, s + sl + 1, Len(rem))
                     THEN out' = out \o Slice(rem, s + sl + 1, Len(rem)) /\ pc' = "done" /\ UNCHANGED rem
                     ELSE pc' = "panic" /\ UNCHANGED <<out, rem>>
              ELSE IF SliceOK(rem, s + sl + 1, e)
                     THEN /\ out' = out \o Slice(rem, s + sl + 1, e) \o SEP
                          /\ rem' = Slice(rem, e + Len(SEP), Len(rem)) /\ pc' = "loop"
                     ELSE pc' = "panic" /\ UNCHANGED <<out, rem>>
  /\ UNCHANGED clauses

(* repaired scan: one clause per iteration, the earlier of the two labels decides *)
FixedIter ==
  /\ Fixed /\ pc = "loop"
  /\ LET e      == IndexSub(rem, SEP)
         clause == IF e = -1 THEN rem ELSE Slice(rem, 0, e)
         z      == IndexSub(clause, ZHL)
         n      == IndexSub(clause, ENL)
         useEn  == n # -1 /\ (z = -1 \/ n < z)
         s      == IF useEn THEN n ELSE z
         sl     == IF useEn THEN Len(ENL) ELSE Len(ZHL)
         body   == Slice(clause, s + sl, Len(clause))
         expl   == IF body # <<>> /\ body[1] = SP THEN Tail(body) ELSE body
     IN  /\ splitLen' = sl
         /\ out' = IF s = -1 THEN out ELSE IF out = <<>> THEN expl ELSE out \o SEP \o expl
         /\ IF e = -1 THEN pc' = "done" /\ UNCHANGED rem
            ELSE rem' = Slice(rem, e + Len(SEP), Len(rem)) /\ pc' = "loop"
  /\ UNCHANGED clauses

Next == PinnedIter \/ FixedIter
Spec == Init /\ [][Next]_vars /\ WF_vars(Next)

NoPanic        == pc # "panic"
ExtractCorrect == pc = "done" => out = ExtractBytes(clauses)
Terminates     == <>(pc \in {"done", "panic"})
=============================================================================
