\* file level, exhaustive: every file of <= 2 segments over the 24-option 'wide' set, 3 CLI runs mixing -d/-p/-f (C06, C07)
CONSTANTS
  MaxRuns = 3
  Modes = {"d", "p", "f"}
  SpliceOrder = "last"
  SkipUntagged = TRUE
  Profile = "wide"
  MaxSegs = 2
SPECIFICATION Spec
CHECK_DEADLOCK FALSE
INVARIANTS FieldsMergedInv OutsideUnchangedInv PlainUnchanged StillParses NoCrash UnprocessableUntouched SubdirEither NeverCorrupt OthersStillProcessed
PROPERTIES Idempotent RunFileAgrees
