------------------------------ MODULE IndLRU ------------------------------
(* Inductive-invariant check of LRU with Apalache: from ANY state that satisfies IndInv (not only reachable ones), *)
(* every step of Next re-establishes IndInv, for 4 keys, 2 values and every capacity 0..4.  Unbounded in history.  *)
EXTENDS LRU
CInit == /\ Keys = {"k1","k2","k3","k4"} /\ Vals = {"v1","v2"} /\ Caps = 0..4
RetOK == /\ ret.op \in {"init","Store","Load","Delete","Len","Dump"}
         /\ ret.k \in Keys \cup {None} /\ ret.v \in Vals \cup {None} /\ ret.res \in Vals \cup {None}
         /\ ret.n \in -1..4
IndInv == /\ cap \in Caps
          /\ Len(order) <= cap /\ \A i \in 1..4 : i <= Len(order) => order[i] \in Keys
          /\ DOMAIN val = Keys /\ \A k \in Keys : val[k] \in Vals \cup {None}
          /\ idx \subseteq Keys
          /\ dels \in 0..(2*cap+1)
          /\ (\A i, j \in 1..4 : (i <= Len(order) /\ j <= Len(order) /\ i # j) => order[i] # order[j]) /\ Bounded /\ DomainsAgree /\ IndexAgrees
          /\ RetOK
          /\ Len(cb) <= 1 /\ \A i \in 1..1 : i <= Len(cb) => (cb[i][1] \in Keys /\ cb[i][2] \in Vals)
          /\ (ret.op = "Len" => ret.n = Len(order))
IndInit == /\ cap = Gen(1) /\ order = Gen(4) /\ val = Gen(4) /\ idx = Gen(4) /\ dels = Gen(1) /\ ret = Gen(1) /\ cb = Gen(1)
           /\ IndInv
\* non-vacuity probe: must be VIOLATED from IndInit at length 0 (IndInit admits a full cache with stale dels)
ProbeFull == ~(cap = 3 /\ Len(order) = 3 /\ dels = 7)
=============================================================================
