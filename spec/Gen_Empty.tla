----------------------------- MODULE Gen_Empty -----------------------------
(* Emits one "@@CELL" record per cell of Empty.tla - carrier x kind x emptiness state x rule list x bystander - *)
(* with the contract's expected outcome (Expected) and, for information, the outcome the mechanism model        *)
(* predicts. Exhaustive ("pairs") under Gen_Empty.cfg; random longer rule lists under Gen_Empty_sim.cfg with    *)
(* -simulate. The harness concretises each cell into a real call; Python compares for equality;                 *)
(* Judge_Empty.tla judges the recorded observations.                                                            *)
EXTENDS Empty, Json

RuleTexts(c) == [i \in 1..Len(c.seq) |-> RuleText(c.seq[i])]

Emit == PrintT("@@CELL " \o ToJson(
          [carrier |-> cell'.carrier, kind |-> cell'.kind, state |-> cell'.state, by |-> cell'.by, seq |-> cell'.seq,
           rules |-> RuleTexts(cell'), apis |-> Apis(cell'.carrier), marker |-> ReqMarker(cell'.seq),
           expReq |-> Expected(cell').req, expOther |-> Expected(cell').other, expSent |-> Expected(cell').sent,
           zero |-> Zero(cell'.kind, cell'.state), empty |-> Empty(cell'.kind, cell'.state),
           mechReq |-> out'.req, mechOther |-> out'.other, known |-> KnownDeviation(cell')]))

GenNext == Next /\ (pc' = "done" => Emit)
GenSpec == Init /\ [][GenNext]_vars
=============================================================================
