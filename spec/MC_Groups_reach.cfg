\* reachability companion: the deliberately false invariant must be violated (violated groups are reached)
CONSTANTS
  KeyMode = "obj"
  MapWrap = FALSE
  Window = "mc"
SPECIFICATION Spec
INVARIANTS NeverViolatedGroup
CHECK_DEADLOCK FALSE
