CONSTANTS
  Keys <- TraceKeys
  Vals <- TraceVals
  Caps <- TraceCaps
  Procs <- TraceProcs
SPECIFICATION TraceSpec
VIEW tview
CONSTRAINT HW
POSTCONDITION Accepted
CHECK_DEADLOCK FALSE
INVARIANTS NoDup Bounded DomainsAgree IndexAgrees
