---------------------------- MODULE Gen_Formats ----------------------------
(* C05, model -> code: TLC enumerates exhaustive small windows of inputs       *)
(* (every string up to a length over a small alphabet, every calendar day of   *)
(* chosen years incl. the out-of-range neighbours, every separator triple,     *)
(* every single-character replacement of a phone number over an alphabet) and  *)
(* prints one "@@VEC" scenario per element; the harness runs each against the  *)
(* real rule and Judge_Formats decides the recorded verdicts.                  *)
EXTENDS Formats, TLC, Json, IOUtils

D2(n) == <<48 + (n \div 10), 48 + (n % 10)>>
D4(n) == <<48 + (n \div 1000), 48 + ((n \div 100) % 10), 48 + ((n \div 10) % 10), 48 + (n % 10)>>

Vec(rule, arg, input, win) ==
  PrintT("@@VEC " \o ToJson([rule |-> rule, arg |-> arg, kind |-> "str", nk |-> "", gotype |-> "string",
                             input |-> input, elems |-> <<>>, pat |-> <<>>, src |-> "tlc", win |-> win]))

Strs(A, n) == UNION {[1..k -> A] : k \in 1..n}

\* W1: every string of length <= StrLen over  0 1 . , x -   under int, float, ints (default and "-" separator)
StrLen == IF "GEN_STRLEN" \in DOMAIN IOEnv THEN atoi(IOEnv.GEN_STRLEN) ELSE 4
NumAlpha == {48, 49, 46, 44, 120, 45}
ASSUME \A s \in Strs(NumAlpha, StrLen) :
         /\ Vec("int", <<>>, s, "numstr") /\ Vec("float", <<>>, s, "numstr")
         /\ Vec("ints", <<>>, s, "numstr") /\ Vec("ints", <<MINUS>>, s, "numstr")

\* W2: every day 00..32 of every month 00..13 of four years (leap by 4, not by 100, by 400, common)
ASSUME \A y \in {1900, 2000, 2023, 2024} : \A m \in 0..13 : \A d \in 0..32 :
         Vec("date", <<>>, D4(y) \o <<MINUS>> \o D2(m) \o <<MINUS>> \o D2(d), "calendar")

\* W3: every separator triple over  "" - / . : space _   with a valid instant, two invalid ones and the valid one
\*     rendered with the separators in the wrong places
Seps == {<<>>, <<MINUS>>, <<SLASH>>, <<DOT>>, <<COLON>>, <<SPACE>>, <<USCORE>>}
Mk(y, m, d, h, mi, s, a, b, c) == D4(y) \o a \o D2(m) \o a \o D2(d) \o b \o D2(h) \o c \o D2(mi) \o c \o D2(s)
TripleArg(a, b, c) == <<QUOTE>> \o a \o <<COMMA>> \o b \o <<COMMA>> \o c \o <<QUOTE>>
ASSUME \A a \in Seps : \A b \in Seps : \A c \in Seps :
         LET arg == TripleArg(a, b, c) IN
         /\ Vec("datetime", arg, Mk(2024, 2, 29, 23, 59, 59, a, b, c), "triples")
         /\ Vec("datetime", arg, Mk(2023, 2, 29, 0, 0, 0, a, b, c), "triples")
         /\ Vec("datetime", arg, Mk(2024, 12, 31, 24, 0, 0, a, b, c), "triples")
         /\ Vec("datetime", arg, Mk(2024, 2, 29, 23, 59, 59, c, b, a), "triples")
         /\ Vec("datetime", arg, Mk(2024, 2, 29, 23, 59, 59, b, a, c), "triples")
ASSUME \A a \in Seps : \A y \in {1999, 2024} : \A m \in 0..13 :
         /\ Vec("year2month", <<QUOTE>> \o a \o <<QUOTE>>, D4(y) \o a \o D2(m), "triples")
         /\ Vec("date", <<QUOTE>> \o a \o <<QUOTE>>, D4(y) \o a \o D2(m) \o a \o D2(28), "triples")

\* W4: every replacement of one character of a phone number by a character of  0-9 , . - x space
PhoneBase == <<49, 51, 56, 49, 50, 51, 52, 53, 54, 55, 56>>
PhoneAlpha == (48..57) \cup {COMMA, DOT, MINUS, LowX, SPACE}
ASSUME \A i \in 1..11 : \A c \in PhoneAlpha : Vec("phone", <<>>, [PhoneBase EXCEPT ![i] = c], "phone")

VARIABLE x
GInit == x = 0
GNext == x' = x
GSpec == GInit /\ [][GNext]_x
=============================================================================
