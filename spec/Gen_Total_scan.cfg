\* scanner extractions for every argument string of length <= 3 (+ directed ones)
CONSTANTS
  MaxDepth = 1
  MaxLen = 3
  Guards = {"struct.root", "struct.elem", "var.nil", "map.nil", "map.kind", "url.nil", "in.order", "datetime.count", "re.tail"}
SPECIFICATION GenScanSpec
CHECK_DEADLOCK FALSE
