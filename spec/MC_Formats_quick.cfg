CONSTANTS
  MaxLen = 5
SPECIFICATION Spec
INVARIANTS IntAgree FloatAgree EmailAgree SplitAgree JoinLaw IntsLaw PrefixLaw
CHECK_DEADLOCK FALSE
