\* template: lib/fam_typecache.py writes a per-run copy with the explicit type ids of the trace
CONSTANTS
  Types = {"t0"}
  Tags = {"a", "b", "valid"}
  ShapeOf <- AllShapes
  Ovs <- GenOvs
  Kinds <- MCKinds
  MaxCalls = 100000000
  CallVals <- ValSet
  WriteThrough = FALSE
  KeyOf <- KeyTT
SPECIFICATION TraceSpec
CONSTRAINT HW
POSTCONDITION Accepted
CHECK_DEADLOCK FALSE
INVARIANTS MechInv
