CONSTANTS
  Variant = "repaired"
  RuleSubset = {}
  Mode = "pairs"
  MaxRules = 2
SPECIFICATION GenSpec
CHECK_DEADLOCK FALSE
