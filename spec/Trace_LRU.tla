---------------------------- MODULE Trace_LRU ----------------------------
(* Trace validation for C09: every line of a recording of the real cache    *)
(* must be explained by the LRU action it names, with the logged result,    *)
(* callbacks, length and projected state (Dump) bound to the primed state.  *)
(* Many short traces are concatenated; a "reset" event starts a new cache.  *)
EXTENDS LRU, TLC, Json, IOUtils

Trace == ndJsonDeserialize(IOEnv.TRACE)
TraceKeys == {Trace[i].k : i \in 1..Len(Trace)} \ {None}
TraceVals == {Trace[i].v : i \in 1..Len(Trace)} \ {None}
TraceCaps == {Trace[i].cap : i \in 1..Len(Trace)}

VARIABLE l
tvars == <<vars, l>>

ASSUME TLCSet(1, 0)

TraceInit == /\ l = 1
             /\ cap = 0 /\ order = <<>> /\ val = [k \in Keys |-> None]
             /\ idx = {} /\ dels = 0 /\ ret = NoRet /\ cb = <<>>

TraceReset == /\ l <= Len(Trace) /\ Trace[l].e = "reset"
              /\ cap' = Trace[l].cap
              /\ order' = <<>> /\ val' = [k \in Keys |-> None]
              /\ idx' = {} /\ dels' = 0 /\ ret' = NoRet /\ cb' = <<>>
              /\ l' = l + 1

TraceOp == /\ l <= Len(Trace) /\ Trace[l].e = "op"
           /\ LET ev == Trace[l] IN
              /\ CASE ev.op = "Store" -> Store(ev.k, ev.v)
                   [] ev.op = "Load" -> Load(ev.k)
                   [] ev.op = "Delete" -> Delete(ev.k)
                   [] ev.op = "Len" -> LenOp
                   [] ev.op = "Dump" -> DumpOp
              /\ ret'.ok = ev.ok
              /\ ret'.res = ev.res
              /\ ret'.n = ev.n
              /\ cb' = ev.cb
              /\ DumpOf(order', val') = ev.dump
              /\ Len(order') = ev.len
           /\ l' = l + 1

(* "opx": an operation of a long concurrent run, placed at its under-lock stamp; the projected state is
   not logged per step (it could not be read atomically), only result and callbacks are bound *)
TraceOpX == /\ l <= Len(Trace) /\ Trace[l].e = "opx"
            /\ LET ev == Trace[l] IN
               /\ CASE ev.op = "Store" -> Store(ev.k, ev.v)
                    [] ev.op = "Load" -> Load(ev.k)
                    [] ev.op = "Delete" -> Delete(ev.k)
                    [] ev.op = "Len" -> LenOp
                    [] ev.op = "Dump" -> DumpOp
               /\ ret'.ok = ev.ok
               /\ ret'.res = ev.res
               /\ ret'.n = ev.n
               /\ cb' = ev.cb
            /\ l' = l + 1

(* "q": quiescent observation of the projected state *)
TraceQ == /\ l <= Len(Trace) /\ Trace[l].e = "q"
          /\ Trace[l].len = Len(order)
          /\ Trace[l].dump = DumpOf(order, val)
          /\ UNCHANGED vars
          /\ l' = l + 1

TraceNext == TraceReset \/ TraceOp \/ TraceOpX \/ TraceQ
TraceSpec == TraceInit /\ [][TraceNext]_tvars

HW == TLCSet(1, IF l > TLCGet(1) THEN l ELSE TLCGet(1))
Accepted == IF TLCGet(1) = Len(Trace) + 1 THEN TRUE
            ELSE PrintT("@@REJECT " \o ToJson([line |-> TLCGet(1), len |-> Len(Trace)])) /\ FALSE
=============================================================================
