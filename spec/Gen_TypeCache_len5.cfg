\* thorough: every history of exactly 5 calls over 2 types x 2 tags x 2 overrides (8^5 = 32 768)
CONSTANTS
  Types = {"T1", "T3"}
  Tags = {"a", "b"}
  ShapeOf <- AllShapes
  Ovs <- TwoOvs
  Kinds <- MCKinds
  MaxCalls = 5
  CallVals <- ValSet
  WriteThrough = FALSE
  KeyOf <- KeyTT
SPECIFICATION GenSpec
INVARIANT Emit
CHECK_DEADLOCK FALSE
