\* splitter laws on ALL strings of length <= MaxLen over SplitAlpha (mechanism => contract)
CONSTANTS
  Fixed = TRUE
  SplitAlpha = {"a", ",", "'", "=", "|", "~"}
  MaxLen = 5
  NV = 1
  NM = 1
INIT InitSplit
NEXT Next
CHECK_DEADLOCK FALSE
INVARIANTS StackSmall NoLossInv QuotedInv
