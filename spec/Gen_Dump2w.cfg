\* thorough: every tree of root depth <= 2, wide sibling alphabet
CONSTANTS
  Pinned = FALSE
  MaxDepth = 2
  SibSet = "wide"
SPECIFICATION GenSpec
CHECK_DEADLOCK FALSE
INVARIANT EmitTree
