CONSTANTS
  Profile = "deep"
  MaxSegs = 3
SPECIFICATION GenSpec
INVARIANT Emit
CHECK_DEADLOCK FALSE
