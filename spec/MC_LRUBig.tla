------------------------------ MODULE MC_LRUBig ------------------------------
(* Small-scope tie between LRUBig and LRU.tla:                                *)
(*  - lockstep: the LRU actions Store / Load / Delete over keys "1".."4" and  *)
(*    the B-operators over 1..4 keep the same recency order, fire the same    *)
(*    callbacks and agree on hit / miss, from every reachable state;          *)
(*  - FillLaw: the closed form of Fill equals the iterated Store for every    *)
(*    reachable order and every run of fresh keys.                            *)
EXTENDS LRU, LRUBig, TLC

VARIABLE bo
mvars == <<vars, bo>>
KS(k) == ToString(k)
NKeys == 4
AsStr(o) == [i \in 1..Len(o) |-> KS(o[i])]
CbKeys(c) == [i \in 1..Len(c) |-> c[i][1]]

MInit == Init /\ bo = <<>>
MStore == \E k \in 1..NKeys : \E v \in Vals :
            /\ Store(KS(k), v) /\ bo' = BStore(bo, cap, k).order
MLoad == \E k \in 1..NKeys : Load(KS(k)) /\ bo' = BLoad(bo, cap, k).order
MDelete == \E k \in 1..NKeys : Delete(KS(k)) /\ bo' = BDelete(bo, cap, k).order
MNext == MStore \/ MLoad \/ MDelete
MSpec == MInit /\ [][MNext]_mvars

SameOrder == order = AsStr(bo)
\* action properties: callbacks and hit / miss agree step by step
StepAgrees ==
  [][ /\ (ret'.op = "Store" => LET r == BStore(bo, cap, CHOOSE k \in 1..NKeys : KS(k) = ret'.k) IN AsStr(r.cb) = CbKeys(cb'))
      /\ (ret'.op = "Load" => LET r == BLoad(bo, cap, CHOOSE k \in 1..NKeys : KS(k) = ret'.k) IN r.hit = ret'.ok /\ cb' = <<>>)
      /\ (ret'.op = "Delete" => LET r == BDelete(bo, cap, CHOOSE k \in 1..NKeys : KS(k) = ret'.k) IN AsStr(r.cb) = CbKeys(cb')) ]_mvars
\* fresh keys 5..5+n-1 on top of every reachable order
FillLaw == \A n \in 0..5 : BFill(bo, cap, 5, 4 + n) = BFillIter(bo, cap, 5, 4 + n)
=============================================================================
