SPECIFICATION TraceSpec
CONSTRAINT HW
POSTCONDITION Accepted
INVARIANT Bounded
CHECK_DEADLOCK FALSE
