SPECIFICATION TraceSpec
CONSTRAINT HW
POSTCONDITION Accepted
CHECK_DEADLOCK FALSE
