\* non-vacuity: the pinned code (guards left out) must violate NoFault
CONSTANTS
  MaxDepth = 3
  MaxLen = 0
  Guards = {}
SPECIFICATION ShapeSpec
INVARIANTS NoFault Terminates ReturnedOK NoUndefined
PROPERTIES RefinesA
CHECK_DEADLOCK TRUE
