CONSTANTS
  Window = "quick_a"
SPECIFICATION GenSpec
CHECK_DEADLOCK FALSE
