------------------------------- MODULE LRU -------------------------------
(***************************************************************************)
(* Sequential specification of valid.LRUCache (valid/cache.go).            *)
(*                                                                         *)
(* Layer A (contract, C09): a bounded least-recently-used map              *)
(*   order  recency sequence of live keys, most recently used first        *)
(*   val    value most recently stored for each live key (None = absent)   *)
(*   cb     removal callbacks fired by the last step, in firing order      *)
(*   ret    what the last call returned (plus its arguments)               *)
(* Layer B (mechanism): the key index `idx` (nodeMap), the delete counter  *)
(*   `dels` (delMapCount) with the periodic index rebuild, and the         *)
(*   inconsistency sentinel of Len.                                        *)
(* One action per public method; each method body is one critical section  *)
(* (the whole body runs under the mutex), so one action per call is the    *)
(* right grain for the sequential spec; LRUConc splits it for C10.         *)
(***************************************************************************)
EXTENDS Integers, Sequences, FiniteSets, SequencesExt

\* (the @type comments are for Apalache, see IndLRU.tla; TLC ignores them)
CONSTANTS
  \* @type: Set(Str);
  Keys,      \* key alphabet
  \* @type: Set(Str);
  Vals,      \* value alphabet
  \* @type: Set(Int);
  Caps       \* capacities explored (subset of Nat)

None == "none"

VARIABLES
  \* @type: Int;
  cap,
  \* @type: Seq(Str);
  order,
  \* @type: Str -> Str;
  val,
  \* @type: Set(Str);
  idx,
  \* @type: Int;
  dels,
  \* @type: { op: Str, k: Str, v: Str, ok: Bool, res: Str, n: Int };
  ret,
  \* @type: Seq(<<Str, Str>>);
  cb
vars == <<cap, order, val, idx, dels, ret, cb>>
view == <<cap, order, val, idx, dels>>          \* ret/cb are outputs, not state

Live == Range(order)
\* @type: (Seq(Str), Str) => Seq(Str);
Without(s, k) == SelectSeq(s, LAMBDA x : x # k)
\* @type: (Seq(Str), Str) => Seq(Str);
ToFront(s, k) == <<k>> \o Without(s, k)
NoRet == [op |-> "init", k |-> None, v |-> None, ok |-> FALSE, res |-> None, n |-> 0]
\* @type: (Seq(Str), Str -> Str) => (Int -> <<Str, Str>>);
DumpOf(o, vl) == [i \in 1..Len(o) |-> <<o[i], vl[o[i]]>>]

Init == /\ cap \in Caps
        /\ order = <<>>
        /\ val = [k \in Keys |-> None]
        /\ idx = {}
        /\ dels = 0
        /\ ret = NoRet
        /\ cb = <<>>

(* mechanism: delete() bumps the counter and rebuilds the index when it has
   exceeded twice the capacity; the rebuild copies the index (no abstract effect) *)
DelStep(d) == IF d > 2 * cap THEN 0 ELSE d + 1

Store(k, v) ==
  /\ IF k \in Live
     THEN /\ order' = ToFront(order, k)
          /\ val' = [val EXCEPT ![k] = v]
          /\ cb' = <<>>
          /\ UNCHANGED <<idx, dels>>
     ELSE LET o1 == <<k>> \o order
              v1 == [val EXCEPT ![k] = v]
          IN IF Len(o1) > cap
             THEN LET victim == o1[Len(o1)] IN
                  /\ order' = SubSeq(o1, 1, Len(o1) - 1)
                  /\ val' = [v1 EXCEPT ![victim] = None]
                  /\ cb' = << <<victim, v1[victim]>> >>
                  /\ idx' = (idx \cup {k}) \ {victim}
                  /\ dels' = DelStep(dels)
             ELSE /\ order' = o1
                  /\ val' = v1
                  /\ cb' = <<>>
                  /\ idx' = idx \cup {k}
                  /\ UNCHANGED dels
  /\ ret' = [op |-> "Store", k |-> k, v |-> v, ok |-> TRUE, res |-> None, n |-> 0]
  /\ UNCHANGED cap

Load(k) ==
  /\ IF k \in Live
     THEN /\ order' = ToFront(order, k)
          /\ ret' = [op |-> "Load", k |-> k, v |-> None, ok |-> TRUE, res |-> val[k], n |-> 0]
     ELSE /\ UNCHANGED order
          /\ ret' = [op |-> "Load", k |-> k, v |-> None, ok |-> FALSE, res |-> None, n |-> 0]
  /\ cb' = <<>>
  /\ UNCHANGED <<cap, val, idx, dels>>

Delete(k) ==
  /\ IF k \in Live
     THEN /\ order' = Without(order, k)
          /\ val' = [val EXCEPT ![k] = None]
          /\ cb' = << <<k, val[k]>> >>
          /\ idx' = idx \ {k}
          /\ dels' = DelStep(dels)
     ELSE /\ cb' = <<>>
          /\ UNCHANGED <<order, val, idx, dels>>
  /\ ret' = [op |-> "Delete", k |-> k, v |-> None, ok |-> TRUE, res |-> None, n |-> 0]
  /\ UNCHANGED cap

(* Len returns the sentinel -1 when list and index disagree *)
LenRes == IF Cardinality(idx) # Len(order) THEN -1 ELSE Len(order)
LenOp ==
  /\ ret' = [op |-> "Len", k |-> None, v |-> None, ok |-> TRUE, res |-> None, n |-> LenRes]
  /\ cb' = <<>>
  /\ UNCHANGED <<cap, order, val, idx, dels>>

(* Dump is a pure observation: the values in recency order *)
DumpOp ==
  /\ ret' = [op |-> "Dump", k |-> None, v |-> None, ok |-> TRUE, res |-> None, n |-> Len(order)]
  /\ cb' = <<>>
  /\ UNCHANGED <<cap, order, val, idx, dels>>

Next == \/ \E k \in Keys, v \in Vals : Store(k, v)
        \/ \E k \in Keys : Load(k)
        \/ \E k \in Keys : Delete(k)
        \/ LenOp
        \/ DumpOp

Spec == Init /\ [][Next]_vars

----------------------------------------------------------------------------
(* Invariants (C09) *)
TypeOK == /\ cap \in Caps
          /\ order \in Seq(Keys)
          /\ val \in [Keys -> Vals \cup {None}]
          /\ idx \subseteq Keys
          /\ dels \in 0..(2 * cap + 1)
NoDup == \A i, j \in 1..Len(order) : i # j => order[i] # order[j]
Bounded == Len(order) <= cap
DomainsAgree == \A k \in Keys : (val[k] # None) <=> (k \in Live)
IndexAgrees == idx = Live                          \* mechanism refines contract
LenNeverSentinel == ret.op = "Len" => ret.n = Len(order) /\ ret.n # -1

(* Action properties (C09) *)
\* a Load hits exactly the live keys and returns the stored value
LoadHitsLive == [][ret'.op = "Load" =>
                     /\ ret'.ok = (ret'.k \in Live)
                     /\ (ret'.ok => ret'.res = val[ret'.k])]_vars
\* the value of a live key changes only by a Store of that key, to the stored value
ValStable == [][\A k \in Keys :
                  (val[k] # None /\ val'[k] # None /\ val'[k] # val[k])
                     => (ret'.op = "Store" /\ ret'.k = k /\ ret'.v = val'[k])]_vars
StoreStores == [][ret'.op = "Store" /\ ret'.k \in Range(order') => val'[ret'.k] = ret'.v]_vars
\* an overflow evicts the least recently stored-or-loaded entry, and only that
EvictsLeastRecent ==
  [][ret'.op = "Store" =>
       \A x \in Live \ Range(order') : x = order[Len(order)] /\ ret'.k \notin Live /\ Len(order) = cap]_vars
OnlyDeleteRemoves ==
  [][ret'.op \in {"Load", "Len", "Dump"} => Range(order') = Live]_vars
DeleteRemovesOnlyK == [][ret'.op = "Delete" => Range(order') = Live \ {ret'.k}]_vars
\* recency: Store/Load move the key to the front and keep the relative order of the others
TouchMovesToFront ==
  [][(ret'.op \in {"Store", "Load"} /\ ret'.k \in Range(order')) =>
        /\ order'[1] = ret'.k
        /\ Without(order', ret'.k) = SubSeq(Without(order, ret'.k), 1, Len(order') - 1)]_vars
\* callbacks: exactly once per removed entry, right key and value
CallbackExactlyOnce ==
  [][LET live == [k \in Keys |-> IF ret'.op = "Store" /\ k = ret'.k THEN ret'.v ELSE val[k]]
         removed == {k \in Keys : live[k] # None /\ val'[k] = None}
     IN /\ Len(cb') = Cardinality(removed)
        /\ \A i \in 1..Len(cb') : cb'[i][1] \in removed /\ cb'[i][2] = live[cb'[i][1]]]_vars
=============================================================================
