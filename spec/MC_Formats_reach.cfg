CONSTANTS
  MaxLen = 5
SPECIFICATION Spec
INVARIANTS NoQuotedDocumented
CHECK_DEADLOCK FALSE
