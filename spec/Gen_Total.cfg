\* mechanism predictions for every chain of length <= 3
CONSTANTS
  MaxDepth = 3
  MaxLen = 0
  Guards = {"struct.root", "struct.elem", "var.nil", "map.nil", "map.kind", "url.nil", "in.order", "datetime.count", "re.tail"}
SPECIFICATION GenSpec
CHECK_DEADLOCK FALSE
