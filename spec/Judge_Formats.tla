--------------------------- MODULE Judge_Formats ---------------------------
(* C05 - constant-mode judge: every recorded call of a format / content rule  *)
(* on the real code is judged against Formats!Verdicts.  No behaviour: the    *)
(* module consists of ASSUMEs over the deserialised record file; the judge    *)
(* codes (see Formats!Judge) are written to IOEnv.OUT as one JSON array.      *)
EXTENDS Formats, TLC, Json, IOUtils

Recs == ndJsonDeserialize(IOEnv.FILE)
Codes == [i \in 1..Len(Recs) |-> Judge(Recs[i])]

ASSUME JsonSerialize(IOEnv.OUT, Codes)
ASSUME PrintT("@@JUDGED " \o ToJson([n |-> Len(Recs)]))

VARIABLE x
JInit == x = 0
JNext == x' = x
JSpec == JInit /\ [][JNext]_x
=============================================================================
