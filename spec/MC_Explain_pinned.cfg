\* every clause sequence of length <= 4 over {zh, en, unlabelled} x message lengths {1,2}: PINNED loop: must FAIL (D12)
CONSTANTS
  Fixed = FALSE
  MaxClauses = 4
  MsgLens = {1, 2}
SPECIFICATION Spec
CHECK_DEADLOCK FALSE
INVARIANTS NoPanic ExtractCorrect
PROPERTIES Terminates
