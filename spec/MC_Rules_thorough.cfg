\* as MC_Rules with bounds -8..8 (289 pairs) - thorough tier, run with -coverage 1
CONSTANTS
  W = 8
  Pinned = FALSE
SPECIFICATION Spec
CHECK_DEADLOCK FALSE
INVARIANTS MechanismIsContract
