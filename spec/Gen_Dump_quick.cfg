\* quick: every tree of root depth <= 2
CONSTANTS
  Pinned = FALSE
  MaxDepth = 2
  SibSet = "small"
SPECIFICATION GenSpec
CHECK_DEADLOCK FALSE
INVARIANT EmitTree
