\* (b) index arithmetic of the rule-argument scanners over every argument string of length <= 4 (+ directed ones)
CONSTANTS
  MaxDepth = 1
  MaxLen = 4
  Guards = {"struct.root", "struct.elem", "var.nil", "map.nil", "map.kind", "url.nil", "in.order", "datetime.count", "re.tail"}
SPECIFICATION ScanSpec
INVARIANTS AccessOK ScanTyped ReturnedOK
PROPERTIES RefinesA
CHECK_DEADLOCK TRUE
