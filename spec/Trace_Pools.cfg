CONSTANTS
  Calls = {1}
  MCDescs = {1}
  ClearRuleMapOnFree = TRUE
  FreshVC = TRUE
  ReInitBuf = TRUE
  ResetDetaches = TRUE
  KeyWithTag = TRUE
  WriteThrough = FALSE
  EarlyDistinct = FALSE
  MaxObj = 2
SPECIFICATION TraceSpec
CONSTRAINT HW
POSTCONDITION Accepted
CHECK_DEADLOCK FALSE
