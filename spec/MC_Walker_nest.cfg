\* exhaustive: one child field of every container kind x marker x flavour x child state, and every top-level input kind
CONSTANTS
  Mode = "nest"
  Alpha = "probe"
  Tier = "quick"
  NSample = 0
  Depth = 2
  Width = 1
SPECIFICATION Spec
CHECK_DEADLOCK FALSE
INVARIANTS PrefixOK TerminalOK NilIffNone NoStuck StackSane
PROPERTIES AppendOnly ScnFixed
