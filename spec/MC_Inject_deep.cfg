\* file level: 6 options, up to 4 segments (offset shifts across several rewritten fields, several struct types), 2 runs (C06, C07)
CONSTANTS
  MaxRuns = 2
  Modes = {"d", "p", "f"}
  SpliceOrder = "last"
  SkipUntagged = TRUE
  Profile = "deep"
  MaxSegs = 4
SPECIFICATION Spec
CHECK_DEADLOCK FALSE
INVARIANTS FieldsMergedInv OutsideUnchangedInv PlainUnchanged StillParses NoCrash UnprocessableUntouched SubdirEither NeverCorrupt OthersStillProcessed
PROPERTIES Idempotent RunFileAgrees
