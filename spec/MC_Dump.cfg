\* exhaustive: every typed value tree of root depth <= 2 (quick) over the universe of Dump.tla, repaired mechanism
CONSTANTS
  Pinned = FALSE
  MaxDepth = 2
  SibSet = "small"
SPECIFICATION Spec
CHECK_DEADLOCK FALSE
INVARIANTS EmitterMeetsContract DocIsStdUpToDeviations NoBadToken
