---------------------------- MODULE MC_TimeFmt ----------------------------
(* Exhaustive check of TimeFmt (mechanism => contract, laws) and, in the same *)
(* run, model -> code emission: one "@@TF" vector per (mask, separators) with *)
(* the contract's layout; the harness calls the real GetTimeFmt on each.      *)
EXTENDS TimeFmt, Json, IOUtils

Wide == "TF_WIDE" \in DOMAIN IOEnv /\ IOEnv.TF_WIDE = "1"
Four == "TF_FOUR" \in DOMAIN IOEnv /\ IOEnv.TF_FOUR = "1"
\* "", "-", "/", ":", " "  (+ ".", "T", "--" in the wide window; a letter and a two-character separator)
SepAlphaDef == IF Four THEN {<<>>, <<MINUS>>, <<84>>}
               ELSE {<<>>, <<MINUS>>, <<SLASH>>, <<COLON>>, <<SPACE>>} \cup (IF Wide THEN {<<DOT>>, <<84>>, <<MINUS, MINUS>>} ELSE {})
MaxSplitsDef == IF Four THEN 4 ELSE 3

Emit == pc = "done" =>
          PrintT("@@TF " \o ToJson([mask |-> AsInt8(mask), splits |-> splits, want |-> Layout(mask, splits),
                                    mech |-> res, doc |-> Documented(splits)]))
ASSUME RuleLaws
=============================================================================
