------------------------------- MODULE Empty -------------------------------
(***************************************************************************)
(* C03 - required means present and non-empty; all other rules skip empty  *)
(* values.                                                                 *)
(*                                                                         *)
(* A cell is one validation call on one value:                             *)
(*   carrier  how the value reaches the library                            *)
(*              "tag"      struct field, rules in the struct tag  (Struct) *)
(*              "rm"       struct field, rules in a rule map      (Struct) *)
(*              "var"      single value                           (Var)    *)
(*              "map"      entry of a map[string]T                (Map)    *)
(*              "mapiface" entry of a map[string]interface{}      (Map)    *)
(*              "url"      query parameter                        (Url)    *)
(*   kind     Go type of the value                                         *)
(*   state    point of the emptiness lattice of that kind                  *)
(*   seq      the rule list as written: tokens = the 30 extension rules,   *)
(*            "exist", "probe" (custom function that always reports),      *)
(*            "required" (default wording), "requiredC" (custom message)   *)
(*   by       a bystander entry Zz (empty, under `required`) travels along *)
(*            (second struct field / second map key / second parameter)    *)
(*                                                                         *)
(* Layer A (contract): Zero, Empty, RequiredViolated, Skips, Expected.     *)
(* Layer B (mechanism): what each of the four walkers really tests         *)
(*   (reflect IsZero, Len = 0, val = "") as a rule loop over the cell's    *)
(*   rule list, in two variants: "pinned" (the tree as found) and          *)
(*   "repaired" (after patches/C03-*.patch). TLC checks B => A for the     *)
(*   repaired variant and exhibits D3/D18 for the pinned one.              *)
(***************************************************************************)
EXTENDS Integers, Sequences, FiniteSets, TLC

CONSTANTS Variant,        \* "pinned" | "repaired" : which mechanism is modelled
          RuleSubset,     \* {} = all rules; otherwise only these (small configs)
          Mode,           \* "pairs": every list of one token and every pair {required, rule} (exhaustive);
                          \* "free": any duplicate-free list of up to MaxRules tokens (for -simulate)
          MaxRules

\* ------------------------------------------------------------------ kinds
Scalars      == {"string", "int", "int8", "int16", "int32", "int64", "uint", "uint8", "uint16", "uint32",
                 "uint64", "float32", "float64", "bool"}
NumKinds     == Scalars \ {"string", "bool"}
SliceKinds   == {"sliceInt", "sliceStr", "sliceStruct"}
ArrayKinds   == {"array0Int", "array3Int", "array3Str"}
MapKinds     == {"mapInt", "mapStr"}
StructKinds  == {"struct"}
PtrStructs   == {"ptrStruct"}
PtrScalars   == {"ptrInt", "ptrString", "ptrFloat64", "ptrBool"}
IfaceKinds   == {"ifaceString", "ifaceInt", "ifaceFloat64", "ifaceBool", "ifaceNil"}   \* dynamic type inside interface{}
Collections  == SliceKinds \cup ArrayKinds \cup MapKinds
FieldKinds   == Scalars \cup Collections \cup StructKinds \cup PtrStructs \cup PtrScalars

Carriers == {"tag", "rm", "var", "map", "mapiface", "url"}
StructCarriers == {"tag", "rm"}
EntryCarriers  == {"map", "mapiface", "url"}

(* kinds a carrier is documented to take (README 4.1, doc comments of Var/Map/Url):
   Var: single int/float/bool/string and slices/arrays of them; Map: values int,float,bool,string;
   map[string]interface{} "supported, not nested"; Url: strings *)
KindsOf(ca) ==
  CASE ca \in StructCarriers -> FieldKinds
    [] ca = "var"      -> Scalars \cup {"sliceInt", "sliceStr", "array0Int", "array3Int", "array3Str"}
    [] ca = "map"      -> {"string", "int", "int64", "uint8", "float64", "bool"}
    [] ca = "mapiface" -> IfaceKinds
    [] ca = "url"      -> {"string"}

\* ------------------------------------------------------ emptiness lattice
(* states of a value of a kind; entries of maps / URLs additionally may be "missing" *)
ValueStates(k) ==
  CASE k \in Scalars     -> {"zero", "nonzero"}
    [] k \in SliceKinds  -> {"nil", "emptyNonNil", "zeroElems", "nonEmpty"}
    [] k = "array0Int"   -> {"len0"}
    [] k \in ArrayKinds \ {"array0Int"} -> {"zeroFilled", "nonEmpty"}
    [] k \in MapKinds    -> {"nil", "emptyNonNil", "zeroElems", "nonEmpty"}
    [] k \in StructKinds -> {"zero", "nonzero"}
    [] k \in PtrStructs  -> {"nil", "toZero", "toNonZero"}
    [] k \in PtrScalars  -> {"nil", "toZero", "toNonZero"}
    [] k = "ifaceNil"    -> {"nilIface"}
    [] k \in IfaceKinds \ {"ifaceNil"} -> {"zero", "nonzero"}

States(ca, k) ==
  CASE ca = "url"           -> {"missing", "zero", "zeroBare", "nonzero"}    \* k=  /  k  (no "=")
    [] ca \in EntryCarriers -> ValueStates(k) \cup {"missing"}
    [] OTHER                -> ValueStates(k)

\* ------------------------------------------------------------ contract (A)
(* the zero value of the type (statement: "the zero value of its type"; a zero-filled array and a
   zero-length array are the zero values of their array types, a nil interface is a zero value) *)
Zero(k, s) == s \in {"zero", "nil", "len0", "zeroFilled", "nilIface", "zeroBare"}

(* "... an empty slice, array or map, or (for map and URL inputs) an empty or missing entry" *)
Empty(k, s) == Zero(k, s) \/ s \in {"emptyNonNil", "missing"}

RequiredViolated(k, s) == Empty(k, s)

(* "Every other rule is simply not evaluated on a zero value". A missing entry offers nothing to evaluate.
   An empty but non-nil slice/map is not a zero value: the statement does not say whether other rules see it *)
Skips(k, s) == Zero(k, s) \/ s = "missing"
SkipSilent(k, s) == s = "emptyNonNil"

\* ------------------------------------------------------------------ rules
SizeRules   == {"to", "ge", "le", "oto", "gt", "lt", "eq", "noeq"}
StringRules == {"phone", "email", "idcard", "year", "year2month", "date", "datetime", "re", "ip", "ipv4", "ipv6",
                "json", "prefix", "suffix", "file", "dir", "include"}
OtherRules  == {"in", "int", "ints", "float", "unique"}
Extension   == SizeRules \cup StringRules \cup OtherRules          \* the 30 extension rules of init.go
AllRules    == Extension \cup {"probe", "exist"}                   \* probe = custom function that always reports
Rules       == IF RuleSubset = {} THEN AllRules ELSE RuleSubset
RulesOf(ca) == IF ca \in StructCarriers THEN Rules ELSE Rules \ {"exist"}   \* exist is a struct-only rule (README)
ReqTokens   == {"required", "requiredC"}
Tokens(ca)  == RulesOf(ca) \cup ReqTokens
IsReq(t)    == t \in ReqTokens

(* concrete rule text. The arguments are chosen so that the non-empty witnesses of the harness
   (string "a,a", numbers 3, collections of 3 elements with a duplicate) violate the rule wherever it is defined *)
RuleText(r) ==
  CASE r = "to" -> "to=5~10"   [] r = "ge" -> "ge=5"      [] r = "le" -> "le=1"     [] r = "oto" -> "oto=5~10"
    [] r = "gt" -> "gt=5"      [] r = "lt" -> "lt=1"      [] r = "eq" -> "eq=7"     [] r = "noeq" -> "noeq=3"
    [] r = "in" -> "in=(x/y)"  [] r = "include" -> "include=(x/y)"
    [] r = "re" -> "re='^z+$'" [] r = "prefix" -> "prefix=zz" [] r = "suffix" -> "suffix=zz"
    [] r = "probe" -> "p_bad"
    [] r = "requiredC" -> "required|REQMSG"
    [] OTHER -> r

(* where a rule is documented to judge the witness (README table: size rules on strings = length, numbers = size;
   string rules on strings; in on strings and numbers) - used only for non-vacuity, never for a verdict *)
Live(r, k) ==
  \/ r = "probe"
  \/ r \in SizeRules /\ k \in {"string"} \cup NumKinds
  \/ r \in StringRules /\ k = "string"
  \/ r = "in" /\ k \in {"string"} \cup NumKinds
  \/ r \in {"int", "ints", "float", "unique"} /\ k = "string"

\* ------------------------------------------------------------------ cells
Bys(ca) == CASE ca \in StructCarriers -> {TRUE} [] ca = "var" -> {FALSE} [] OTHER -> BOOLEAN

Range(q)   == {q[i] : i \in 1..Len(q)}
HasReq(q)  == Range(q) \cap ReqTokens # {}
Others(q)  == Range(q) \ ReqTokens
(* rule lists that are generated: no token twice, `required` at most once;
   in "pairs" mode: <<t>>, <<required, r>>, <<r, required>>, <<requiredC, r>> *)
SeqOK(q) ==
  /\ Cardinality(Range(q)) = Len(q)
  /\ Cardinality(Range(q) \cap ReqTokens) <= 1
  /\ Mode = "pairs" => (Len(q) <= 1 \/ (Len(q) = 2 /\ HasReq(q) /\ q[2] # "requiredC"))

(* Cells = { [carrier |-> ca, kind |-> k, state |-> s, by |-> b, seq |-> q] :
             ca \in Carriers, k \in KindsOf(ca), s \in States(ca,k), b \in Bys(ca), q non-empty over Tokens(ca) with SeqOK(q) }
   (enumerated by the PickValue / AddRule actions; not written as a constant because TLC would pre-compute it) *)

(* public entry-point variants that carry the same cell (concretisation only: the expectation does not depend on it);
   "canon" = Struct(&v) / Struct(&v, rm) / Var(x, rules...) / Map(m, rm) / Url(u, rm) *)
Apis(ca) ==
  CASE ca = "tag" -> {"canon", "value", "validate", "customtag", "sliceroot", "maproot", "object"}
    [] ca = "rm"  -> {"canon", "value", "forfn", "forrule", "typed", "nested", "sliceroot",
                      "overtag"}   \* the field also carries a tag rule (one that never fires): the rule map replaces it entirely
    [] ca = "var" -> {"canon", "joined", "object", "ptr", "ptrptr"}    \* the value behind one / two levels of pointers
    [] ca \in {"map", "mapiface"} -> {"canon", "sliceroot", "mapfn", "object",
                                      "extrakey", "extrakeys",   \* the map also holds one / two entries that have no rule at all
                                      "namedkey",                \* the map's key type is a defined string type
                                      "slice2nd"}                \* second element of a slice whose first element holds every ruled
                                                                 \* key with a non-empty value (elements are judged independently)
    [] ca = "url" -> {"canon", "ptr", "object",
                      "enckey"}    \* the parameter names are written with percent-escapes

ReqMarker(q) == IF "requiredC" \in Range(q) THEN "REQMSG" ELSE "it is required"

(* what the contract demands of the observable result of the call:
     req   number of `required` clauses for the value (0 or 1)
     other clauses of other rules for the value: "none" | "some" (witness of a live rule) | "free" (not C03's business)
     sent  number of `required` clauses for the bystander (it is an empty string under required) *)
ExpOther(c) ==
  IF Others(c.seq) = {} \/ Skips(c.kind, c.state) THEN "none"
  ELSE IF SkipSilent(c.kind, c.state) THEN "free"
  ELSE IF c.state = "nonzero" /\ \E r \in Others(c.seq) \ {"exist"} : Live(r, c.kind) THEN "some"
  ELSE "free"

Expected(c) ==
  [req   |-> IF HasReq(c.seq) /\ RequiredViolated(c.kind, c.state) THEN 1 ELSE 0,
   other |-> ExpOther(c),
   sent  |-> IF c.by THEN 1 ELSE 0]

(* does an observation obs = [req, other \in {"none","some"}, sent] satisfy the contract on cell c *)
Allowed(c, obs) ==
  LET e == Expected(c) IN
  /\ obs.req = e.req
  /\ obs.sent = e.sent
  /\ e.other = "none" => obs.other = "none"
\* (e.other = "some" is a non-vacuity expectation about another property's rule semantics: never a C03 verdict)

\* ----------------------------------------------------------- mechanism (B)
(* reflect.Value.IsZero of the Go value that concretises (kind,state): an empty non-nil slice/map is not zero,
   a non-nil pointer is not zero, an interface value is zero only when it is nil - whatever it holds *)
IsZero(k, s)  == IF k \in IfaceKinds THEN s = "nilIface" ELSE s \in {"zero", "nil", "len0", "zeroFilled"}
LenZero(k, s) == s \in {"nil", "emptyNonNil", "len0"}

Fixed == Variant = "repaired"

(* Var refuses kinds it does not list; bool is listed in the README but was refused (D18) *)
MechSupported(c) == c.carrier = "var" /\ c.kind = "bool" => Fixed

MechReqTest(c) ==
  CASE c.carrier \in StructCarriers -> (c.kind \in Collections /\ LenZero(c.kind, c.state)) \/ IsZero(c.kind, c.state)
    [] c.carrier = "var" -> (c.kind \in SliceKinds \cup ArrayKinds /\ LenZero(c.kind, c.state)) \/ IsZero(c.kind, c.state)
    [] c.carrier \in {"map", "mapiface"} -> IsZero(c.kind, c.state)
    [] c.carrier = "url" -> c.state \in {"zero", "zeroBare"}

MechSkipTest(c) == IF c.carrier = "url" THEN c.state \in {"zero", "zeroBare"} ELSE IsZero(c.kind, c.state)

(* after `required` passed on a struct field the walker descends (required "supports nested validation"):
   a pointer is handed to validate(), which reports "is not struct" for a pointer to a scalar (D3) *)
MechDescendClause(c) == c.carrier \in StructCarriers /\ c.kind \in PtrScalars /\ ~Fixed

(* the known deviation that cannot be repaired without breaking a pinned test: "" / 0 / false inside an
   interface{} map value is not seen as empty (the interface is not unwrapped) *)
KnownDeviation(c) == c.carrier = "mapiface" /\ c.kind \in IfaceKinds \ {"ifaceNil"} /\ c.state = "zero"

VARIABLES cell, todo, pc, out, budget
vars == <<cell, todo, pc, out, budget>>

Out0 == [req |-> 0, other |-> "none", sent |-> 0]
Join(a, b) == IF a = "some" \/ b = "some" THEN "some" ELSE IF a = "maybe" \/ b = "maybe" THEN "maybe" ELSE "none"

NoCell == [carrier |-> "-", kind |-> "-", state |-> "-", by |-> FALSE, seq |-> <<>>]

Init == cell = NoCell /\ todo = <<>> /\ pc = "pick" /\ out = Out0 /\ budget = 0

(* scenario construction: choose the value, then write the rule list token by token *)
PickValue == /\ pc = "pick"
             /\ \E ca \in Carriers : \E k \in KindsOf(ca) : \E s \in States(ca, k) : \E b \in Bys(ca) :
                  cell' = [carrier |-> ca, kind |-> k, state |-> s, by |-> b, seq |-> <<>>]
             /\ budget' \in (IF Mode = "pairs" THEN {2} ELSE 2..MaxRules)
             /\ pc' = "build"
             /\ UNCHANGED <<todo, out>>

AddRule == /\ pc = "build" /\ Len(cell.seq) < budget
           /\ \E t \in Tokens(cell.carrier) :
                /\ SeqOK(Append(cell.seq, t))
                /\ cell' = [cell EXCEPT !.seq = Append(@, t)]
           /\ UNCHANGED <<todo, pc, out, budget>>

Start == /\ pc = "build" /\ cell.seq # <<>>
         /\ IF Mode = "pairs" THEN TRUE ELSE Len(cell.seq) = budget
         /\ todo' = cell.seq
         /\ pc' = "start"
         /\ UNCHANGED <<cell, out, budget>>

(* entry point: type gate of Var; the entry loop of Map/Url never visits a missing key *)
Enter == /\ pc = "start"
         /\ IF ~MechSupported(cell)
            THEN pc' = "done" /\ out' = [out EXCEPT !.other = "some"] /\ UNCHANGED todo      \* "src no support"
            ELSE IF cell.state = "missing"
            THEN pc' = "after" /\ UNCHANGED <<out, todo>>
            ELSE pc' = "loop" /\ UNCHANGED <<out, todo>>
         /\ UNCHANGED <<cell, budget>>

Required == /\ pc = "loop" /\ todo # <<>> /\ IsReq(Head(todo))
            /\ IF MechReqTest(cell)
               THEN out' = [out EXCEPT !.req = @ + 1]
               ELSE IF MechDescendClause(cell)
               THEN out' = [out EXCEPT !.other = "some"]
               ELSE UNCHANGED out
            /\ todo' = Tail(todo)
            /\ UNCHANGED <<cell, pc, budget>>

Exist == /\ pc = "loop" /\ todo # <<>> /\ Head(todo) = "exist"
         /\ IF IsZero(cell.kind, cell.state) THEN UNCHANGED out
            ELSE out' = [out EXCEPT !.other = Join(@, "maybe")]
         /\ todo' = Tail(todo)
         /\ UNCHANGED <<cell, pc, budget>>

ZeroSkip == /\ pc = "loop" /\ todo # <<>> /\ Head(todo) \notin ReqTokens \cup {"exist"}
            /\ MechSkipTest(cell)
            /\ todo' = Tail(todo)
            /\ UNCHANGED <<cell, pc, out, budget>>

CallFn == /\ pc = "loop" /\ todo # <<>> /\ Head(todo) \notin ReqTokens \cup {"exist"}
          /\ ~MechSkipTest(cell)
          /\ out' = [out EXCEPT !.other = Join(@, IF Live(Head(todo), cell.kind) /\ cell.state = "nonzero"
                                                  THEN "some" ELSE "maybe")]
          /\ todo' = Tail(todo)
          /\ UNCHANGED <<cell, pc, budget>>

EndLoop == /\ pc = "loop" /\ todo = <<>>
           /\ pc' = "after"
           /\ UNCHANGED <<cell, todo, out, budget>>

(* after the entry loop: bystander clause; Map/Url report required keys that were absent (repaired tree only) *)
After == /\ pc = "after"
         /\ LET missingReq == cell.state = "missing" /\ HasReq(cell.seq) /\ Fixed IN
            out' = [out EXCEPT !.req = IF missingReq THEN @ + 1 ELSE @,
                               !.sent = IF cell.by THEN 1 ELSE 0]
         /\ pc' = "done"
         /\ UNCHANGED <<cell, todo, budget>>

Next == PickValue \/ AddRule \/ Start \/ Enter \/ Required \/ Exist \/ ZeroSkip \/ CallFn \/ EndLoop \/ After
Spec == Init /\ [][Next]_vars

\* ---------------------------------------------------------------- B => A
MechObs == [req |-> out.req, sent |-> out.sent, other |-> out.other]
MechAllowed(c, o) ==
  LET e == Expected(c) IN
  /\ o.req = e.req
  /\ o.sent = e.sent \/ ~MechSupported(c)
  /\ e.other = "none" => o.other = "none"
  /\ e.other = "some" => o.other \in {"some", "maybe"}

Conforms == pc = "done" => (MechAllowed(cell, MechObs) \/ KnownDeviation(cell))
TypeOK == /\ pc \in {"pick", "build", "start", "loop", "after", "done"}
          /\ out.req \in 0..1 /\ out.sent \in 0..1 /\ out.other \in {"none", "maybe", "some"}
(* non-vacuity companions: each must be VIOLATED (the situation is reached) *)
NeverSkips    == ~(pc = "loop" /\ todo # <<>> /\ Head(todo) \notin ReqTokens \cup {"exist"} /\ MechSkipTest(cell))
NeverDeviates == pc = "done" => ~KnownDeviation(cell) \/ MechAllowed(cell, MechObs)
(* zero-skip only ever drops the head rule: the rest of the list is still walked *)
SkipKeepsRest == [][ (pc = "loop" /\ pc' = "loop") => todo' = Tail(todo) ]_vars
RequiredOnce  == [][ out'.req <= 1 ]_vars
=============================================================================
