CONSTANTS
  KeyMode = "obj"
  MapWrap = FALSE
  Window = "none"
SPECIFICATION JSpec
CHECK_DEADLOCK FALSE
