package main

// C13 (validation is total) - conformance harness.
//
// Every real call of an entry point (Struct, Var, Map, Url) runs under recover(); what is logged is only what was
// observed: "call" (the abstract scenario), then "return" (nil | error) or "panic". Nothing here decides a verdict:
// the ndjson stream is judged by TLC against spec/Trace_Total.tla (which has no action that consumes a panic event).
//
//   total-calls   stdin: call descriptors (TLC @@SHAPE vectors, or replay descriptors)  -> events on stdout
//   total-rules   enumerates rule name x form x every argument string over the alphabet (constants printed by TLC)
//                 x value kinds x entry points; one "batch" event per (ep,val,name,form) + individually logged panics
//   total-random  seeded random values of run-time synthesised types x random rule bytes
//
// A "reset" event separates slices; each panicking call is placed in a slice of its own so that TLC judges every
// slice independently (see Trace_Total.tla).

import (
	"encoding/json"
	"flag"
	"fmt"
	"math/rand"
	"os"
	"reflect"
	"regexp"
	"runtime"
	"sort"
	"strconv"
	"strings"
	"sync"
	"sync/atomic"
	"time"

	"gitee.com/xuesongtao/protoc-go-valid/valid"
)

// totalKey is a defined string type used as a map key type; totalMapSeq alternates the two string-keyed map forms.
type totalKey string

var totalMapSeq int64

func init() {
	register("total-calls", totalCallsCmd)
	register("total-rules", totalRulesCmd)
	register("total-random", totalRandomCmd)
	register("total-scan", totalScanCmd)
}

// totalCall is the abstract scenario of one call (also the replay descriptor).
type totalCall struct {
	Src string `json:"src"` // shapes | rules | random
	Ep  string `json:"ep"`  // Struct | Var | Map | Url
	// src=shapes
	Shape []string `json:"shape,omitempty"`
	Rule  string   `json:"rule"`
	Rules []string `json:"rules,omitempty"` // input only: expanded into one call per rule
	// src=rules
	Val  string   `json:"val,omitempty"`  // str | int | slice
	Name string   `json:"name,omitempty"` // rule name
	Form string   `json:"form,omitempty"` // eq: name=arg   raw: name followed by arg
	Arg  []string `json:"arg,omitempty"`  // one-symbol strings
	// src=random
	Seed int64  `json:"seed,omitempty"`
	Idx  int64  `json:"idx,omitempty"`
	Desc string `json:"desc,omitempty"`
}

// totalEv builds the logged record of a call or batch: exactly the fields of its source kind.
func (c *totalCall) totalEv(e string, id int64) map[string]interface{} {
	m := map[string]interface{}{"e": e, "id": id, "src": c.Src, "ep": c.Ep}
	switch c.Src {
	case "shapes":
		m["shape"] = c.Shape
		m["rule"] = c.Rule
	case "rules":
		m["val"] = c.Val
		m["name"] = c.Name
		m["form"] = c.Form
		if e == "call" {
			arg := c.Arg
			if arg == nil {
				arg = []string{}
			}
			m["arg"] = arg
			m["text"] = totalRuleText(c)
		}
	case "random":
		m["seed"] = c.Seed
		m["idx"] = c.Idx
		if c.Desc != "" {
			m["desc"] = c.Desc
		}
	}
	return m
}

type totalCounts struct {
	maxLen                  int
	calls, nils, errs, pans int64
}

func (c *totalCall) totalBatchEv(id int64, k totalCounts) map[string]interface{} {
	m := c.totalEv("batch", id)
	if c.Src == "rules" {
		m["maxlen"] = k.maxLen
	}
	m["calls"] = k.calls
	m["nil"] = k.nils
	m["err"] = k.errs
	m["panics"] = k.pans
	return m
}

type totalOutcome struct {
	out, msg, site string
}

const totalLibPrefix = "gitee.com/xuesongtao/protoc-go-valid/"

// totalPanicSite: innermost library function on the stack of the recovered panic.
func totalPanicSite() string {
	pcs := make([]uintptr, 64)
	n := runtime.Callers(3, pcs)
	frames := runtime.CallersFrames(pcs[:n])
	for {
		f, more := frames.Next()
		if strings.HasPrefix(f.Function, totalLibPrefix) {
			return strings.TrimPrefix(f.Function, totalLibPrefix)
		}
		if !more {
			break
		}
	}
	return "outside-library"
}

// totalInvoke runs one real entry point under recover().
func totalInvoke(ep string, src interface{}, rule string, rm bool) (o totalOutcome) {
	defer func() {
		if r := recover(); r != nil {
			o.out = "panic"
			o.msg = fmt.Sprint(r)
			o.site = totalPanicSite()
		}
	}()
	var err error
	switch ep {
	case "Struct":
		if rm {
			err = valid.Struct(src, valid.RM{"F": rule})
		} else {
			err = valid.Struct(src)
		}
	case "Var":
		err = valid.Var(src, rule)
	case "Map":
		err = valid.Map(src, valid.RM{"k": rule})
	case "Url":
		err = valid.Url(src, valid.RM{"k": rule})
	default:
		panic("harness: unknown entry point " + ep)
	}
	if err == nil {
		o.out = "nil"
	} else {
		o.out = "error"
		o.msg = err.Error()
		if len(o.msg) > 160 {
			o.msg = o.msg[:160]
		}
	}
	return
}

// ---------------------------------------------------------------------------------------------- shapes (concretiser)

var totalIfaceType = reflect.TypeOf((*interface{})(nil)).Elem()

func totalTag(rule string) reflect.StructTag {
	if rule == "" {
		return ""
	}
	return reflect.StructTag("valid:" + strconv.Quote(rule))
}

// totalBuild concretises a chain shape (outside-in list of constructor tokens ending in a leaf) into a Go value of a
// run-time synthesised type. The value is returned as a reflect.Value of exactly the described static type.
func totalBuild(chain []string, rule string) (reflect.Value, error) {
	if len(chain) == 0 {
		return reflect.Value{}, fmt.Errorf("empty shape")
	}
	tok := chain[0]
	if len(chain) == 1 {
		switch tok {
		case "nilif":
			return reflect.Zero(totalIfaceType), nil
		case "struct":
			t := reflect.StructOf([]reflect.StructField{{Name: "S", Type: reflect.TypeOf(""), Tag: totalTag(rule)}})
			v := reflect.New(t).Elem()
			v.Field(0).SetString("a1")
			return v, nil
		case "string":
			return reflect.ValueOf("a1"), nil
		case "estring":
			return reflect.ValueOf(""), nil
		case "int":
			return reflect.ValueOf(7), nil
		case "uint":
			return reflect.ValueOf(uint8(7)), nil
		case "bool":
			return reflect.ValueOf(true), nil
		case "float":
			return reflect.ValueOf(1.5), nil
		case "time":
			return reflect.ValueOf(time.Unix(1, 0)), nil
		case "func":
			return reflect.ValueOf(func() {}), nil
		case "chan":
			return reflect.ValueOf(make(chan int)), nil
		}
		return reflect.Value{}, fmt.Errorf("unknown leaf %q", tok)
	}
	in, err := totalBuild(chain[1:], rule)
	if err != nil {
		return in, err
	}
	it := in.Type()
	switch tok {
	case "ptr":
		p := reflect.New(it)
		p.Elem().Set(in)
		return p, nil
	case "nilptr":
		return reflect.Zero(reflect.PtrTo(it)), nil
	case "slice":
		s := reflect.MakeSlice(reflect.SliceOf(it), 1, 1)
		s.Index(0).Set(in)
		return s, nil
	case "nilslice":
		return reflect.Zero(reflect.SliceOf(it)), nil
	case "array":
		a := reflect.New(reflect.ArrayOf(1, it)).Elem()
		a.Index(0).Set(in)
		return a, nil
	case "mapS":
		// "map with a string-kinded key": every other one is keyed by a DEFINED string type (type totalKey string)
		if atomic.AddInt64(&totalMapSeq, 1)%2 == 0 {
			m := reflect.MakeMap(reflect.MapOf(reflect.TypeOf(totalKey("")), it))
			m.SetMapIndex(reflect.ValueOf(totalKey("k")), in)
			return m, nil
		}
		m := reflect.MakeMap(reflect.MapOf(reflect.TypeOf(""), it))
		m.SetMapIndex(reflect.ValueOf("k"), in)
		return m, nil
	case "mapI":
		m := reflect.MakeMap(reflect.MapOf(reflect.TypeOf(0), it))
		m.SetMapIndex(reflect.ValueOf(1), in)
		return m, nil
	case "nilmap":
		return reflect.Zero(reflect.MapOf(reflect.TypeOf(""), it)), nil
	case "iface":
		v := reflect.New(totalIfaceType).Elem()
		if !(it == totalIfaceType && in.IsNil()) {
			v.Set(in)
		}
		return v, nil
	case "field":
		if strings.HasPrefix(rule, "either=") || strings.HasPrefix(rule, "botheq=") {
			// a group needs two members to be evaluated at all: two fields of the same type holding the same value
			// (whatever the type - slices, maps, funcs, structs with such fields are not comparable with ==)
			t := reflect.StructOf([]reflect.StructField{{Name: "F", Type: it, Tag: totalTag(rule)}, {Name: "G", Type: it, Tag: totalTag(rule)}})
			v := reflect.New(t).Elem()
			v.Field(0).Set(in)
			v.Field(1).Set(in)
			return v, nil
		}
		t := reflect.StructOf([]reflect.StructField{{Name: "F", Type: it, Tag: totalTag(rule)}})
		v := reflect.New(t).Elem()
		v.Field(0).Set(in)
		return v, nil
	}
	return reflect.Value{}, fmt.Errorf("unknown wrapper %q", tok)
}

// totalSrc turns the built value into the interface{} argument (an interface-typed nil becomes untyped nil).
func totalSrc(v reflect.Value) interface{} {
	if v.Kind() == reflect.Interface && v.IsNil() {
		return nil
	}
	return v.Interface()
}

// ---------------------------------------------------------------------------------------------- rule enumeration

var totalSymByte = map[string]string{}

func totalRuleText(c *totalCall) string {
	var b strings.Builder
	b.WriteString(c.Name)
	if c.Form == "eq" {
		b.WriteByte('=')
	}
	for _, s := range c.Arg {
		b.WriteString(s)
	}
	return b.String()
}

type totalF1 struct{ F string }
type totalF2 struct{ F int }
type totalF3 struct{ F []string }

// strings aimed at the rules that scan the value itself
var totalValStrings = map[string]string{
	"str":  "a1",
	"esc":  strings.Repeat("'\"\\\n\r\t\x00\x1a", 5),
	"long": strings.Repeat("a1,", 300),
	"uni":  "说明: 中文,中文; explain: ü",
}

func totalRuleSrc(ep, val string) (interface{}, error) {
	if sv, ok := totalValStrings[val]; ok {
		switch ep {
		case "Struct":
			return &totalF1{sv}, nil
		case "Var":
			return sv, nil
		case "Map":
			return map[string]string{"k": sv}, nil
		case "Url":
			if val == "str" {
				return "http://h/p?k=a1&j&=1&&k=a=1&%6b=a1", nil // also: a parameter without "=", an empty key, an empty pair
			}
			return "http://h/p?k=" + sv, nil
		}
	}
	switch ep {
	case "Struct":
		switch val {
		case "int":
			return &totalF2{7}, nil
		case "slice":
			return &totalF3{[]string{"a", "1"}}, nil
		}
	case "Var":
		switch val {
		case "int":
			return 7, nil
		case "slice":
			return []string{"a", "1"}, nil
		}
	case "Map":
		switch val {
		case "int":
			return map[string]int{"k": 7}, nil
		case "slice":
			return map[string][]string{"k": {"a", "1"}}, nil
		}
	case "Url":
		switch val {
		case "int":
			return "http://h/p?k=7", nil
		case "slice":
			return "http://h/p?k=a,1", nil
		}
	}
	return nil, fmt.Errorf("no value %q for entry point %q", val, ep)
}

// ---------------------------------------------------------------------------------------------- random values

var totalRuleNames = []string{"required", "exist", "either", "botheq", "to", "ge", "le", "oto", "gt", "lt", "eq", "noeq", "in",
	"include", "phone", "email", "idcard", "year", "year2month", "date", "datetime", "int", "ints", "float", "re", "ip", "ipv4",
	"ipv6", "unique", "json", "prefix", "suffix", "file", "dir"}

func totalRandRule(r *rand.Rand) string {
	special := []string{"=", "|", "'", "(", ")", "~", ",", "/", "\\", "-", " ", "1", "0", "a", "说明", "[", "*", "+", "?", "$", "^", "\x00", "\xff"}
	piece := func() string {
		var b strings.Builder
		n := r.Intn(7)
		for i := 0; i < n; i++ {
			switch r.Intn(4) {
			case 0:
				b.WriteByte(byte(r.Intn(256)))
			default:
				b.WriteString(special[r.Intn(len(special))])
			}
		}
		return b.String()
	}
	one := func() string {
		switch r.Intn(6) {
		case 0:
			return piece()
		case 1:
			return totalRuleNames[r.Intn(len(totalRuleNames))] + piece()
		case 2:
			return totalRuleNames[r.Intn(len(totalRuleNames))]
		default:
			return totalRuleNames[r.Intn(len(totalRuleNames))] + "=" + piece()
		}
	}
	n := 1 + r.Intn(3)
	parts := make([]string, n)
	for i := range parts {
		parts[i] = one()
	}
	return strings.Join(parts, ",")
}

var totalScalarTypes = []reflect.Type{
	reflect.TypeOf(false), reflect.TypeOf(0), reflect.TypeOf(int8(0)), reflect.TypeOf(int64(0)), reflect.TypeOf(uint(0)),
	reflect.TypeOf(uint8(0)), reflect.TypeOf(uint64(0)), reflect.TypeOf(float32(0)), reflect.TypeOf(0.0), reflect.TypeOf(""),
	reflect.TypeOf(complex(0, 0)), reflect.TypeOf(time.Time{}), reflect.TypeOf(func() {}), reflect.TypeOf((chan int)(nil)),
	totalIfaceType, reflect.TypeOf(uintptr(0)), reflect.TypeOf([]byte(nil)),
}

// totalRandType synthesises a type; rules are drawn for every struct field (tag). No recursive types can arise.
func totalRandType(r *rand.Rand, depth int, rule func() string) reflect.Type {
	if depth <= 0 || r.Intn(3) == 0 {
		return totalScalarTypes[r.Intn(len(totalScalarTypes))]
	}
	switch r.Intn(7) {
	case 0:
		return reflect.PtrTo(totalRandType(r, depth-1, rule))
	case 1:
		return reflect.SliceOf(totalRandType(r, depth-1, rule))
	case 2:
		return reflect.ArrayOf(r.Intn(3), totalRandType(r, depth-1, rule))
	case 3:
		kt := []reflect.Type{reflect.TypeOf(""), reflect.TypeOf(0), reflect.TypeOf(false), reflect.TypeOf(1.5), totalIfaceType}
		return reflect.MapOf(kt[r.Intn(len(kt))], totalRandType(r, depth-1, rule))
	default:
		n := r.Intn(4)
		fs := make([]reflect.StructField, 0, n)
		for i := 0; i < n; i++ {
			f := reflect.StructField{Name: fmt.Sprintf("F%d", i), Type: totalRandType(r, depth-1, rule)}
			if r.Intn(6) == 0 {
				f.Name = fmt.Sprintf("f%d", i)
				f.PkgPath = "main"
			}
			if r.Intn(5) != 0 {
				f.Tag = totalTag(rule())
			}
			fs = append(fs, f)
		}
		return reflect.StructOf(fs)
	}
}

var totalRandPieces = []string{"'", "\"", "\\", "\n", "\r", "\t", "\x00", "\x1a", ",", "1", "a", "-", "/", ":", " ", ".", "@", "{", "}", "[", "]", "?", "=", "&", "%", "说"}

var totalRandStrings = []string{totalValStrings["esc"], totalValStrings["long"], totalValStrings["uni"], "", "a1", "7", "a,1", "1,1", "2021-01-01", "13111111111", "{\"a\":1}", "/", "\x00", "说明: x; y", "a'b", "(", "%zz", "http://h/?k=a1&k=2&=3&j"}

// totalRandFill fills v (settable) with a random value of its type; nil pointers/maps/slices/interfaces at every level.
func totalRandFill(r *rand.Rand, v reflect.Value, depth int) {
	if !v.CanSet() {
		return
	}
	switch v.Kind() {
	case reflect.Bool:
		v.SetBool(r.Intn(2) == 0)
	case reflect.Int, reflect.Int8, reflect.Int16, reflect.Int32, reflect.Int64:
		v.SetInt(int64(r.Intn(7)) - 2)
	case reflect.Uint, reflect.Uint8, reflect.Uint16, reflect.Uint32, reflect.Uint64, reflect.Uintptr:
		v.SetUint(uint64(r.Intn(5)))
	case reflect.Float32, reflect.Float64:
		v.SetFloat(float64(r.Intn(5)) / 2)
	case reflect.Complex64, reflect.Complex128:
		v.SetComplex(complex(float64(r.Intn(3)), 1))
	case reflect.String:
		if r.Intn(2) == 0 {
			v.SetString(totalRandStrings[r.Intn(len(totalRandStrings))])
		} else { // arbitrary content: escapes, quotes, separators, control and multi-byte characters
			var b strings.Builder
			for n := r.Intn(14); n > 0; n-- {
				if r.Intn(5) == 0 {
					b.WriteByte(byte(r.Intn(256)))
				} else {
					b.WriteString(totalRandPieces[r.Intn(len(totalRandPieces))])
				}
			}
			v.SetString(b.String())
		}
	case reflect.Ptr:
		if r.Intn(3) == 0 {
			return
		}
		p := reflect.New(v.Type().Elem())
		totalRandFill(r, p.Elem(), depth-1)
		v.Set(p)
	case reflect.Slice:
		if r.Intn(4) == 0 {
			return
		}
		n := r.Intn(3)
		s := reflect.MakeSlice(v.Type(), n, n)
		for i := 0; i < n; i++ {
			totalRandFill(r, s.Index(i), depth-1)
		}
		v.Set(s)
	case reflect.Array:
		for i := 0; i < v.Len(); i++ {
			totalRandFill(r, v.Index(i), depth-1)
		}
	case reflect.Map:
		if r.Intn(4) == 0 {
			return
		}
		m := reflect.MakeMap(v.Type())
		n := r.Intn(3)
		for i := 0; i < n; i++ {
			k := reflect.New(v.Type().Key()).Elem()
			if k.Kind() == reflect.Interface {
				k.Set(reflect.ValueOf(r.Intn(3)))
			} else if k.Kind() == reflect.String {
				k.SetString([]string{"k", "j", ""}[r.Intn(3)])
			} else {
				totalRandFill(r, k, 0)
			}
			e := reflect.New(v.Type().Elem()).Elem()
			totalRandFill(r, e, depth-1)
			m.SetMapIndex(k, e)
		}
		v.Set(m)
	case reflect.Struct:
		if v.Type() == reflect.TypeOf(time.Time{}) {
			if r.Intn(2) == 0 {
				v.Set(reflect.ValueOf(time.Unix(int64(r.Intn(100)), 0)))
			}
			return
		}
		for i := 0; i < v.NumField(); i++ {
			totalRandFill(r, v.Field(i), depth-1)
		}
	case reflect.Interface:
		if r.Intn(3) == 0 || depth <= 0 {
			return
		}
		t := totalRandType(r, 1, func() string { return "required" })
		if t.Kind() == reflect.Interface {
			return
		}
		e := reflect.New(t).Elem()
		totalRandFill(r, e, depth-1)
		if r.Intn(4) == 0 {
			p := reflect.New(t)
			p.Elem().Set(e)
			v.Set(p)
		} else {
			v.Set(e)
		}
	case reflect.Func:
		if r.Intn(2) == 0 {
			v.Set(reflect.ValueOf(func() {}))
		}
	case reflect.Chan:
		if r.Intn(2) == 0 {
			v.Set(reflect.MakeChan(v.Type(), 0))
		}
	}
}

// totalRandomCall regenerates random call (seed, idx) deterministically: value, rule text and the source description.
func totalRandomCall(seed, idx int64, ep string) (src interface{}, rule, desc string) {
	r := rand.New(rand.NewSource(seed*1000003 + idx))
	rule = totalRandRule(r)
	tagRule := func() string {
		if r.Intn(3) == 0 {
			return totalRandRule(r)
		}
		return []string{"required", "exist", "either=1", "botheq=1", "unique", "to=1~3", "eq=1", "in=(a1/7)", "ints", "datetime", "re='^a'", "json"}[r.Intn(12)]
	}
	var t reflect.Type
	// bias towards the carrier's natural kind, but any kind may be passed anywhere
	switch {
	case ep == "Map" && r.Intn(2) == 0:
		kt := []reflect.Type{reflect.TypeOf(""), reflect.TypeOf(""), reflect.TypeOf(0), totalIfaceType}
		t = reflect.MapOf(kt[r.Intn(len(kt))], totalRandType(r, 2, tagRule))
		if r.Intn(3) == 0 {
			t = reflect.SliceOf(t)
		}
	case ep == "Url" && r.Intn(2) == 0:
		t = reflect.TypeOf("")
	case ep == "Var" && r.Intn(2) == 0:
		t = totalScalarTypes[r.Intn(len(totalScalarTypes))]
		if r.Intn(3) == 0 {
			t = reflect.SliceOf(t)
		}
	default:
		t = totalRandType(r, 3, tagRule)
	}
	nptr := 0
	for r.Intn(3) == 0 && nptr < 3 {
		t = reflect.PtrTo(t)
		nptr++
	}
	v := reflect.New(t).Elem()
	totalRandFill(r, v, 4)
	src = totalSrc(v)
	if r.Intn(40) == 0 {
		src = nil
	}
	desc = fmt.Sprintf("%s(%s, rule %q)", ep, totalDescribe(src), rule)
	return
}

func totalDescribe(src interface{}) string {
	if src == nil {
		return "nil"
	}
	s := fmt.Sprintf("%T %+v", src, src)
	if len(s) > 300 {
		s = s[:300] + "..."
	}
	return s
}

// ---------------------------------------------------------------------------------------------- execution

// totalExec concretises and runs one call descriptor.
func totalExec(c *totalCall) (totalOutcome, error) {
	switch c.Src {
	case "shapes":
		v, err := totalBuild(c.Shape, c.Rule)
		if err != nil {
			return totalOutcome{}, err
		}
		return totalInvoke(c.Ep, totalSrc(v), c.Rule, false), nil
	case "rules":
		src, err := totalRuleSrc(c.Ep, c.Val)
		if err != nil {
			return totalOutcome{}, err
		}
		return totalInvoke(c.Ep, src, totalRuleText(c), true), nil
	case "random":
		src, rule, desc := totalRandomCall(c.Seed, c.Idx, c.Ep)
		c.Desc = desc
		return totalInvoke(c.Ep, src, rule, true), nil
	}
	return totalOutcome{}, fmt.Errorf("unknown call source %q", c.Src)
}

var totalDigits = regexp.MustCompile(`[0-9]+`)

var totalTypeTail = regexp.MustCompile(`( type | on |interface conversion: ).*$`)

// totalPanicKey: entry point | library function | panic message without numbers and type names.
func totalPanicKey(ep string, o totalOutcome) string {
	m := totalQuoted.ReplaceAllString(o.msg, "`P`")
	return ep + "|" + o.site + "|" + totalTypeTail.ReplaceAllString(totalDigits.ReplaceAllString(m, "N"), "$1T")
}

var totalQuoted = regexp.MustCompile("`[^`]*`")

// totalSink writes events; calls that returned are written in the current slice, a panicking call gets its own slice.
type totalSink struct {
	w      *lineWriter
	id     int64
	inOpen bool // a slice is open and holds at least one event
	slice  int64
}

func (s *totalSink) reset() {
	s.slice++
	s.w.put(map[string]interface{}{"e": "reset", "id": s.slice})
	s.inOpen = false
}

// batch writes an aggregate record; one with panics gets a slice of its own.
func (s *totalSink) batch(c *totalCall, k totalCounts) {
	s.id++
	if k.pans > 0 {
		s.reset()
		s.w.put(c.totalBatchEv(s.id, k))
		s.reset()
		return
	}
	s.w.put(c.totalBatchEv(s.id, k))
	s.inOpen = true
}

func (s *totalSink) call(c *totalCall, o totalOutcome) {
	s.id++
	cc := *c
	cc.Rules = nil
	if o.out == "panic" {
		s.reset()
		s.w.put(cc.totalEv("call", s.id))
		s.w.put(map[string]interface{}{"e": "panic", "id": s.id, "msg": o.msg, "site": o.site, "key": totalPanicKey(cc.Ep, o)})
		s.reset()
		return
	}
	s.w.put(cc.totalEv("call", s.id))
	s.w.put(map[string]interface{}{"e": "return", "id": s.id, "out": o.out, "msg": o.msg})
	s.inOpen = true
}

// totalCallsCmd: stdin call descriptors -> stdout events. A "shapes" descriptor with a rules list expands to one
// call per rule. -slice N starts a new slice every N calls.
func totalCallsCmd(args []string) error {
	fs := flag.NewFlagSet("total-calls", flag.ExitOnError)
	per := fs.Int("slice", 400, "calls per slice")
	fs.Parse(args)
	in := newLineReader(os.Stdin)
	out := newLineWriter(os.Stdout)
	defer out.flush()
	sink := &totalSink{w: out}
	sink.reset()
	n := 0
	for {
		c := totalCall{}
		if !in.next(&c) {
			break
		}
		rules := c.Rules
		if len(rules) == 0 {
			rules = []string{c.Rule}
		}
		for _, rule := range rules {
			cc := c
			cc.Rule = rule
			o, err := totalExec(&cc)
			if err != nil {
				return err
			}
			sink.call(&cc, o)
			n++
			if n%*per == 0 && sink.inOpen {
				sink.reset()
			}
		}
	}
	return nil
}

type totalBatchRes struct {
	c        totalCall
	k        totalCounts
	examples map[string][]totalExample // per panic key: the shortest panicking calls seen
	samples  []totalExample            // a few returned calls
	nontriv  int64                     // calls that returned an error
}

type totalExample struct {
	key string
	c   totalCall
	o   totalOutcome
}

func totalExLen(e totalExample) int { return len(e.c.Arg) + len(e.c.Desc) }

// totalKeep keeps the two shortest examples per key.
func totalKeep(m map[string][]totalExample, ex totalExample) {
	l := append(m[ex.key], ex)
	sort.SliceStable(l, func(i, j int) bool { return totalExLen(l[i]) < totalExLen(l[j]) })
	if len(l) > 2 {
		l = l[:2]
	}
	m[ex.key] = l
}

// totalEnumArgs calls f with every string over alphabet of length 0..maxlen (as symbol slices, shared buffer),
// then with every directed argument.
func totalEnumArgs(alphabet []string, maxlen int, directed [][]string, f func(arg []string)) {
	buf := make([]string, 0, maxlen)
	var rec func(depth int)
	rec = func(depth int) {
		f(buf)
		if depth == maxlen {
			return
		}
		for _, a := range alphabet {
			buf = append(buf, a)
			rec(depth + 1)
			buf = buf[:len(buf)-1]
		}
	}
	rec(0)
	for _, d := range directed {
		f(d)
	}
}

type totalConsts struct {
	Alphabet []string       `json:"alphabet"`
	Names    []string       `json:"names"`
	Forms    []string       `json:"forms"`
	Vals     []string       `json:"vals"`
	Eps      []string       `json:"eps"`
	Directed [][]string     `json:"directed"`
	MaxLen   map[string]int `json:"maxlen"` // per value kind
}

// totalEmit writes the batch results in job order: samples, the batch record, then (globally at most two per
// panic key) the individually logged panicking calls.
func totalEmit(res []totalBatchRes, perSlice int) {
	out := newLineWriter(os.Stdout)
	defer out.flush()
	sink := &totalSink{w: out}
	sink.reset()
	seen := map[string]int{}
	var calls, nontriv, panics int64
	for i := range res {
		br := &res[i]
		calls += br.k.calls
		nontriv += br.nontriv
		panics += br.k.pans
		for _, s := range br.samples {
			sink.call(&s.c, s.o)
		}
		sink.batch(&br.c, br.k)
		keys := make([]string, 0, len(br.examples))
		for k := range br.examples {
			keys = append(keys, k)
		}
		sort.Strings(keys)
		for _, k := range keys {
			for _, ex := range br.examples[k] {
				if seen[k] < 2 {
					seen[k]++
					sink.call(&ex.c, ex.o)
				}
			}
		}
		if (i+1)%perSlice == 0 && sink.inOpen {
			sink.reset()
		}
	}
	fmt.Fprintf(os.Stderr, "{\"calls\":%d,\"errors\":%d,\"panics\":%d,\"batches\":%d}\n", calls, nontriv, panics, len(res))
}

// totalRulesCmd: -consts <file> (JSON of the constants printed by TLC + maxlen) -> events on stdout, totals on stderr.
func totalRulesCmd(args []string) error {
	fs := flag.NewFlagSet("total-rules", flag.ExitOnError)
	cf := fs.String("consts", "", "constants file (JSON)")
	workers := fs.Int("workers", 4, "")
	sampleEvery := fs.Int64("sample", 20011, "log every n-th returned call individually")
	fs.Parse(args)
	b, err := os.ReadFile(*cf)
	if err != nil {
		return err
	}
	var k totalConsts
	if err := json.Unmarshal(b, &k); err != nil {
		return err
	}
	sort.Strings(k.Alphabet)
	sort.Strings(k.Names)
	type job struct {
		i                   int
		ep, val, name, form string
	}
	var jobs []job
	for _, ep := range k.Eps {
		for _, val := range k.Vals {
			for _, name := range k.Names {
				for _, form := range k.Forms {
					jobs = append(jobs, job{len(jobs), ep, val, name, form})
				}
			}
		}
	}
	res := make([]totalBatchRes, len(jobs))
	ch := make(chan job)
	var wg sync.WaitGroup
	var firstErr error
	var mu sync.Mutex
	for w := 0; w < *workers; w++ {
		wg.Add(1)
		go func() {
			defer wg.Done()
			for j := range ch {
				br := totalBatchRes{c: totalCall{Src: "rules", Ep: j.ep, Val: j.val, Name: j.name, Form: j.form},
					k: totalCounts{maxLen: k.MaxLen[j.val]}, examples: map[string][]totalExample{}}
				totalEnumArgs(k.Alphabet, k.MaxLen[j.val], k.Directed, func(arg []string) {
					c := totalCall{Src: "rules", Ep: j.ep, Val: j.val, Name: j.name, Form: j.form, Arg: arg}
					o, err := totalExec(&c)
					if err != nil {
						mu.Lock()
						firstErr = err
						mu.Unlock()
						return
					}
					br.k.calls++
					switch o.out {
					case "nil":
						br.k.nils++
					case "error":
						br.k.errs++
						br.nontriv++
					default:
						br.k.pans++
						c.Arg = append([]string{}, arg...)
						totalKeep(br.examples, totalExample{totalPanicKey(j.ep, o), c, o})
					}
					if o.out != "panic" && (br.k.calls+int64(j.i)*7)%*sampleEvery == 0 {
						c.Arg = append([]string{}, arg...)
						br.samples = append(br.samples, totalExample{"", c, o})
					}
				})
				res[j.i] = br
			}
		}()
	}
	for _, j := range jobs {
		ch <- j
	}
	close(ch)
	wg.Wait()
	if firstErr != nil {
		return firstErr
	}
	totalEmit(res, 100)
	return nil
}

// totalRandomCmd: -n calls per entry point, seed from VERIF_SEED.
func totalRandomCmd(args []string) error {
	fs := flag.NewFlagSet("total-random", flag.ExitOnError)
	n := fs.Int64("n", 10000, "calls per entry point")
	workers := fs.Int("workers", 4, "")
	sampleEvery := fs.Int64("sample", 997, "log every n-th returned call individually")
	fs.Parse(args)
	sd := seed()
	eps := []string{"Struct", "Var", "Map", "Url"}
	const chunk = 2000
	type job struct {
		i      int
		ep     string
		lo, hi int64
	}
	var jobs []job
	for _, ep := range eps {
		for lo := int64(0); lo < *n; lo += chunk {
			hi := lo + chunk
			if hi > *n {
				hi = *n
			}
			jobs = append(jobs, job{len(jobs), ep, lo, hi})
		}
	}
	res := make([]totalBatchRes, len(jobs))
	ch := make(chan job)
	var wg sync.WaitGroup
	for w := 0; w < *workers; w++ {
		wg.Add(1)
		go func() {
			defer wg.Done()
			for j := range ch {
				br := totalBatchRes{c: totalCall{Src: "random", Ep: j.ep, Seed: sd, Idx: j.lo}, examples: map[string][]totalExample{}}
				for idx := j.lo; idx < j.hi; idx++ {
					c := totalCall{Src: "random", Ep: j.ep, Seed: sd, Idx: idx}
					o, _ := totalExec(&c)
					br.k.calls++
					switch o.out {
					case "nil":
						br.k.nils++
					case "error":
						br.k.errs++
						br.nontriv++
					default:
						br.k.pans++
						totalKeep(br.examples, totalExample{totalPanicKey(j.ep, o), c, o})
					}
					if o.out != "panic" && idx%*sampleEvery == 0 {
						br.samples = append(br.samples, totalExample{"", c, o})
					}
				}
				res[j.i] = br
			}
		}()
	}
	for _, j := range jobs {
		ch <- j
	}
	close(ch)
	wg.Wait()
	totalEmit(res, 50)
	return nil
}

// ---------------------------------------------------------------------------------------------- scanner binding

// totalScanCmd: stdin @@SCAN vectors (scanner, rule text) -> the real scanner's raw output for that text. The exported
// rule functions are called directly with value "zz" (never a member / match of anything over the alphabet), so that
// their default message shows what they extracted. Used only to compare the scanner model with the code (DRIFT).
func totalScanCmd(args []string) error {
	in := newLineReader(os.Stdin)
	out := newLineWriter(os.Stdout)
	defer out.flush()
	names := map[string]string{"Parse": "N", "ToBounds": "to", "InBrackets": "in", "ReExtract": "re", "DatetimeSeps": "datetime"}
	fns := map[string]valid.CommonValidFn{"ToBounds": valid.To, "InBrackets": valid.In, "ReExtract": valid.Re, "DatetimeSeps": valid.Datetime}
	for {
		var v struct {
			Sc   string   `json:"sc"`
			Text []string `json:"text"`
		}
		if !in.next(&v) {
			break
		}
		name, ok := names[v.Sc]
		if !ok || len(v.Text) == 0 {
			return fmt.Errorf("bad scan vector %+v", v)
		}
		validName := name + strings.Join(v.Text[1:], "")
		res := map[string]interface{}{"sc": v.Sc, "text": v.Text, "validName": validName}
		func() {
			defer func() {
				if r := recover(); r != nil {
					res["panic"] = fmt.Sprint(r)
				}
			}()
			if v.Sc == "Parse" {
				k, val, msg := valid.ParseValidNameKV(validName)
				res["key"], res["value"], res["msg"] = k, val, msg
				return
			}
			var buf strings.Builder
			fns[v.Sc](&buf, validName, "", "", reflect.ValueOf("zz"))
			res["buf"] = buf.String()
		}()
		out.put(res)
	}
	return nil
}
