package main

// C03 conformance (family "empty"): concretise the cells emitted by spec/Gen_Empty.tla into real calls of the four
// entry points, abstract the returned error into (required clauses, other clauses, bystander clauses) and print it.
// No verdict is taken here: the expectation comes from TLC, equality is checked by lib/fam_empty.py and by
// spec/Judge_Empty.tla.

import (
	"errors"
	"fmt"
	"os"
	"reflect"
	"strconv"
	"strings"

	"gitee.com/xuesongtao/protoc-go-valid/valid"
)

func init() {
	register("empty-run", emptyRun)
	register("empty-kinds", emptyListKinds)
}

// ---------------------------------------------------------------- named types

type emptyInner struct {
	A int
	B string
}

// one named holder per kind: field under test Fx, bystander Zz (always "", always under required)
type emptyHString struct {
	Fx string
	Zz string
}
type emptyHInt struct {
	Fx int
	Zz string
}
type emptyHInt8 struct {
	Fx int8
	Zz string
}
type emptyHInt16 struct {
	Fx int16
	Zz string
}
type emptyHInt32 struct {
	Fx int32
	Zz string
}
type emptyHInt64 struct {
	Fx int64
	Zz string
}
type emptyHUint struct {
	Fx uint
	Zz string
}
type emptyHUint8 struct {
	Fx uint8
	Zz string
}
type emptyHUint16 struct {
	Fx uint16
	Zz string
}
type emptyHUint32 struct {
	Fx uint32
	Zz string
}
type emptyHUint64 struct {
	Fx uint64
	Zz string
}
type emptyHFloat32 struct {
	Fx float32
	Zz string
}
type emptyHFloat64 struct {
	Fx float64
	Zz string
}
type emptyHBool struct {
	Fx bool
	Zz string
}
type emptyHSliceInt struct {
	Fx []int
	Zz string
}
type emptyHSliceStr struct {
	Fx []string
	Zz string
}
type emptyHSliceStruct struct {
	Fx []emptyInner
	Zz string
}
type emptyHArray0Int struct {
	Fx [0]int
	Zz string
}
type emptyHArray3Int struct {
	Fx [3]int
	Zz string
}
type emptyHArray3Str struct {
	Fx [3]string
	Zz string
}
type emptyHMapInt struct {
	Fx map[string]int
	Zz string
}
type emptyHMapStr struct {
	Fx map[string]string
	Zz string
}
type emptyHStruct struct {
	Fx emptyInner
	Zz string
}
type emptyHPtrStruct struct {
	Fx *emptyInner
	Zz string
}
type emptyHPtrInt struct {
	Fx *int
	Zz string
}
type emptyHPtrString struct {
	Fx *string
	Zz string
}
type emptyHPtrFloat64 struct {
	Fx *float64
	Zz string
}
type emptyHPtrBool struct {
	Fx *bool
	Zz string
}

type emptyKind struct {
	holder reflect.Type           // named struct type with Fx of this kind
	states map[string]interface{} // emptiness state -> typed Go value
}

const emptyWitnessStr = "a,a" // violates every string rule of Empty!RuleText, length 3

func emptyPInt(v int) *int                     { return &v }
func emptyPStr(v string) *string               { return &v }
func emptyPFloat(v float64) *float64           { return &v }
func emptyPBool(v bool) *bool                  { return &v }
func emptyHolderOf(v interface{}) reflect.Type { return reflect.TypeOf(v) }

var emptyKinds = map[string]*emptyKind{
	"string":  {emptyHolderOf(emptyHString{}), map[string]interface{}{"zero": "", "nonzero": emptyWitnessStr}},
	"int":     {emptyHolderOf(emptyHInt{}), map[string]interface{}{"zero": int(0), "nonzero": int(3)}},
	"int8":    {emptyHolderOf(emptyHInt8{}), map[string]interface{}{"zero": int8(0), "nonzero": int8(3)}},
	"int16":   {emptyHolderOf(emptyHInt16{}), map[string]interface{}{"zero": int16(0), "nonzero": int16(3)}},
	"int32":   {emptyHolderOf(emptyHInt32{}), map[string]interface{}{"zero": int32(0), "nonzero": int32(3)}},
	"int64":   {emptyHolderOf(emptyHInt64{}), map[string]interface{}{"zero": int64(0), "nonzero": int64(3)}},
	"uint":    {emptyHolderOf(emptyHUint{}), map[string]interface{}{"zero": uint(0), "nonzero": uint(3)}},
	"uint8":   {emptyHolderOf(emptyHUint8{}), map[string]interface{}{"zero": uint8(0), "nonzero": uint8(3)}},
	"uint16":  {emptyHolderOf(emptyHUint16{}), map[string]interface{}{"zero": uint16(0), "nonzero": uint16(3)}},
	"uint32":  {emptyHolderOf(emptyHUint32{}), map[string]interface{}{"zero": uint32(0), "nonzero": uint32(3)}},
	"uint64":  {emptyHolderOf(emptyHUint64{}), map[string]interface{}{"zero": uint64(0), "nonzero": uint64(3)}},
	"float32": {emptyHolderOf(emptyHFloat32{}), map[string]interface{}{"zero": float32(0), "nonzero": float32(3)}},
	"float64": {emptyHolderOf(emptyHFloat64{}), map[string]interface{}{"zero": float64(0), "nonzero": float64(3)}},
	"bool":    {emptyHolderOf(emptyHBool{}), map[string]interface{}{"zero": false, "nonzero": true}},
	"sliceInt": {emptyHolderOf(emptyHSliceInt{}), map[string]interface{}{
		"nil": []int(nil), "emptyNonNil": []int{}, "zeroElems": []int{0, 0, 0}, "nonEmpty": []int{3, 3, 4}}},
	"sliceStr": {emptyHolderOf(emptyHSliceStr{}), map[string]interface{}{
		"nil": []string(nil), "emptyNonNil": []string{}, "zeroElems": []string{"", "", ""}, "nonEmpty": []string{"a", "a", "b"}}},
	"sliceStruct": {emptyHolderOf(emptyHSliceStruct{}), map[string]interface{}{
		"nil": []emptyInner(nil), "emptyNonNil": []emptyInner{}, "zeroElems": []emptyInner{{}, {}, {}},
		"nonEmpty": []emptyInner{{A: 3, B: "b"}, {A: 3, B: "b"}, {A: 4}}}},
	"array0Int": {emptyHolderOf(emptyHArray0Int{}), map[string]interface{}{"len0": [0]int{}}},
	"array3Int": {emptyHolderOf(emptyHArray3Int{}), map[string]interface{}{"zeroFilled": [3]int{}, "nonEmpty": [3]int{3, 3, 4}}},
	"array3Str": {emptyHolderOf(emptyHArray3Str{}), map[string]interface{}{"zeroFilled": [3]string{}, "nonEmpty": [3]string{"a", "a", "b"}}},
	"mapInt": {emptyHolderOf(emptyHMapInt{}), map[string]interface{}{
		"nil": map[string]int(nil), "emptyNonNil": map[string]int{}, "zeroElems": map[string]int{"k": 0}, "nonEmpty": map[string]int{"k": 3, "l": 3, "m": 4}}},
	"mapStr": {emptyHolderOf(emptyHMapStr{}), map[string]interface{}{
		"nil": map[string]string(nil), "emptyNonNil": map[string]string{}, "zeroElems": map[string]string{"k": ""}, "nonEmpty": map[string]string{"k": "a", "l": "a", "m": "b"}}},
	"struct": {emptyHolderOf(emptyHStruct{}), map[string]interface{}{"zero": emptyInner{}, "nonzero": emptyInner{A: 3, B: "b"}}},
	"ptrStruct": {emptyHolderOf(emptyHPtrStruct{}), map[string]interface{}{
		"nil": (*emptyInner)(nil), "toZero": &emptyInner{}, "toNonZero": &emptyInner{A: 3, B: "b"}}},
	"ptrInt":     {emptyHolderOf(emptyHPtrInt{}), map[string]interface{}{"nil": (*int)(nil), "toZero": emptyPInt(0), "toNonZero": emptyPInt(3)}},
	"ptrString":  {emptyHolderOf(emptyHPtrString{}), map[string]interface{}{"nil": (*string)(nil), "toZero": emptyPStr(""), "toNonZero": emptyPStr(emptyWitnessStr)}},
	"ptrFloat64": {emptyHolderOf(emptyHPtrFloat64{}), map[string]interface{}{"nil": (*float64)(nil), "toZero": emptyPFloat(0), "toNonZero": emptyPFloat(3)}},
	"ptrBool":    {emptyHolderOf(emptyHPtrBool{}), map[string]interface{}{"nil": (*bool)(nil), "toZero": emptyPBool(false), "toNonZero": emptyPBool(true)}},
	// dynamic types stored in map[string]interface{}
	"ifaceString":  {nil, map[string]interface{}{"zero": "", "nonzero": emptyWitnessStr}},
	"ifaceInt":     {nil, map[string]interface{}{"zero": int(0), "nonzero": int(3)}},
	"ifaceFloat64": {nil, map[string]interface{}{"zero": float64(0), "nonzero": float64(3)}},
	"ifaceBool":    {nil, map[string]interface{}{"zero": false, "nonzero": true}},
	"ifaceNil":     {nil, map[string]interface{}{"nilIface": nil}},
}

func emptyListKinds(args []string) error {
	w := newLineWriter(os.Stdout)
	defer w.flush()
	for k, ki := range emptyKinds {
		sts := []string{}
		for s := range ki.states {
			sts = append(sts, s)
		}
		gotype := ""
		if ki.holder != nil {
			gotype = strings.Replace(ki.holder.Field(0).Type.String(), "main.", "", -1)
		}
		w.put(map[string]interface{}{"kind": k, "states": sts, "gotype": gotype})
	}
	return nil
}

// ---------------------------------------------------------------- wire format

type emptyCell struct {
	ID      int      `json:"id"`
	Carrier string   `json:"carrier"`
	Kind    string   `json:"kind"`
	State   string   `json:"state"`
	By      bool     `json:"by"`
	Seq     []string `json:"seq"`    // the rule list as tokens of Empty.tla (informational here)
	Rules   []string `json:"rules"`  // concrete rule texts in the order written (from Empty!RuleText / ReqText)
	Marker  string   `json:"marker"` // text that identifies the cell's `required` clause (Empty!ReqMarker)
	API     string   `json:"api"`    // which public entry point variant carries the call ("" = canonical)

	typeText string // Go type text of the root struct (set by emptyCall)
}

type emptyObs struct {
	ID          int    `json:"id"`
	Req         int    `json:"req"`         // `required` clauses attributed to the value under test
	Other       int    `json:"other"`       // all other clauses attributed to it (incl. unattributable ones)
	Sent        int    `json:"sent"`        // `required` clauses of the bystander
	Stray       int    `json:"stray"`       // clauses that name neither (already counted in Other)
	Probe       int    `json:"probe"`       // invocations of the probe function during the call
	Unsupported bool   `json:"unsupported"` // the entry point refused the value's type
	Panic       string `json:"panic,omitempty"`
	Err         string `json:"err"`
}

const (
	emptyFx           = "Fx"
	emptyZz           = "Zz"
	emptySentMarker   = "it is required"
	emptyCustomMarker = "REQMSG"
)

var emptyProbeCalls int

// emptyGenTypes is filled by the generated file empty_gen.go (thorough tier): "kind|rules" -> named struct type
var emptyGenTypes map[string]reflect.Type

func emptyProbe(errBuf *strings.Builder, validName, objName, fieldName string, tv reflect.Value) {
	emptyProbeCalls++
	errBuf.WriteString(valid.GetJoinValidErrStr(objName, fieldName, "probe", "PROBE_HIT"))
}

// ---------------------------------------------------------------- concretisers

func emptyValueOf(c *emptyCell) (interface{}, reflect.Type, error) {
	ki := emptyKinds[c.Kind]
	if ki == nil {
		return nil, nil, fmt.Errorf("unknown kind %q", c.Kind)
	}
	v, ok := ki.states[c.State]
	if !ok {
		return nil, nil, fmt.Errorf("kind %q has no state %q", c.Kind, c.State)
	}
	var t reflect.Type
	if ki.holder != nil {
		t = ki.holder.Field(0).Type
	}
	return v, t, nil
}

func emptyTagType(ft reflect.Type, tagName, rules string) reflect.Type {
	return reflect.StructOf([]reflect.StructField{
		{Name: emptyFx, Type: ft, Tag: reflect.StructTag(tagName + ":" + strconv.Quote(rules))},
		{Name: emptyZz, Type: reflect.TypeOf(""), Tag: reflect.StructTag(tagName + ":" + strconv.Quote("required"))},
	})
}

// emptyNonEmptyOf: a non-empty value of the cell's kind (for a neighbour that must not be empty), as an element of a
// map whose element type is et.
func emptyNonEmptyOf(c *emptyCell, et reflect.Type) reflect.Value {
	if ki := emptyKinds[c.Kind]; ki != nil {
		for _, st := range []string{"nonzero", "nonEmpty"} {
			if v, ok := ki.states[st]; ok && v != nil {
				rv := reflect.ValueOf(v)
				if rv.Type().AssignableTo(et) && !rv.IsZero() {
					return rv
				}
			}
		}
		for _, v := range ki.states {
			if v == nil {
				continue
			}
			rv := reflect.ValueOf(v)
			if rv.Type().AssignableTo(et) && !rv.IsZero() && !((rv.Kind() == reflect.Slice || rv.Kind() == reflect.Map) && rv.Len() == 0) {
				return rv
			}
		}
	}
	if et.Kind() == reflect.Interface {
		return reflect.ValueOf("filled")
	}
	panic("empty: no non-empty value for kind " + c.Kind)
}

type emptyKeyT string

// emptyCall performs the real call for one cell.
func emptyCall(c *emptyCell) (res error, bad error) {
	joined := strings.Join(c.Rules, ",")
	switch c.Carrier {
	case "tag", "rm":
		v, ft, e := emptyValueOf(c)
		if e != nil {
			return nil, e
		}
		var st reflect.Type
		tagName := "valid"
		if c.API == "customtag" {
			tagName = "vx"
		}
		if c.Carrier == "tag" && c.API == "named" {
			st = emptyGenTypes[c.Kind+"|"+joined]
			if st == nil {
				return nil, fmt.Errorf("no generated type for %s|%s", c.Kind, joined)
			}
		} else if c.Carrier == "tag" {
			st = emptyTagType(ft, tagName, joined)
		} else if c.API == "overtag" {
			// the rule map overrides a field that already has a (never firing) tag rule of its own
			st = emptyTagType(ft, tagName, "le=1000000000|zzdecoy")
		} else {
			st = emptyKinds[c.Kind].holder
		}
		// unnamed (StructOf) roots print their whole type, tags included, as the object name of slice/map roots:
		// that text is cut out of the error before clauses are attributed
		c.typeText = st.String()
		obj := reflect.New(st)
		obj.Elem().Field(0).Set(reflect.ValueOf(v))
		rm := valid.RM{emptyFx: joined, emptyZz: "required"}
		if c.Carrier == "tag" {
			switch c.API {
			case "", "canon", "named":
				return valid.Struct(obj.Interface()), nil
			case "value":
				return valid.Struct(obj.Elem().Interface()), nil
			case "validate":
				return valid.ValidateStruct(obj.Interface()), nil
			case "customtag":
				return valid.ValidateStruct(obj.Interface(), tagName), nil
			case "sliceroot":
				sl := reflect.MakeSlice(reflect.SliceOf(st), 1, 1)
				sl.Index(0).Set(obj.Elem())
				return valid.Struct(sl.Interface()), nil
			case "maproot":
				m := reflect.MakeMap(reflect.MapOf(reflect.TypeOf(""), reflect.PtrTo(st)))
				m.SetMapIndex(reflect.ValueOf("e"), obj)
				return valid.Struct(m.Interface()), nil
			case "object":
				return valid.NewVStruct().Valid(obj.Interface()), nil
			}
		} else {
			switch c.API {
			case "", "canon", "overtag":
				return valid.Struct(obj.Interface(), rm), nil
			case "value":
				return valid.Struct(obj.Elem().Interface(), rm), nil
			case "forfn":
				return valid.StructForFn(obj.Interface(), rm), nil
			case "forrule":
				return valid.ValidStructForRule(rm, obj.Interface()), nil
			case "typed":
				return valid.NewVStruct().SetRule(rm, obj.Interface()).Valid(obj.Interface()), nil
			case "nested":
				return valid.NestedStructForRule(obj.Interface(), map[interface{}]valid.RM{obj.Interface(): rm}), nil
			case "sliceroot":
				sl := reflect.MakeSlice(reflect.SliceOf(st), 1, 1)
				sl.Index(0).Set(obj.Elem())
				return valid.NewVStruct().SetRule(rm, obj.Interface()).Valid(sl.Interface()), nil
			}
		}
		return nil, fmt.Errorf("unknown api %q for carrier %q", c.API, c.Carrier)
	case "var":
		v, _, e := emptyValueOf(c)
		if e != nil {
			return nil, e
		}
		switch c.API {
		case "", "canon":
			return valid.Var(v, c.Rules...), nil
		case "joined":
			return valid.Var(v, joined), nil
		case "object":
			return valid.NewVVar().SetRules(c.Rules...).Valid(v), nil
		case "ptr", "ptrptr":
			// the value handed over through one / two levels of pointers: Var judges what they point at
			p := reflect.New(reflect.TypeOf(v))
			p.Elem().Set(reflect.ValueOf(v))
			if c.API == "ptr" {
				return valid.Var(p.Interface(), c.Rules...), nil
			}
			pp := reflect.New(p.Type())
			pp.Elem().Set(p)
			return valid.Var(pp.Interface(), c.Rules...), nil
		}
		return nil, fmt.Errorf("unknown api %q for carrier var", c.API)
	case "map", "mapiface":
		rm := valid.RM{emptyFx: joined}
		if c.By {
			rm[emptyZz] = "required"
		}
		var m reflect.Value
		if c.Carrier == "map" {
			ki := emptyKinds[c.Kind]
			if ki == nil || ki.holder == nil {
				return nil, fmt.Errorf("bad map kind %q", c.Kind)
			}
			vt := ki.holder.Field(0).Type
			m = reflect.MakeMap(reflect.MapOf(reflect.TypeOf(""), vt))
			if c.State != "missing" {
				v, _, e := emptyValueOf(c)
				if e != nil {
					return nil, e
				}
				m.SetMapIndex(reflect.ValueOf(emptyFx), reflect.ValueOf(v))
			}
			if c.By {
				m.SetMapIndex(reflect.ValueOf(emptyZz), reflect.Zero(vt))
			}
		} else {
			mm := map[string]interface{}{}
			if c.State != "missing" {
				v, _, e := emptyValueOf(c)
				if e != nil {
					return nil, e
				}
				mm[emptyFx] = v
			}
			if c.By {
				mm[emptyZz] = nil // a nil interface is a zero value: the bystander is reported
			}
			m = reflect.ValueOf(mm)
		}
		if c.API == "namedkey" {
			// the same entries in a map whose key type is a DEFINED string type (type emptyKeyT string)
			nm := reflect.MakeMap(reflect.MapOf(reflect.TypeOf(emptyKeyT("")), m.Type().Elem()))
			it := m.MapRange()
			for it.Next() {
				nm.SetMapIndex(it.Key().Convert(reflect.TypeOf(emptyKeyT(""))), it.Value())
			}
			return valid.Map(nm.Interface(), rm), nil
		}
		if c.API == "extrakey" || c.API == "extrakeys" { // entries without any rule must not influence the ruled ones
			extra := []string{"u1", "u2"}
			if c.API == "extrakey" {
				extra = extra[:1]
			}
			for i, k := range extra {
				if c.Carrier == "map" {
					m.SetMapIndex(reflect.ValueOf(k), reflect.Zero(m.Type().Elem()))
				} else {
					m.SetMapIndex(reflect.ValueOf(k), reflect.ValueOf([]interface{}{7, "x"}[i]))
				}
			}
		}
		switch c.API {
		case "", "canon", "extrakey", "extrakeys":
			return valid.Map(m.Interface(), rm), nil
		case "sliceroot":
			sl := reflect.MakeSlice(reflect.SliceOf(m.Type()), 1, 1)
			sl.Index(0).Set(m)
			return valid.Map(sl.Interface(), rm), nil
		case "slice2nd":
			// the cell's map is the SECOND element; the first holds every ruled key with a non-empty value.  Clauses of
			// element [0] are none of this cell's business and are dropped; those of [1] are judged as the cell's.
			first := reflect.MakeMap(m.Type())
			ne := emptyNonEmptyOf(c, m.Type().Elem())
			first.SetMapIndex(reflect.ValueOf(emptyFx), ne)
			if c.By {
				first.SetMapIndex(reflect.ValueOf(emptyZz), ne)
			}
			sl := reflect.MakeSlice(reflect.SliceOf(m.Type()), 2, 2)
			sl.Index(0).Set(first)
			sl.Index(1).Set(m)
			// (clauses come element by element; some carry no path at all - a string rule on a number -, so those of
			// element [0] are counted on a call of their own and cut off the front)
			one := reflect.MakeSlice(reflect.SliceOf(m.Type()), 1, 1)
			one.Index(0).Set(first)
			n0 := 0
			if e0 := valid.Map(one.Interface(), rm); e0 != nil {
				n0 = len(strings.Split(e0.Error(), valid.ErrEndFlag))
			}
			err := valid.Map(sl.Interface(), rm)
			if err == nil {
				return nil, nil
			}
			var keep []string
			for i, cl := range strings.Split(err.Error(), valid.ErrEndFlag) {
				if i >= n0 && !strings.HasPrefix(cl, "\"[0]") {
					keep = append(keep, cl)
				}
			}
			if len(keep) == 0 {
				return nil, nil
			}
			return errors.New(strings.Join(keep, valid.ErrEndFlag)), nil
		case "mapfn":
			return valid.MapFn(m.Interface(), rm, nil), nil
		case "object":
			return valid.NewVMap().SetRule(rm).Valid(m.Interface()), nil
		}
		return nil, fmt.Errorf("unknown api %q for carrier map", c.API)
	case "url":
		rm := valid.RM{emptyFx: joined}
		if c.By {
			rm[emptyZz] = "required"
		}
		var params []string
		if c.By {
			params = append(params, "aa=1")
		}
		switch c.State {
		case "missing":
		case "zero":
			params = append(params, emptyFx+"=")
		case "zeroBare":
			params = append(params, emptyFx)
		case "nonzero":
			params = append(params, emptyFx+"="+emptyWitnessStr)
		default:
			return nil, fmt.Errorf("bad url state %q", c.State)
		}
		if c.By {
			params = append(params, emptyZz+"=")
		}
		if c.API == "enckey" {
			// the parameter NAMES are written with percent-escapes (F%78 is Fx): a name is decoded like a value
			for i, p := range params {
				if strings.HasPrefix(p, emptyFx) {
					params[i] = "F%78" + p[len(emptyFx):]
				} else if strings.HasPrefix(p, emptyZz) {
					params[i] = "%5a%7A" + p[len(emptyZz):]
				}
			}
		}
		u := "http://h.test/p"
		if len(params) > 0 {
			u += "?" + strings.Join(params, "&")
		}
		switch c.API {
		case "", "canon", "enckey":
			return valid.Url(u, rm), nil
		case "ptr":
			return valid.Url(&u, rm), nil
		case "object":
			return valid.NewVUrl().SetRule(rm).Valid(u), nil
		}
		return nil, fmt.Errorf("unknown api %q for carrier url", c.API)
	}
	return nil, fmt.Errorf("unknown carrier %q", c.Carrier)
}

// emptyAbstract maps the error text back to the observation the spec talks about.
func emptyAbstract(c *emptyCell, err error, o *emptyObs) {
	if err == nil {
		return
	}
	o.Err = err.Error()
	if c.typeText != "" && strings.HasPrefix(c.typeText, "struct {") {
		o.Err = strings.Replace(o.Err, c.typeText, "T", -1)
	}
	if o.Err == "src no support" {
		o.Unsupported = true
		o.Other = 1
		return
	}
	for _, cl := range strings.Split(o.Err, valid.ErrEndFlag) {
		if strings.TrimSpace(cl) == "" {
			continue
		}
		// either wording identifies the `required` clause: which text is shown is C15's business, not C03's
		isReq := strings.Contains(cl, c.Marker) || strings.Contains(cl, emptySentMarker) || strings.Contains(cl, emptyCustomMarker)
		switch {
		case c.Carrier == "var":
			if isReq {
				o.Req++
			} else {
				o.Other++
			}
		case strings.Contains(cl, emptyZz):
			if strings.Contains(cl, emptySentMarker) {
				o.Sent++
			} else {
				o.Stray++
				o.Other++
			}
		case strings.Contains(cl, emptyFx):
			if isReq {
				o.Req++
			} else {
				o.Other++
			}
		default:
			o.Stray++
			o.Other++
		}
	}
}

func emptyOne(c *emptyCell) (o emptyObs) {
	o.ID = c.ID
	before := emptyProbeCalls
	defer func() {
		o.Probe = emptyProbeCalls - before
		if r := recover(); r != nil {
			o.Panic = fmt.Sprint(r)
		}
	}()
	err, bad := emptyCall(c)
	if bad != nil {
		fmt.Fprintln(os.Stderr, "vh empty-run: cannot concretise cell", c.ID, ":", bad)
		os.Exit(3)
	}
	emptyAbstract(c, err, &o)
	return
}

func emptyRun(args []string) error {
	valid.SetCustomerValidFn("p_bad", emptyProbe)
	r := newLineReader(os.Stdin)
	w := newLineWriter(os.Stdout)
	defer w.flush()
	for {
		var c emptyCell
		if !r.next(&c) {
			break
		}
		w.put(emptyOne(&c))
	}
	return nil
}
