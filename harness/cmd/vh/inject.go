package main

// Tag injector conformance (C06, C07, C19).
//
// TLC (spec/Gen_Inject.tla) emits abstract files / directories together with what the contract allows after a run.
// This file concretises them into real Go source, runs the real injector (file.ParseFile+file.WriteFile in process and
// the built CLI with -f, -d, -p), abstracts the resulting bytes back (go/parser + an order-preserving struct tag
// parser + reflect.StructTag.Lookup) and compares with the expectation for equality / membership.  For C07 it records
// run histories as ndjson for spec/Trace_Inject.tla.  No contract logic lives here: the allowed results come from TLC.

import (
	"bytes"
	"context"
	"crypto/sha256"
	"encoding/hex"
	"flag"
	"fmt"
	"go/ast"
	"go/parser"
	"go/token"
	"math/rand"
	"os"
	"os/exec"
	"path/filepath"
	"reflect"
	"regexp"
	"runtime"
	"sort"
	"strconv"
	"strings"
	"sync"
	"sync/atomic"
	"syscall"
	"time"

	"gitee.com/xuesongtao/protoc-go-valid/file"
)

func init() {
	register("inject-files", injectFilesCmd)
	register("inject-dirs", injectDirsCmd)
}

// ---------------------------------------------------------------------------------------------- wire types

type injectSeg struct {
	Kind   string      `json:"kind"`
	Shape  string      `json:"shape"`
	HasTag bool        `json:"hasTag"`
	Q      string      `json:"q"`
	Tag    [][2]string `json:"tag"`
	Ck     string      `json:"ck"`
	Inj    [][2]string `json:"inj"`
}

type injectExp struct {
	Must    bool          `json:"must"`
	May     bool          `json:"may"`
	Allowed [][][2]string `json:"allowed"`
}

type injectConc struct {
	Name string              `json:"name"`
	Src  string              `json:"src"`
	Keys map[string]string   `json:"keys"` // abstract key -> concrete key
	Vals []map[string]string `json:"vals"` // per segment: abstract value -> concrete value
	Raw  bool                `json:"raw,omitempty"`
}

type injectFileVec struct {
	ID      int           `json:"id"`
	Variant int           `json:"variant"`
	Segs    []injectSeg   `json:"segs"`
	Exp     []injectExp   `json:"exp"`
	Mech    [][][2]string `json:"mech"`
	Runs    []string      `json:"runs"` // C07: modes of the successive runs ("l" library, "f", "d", "p")
	Conc    *injectConc   `json:"conc,omitempty"`
}

type injectEnt struct {
	K      string      `json:"k"`
	Kind   string      `json:"kind"`
	Expect string      `json:"expect"`
	Segs   []injectSeg `json:"segs"`
	Exp    []injectExp `json:"exp"`
	Conc   *injectConc `json:"conc,omitempty"`
}

type injectDirVec struct {
	ID      int         `json:"id"`
	Ents    []injectEnt `json:"ents"`
	Pattern string      `json:"pattern,omitempty"`
}

// injectObs is the abstraction of one file after one run.
type injectObs struct {
	Parsed   bool          `json:"parsed"`
	Tags     [][][2]string `json:"tags"`    // per segment (empty for non-fields / fields without literal)
	Outside  bool          `json:"outside"` // every byte outside the literals that may change is unchanged
	Same     bool          `json:"same"`    // bytes identical to the bytes before this run
	SameOrig bool          `json:"sameOrig"`
	Problems []string      `json:"problems,omitempty"`
	Drift    bool          `json:"drift,omitempty"`
	Sha      string        `json:"sha"`
}

type injectResult struct {
	Kind     string          `json:"kind"` // "mismatch" | "summary" | "sample"
	ID       int             `json:"id"`
	Variant  int             `json:"variant"`
	Mode     string          `json:"mode,omitempty"`
	What     []string        `json:"what,omitempty"`
	Exit     int             `json:"exit"`
	Panic    string          `json:"panic,omitempty"`
	Obs      *injectObs      `json:"obs,omitempty"`
	Feats    map[string]bool `json:"feats,omitempty"`
	Vec      interface{}     `json:"vec,omitempty"`
	Got      string          `json:"got,omitempty"`
	Entry    int             `json:"entry,omitempty"`
	Counters map[string]int  `json:"counters,omitempty"`
}

// ---------------------------------------------------------------------------------------------- concretiser

var injectKeyPool = []string{"json", "xml", "valid", "protobuf", "form", "db", "gorm", "yaml", "bson", "binding", "validate",
	"mapstructure", "k_1", "K2", "_x", "x9", "protobuf_oneof", "toml", "query", "a"}

var injectValPool = []string{"required", "to=1~10", "name,omitempty", "bytes,1,opt,name=name,proto3", "-", `re='^\d+$'`,
	"$HOME", "a$1b", "${x}y", "$$", "$", "中文说明", "in=(a/b/c)|必须是 a,b,c", "a b  c", `\\`, `a\\b`, "x=y,z", "k:v",
	"//not-comment", "'single'", "é", "😀", "%s%d", "required|姓名必填,to=1~3", "oto=0~100|应该在0~100", "varint,2,opt,name=age,proto3",
	"phone", "$name,omitempty", "to=1~150", "he", ",omitempty", "column:user_id;primaryKey", "1$", "$9.99", "*/x", "/*", "ab",
	"json=$1", "exist,either=1", "日本語=値", "<>&", "{}[]()", "~!@#%^&*", "@tag", "x @tag y", "0", " lead", "trail ", "$_", "$0"}

var injectTypePool = []string{"string", "int32", "*int64", "[]byte", "[]*Inner", "map[string]*Inner", "time.Time", "*timestamppb.Timestamp",
	"func(a int, b string) error", "func()", "chan int", "[4]byte", "interface{}", "struct{}", "map[string][]map[int]string",
	"func(\n\t\ta int,\n\t\tb ...string,\n\t) (int, error)", "isMsg_Kind", "*sync.Mutex", "<-chan struct{}", "[]func(context.Context) error",
	"Box[int]", "map[Key]pkg.Value[string]", "float64", "bool", "uint8", "**Inner", "[][]string", "error", "any",
	"protoimpl.MessageState", "struct{ X, Y int }", "interface{ M() }",
	// anonymous struct types whose inner fields carry tags of their own (never annotated): on one line, and over several
	"struct{ P int `json:\"p\"` }", "struct {\n\t\tP int    `json:\"p\"`\n\t\tQ string `json:\"q\" xml:\"q\"`\n\t}",
	"[]struct{ K string `json:\"k\" valid:\"required\"`; V int }"}

var injectEmbedPool = []string{"Inner", "*Inner", "time.Duration", "*sync.Mutex", "pkg.Base", "io.Reader"}

var injectPrePool = []string{"", "姓名 ", "年龄 ", "some text ", "手机号码，必填 ", "ключ ", "🙂 note ", "see RFC 1234: ", "x: ", "TODO(me): 说明 - ",
	"the tag is ", "(0;1) ", "a\tb ", "url http://x/y ", "50% "}

var injectMentionPool = []string{"see @tag docs", "@tag", "@tag oto=0~100|应该在0~100", "mail me@tagged.example", "@tagged valid:\"x\"",
	"the @tag marker is described below", "@tag valid:required", "@tag :\"x\"", "@tag valid:\"a", "@tag 必填", "@tag valid=\"x\"", "email@tag"}

var injectOpaquePool = []string{"", "\t// plain comment line", "\t// 字段分组: 基本信息", "\t// mentions @tag but not as an annotation", "\t/* block\n\t   comment */",
	"\t// json:\"fake\" xml:\"fake\"", "\t//", "\n"}

func injectRng(id, variant int, salt string) *rand.Rand {
	h := sha256.Sum256([]byte(fmt.Sprintf("%d/%d/%d/%s", seed(), id, variant, salt)))
	var s int64
	for i := 0; i < 8; i++ {
		s = s<<8 | int64(h[i])
	}
	return rand.New(rand.NewSource(s))
}

func injectPick(r *rand.Rand, pool []string) string { return pool[r.Intn(len(pool))] }

func injectItems(items [][2]string, keys map[string]string, vals map[string]string) string {
	parts := make([]string, 0, len(items))
	for _, it := range items {
		parts = append(parts, keys[it[0]]+`:"`+vals[it[1]]+`"`)
	}
	return strings.Join(parts, " ")
}

// injectConcretise turns an abstract file into Go source.  Every random choice is outside what the model distinguishes.
func injectConcretise(segs []injectSeg, id, variant int, salt string) *injectConc {
	r := injectRng(id, variant, salt)
	c := &injectConc{Keys: map[string]string{}}
	// keys: distinct concrete names for the abstract keys used
	perm := r.Perm(len(injectKeyPool))
	ki := 0
	for _, s := range segs {
		for _, it := range append(append([][2]string{}, s.Tag...), s.Inj...) {
			if _, ok := c.Keys[it[0]]; !ok {
				c.Keys[it[0]] = injectKeyPool[perm[ki]]
				ki++
			}
		}
	}
	// values: per segment, distinct concrete strings for the abstract values used
	c.Vals = make([]map[string]string, len(segs))
	for i, s := range segs {
		m := map[string]string{}
		vp := r.Perm(len(injectValPool))
		vi := 0
		for _, it := range append(append([][2]string{}, s.Tag...), s.Inj...) {
			if _, ok := m[it[1]]; !ok {
				m[it[1]] = injectValPool[vp[vi]]
				vi++
			}
		}
		if r.Intn(12) == 0 {
			// long rule values (a generated in=(...) list): a field text of several hundred bytes, and one that crosses
			// 512 / 1024 bytes when the annotation is merged in
			for k := range m {
				m[k] += ",in=(" + strings.Repeat("opt_value/", 20+r.Intn(60)) + "x)"
			}
		}
		c.Vals[i] = m
	}
	var b strings.Builder
	// header
	switch r.Intn(4) {
	case 0:
		b.WriteString("// Code generated by protoc-gen-go. DO NOT EDIT.\n// versions:\n// \tprotoc-gen-go v1.26.0\n// source: test.proto\n\n")
	case 1:
		b.WriteString("// 包 demo 测试 @tag json:\"header\"\n")
	case 2:
		b.WriteString("/*\n 多行注释 `backquote` @tag valid:\"x\"\n*/\n")
	}
	b.WriteString("package demo\n\n")
	if r.Intn(2) == 0 {
		b.WriteString("import (\n\t\"context\"\n\t\"sync\"\n\t\"time\"\n\n\tprotoimpl \"google.golang.org/protobuf/runtime/protoimpl\"\n)\n\n")
	}
	if r.Intn(16) == 0 {
		// one very long line ahead of the first annotation (generated files carry raw descriptors of this size):
		// more than a line-oriented reader's default buffer; one file in 512 is larger than 4 MiB altogether
		n := 7000
		if r.Intn(32) == 0 {
			n = 380000
		}
		b.WriteString("var rawDesc = \"" + strings.Repeat("\\x0a\\x12proto", n) + "\"\n\n")
	}
	if r.Intn(3) == 0 {
		b.WriteString("const (\n\t_ = protoimpl.EnforceVersion(20 - protoimpl.MinVersion)\n\traw = `json:\"in_const\" // @tag json:\"no\"`\n)\n\n")
	}
	typeN := 0
	state := "" // "", "top", "grp", "loc"
	openType := func(shape string) {
		typeN++
		name := fmt.Sprintf("Msg%d", typeN)
		if r.Intn(4) == 0 {
			name = fmt.Sprintf("消息%d", typeN)
		}
		switch shape {
		case "top":
			if r.Intn(10) == 0 {
				// a //line directive (generated code points back at its source): positions REPORTED for what follows are
				// renumbered - far beyond the file's real line count - while offsets stay what they are
				fmt.Fprintf(&b, "//line %s.proto:%d\n", name, 9000+r.Intn(90000))
			}
			if r.Intn(2) == 0 {
				fmt.Fprintf(&b, "// %s 说明 doc comment\n", name)
			}
			if r.Intn(6) == 0 {
				fmt.Fprintf(&b, "type %s = struct {\n", name)
			} else {
				fmt.Fprintf(&b, "type %s struct {\n", name)
			}
		case "grp":
			if state != "grp" {
				b.WriteString("type (\n")
			}
			fmt.Fprintf(&b, "\t%s struct {\n", name)
		case "loc":
			fmt.Fprintf(&b, "func local%d() interface{} {\n\ttype %s struct {\n", typeN, name)
		}
		state = shape
	}
	closeType := func(next string) {
		switch state {
		case "top":
			b.WriteString("}\n")
		case "grp":
			b.WriteString("\t}\n")
			if next != "grp" {
				b.WriteString(")\n")
			}
		case "loc":
			b.WriteString("\t}\n\treturn nil\n}\n")
		}
		if next != "grp" || state != "grp" {
			b.WriteString("\n")
			switch r.Intn(7) {
			case 0:
				fmt.Fprintf(&b, "func (x *Msg%d) Reset() {\n\t*x = Msg%d{}\n\t_ = `raw @tag json:\"x\"`\n}\n\n", typeN, typeN)
			case 1:
				fmt.Fprintf(&b, "var file_%d_rawDesc = []byte{\n\t0x0a, 0x0a, 0x74, // @tag json:\"bytes\"\n}\n\n", typeN)
			case 2:
				fmt.Fprintf(&b, "type isMsg_Kind%d interface {\n\tisMsg_Kind() // @tag json:\"iface\"\n}\n\n", typeN)
			case 3:
				fmt.Fprintf(&b, "type Enum%d int32 // 枚举 @tag json:\"enum\"\n\n", typeN)
			case 4:
				fmt.Fprintf(&b, "var anon%d struct {\n\tA int `json:\"a\"`\n}\n\n", typeN)
			}
		}
	}
	openType("top")
	if r.Intn(3) == 0 {
		b.WriteString("\n")
	}
	fieldN := 0
	for i, s := range segs {
		switch s.Kind {
		case "opaque":
			b.WriteString(injectPick(r, injectOpaquePool))
			b.WriteString("\n")
		case "break":
			closeType(s.Shape)
			openType(s.Shape)
		default:
			fieldN++
			indent := "\t"
			if state != "top" {
				indent = "\t\t"
			}
			if s.Ck == "doc" {
				fmt.Fprintf(&b, "%s// %s@tag %s\n", indent, injectPick(r, injectPrePool), injectItems(s.Inj, c.Keys, c.Vals[i]))
			} else if r.Intn(8) == 0 {
				fmt.Fprintf(&b, "%s// F%d 字段说明\n", indent, fieldN)
			}
			b.WriteString(indent)
			switch r.Intn(10) {
			case 0: // embedded
				b.WriteString(injectPick(r, injectEmbedPool))
			case 1: // several names
				fmt.Fprintf(&b, "A%d, B%d %s", fieldN, fieldN, injectPick(r, injectTypePool))
			case 2: // unexported
				fmt.Fprintf(&b, "f%d %s", fieldN, injectPick(r, injectTypePool))
			default:
				fmt.Fprintf(&b, "F%d%s%s", fieldN, strings.Repeat(" ", 1+r.Intn(3)), injectPick(r, injectTypePool))
			}
			if s.HasTag {
				body := injectItems(s.Tag, c.Keys, c.Vals[i])
				b.WriteString(strings.Repeat(" ", 1+r.Intn(2)))
				if s.Q == "interp" {
					b.WriteString(strconv.Quote(body))
				} else {
					b.WriteString("`" + body + "`")
				}
			}
			switch s.Ck {
			case "plain":
				fmt.Fprintf(&b, " // %splain trailing comment", injectPick(r, injectPrePool))
			case "mention":
				fmt.Fprintf(&b, " // %s%s", injectPick(r, injectPrePool), injectPick(r, injectMentionPool))
			case "inj":
				items := injectItems(s.Inj, c.Keys, c.Vals[i])
				if r.Intn(12) == 0 && !strings.Contains(items, "*/") {
					fmt.Fprintf(&b, " /* %s@tag %s */", injectPick(r, injectPrePool), items)
				} else {
					fmt.Fprintf(&b, "%s// %s@tag %s", strings.Repeat(" ", r.Intn(3)), injectPick(r, injectPrePool), items)
					if r.Intn(5) == 0 {
						b.WriteString(" ")
					}
				}
			}
			b.WriteString("\n")
		}
	}
	closeType("")
	switch r.Intn(4) {
	case 0:
		b.WriteString("// 结尾 trailing @tag json:\"eof\"")
	case 1:
		b.WriteString("func init() { _ = context.Background }\n")
	}
	c.Src = b.String()
	if r.Intn(10) == 0 {
		// CRLF line endings (a checkout with line-ending conversion): valid Go, every offset shifts by the line number
		c.Src = strings.ReplaceAll(c.Src, "\n", "\r\n")
	}
	if r.Intn(6) == 0 {
		// a UTF-8 byte order mark in front of the package clause: valid Go (the scanner skips it, offsets count it)
		c.Src = "\uFEFF" + c.Src
	}
	suffix := []string{".go", ".pb.go", "_gen.go", ".validator.go"}[r.Intn(4)]
	c.Name = fmt.Sprintf("s%06d_%d%s", id, variant, suffix)
	return c
}

// ---------------------------------------------------------------------------------------------- abstraction

// injectParseTag is reflect.StructTag's scanner, keeping every item in order with its raw (still escaped) value.
func injectParseTag(tag string) (items [][2]string, ok bool) {
	items = [][2]string{}
	for tag != "" {
		i := 0
		for i < len(tag) && tag[i] == ' ' {
			i++
		}
		tag = tag[i:]
		if tag == "" {
			break
		}
		i = 0
		for i < len(tag) && tag[i] > ' ' && tag[i] != ':' && tag[i] != '"' && tag[i] != 0x7f {
			i++
		}
		if i == 0 || i+1 >= len(tag) || tag[i] != ':' || tag[i+1] != '"' {
			return items, false
		}
		name := tag[:i]
		tag = tag[i+1:]
		i = 1
		for i < len(tag) && tag[i] != '"' {
			if tag[i] == '\\' {
				i++
			}
			i++
		}
		if i >= len(tag) {
			return items, false
		}
		items = append(items, [2]string{name, tag[1:i]})
		tag = tag[i+1:]
	}
	return items, true
}

type injectField struct {
	hasTag    bool
	s, e      int // byte offsets of the tag literal [s, e)
	content   string
	contentOK bool
}

// injectFields lists the direct fields of every struct type declared by a type spec, in source order.
func injectFields(src []byte) ([]injectField, error) {
	fset := token.NewFileSet()
	f, err := parser.ParseFile(fset, "x.go", src, parser.ParseComments)
	if err != nil {
		return nil, err
	}
	var out []injectField
	ast.Inspect(f, func(n ast.Node) bool {
		ts, ok := n.(*ast.TypeSpec)
		if !ok {
			return true
		}
		st, ok := ts.Type.(*ast.StructType)
		if !ok || st.Fields == nil {
			return true
		}
		for _, fd := range st.Fields.List {
			var x injectField
			if fd.Tag != nil {
				x.hasTag = true
				x.s = fset.Position(fd.Tag.Pos()).Offset
				x.e = fset.Position(fd.Tag.End()).Offset
				if v, err := strconv.Unquote(fd.Tag.Value); err == nil {
					x.content, x.contentOK = v, true
				}
			}
			out = append(out, x)
		}
		return false
	})
	return out, nil
}

func injectStrip(src []byte, fields []injectField, fieldOfSeg []int, exp []injectExp) []byte {
	var out []byte
	prev := 0
	for si, fi := range fieldOfSeg {
		if fi < 0 || fi >= len(fields) || !exp[si].May || !fields[fi].hasTag {
			continue
		}
		if fields[fi].s < prev {
			continue
		}
		out = append(out, src[prev:fields[fi].s]...)
		out = append(out, 0)
		prev = fields[fi].e
	}
	return append(out, src[prev:]...)
}

// injectFirstDiff shows the first line that differs (for reports only).
func injectFirstDiff(a, b []byte) string {
	if bytes.Equal(a, b) {
		return ""
	}
	la, lb := strings.Split(string(a), "\n"), strings.Split(string(b), "\n")
	for i := 0; i < len(la) && i < len(lb); i++ {
		if la[i] != lb[i] {
			return strings.TrimSpace(la[i]) + "  ==>  " + strings.TrimSpace(lb[i])
		}
	}
	return "length differs"
}

func injectSha(b []byte) string {
	h := sha256.Sum256(b)
	return hex.EncodeToString(h[:8])
}

func injectInv(m map[string]string) map[string]string {
	o := map[string]string{}
	for k, v := range m {
		o[v] = k
	}
	return o
}

func injectTagsEq(a, b [][2]string) bool {
	if len(a) != len(b) {
		return false
	}
	for i := range a {
		if a[i] != b[i] {
			return false
		}
	}
	return true
}

// injectObserve abstracts the bytes of one file after a run and compares them with the contract's expectation.
func injectObserve(segs []injectSeg, exp []injectExp, mech [][][2]string, conc *injectConc, orig, before, now []byte) *injectObs {
	o := &injectObs{Same: bytes.Equal(before, now), SameOrig: bytes.Equal(orig, now), Sha: injectSha(now)}
	o.Tags = make([][][2]string, len(segs))
	for i := range o.Tags {
		o.Tags[i] = [][2]string{}
	}
	if conc.Raw { // a real-world file without annotations: only byte identity is observable
		o.Parsed, o.Outside = true, o.SameOrig
		if !o.SameOrig {
			o.Problems = append(o.Problems, "outside-changed")
		}
		return o
	}
	fieldOfSeg := make([]int, len(segs))
	n := 0
	for i, s := range segs {
		if s.Kind == "field" {
			fieldOfSeg[i] = n
			n++
		} else {
			fieldOfSeg[i] = -1
		}
	}
	of, err := injectFields(orig)
	if err != nil || len(of) != n {
		o.Problems = append(o.Problems, "harness: original does not abstract to its scenario")
		return o
	}
	nf, err := injectFields(now)
	if err != nil {
		o.Problems = append(o.Problems, "unparsable-result")
		return o
	}
	o.Parsed = true
	if len(nf) != n {
		o.Problems = append(o.Problems, "field-count")
		return o
	}
	kinv := injectInv(conc.Keys)
	for i, s := range segs {
		fi := fieldOfSeg[i]
		if fi < 0 {
			continue
		}
		vinv := injectInv(conc.Vals[i])
		fd := nf[fi]
		if fd.hasTag != s.HasTag {
			o.Problems = append(o.Problems, fmt.Sprintf("field %d: literal appeared/disappeared", i+1))
		}
		if !fd.hasTag {
			continue
		}
		if !fd.contentOK {
			o.Problems = append(o.Problems, fmt.Sprintf("field %d: literal does not unquote", i+1))
			continue
		}
		items, ok := injectParseTag(fd.content)
		if !ok {
			o.Problems = append(o.Problems, fmt.Sprintf("field %d: literal is not in key:\"value\" form: %q", i+1, fd.content))
		}
		abs := make([][2]string, 0, len(items))
		for _, it := range items {
			k, okk := kinv[it[0]]
			if !okk {
				k = "?" + it[0]
			}
			v, okv := vinv[it[1]]
			if !okv {
				v = "?" + it[1]
			}
			abs = append(abs, [2]string{k, v})
		}
		o.Tags[i] = abs
		in := false
		for _, a := range exp[i].Allowed {
			if injectTagsEq(a, abs) {
				in = true
			}
		}
		if !in {
			o.Problems = append(o.Problems, fmt.Sprintf("field %d: tag %v not among the allowed %v", i+1, abs, exp[i].Allowed))
		} else {
			if mech != nil && i < len(mech) && !injectTagsEq(mech[i], abs) {
				o.Drift = true
			}
			// cross-check with the platform's reader: Lookup(k) is the (unquoted) value
			st := reflect.StructTag(fd.content)
			for _, it := range items {
				want, err := strconv.Unquote(`"` + it[1] + `"`)
				got, found := st.Lookup(it[0])
				if err == nil && (!found || got != want) {
					o.Problems = append(o.Problems, fmt.Sprintf("field %d: reflect Lookup(%q)=%q,%v but the literal holds %q", i+1, it[0], got, found, want))
				}
			}
		}
	}
	o.Outside = bytes.Equal(injectStrip(orig, of, fieldOfSeg, exp), injectStrip(now, nf, fieldOfSeg, exp))
	if !o.Outside {
		o.Problems = append(o.Problems, "outside-changed")
	}
	return o
}

func injectFeats(segs []injectSeg, conc *injectConc) map[string]bool {
	f := map[string]bool{}
	re := regexp.MustCompile(`\$[A-Za-z0-9_{$]`)
	for i, s := range segs {
		if s.Kind != "field" {
			continue
		}
		if !s.HasTag && (s.Ck == "inj" || s.Ck == "mention") {
			f["untagged_tagcomment"] = true
		}
		if s.HasTag && (s.Ck == "inj" || s.Ck == "mention") && conc != nil && !conc.Raw {
			for _, it := range append(append([][2]string{}, s.Tag...), s.Inj...) {
				if re.MatchString(conc.Vals[i][it[1]]) {
					f["dollar_value"] = true
				}
			}
		}
	}
	return f
}

// ---------------------------------------------------------------------------------------------- running the injector

var injectPanicRe = regexp.MustCompile(`(?m)^(panic:|fatal error:|goroutine \d+ \[)`)
var injectParsingRe = regexp.MustCompile(`parsing file "([^"]*)" for inject`)

type injectRun struct {
	exit   int
	panic  string
	stderr string
}

// injectHung is set once a run of the tool had to be killed.
var injectHung int32

var (
	injectRunNo    int32
	injectTmpOnce  sync.Once
	injectTmpOther string
)

// injectOtherTmp: a scratch directory under /dev/shm when that is a different device than the default temporary
// directory (removed by injectOtherTmpCleanup); "" otherwise.
func injectOtherTmp() string {
	injectTmpOnce.Do(func() {
		var a, b syscall.Stat_t
		if syscall.Stat("/dev/shm", &a) != nil || syscall.Stat(os.TempDir(), &b) != nil || a.Dev == b.Dev {
			return
		}
		if d, err := os.MkdirTemp("/dev/shm", "vh-inject-tmp-"); err == nil {
			injectTmpOther = d
		}
	})
	return injectTmpOther
}

func injectOtherTmpCleanup() {
	if injectTmpOther != "" {
		os.RemoveAll(injectTmpOther)
	}
}

// injectCLIEnv runs the tool in a restricted environment: with a small limit on open files (fdLimit > 0, through the
// shell's ulimit) and / or as the unprivileged user 65534 (asNobody; only when the harness itself runs as root).
func injectCLIEnv(fdLimit int, asNobody bool, cli string, args ...string) injectRun {
	if fdLimit > 0 {
		sh := fmt.Sprintf("ulimit -n %d && exec \"$0\" \"$@\"", fdLimit)
		args = append([]string{"-c", sh, cli}, args...)
		cli = "/bin/sh"
	}
	return injectCLIAs(asNobody && os.Geteuid() == 0, cli, args...)
}

var injectEnvMu sync.Mutex // restricted runs one at a time (they are few)

func injectCLI(cli string, args ...string) injectRun { return injectCLIAs(false, cli, args...) }

func injectCLIAs(nobody bool, cli string, args ...string) injectRun {
	// the tool works on a handful of small files: a run that has not ended after 30 s does not end (e.g. it opened a
	// named pipe for reading) - that stops every remaining file from being processed and is reported like a crash
	ctx, cancel := context.WithTimeout(context.Background(), 30*time.Second)
	defer cancel()
	cmd := exec.CommandContext(ctx, cli, args...)
	if nobody {
		cmd.SysProcAttr = &syscall.SysProcAttr{Credential: &syscall.Credential{Uid: 65534, Gid: 65534}}
	}
	// every other run has its temporary directory on another file system than the files it works on (where the
	// machine has one): a tool that writes next to / renames over its targets must cope with either
	if d := injectOtherTmp(); d != "" && atomic.AddInt32(&injectRunNo, 1)%2 == 0 {
		cmd.Env = append(os.Environ(), "TMPDIR="+d)
	}
	var eb bytes.Buffer
	cmd.Stderr = &eb
	cmd.Stdout = &eb
	err := cmd.Run()
	r := injectRun{stderr: eb.String()}
	if ctx.Err() == context.DeadlineExceeded {
		r.exit = -1
		r.panic = "the tool did not terminate within 30 s (killed): " + strings.Join(args, " ")
		atomic.StoreInt32(&injectHung, 1) // one witness is enough: no further named pipes are laid out
		return r
	}
	if err != nil {
		if ee, ok := err.(*exec.ExitError); ok {
			r.exit = ee.ExitCode()
		} else {
			r.exit = -1
			r.panic = "cannot start: " + err.Error()
		}
	}
	if r.exit < 0 && r.panic == "" {
		r.panic = "killed by a signal"
	}
	if loc := injectPanicRe.FindStringIndex(r.stderr); loc != nil {
		end := loc[0] + 300
		if end > len(r.stderr) {
			end = len(r.stderr)
		}
		r.panic = r.stderr[loc[0]:end]
	}
	return r
}

func injectLib(path string) (r injectRun) {
	defer func() {
		if p := recover(); p != nil {
			r.exit = 2
			r.panic = fmt.Sprint("panic: ", p)
		}
	}()
	areas, err := file.ParseFile(path)
	if err != nil {
		return injectRun{}
	}
	if err := file.WriteFile(path, areas); err != nil {
		return injectRun{stderr: err.Error()}
	}
	return injectRun{}
}

// injectOddDir gives every second scratch directory a name that is awkward for tools which treat paths as patterns or
// split them at blanks: glob metacharacters, blanks, non-ASCII.  The name is an ordinary directory name for -d and -f;
// for -p the directory part of the pattern is escaped (injectGlobEscape), so the pattern still means "the files in there".
func injectOddDir(name string, n int) string {
	switch n % 6 {
	case 1:
		return name + "[v1]"
	case 3:
		return name + " gen *x?"
	case 5:
		return name + "_协议 [a-c]"
	}
	return name
}

func injectGlobEscape(dir string) string {
	return strings.NewReplacer(`\`, `\\`, `[`, `\[`, `*`, `\*`, `?`, `\?`).Replace(dir)
}

var injectLibMu sync.Mutex // the library logs through one global logger; keep in-process runs sequential

// injectBatch runs one mode over a set of files that live in dir (names sorted = processing order).  A crash of a
// -d / -p run is attributed to the file the CLI was parsing; the files after it are run again so that every file gets
// its own verdict.  Returns per file name the run outcome.
func injectBatch(cli, mode, dir string, names []string) map[string]injectRun {
	out := map[string]injectRun{}
	switch mode {
	case "l":
		injectLibMu.Lock()
		for _, n := range names {
			out[n] = injectLib(filepath.Join(dir, n))
		}
		injectLibMu.Unlock()
	case "f":
		for _, n := range names {
			out[n] = injectCLI(cli, "-f", filepath.Join(dir, n))
		}
	default:
		rest := append([]string{}, names...)
		sort.Strings(rest)
		cur := dir
		for round := 0; len(rest) > 0; round++ {
			var r injectRun
			if mode == "d" {
				r = injectCLI(cli, "-d", cur)
			} else {
				r = injectCLI(cli, "-p", filepath.Join(injectGlobEscape(cur), "*.go"))
			}
			if r.panic == "" {
				for _, n := range rest {
					out[n] = injectRun{}
				}
				break
			}
			// find the culprit: the last file the CLI announced
			culprit := ""
			if ms := injectParsingRe.FindAllStringSubmatch(r.stderr, -1); len(ms) > 0 {
				culprit = filepath.Base(ms[len(ms)-1][1])
			}
			idx := -1
			for i, n := range rest {
				if n == culprit {
					idx = i
				}
			}
			if idx < 0 { // cannot attribute: blame every remaining file
				for _, n := range rest {
					out[n] = r
				}
				break
			}
			for _, n := range rest[:idx] {
				out[n] = injectRun{}
			}
			out[culprit] = r
			rest = rest[idx+1:]
			if len(rest) == 0 {
				break
			}
			// move the unprocessed files to a fresh directory and go on
			next := filepath.Join(dir, fmt.Sprintf("_retry%d", round))
			os.MkdirAll(next, 0o755)
			for _, n := range rest {
				os.Rename(filepath.Join(cur, n), filepath.Join(next, n))
			}
			cur = next
		}
		// bring retried files back so the caller finds them in dir
		filepath.Walk(dir, func(p string, info os.FileInfo, err error) error {
			if err == nil && !info.IsDir() && filepath.Dir(p) != dir {
				os.Rename(p, filepath.Join(dir, filepath.Base(p)))
			}
			return nil
		})
	}
	return out
}

// injectQuietStderr points file descriptor 2 at a scratch file while the library (which logs every area through a
// logger bound to os.Stderr at init time) runs in process; the returned function restores it.
func injectQuietStderr(work string) func() {
	f, err := os.Create(filepath.Join(work, "lib-stderr.log"))
	if err != nil {
		return func() {}
	}
	saved, err := syscall.Dup(2)
	if err != nil {
		f.Close()
		return func() {}
	}
	syscall.Dup2(int(f.Fd()), 2)
	return func() {
		syscall.Dup2(saved, 2)
		syscall.Close(saved)
		f.Close()
	}
}

// ---------------------------------------------------------------------------------------------- inject-files

type injectScn struct {
	vec   *injectFileVec
	conc  *injectConc
	orig  []byte
	feats map[string]bool
}

func injectFilesCmd(args []string) error {
	defer injectOtherTmpCleanup()
	fs := flag.NewFlagSet("inject-files", flag.ContinueOnError)
	cli := fs.String("cli", "", "path of the built injector CLI")
	work := fs.String("work", "", "scratch directory")
	task := fs.String("task", "c06", "c06: every mode from the original bytes | c07: run histories")
	par := fs.Int("par", 4, "parallel batches")
	batch := fs.Int("batch", 48, "files per directory")
	trace := fs.String("trace", "", "c07: ndjson trace output")
	samples := fs.Int("samples", 3, "sample records to emit")
	if err := fs.Parse(args); err != nil {
		return err
	}
	in := newLineReader(os.Stdin)
	var scns []*injectScn
	for {
		v := &injectFileVec{}
		if !in.next(v) {
			break
		}
		c := v.Conc
		if c == nil {
			c = injectConcretise(v.Segs, v.ID, v.Variant, "file")
		}
		scns = append(scns, &injectScn{vec: v, conc: c, orig: []byte(c.Src), feats: injectFeats(v.Segs, c)})
	}
	out := newLineWriter(os.Stdout)
	defer out.flush()
	defer injectQuietStderr(*work)()
	var mu sync.Mutex
	counters := map[string]int{}
	bump := func(k string, n int) { mu.Lock(); counters[k] += n; mu.Unlock() }
	emit := func(r injectResult) { mu.Lock(); out.put(r); mu.Unlock() }
	traces := make([][]interface{}, len(scns))

	// group: c06 -> one group; c07 -> by run sequence
	groups := map[string][]int{}
	var gkeys []string
	for i, s := range scns {
		k := ""
		if *task == "c07" {
			k = strings.Join(s.vec.Runs, "")
		}
		if _, ok := groups[k]; !ok {
			gkeys = append(gkeys, k)
		}
		groups[k] = append(groups[k], i)
	}
	type job struct {
		key  string
		idxs []int
		n    int
	}
	var jobs []job
	jn := 0
	for _, k := range gkeys {
		idxs := groups[k]
		for a := 0; a < len(idxs); a += *batch {
			b := a + *batch
			if b > len(idxs) {
				b = len(idxs)
			}
			jobs = append(jobs, job{k, idxs[a:b], jn})
			jn++
		}
	}
	sampleLeft := *samples
	runJob := func(j job) {
		base := filepath.Join(*work, injectOddDir(fmt.Sprintf("b%05d", j.n), j.n))
		names := make([]string, len(j.idxs))
		byName := map[string]int{}
		for x, i := range j.idxs {
			names[x] = scns[i].conc.Name
			byName[names[x]] = i
		}
		check := func(i int, mode string, run injectRun, before, now []byte, first bool) *injectObs {
			s := scns[i]
			o := injectObserve(s.vec.Segs, s.vec.Exp, s.vec.Mech, s.conc, s.orig, before, now)
			var what []string
			if run.panic != "" { // a non-zero exit status alone (an error report) is not a crash
				what = append(what, "crash")
			}
			if first {
				for _, p := range o.Problems {
					what = append(what, p)
				}
			}
			if o.Drift {
				bump("drift", 1)
			}
			bump("observations", 1)
			if len(what) > 0 && *task == "c06" {
				v := *s.vec
				v.Conc = s.conc
				emit(injectResult{Kind: "mismatch", ID: v.ID, Variant: v.Variant, Mode: mode, What: what, Exit: run.exit, Panic: run.panic,
					Obs: o, Feats: s.feats, Vec: v, Got: string(now)})
			}
			return o
		}
		if *task == "c06" {
			for _, mode := range []string{"l", "f", "d", "p"} {
				dir := filepath.Join(base, mode)
				os.MkdirAll(dir, 0o755)
				for _, i := range j.idxs {
					if err := os.WriteFile(filepath.Join(dir, scns[i].conc.Name), scns[i].orig, 0o644); err != nil {
						panic(err)
					}
				}
				res := injectBatch(*cli, mode, dir, names)
				bump("runs_"+mode, 1)
				for _, n := range names {
					i := byName[n]
					now, _ := os.ReadFile(filepath.Join(dir, n))
					o := check(i, mode, res[n], scns[i].orig, now, true)
					mu.Lock()
					if sampleLeft > 0 && mode == "d" && !o.SameOrig {
						sampleLeft--
						v := *scns[i].vec
						v.Conc = scns[i].conc
						out.put(injectResult{Kind: "sample", ID: v.ID, Mode: mode, Obs: o, Vec: v, Got: string(now)})
					}
					mu.Unlock()
				}
			}
		} else {
			dir := filepath.Join(base, "r")
			os.MkdirAll(dir, 0o755)
			before := map[string][]byte{}
			for _, i := range j.idxs {
				os.WriteFile(filepath.Join(dir, scns[i].conc.Name), scns[i].orig, 0o644)
				before[scns[i].conc.Name] = scns[i].orig
				v := scns[i].vec
				traces[i] = append(traces[i], map[string]interface{}{"e": "file", "id": v.ID, "variant": v.Variant, "segs": v.Segs,
					"mode": "", "tags": [][][2]string{}, "parsed": true, "outside": true, "same": true, "exit": 0, "panic": false,
					"problems": []string{}, "sha": injectSha(scns[i].orig), "diff": "", "ptext": scns[i].conc.Src,
					"dollar": scns[i].feats["dollar_value"], "untagged": scns[i].feats["untagged_tagcomment"]})
			}
			for _, mode := range scns[j.idxs[0]].vec.Runs {
				res := injectBatch(*cli, mode, dir, names)
				bump("runs_"+mode, 1)
				for _, n := range names {
					i := byName[n]
					now, _ := os.ReadFile(filepath.Join(dir, n))
					o := check(i, mode, res[n], before[n], now, false)
					v := scns[i].vec
					traces[i] = append(traces[i], map[string]interface{}{"e": "run", "id": v.ID, "variant": v.Variant, "segs": []injectSeg{},
						"mode": mode, "tags": o.Tags, "parsed": o.Parsed, "outside": o.Outside, "same": o.Same, "exit": res[n].exit,
						"panic": res[n].panic != "", "problems": append([]string{}, o.Problems...), "sha": o.Sha,
						"diff": injectFirstDiff(before[n], now), "ptext": res[n].panic, "dollar": false, "untagged": false})
					before[n] = now
				}
			}
		}
		os.RemoveAll(base)
	}
	ch := make(chan job)
	var wg sync.WaitGroup
	for w := 0; w < *par; w++ {
		wg.Add(1)
		go func() {
			defer wg.Done()
			for j := range ch {
				runJob(j)
			}
		}()
	}
	for _, j := range jobs {
		ch <- j
	}
	close(ch)
	wg.Wait()
	if *trace != "" {
		f, err := os.Create(*trace)
		if err != nil {
			return err
		}
		tw := newLineWriter(f)
		for i := range scns {
			for _, e := range traces[i] {
				tw.put(e)
			}
		}
		tw.flush()
		f.Close()
	}
	counters["scenarios"] = len(scns)
	counters["batches"] = len(jobs)
	out.put(injectResult{Kind: "summary", Counters: counters})
	return nil
}

// ---------------------------------------------------------------------------------------------- inject-dirs (C19)

var injectStdlib []string
var injectStdlibOnce sync.Once

func injectStdlibFiles() []string {
	injectStdlibOnce.Do(func() {
		root := runtime.GOROOT()
		for _, d := range []string{"go/ast", "go/token", "strings", "sort", "container/list", "encoding/json", "text/scanner", "sync", "errors", "bufio"} {
			ms, _ := filepath.Glob(filepath.Join(root, "src", d, "*.go"))
			for _, m := range ms {
				b, err := os.ReadFile(m)
				if err != nil || len(b) > 80000 || bytes.Contains(b, []byte("@tag")) {
					continue
				}
				if _, err := parser.ParseFile(token.NewFileSet(), m, b, 0); err == nil {
					injectStdlib = append(injectStdlib, m)
				}
			}
		}
		sort.Strings(injectStdlib)
	})
	return injectStdlib
}

func injectBreak(src string, r *rand.Rand) string {
	lines := strings.Split(src, "\n")
	garbage := []string{"type {", "func (", "}}}", "struct struct", "type X struct { `json:\"a\"` // @tag json:\"b\"", "package"}
	for try := 0; try < 20; try++ {
		at := r.Intn(len(lines) + 1)
		if at == 0 && try < 19 {
			continue
		}
		cand := append(append(append([]string{}, lines[:at]...), garbage[r.Intn(len(garbage))]), lines[at:]...)
		s := strings.Join(cand, "\n")
		if _, err := parser.ParseFile(token.NewFileSet(), "x.go", s, parser.ParseComments); err != nil {
			return s
		}
	}
	return "package\n" + src
}

func injectConcretiseEnt(e *injectEnt, id, pos int) {
	if e.Conc != nil {
		return
	}
	r := injectRng(id, pos, "ent")
	c := injectConcretise(e.Segs, id, pos, "dir")
	switch e.Kind {
	case "go":
		c.Name = fmt.Sprintf("e%d_%s%s", pos, e.K, []string{".go", ".pb.go"}[r.Intn(2)])
		if e.K == "plain" && r.Intn(3) == 0 {
			if fs := injectStdlibFiles(); len(fs) > 0 {
				b, _ := os.ReadFile(fs[r.Intn(len(fs))])
				c.Src, c.Raw = string(b), true
			}
		}
	case "broken":
		c.Name = fmt.Sprintf("e%d_broken.go", pos)
		c.Src = injectBreak(c.Src, r)
	case "nongo":
		c.Name = fmt.Sprintf("e%d_%s", pos, []string{"notes.txt", "x.go.bak", "test.proto", "README", "x.go~", "go", "x.golang"}[r.Intn(7)])
	case "subdir":
		c.Name = fmt.Sprintf("e%d_sub", pos)
	case "subdirgo":
		c.Name = fmt.Sprintf("e%d_sub.go", pos)
	}
	e.Conc = c
}

// injectNobodyOK: the unprivileged user can reach the scratch directory (every component of the path is made searchable
// once); false when that cannot be arranged - the variation is then left out.
var injectNobodyOnce sync.Once
var injectNobodyAble bool

func injectNobodyOK(work string) bool {
	injectNobodyOnce.Do(func() {
		abs, err := filepath.Abs(work)
		if err != nil {
			return
		}
		for p := abs; p != "/" && p != "."; p = filepath.Dir(p) {
			fi, err := os.Stat(p)
			if err != nil {
				return
			}
			if fi.Mode().Perm()&0o005 != 0o005 {
				if os.Chmod(p, fi.Mode().Perm()|0o055) != nil {
					return
				}
			}
		}
		// the tool's binary must be executable by that user as well; tried with /bin/true
		c := exec.Command("/bin/true")
		c.SysProcAttr = &syscall.SysProcAttr{Credential: &syscall.Credential{Uid: 65534, Gid: 65534}}
		c.Dir = abs
		injectNobodyAble = c.Run() == nil
	})
	return injectNobodyAble
}

// injectSpecialState describes a symlink / pipe without following or opening it.
func injectSpecialState(p string) string {
	fi, err := os.Lstat(p)
	if err != nil {
		return "absent"
	}
	st := fi.Mode().Type().String()
	if fi.Mode()&os.ModeSymlink != 0 {
		t, _ := os.Readlink(p)
		st += " -> " + t
	}
	if fi.Mode().IsRegular() {
		b, _ := os.ReadFile(p)
		st += " " + injectSha(b)
	}
	return st
}

func injectEntPath(dir string, e *injectEnt) string {
	if e.Kind == "subdir" || e.Kind == "subdirgo" {
		return filepath.Join(dir, e.Conc.Name, "inner.go")
	}
	return filepath.Join(dir, e.Conc.Name)
}

func injectDirsCmd(args []string) error {
	defer injectOtherTmpCleanup()
	fs := flag.NewFlagSet("inject-dirs", flag.ContinueOnError)
	cli := fs.String("cli", "", "path of the built injector CLI")
	work := fs.String("work", "", "scratch directory")
	par := fs.Int("par", 4, "parallel scenarios")
	samples := fs.Int("samples", 2, "sample records to emit")
	if err := fs.Parse(args); err != nil {
		return err
	}
	in := newLineReader(os.Stdin)
	var vecs []*injectDirVec
	for {
		v := &injectDirVec{}
		if !in.next(v) {
			break
		}
		vecs = append(vecs, v)
	}
	out := newLineWriter(os.Stdout)
	defer out.flush()
	var mu sync.Mutex
	counters := map[string]int{}
	sampleLeft := *samples
	runVec := func(v *injectDirVec) {
		r := injectRng(v.ID, 0, "dirvec")
		for i := range v.Ents {
			injectConcretiseEnt(&v.Ents[i], v.ID, i+1)
		}
		// adversarial neighbours: every other non-Go file is named after a Go file of the same directory plus a
		// suffix that tools writing "next to" a file like to use (temp / backup names) - it must stay untouched too
		var goNames []string
		for i := range v.Ents {
			if k := v.Ents[i].Kind; k == "go" || k == "broken" {
				goNames = append(goNames, v.Ents[i].Conc.Name)
			}
		}
		used := map[string]bool{}
		for i := range v.Ents {
			used[v.Ents[i].Conc.Name] = true
		}
		for i := range v.Ents {
			if v.Ents[i].Kind == "nongo" && len(goNames) > 0 && r.Intn(2) == 0 {
				sfx := []string{".tmp", ".bak", "~", ".orig", ".new", ".swp", ".1", ".tmp"}[r.Intn(8)]
				if n := goNames[r.Intn(len(goNames))] + sfx; !used[n] { // names within a directory stay distinct
					used[n] = true
					v.Ents[i].Conc.Name = n
				}
			}
		}
		if v.Pattern == "" {
			v.Pattern = []string{"*.go", "*", "e*", "*.go", "e?_*.go"}[r.Intn(5)]
		}
		for _, mode := range []string{"d", "p", "f"} {
			dir := filepath.Join(*work, injectOddDir(fmt.Sprintf("d%06d_%s", v.ID, mode), v.ID/2))
			os.MkdirAll(dir, 0o755)
			for i := range v.Ents {
				p := injectEntPath(dir, &v.Ents[i])
				os.MkdirAll(filepath.Dir(p), 0o755)
				if k := v.Ents[i].Kind; v.ID%3 == 1 && i == 0 && k != "subdir" && k != "subdirgo" {
					// the first entry of every third directory is reached through a symbolic link (the file itself
					// lies in a sub-directory, which -d does not enter): it is read, judged and written through the link
					real := filepath.Join(dir, "zz_lnk", filepath.Base(p))
					os.MkdirAll(filepath.Dir(real), 0o755)
					if err := os.WriteFile(real, []byte(v.Ents[i].Conc.Src), 0o644); err != nil {
						panic(err)
					}
					if err := os.Symlink(filepath.Join("zz_lnk", filepath.Base(p)), p); err != nil {
						panic(err)
					}
					continue
				}
				if err := os.WriteFile(p, []byte(v.Ents[i].Conc.Src), 0o644); err != nil {
					panic(err)
				}
			}
			// every other directory also holds entries that are neither regular files nor directories and sort before
			// everything else: a dangling symlink, one with a .go name (a per-file fault: it cannot be read), a symlink
			// to a sub-directory and a named pipe. They are not processable, must stay what they are and must not
			// stop the other files from being processed.
			specials := map[string]string{}
			if v.ID%2 == 0 {
				os.Symlink("no-such-target", filepath.Join(dir, "a0_dangling"))
				os.Symlink("no-such-target.go", filepath.Join(dir, "a1_dangling.go"))
				os.MkdirAll(filepath.Join(dir, "zz_realdir"), 0o755)
				os.Symlink("zz_realdir", filepath.Join(dir, "a2_dirlink"))
				if atomic.LoadInt32(&injectHung) == 0 {
					syscall.Mkfifo(filepath.Join(dir, "a3_pipe"), 0o644)
				}
				for _, n := range []string{"a0_dangling", "a1_dangling.go", "a2_dirlink", "a3_pipe"} {
					specials[n] = injectSpecialState(filepath.Join(dir, n))
				}
			}
			// one directory in five is crowded: 17..24 more files that are not Go sources, sorting before the entries
			if v.ID%5 == 3 {
				for k, n := 0, 17+int(v.ID/5)%8; k < n; k++ {
					name := fmt.Sprintf("a4_fill%02d.txt", k)
					os.WriteFile(filepath.Join(dir, name), []byte(fmt.Sprintf("filler %d of %d\n", k, v.ID)), 0o644)
					specials[name] = injectSpecialState(filepath.Join(dir, name))
				}
			}
			// crowded directories also hold 40 Go files that do not parse, sorting first, and the tool gets 32 file
			// descriptors: it works on one file at a time, so the files after them are processed all the same
			fdLimit := 0
			if v.ID%5 == 3 && mode != "f" {
				fdLimit = 32
				for k := 0; k < 40; k++ {
					name := fmt.Sprintf("a5_broken%02d.go", k)
					os.WriteFile(filepath.Join(dir, name), []byte(fmt.Sprintf("package broken%d\n\nfunc (\n", k)), 0o644)
					specials[name] = injectSpecialState(filepath.Join(dir, name))
				}
			}
			// one directory in seven holds, in front of the entries, a valid annotated file the tool may read but not write
			// (mode 0444; the tool runs as the unprivileged user 65534 - only where the harness runs as root): a per-file
			// fault on the WRITE side. It must stay as it is and must not touch what comes after it.
			asNobody := false
			if v.ID%7 == 2 && mode != "f" && os.Geteuid() == 0 && injectNobodyOK(*work) {
				asNobody = true
				ro := filepath.Join(dir, "a6_readonly.go")
				os.WriteFile(ro, []byte("package demo\n\ntype RO struct {\n\tA string `json:\"a\"` // @tag valid:\"required\"\n\tB int32  `json:\"b\"` // @tag valid:\"to=1~9\"\n}\n"), 0o444)
				os.Chmod(ro, 0o444)
				specials["a6_readonly.go"] = injectSpecialState(ro)
				filepath.Walk(dir, func(p string, info os.FileInfo, err error) error {
					if err != nil || p == ro || info.Mode()&os.ModeSymlink != 0 {
						return nil
					}
					if info.IsDir() {
						os.Chmod(p, 0o777)
					} else if info.Mode().IsRegular() {
						os.Chmod(p, 0o666)
					}
					return nil
				})
			}
			var runs []injectRun
			switch mode {
			case "d":
				if fdLimit > 0 || asNobody {
					injectEnvMu.Lock()
					runs = append(runs, injectCLIEnv(fdLimit, asNobody, *cli, "-d", dir))
					injectEnvMu.Unlock()
				} else {
					runs = append(runs, injectCLI(*cli, "-d", dir))
				}
			case "p":
				if fdLimit > 0 || asNobody {
					injectEnvMu.Lock()
					runs = append(runs, injectCLIEnv(fdLimit, asNobody, *cli, "-p", filepath.Join(injectGlobEscape(dir), v.Pattern)))
					injectEnvMu.Unlock()
				} else {
					runs = append(runs, injectCLI(*cli, "-p", filepath.Join(injectGlobEscape(dir), v.Pattern)))
				}
			case "f":
				for i := range v.Ents {
					runs = append(runs, injectCLI(*cli, "-f", filepath.Join(dir, v.Ents[i].Conc.Name)))
				}
			}
			var what []string
			exit, pan := 0, ""
			for _, rn := range runs {
				if rn.panic != "" {
					exit, pan = rn.exit, rn.panic
					what = append(what, "crash")
					break
				}
			}
			var obsAll []*injectObs
			entry := 0
			for n, was := range specials {
				if now := injectSpecialState(filepath.Join(dir, n)); now != was {
					what = append(what, fmt.Sprintf("special entry %s changed: was %s, is %s", n, was, now))
				}
			}
			for i := range v.Ents {
				e := &v.Ents[i]
				orig := []byte(e.Conc.Src)
				now, err := os.ReadFile(injectEntPath(dir, e))
				if err != nil {
					what = append(what, fmt.Sprintf("entry %d (%s): file vanished", i+1, e.K))
					entry = i + 1
					continue
				}
				same := bytes.Equal(orig, now)
				var o *injectObs
				switch e.Expect {
				case "same":
					o = &injectObs{Same: same, SameOrig: same, Sha: injectSha(now)}
					if !same {
						what = append(what, fmt.Sprintf("entry %d (%s): unprocessable file changed", i+1, e.K))
						entry = i + 1
					}
				case "either":
					o = &injectObs{Same: same, SameOrig: same, Sha: injectSha(now)}
					if !same {
						o = injectObserve(e.Segs, e.Exp, nil, e.Conc, orig, orig, now)
						for _, p := range o.Problems {
							what = append(what, fmt.Sprintf("entry %d (%s): %s", i+1, e.K, p))
							entry = i + 1
						}
					}
				default:
					o = injectObserve(e.Segs, e.Exp, nil, e.Conc, orig, orig, now)
					for _, p := range o.Problems {
						what = append(what, fmt.Sprintf("entry %d (%s): %s", i+1, e.K, p))
						if entry == 0 {
							entry = i + 1
						}
					}
				}
				obsAll = append(obsAll, o)
			}
			mu.Lock()
			counters["dir_runs"]++
			counters["cli_runs"] += len(runs)
			counters["files_checked"] += len(v.Ents)
			if len(what) > 0 {
				feats := map[string]bool{}
				for i := range v.Ents {
					for k, b := range injectFeats(v.Ents[i].Segs, v.Ents[i].Conc) {
						if b && v.Ents[i].Kind == "go" {
							feats[k] = true
						}
					}
				}
				out.put(injectResult{Kind: "mismatch", ID: v.ID, Mode: mode, What: what, Exit: exit, Panic: pan, Feats: feats, Vec: v, Entry: entry})
			} else if sampleLeft > 0 && mode == "d" && len(v.Ents) >= 3 {
				sampleLeft--
				names := []string{}
				for i := range v.Ents {
					names = append(names, v.Ents[i].Conc.Name+" ["+v.Ents[i].K+"] sameAsOriginal="+strconv.FormatBool(obsAll[i].SameOrig))
				}
				out.put(injectResult{Kind: "sample", ID: v.ID, Mode: mode, What: names})
			}
			mu.Unlock()
			os.RemoveAll(dir)
		}
	}
	ch := make(chan *injectDirVec)
	var wg sync.WaitGroup
	for w := 0; w < *par; w++ {
		wg.Add(1)
		go func() {
			defer wg.Done()
			for v := range ch {
				runVec(v)
			}
		}()
	}
	for _, v := range vecs {
		ch <- v
	}
	close(ch)
	wg.Wait()
	counters["scenarios"] = len(vecs)
	out.put(injectResult{Kind: "summary", Counters: counters})
	return nil
}
