package main

// C05 (family "formats"): format and content rules accept exactly their documented language.
//
//   formats-gen  -n <per rule> -out <file>     generate inputs (members by grammar, single-character edits of members,
//                                               grammar-directed near misses, random strings, numeric and collection
//                                               inputs, separator triples), run the real rule on each, record
//                                               (rule, arg, kind, input, violated) + the delegated platform predicate
//   formats-run  < vectors.ndjson > recs.ndjson run given vectors (enumerated by TLC, or a replay file)
//
// Nothing in here decides a verdict: the records are judged by TLC (spec/Judge_Formats.tla).  The generator only has
// to be dense around the languages; whether a generated string is a member is the specification's business.

import (
	"encoding/json"
	"flag"
	"fmt"
	"math/rand"
	"os"
	"path/filepath"
	"reflect"
	"regexp"
	"sort"
	"strconv"
	"strings"

	"gitee.com/xuesongtao/protoc-go-valid/valid"
)

func init() {
	register("formats-gen", formatsGenCmd)
	register("formats-run", formatsRunCmd)
}

// formatsVec is one scenario; formatsRec adds what the real code and the platform showed.
type formatsVec struct {
	ID     int     `json:"id"`
	Rule   string  `json:"rule"`
	Arg    []int   `json:"arg"`    // code points of the raw text after "rule="
	Kind   string  `json:"kind"`   // str | num | list
	NK     string  `json:"nk"`     // numeric kind / element kind: int uint float str ("" for str)
	GoType string  `json:"gotype"` // concrete Go type the harness builds
	Input  []int   `json:"input"`  // str: the string; num: canonical decimal rendering
	Elems  [][]int `json:"elems"`  // list: canonical rendering of every element
	Pat    []int   `json:"pat"`    // re: the intended pattern
	Src    string  `json:"src"`    // member | miss | edit | random | num | list | tlc
}

type formatsRec struct {
	formatsVec
	Deleg    bool   `json:"deleg"`
	Violated bool   `json:"violated"`
	Err      string `json:"err"`
	Panic    string `json:"panic"`
}

func formatsCps(s string) []int {
	out := make([]int, 0, len(s))
	for _, r := range s {
		out = append(out, int(r))
	}
	return out
}

func formatsStr(cps []int) string {
	rs := make([]rune, len(cps))
	for i, c := range cps {
		rs[i] = rune(c)
	}
	return string(rs)
}

func formatsRuleText(v *formatsVec) string {
	if len(v.Arg) == 0 {
		return v.Rule
	}
	return v.Rule + "=" + formatsStr(v.Arg)
}

// ------------------------------------------------------------------------------------------------ concretise + run

var formatsScalarTypes = map[string]reflect.Type{
	"int": reflect.TypeOf(int(0)), "int8": reflect.TypeOf(int8(0)), "int16": reflect.TypeOf(int16(0)),
	"int32": reflect.TypeOf(int32(0)), "int64": reflect.TypeOf(int64(0)),
	"uint": reflect.TypeOf(uint(0)), "uint8": reflect.TypeOf(uint8(0)), "uint16": reflect.TypeOf(uint16(0)),
	"uint32": reflect.TypeOf(uint32(0)), "uint64": reflect.TypeOf(uint64(0)),
	"float32": reflect.TypeOf(float32(0)), "float64": reflect.TypeOf(float64(0)),
	"string": reflect.TypeOf(""),
}

// formatsScalar builds a value of Go type t from its canonical rendering.
func formatsScalar(t reflect.Type, text string) (reflect.Value, error) {
	v := reflect.New(t).Elem()
	switch t.Kind() {
	case reflect.String:
		v.SetString(text)
	case reflect.Int, reflect.Int8, reflect.Int16, reflect.Int32, reflect.Int64:
		n, err := strconv.ParseInt(text, 10, t.Bits())
		if err != nil {
			return v, err
		}
		v.SetInt(n)
	case reflect.Uint, reflect.Uint8, reflect.Uint16, reflect.Uint32, reflect.Uint64:
		n, err := strconv.ParseUint(text, 10, t.Bits())
		if err != nil {
			return v, err
		}
		v.SetUint(n)
	case reflect.Float32, reflect.Float64:
		f, err := strconv.ParseFloat(text, t.Bits())
		if err != nil {
			return v, err
		}
		v.SetFloat(f)
	default:
		return v, fmt.Errorf("unsupported scalar type %s", t)
	}
	return v, nil
}

// formatsValue concretises a vector into the Go value handed to valid.Var.
func formatsValue(v *formatsVec) (interface{}, error) {
	switch v.Kind {
	case "str":
		return formatsStr(v.Input), nil
	case "num":
		t, ok := formatsScalarTypes[v.GoType]
		if !ok {
			return nil, fmt.Errorf("unknown gotype %q", v.GoType)
		}
		x, err := formatsScalar(t, formatsStr(v.Input))
		if err != nil {
			return nil, err
		}
		return x.Interface(), nil
	case "list":
		gt := v.GoType
		isArray := false
		if strings.HasPrefix(gt, "[]") {
			gt = gt[2:]
		} else if strings.HasPrefix(gt, "[n]") {
			gt = gt[3:]
			isArray = true
		} else {
			return nil, fmt.Errorf("unknown list gotype %q", v.GoType)
		}
		et, ok := formatsScalarTypes[gt]
		if !ok {
			return nil, fmt.Errorf("unknown element type %q", gt)
		}
		var c reflect.Value
		if isArray {
			c = reflect.New(reflect.ArrayOf(len(v.Elems), et)).Elem()
		} else {
			c = reflect.MakeSlice(reflect.SliceOf(et), len(v.Elems), len(v.Elems))
		}
		for i, e := range v.Elems {
			x, err := formatsScalar(et, formatsStr(e))
			if err != nil {
				return nil, err
			}
			c.Index(i).Set(x)
		}
		return c.Interface(), nil
	}
	return nil, fmt.Errorf("unknown kind %q", v.Kind)
}

// formatsDeleg evaluates the delegated platform predicate on the intended string / pattern / path.
func formatsDeleg(v *formatsVec) (bool, error) {
	s := formatsStr(v.Input)
	switch v.Rule {
	case "json":
		return json.Valid([]byte(s)), nil
	case "re":
		re, err := regexp.Compile(formatsStr(v.Pat))
		if err != nil {
			return false, err
		}
		return re.MatchString(s), nil
	case "file":
		st, err := os.Stat(s)
		return err == nil && !st.IsDir(), nil
	case "dir":
		st, err := os.Stat(s)
		return err == nil && st.IsDir(), nil
	}
	return false, nil
}

func formatsRunOne(v *formatsVec) (rec formatsRec, err error) {
	rec.formatsVec = *v
	if rec.Arg == nil {
		rec.Arg = []int{}
	}
	if rec.Input == nil {
		rec.Input = []int{}
	}
	if rec.Elems == nil {
		rec.Elems = [][]int{}
	}
	if rec.Pat == nil {
		rec.Pat = []int{}
	}
	val, err := formatsValue(v)
	if err != nil {
		return rec, err
	}
	rec.Deleg, err = formatsDeleg(v)
	if err != nil {
		return rec, err
	}
	text := formatsRuleText(v)
	func() {
		defer func() {
			if r := recover(); r != nil {
				rec.Panic = fmt.Sprint(r)
				rec.Violated = true
			}
		}()
		e := valid.Var(val, text)
		if e != nil {
			rec.Violated = true
			rec.Err = e.Error()
			if len(rec.Err) > 200 {
				rec.Err = rec.Err[:200]
			}
		}
	}()
	return rec, nil
}

// formatsFS creates the little file tree the file / dir inputs refer to and makes it the working directory.
func formatsFS(root string) error {
	for _, d := range []string{"d", "d/sub", "目录", "a.d"} {
		if err := os.MkdirAll(filepath.Join(root, d), 0o755); err != nil {
			return err
		}
	}
	for _, f := range []string{"f.txt", "d/inner.txt", "文件.txt", "d/sub/x", "noext", "目录/内.json"} {
		if err := os.WriteFile(filepath.Join(root, f), []byte("{}"), 0o644); err != nil {
			return err
		}
	}
	return os.Chdir(root)
}

func formatsRunCmd(args []string) error {
	fs := flag.NewFlagSet("formats-run", flag.ContinueOnError)
	fsroot := fs.String("fs", "formats-fs", "directory for the file/dir fixtures")
	if err := fs.Parse(args); err != nil {
		return err
	}
	if err := formatsFS(*fsroot); err != nil {
		return err
	}
	in := newLineReader(os.Stdin)
	out := newLineWriter(os.Stdout)
	defer out.flush()
	n := 0
	for {
		var v formatsVec
		if !in.next(&v) {
			break
		}
		n++
		if v.ID == 0 {
			v.ID = n
		}
		rec, err := formatsRunOne(&v)
		if err != nil {
			return fmt.Errorf("vector %d: %v", v.ID, err)
		}
		out.put(rec)
	}
	return nil
}

// ------------------------------------------------------------------------------------------------ generation

type formatsG struct {
	rng    *rand.Rand
	outs   []*lineWriter
	seen   map[string]bool
	n      int
	perSrc map[string]int
	count  int
}

var formatsWide = []rune("0123456789abcxyzABXYZ_中文年月１２٣é😀.,-+/:;!?@#%&*()[]{}<>=~^$|\\\"' \t\n\r\x00\x1f\x7f")

// characters that matter to pattern-based recognisers: digits, pattern metacharacters, the usual separators, a letter,
// a quote, a line break, one non-ASCII letter
var formatsHot = []rune("0123456789.,-+/:_ '|()[]\\^$*?@xX\n中")

func (g *formatsG) pick(rs []rune) rune { return rs[g.rng.Intn(len(rs))] }

func (g *formatsG) digits(n int) string {
	b := make([]byte, n)
	for i := range b {
		b[i] = byte('0' + g.rng.Intn(10))
	}
	return string(b)
}

func (g *formatsG) oneOf(xs ...string) string { return xs[g.rng.Intn(len(xs))] }

func (g *formatsG) randStr(alpha []rune, lo, hi int) string {
	n := lo + g.rng.Intn(hi-lo+1)
	rs := make([]rune, n)
	for i := range rs {
		rs[i] = g.pick(alpha)
	}
	return string(rs)
}

// emit runs one vector against the real code and writes the record (duplicates are dropped).
func (g *formatsG) emit(v formatsVec) {
	if v.Kind == "" {
		v.Kind = "str"
		v.GoType = "string"
	}
	key := v.Rule + "\x00" + formatsStr(v.Arg) + "\x00" + v.GoType + "\x00" + formatsStr(v.Input)
	for _, e := range v.Elems {
		key += "\x01" + formatsStr(e)
	}
	if g.seen[key] {
		return
	}
	// the property is about non-empty values: nothing empty / zero is generated
	if v.Kind == "str" && len(v.Input) == 0 {
		return
	}
	if v.Kind == "list" && len(v.Elems) == 0 {
		return
	}
	if len(v.Input) > 60 {
		return
	}
	g.seen[key] = true
	g.n++
	v.ID = g.n
	rec, err := formatsRunOne(&v)
	if err != nil {
		// not concretisable (e.g. invalid pattern, number out of range of the Go type): not part of the domain
		g.n--
		delete(g.seen, key)
		return
	}
	g.count++
	g.perSrc[v.Src]++
	g.outs[g.n%len(g.outs)].put(rec)
}

func (g *formatsG) str(rule, arg, input, src string) {
	g.emit(formatsVec{Rule: rule, Arg: formatsCps(arg), Input: formatsCps(input), Src: src})
}

// edits lists the single-character edits of m: every deletion and transposition, and replacement / insertion of every
// character of hot at every position; plus nWide edits with characters of the wide alphabet.  At most limit are
// returned (a seeded sample when there are more).
func (g *formatsG) edits(m string, hot []rune, limit, nWide int) []string {
	rs := []rune(m)
	var out []string
	add := func(x []rune) { out = append(out, string(x)) }
	for i := range rs {
		add(append(append([]rune{}, rs[:i]...), rs[i+1:]...))
		if i+1 < len(rs) && rs[i] != rs[i+1] {
			t := append([]rune{}, rs...)
			t[i], t[i+1] = t[i+1], t[i]
			add(t)
		}
		// doubling a character (runs of separators)
		add(append(append(append([]rune{}, rs[:i+1]...), rs[i]), rs[i+1:]...))
	}
	for i := 0; i <= len(rs); i++ {
		for _, c := range hot {
			if i < len(rs) && rs[i] != c {
				t := append([]rune{}, rs...)
				t[i] = c
				add(t)
			}
			add(append(append(append([]rune{}, rs[:i]...), c), rs[i:]...))
		}
	}
	if len(out) > limit {
		g.rng.Shuffle(len(out), func(i, j int) { out[i], out[j] = out[j], out[i] })
		out = out[:limit]
	}
	for k := 0; k < nWide; k++ {
		c := g.pick(formatsWide)
		i := g.rng.Intn(len(rs) + 1)
		if i < len(rs) && g.rng.Intn(2) == 0 {
			t := append([]rune{}, rs...)
			t[i] = c
			add(t)
		} else {
			add(append(append(append([]rune{}, rs[:i]...), c), rs[i:]...))
		}
	}
	return out
}

// around emits a set of members, their edits, grammar-directed misses and random strings for one (rule, arg).
// members[0] is expanded exhaustively over the hot alphabet (up to full), the others are sampled.
func (g *formatsG) around(rule, arg string, members, misses []string, hot []rune, narrow []rune, full, sample, nRandom int) {
	for _, m := range members {
		g.str(rule, arg, m, "member")
	}
	for _, m := range misses {
		g.str(rule, arg, m, "miss")
	}
	for i, m := range members {
		lim := sample
		if i == 0 {
			lim = full
		}
		if lim <= 0 {
			continue
		}
		for _, e := range g.edits(m, hot, lim, lim/8+2) {
			g.str(rule, arg, e, "edit")
		}
	}
	for i := 0; i < nRandom; i++ {
		if i%2 == 0 && len(narrow) > 0 {
			l := 1
			if len(members) > 0 {
				l = len([]rune(members[0]))
			}
			lo := l - 2
			if lo < 1 {
				lo = 1
			}
			g.str(rule, arg, g.randStr(narrow, lo, l+1), "random")
		} else {
			g.str(rule, arg, g.randStr(formatsWide, 1, 12), "random")
		}
	}
}

func formatsHotPlus(extra string) []rune {
	out := append([]rune{}, formatsHot...)
	for _, r := range extra {
		dup := false
		for _, h := range out {
			if h == r {
				dup = true
			}
		}
		if !dup {
			out = append(out, r)
		}
	}
	return out
}

// scale: n is the per-rule budget knob (quick 1, thorough ~20)
type formatsPlan struct {
	members int // members per (rule, arg)
	full    int // edit limit of the first member
	sample  int // edit limit of the others
	random  int
	args    int // argument variants for rules with arguments
}

// ---- phone / idcard / email

func (g *formatsG) genPhone(p formatsPlan) {
	var ms []string
	for i := 0; i < p.members; i++ {
		ms = append(ms, "1"+string(rune('3'+g.rng.Intn(7)))+g.digits(9))
	}
	ms = append(ms, "13000000000", "19999999999")
	misses := []string{"1" + g.oneOf("0", "1", "2") + g.digits(9), "2" + g.digits(10), "1" + g.digits(9), "13" + g.digits(10),
		"1３" + g.digits(9), "+8613" + g.digits(9), "13" + g.digits(9) + "\n", " 13" + g.digits(9)}
	g.around("phone", "", ms, misses, formatsHot, []rune("0123456789,"), p.full, p.sample, p.random)
}

func (g *formatsG) genIDCard(p formatsPlan) {
	var ms []string
	for i := 0; i < p.members; i++ {
		switch i % 3 {
		case 0:
			ms = append(ms, g.digits(18))
		case 1:
			ms = append(ms, g.digits(17)+g.oneOf("X", "x"))
		default:
			ms = append(ms, g.digits(15))
		}
	}
	misses := []string{g.digits(14), g.digits(16), g.digits(17), g.digits(19), g.digits(14) + "X", g.digits(17) + "Y",
		g.digits(17) + "Xx", "X" + g.digits(17), g.digits(16) + "Xx", g.digits(18) + "X", g.digits(15) + "\n" + g.digits(2)}
	g.around("idcard", "", ms, misses, formatsHotPlus("Yy"), []rune("0123456789Xx"), p.full, p.sample, p.random)
}

func (g *formatsG) word() string { return g.randStr([]rune("abcxyzABZ0189_"), 1, 4) }

func (g *formatsG) joined(n int, seps string) string {
	s := g.word()
	for i := 1; i < n; i++ {
		s += string(g.pick([]rune(seps))) + g.word()
	}
	return s
}

func (g *formatsG) genEmail(p formatsPlan) {
	var ms []string
	for i := 0; i < p.members; i++ {
		local := g.joined(1+g.rng.Intn(3), "-+.")
		// domain: words joined by - or . with at least one "."
		a := g.joined(1+g.rng.Intn(2), "-.")
		b := g.joined(1+g.rng.Intn(2), "-.")
		ms = append(ms, local+"@"+a+"."+b)
	}
	ms = append(ms, "a@b.c")
	w := g.word
	misses := []string{w() + "@" + w(), w() + "@" + w() + "-" + w(), w() + "@." + w(), w() + "@" + w() + ".", "@" + w() + "." + w(),
		w() + "." + w(), w() + "@" + w() + "@" + w() + "." + w(), w() + ".." + w() + "@" + w() + "." + w(), "." + w() + "@" + w() + "." + w(),
		w() + "@" + w() + ".-" + w(), w() + "@" + w() + "+" + w() + "." + w(), "中@" + w() + "." + w(), w() + "@" + w() + ".中", w() + " @" + w() + "." + w(),
		w() + "@" + w() + "." + w() + "\n"}
	g.around("email", "", ms, misses, formatsHotPlus("a_"), []rune("ab1_.-+@"), p.full, p.sample, p.random)
}

// ---- ip

func (g *formatsG) octet() string {
	switch g.rng.Intn(4) {
	case 0:
		return g.oneOf("0", "1", "9", "10", "99", "100", "199", "200", "249", "250", "255")
	default:
		return strconv.Itoa(g.rng.Intn(256))
	}
}

func (g *formatsG) v4() string {
	return g.octet() + "." + g.octet() + "." + g.octet() + "." + g.octet()
}

func (g *formatsG) hexGroup() string {
	switch g.rng.Intn(6) {
	case 0:
		return "0"
	case 1:
		return g.oneOf("ffff", "FFFF", "fffe", "0000", "00ff", "0001")
	default:
		return g.randStr([]rune("0123456789abcdefABCDEF"), 1, 4)
	}
}

func (g *formatsG) v6() string {
	groups := func(n int) string {
		xs := make([]string, n)
		for i := range xs {
			xs[i] = g.hexGroup()
		}
		return strings.Join(xs, ":")
	}
	tail := g.rng.Intn(4) == 0 // dotted-quad tail standing for two groups
	switch g.rng.Intn(3) {
	case 0: // full form
		if tail {
			return groups(6) + ":" + g.v4()
		}
		return groups(8)
	default: // compressed
		max := 7
		if tail {
			max = 5
		}
		total := g.rng.Intn(max + 1)
		l := g.rng.Intn(total + 1)
		r := total - l
		s := groups(l) + "::"
		if r > 0 {
			s += groups(r)
			if tail {
				s += ":" + g.v4()
			}
		} else if tail {
			s += g.v4()
		}
		return s
	}
}

func (g *formatsG) genIP(p formatsPlan) {
	hot := formatsHotPlus("fFgG%")
	var m4, m6 []string
	for i := 0; i < p.members; i++ {
		m4 = append(m4, g.v4())
		m6 = append(m6, g.v6())
	}
	m4 = append(m4, "0.0.0.0", "255.255.255.255")
	m6 = append(m6, "::", "::1", "1::", "1:2:3:4:5:6:7:8", "1:2:3:4:5:6:1.2.3.4", "::1.2.3.4", "1:2:3:4:5:6:7::", "::2:3:4:5:6:7:8", "fe80::1", "2001:DB8::8:800:200C:417A")
	miss4 := []string{"256.1.1.1", "1.1.1.256", "01.1.1.1", "1.1.1.01", "1.1.1", "1.1.1.1.1", "1..1.1", ".1.1.1", "1.1.1.", "1.1.1.1.", "00.0.0.0", "1.1.1.1/24",
		"1.1.1.1:80", "１.1.1.1", "1,1,1,1", "300.1.1.1", "1.1.1.1000", "0x1.1.1.1", "1.1.1.-1", " 1.1.1.1", "1.1.1.1\n"}
	miss6 := []string{"1:2:3:4:5:6:7", "1:2:3:4:5:6:7:8:9", "1:2:3:4:5:6:7:8::", "::1:2:3:4:5:6:7:8", "1::2::3", ":::", ":", "1:2:3:4:5:6:7:", ":1:2:3:4:5:6:7",
		"12345::", "g::", "::g", "1:2:3:4:5:6:7:1.2.3.4", "1:2:3:4:5:1.2.3.4", "1.2.3.4::", "::1.2.3.4:5", "::1.2.3", "::1.2.3.256", "::01.2.3.4", "fe80::1%eth0",
		"1::2:3:4:5:6:7:8", "::1 ", "[::1]", "1:2:3:4:5:6:7:8\n", "0:0:0:0:0:0:0:00000", "::1.2.3.4.5"}
	// rule ip: both families
	g.around("ip", "", append(append([]string{}, m4[:2]...), m6...), append(append([]string{}, miss4...), miss6...), hot, []rune("01259.:af"), p.full, p.sample/2, p.random)
	g.around("ip", "", m4, nil, hot, nil, p.full, p.sample/2, 0)
	g.around("ipv4", "", m4, append(append([]string{}, miss4...), m6[:6]...), hot, []rune("01259."), p.full, p.sample, p.random)
	g.around("ipv6", "", m6, append(append([]string{}, miss6...), m4[:4]...), hot, []rune("0f:.1"), p.full, p.sample, p.random)
	// the carve-out class itself is exercised too (the specification answers "either" there)
	for _, s := range []string{"::ffff:1.2.3.4", "::FFFF:102:304", "0:0:0:0:0:ffff:1.2.3.4"} {
		g.str("ipv4", "", s, "miss")
		g.str("ipv6", "", s, "miss")
		g.str("ip", "", s, "member")
	}
}

// ---- dates

var formatsSeps = []string{"", "-", "/", ".", ":", " ", "_"}

func formatsDim(y, m int) int {
	switch m {
	case 4, 6, 9, 11:
		return 30
	case 2:
		if y%4 == 0 && (y%100 != 0 || y%400 == 0) {
			return 29
		}
		return 28
	}
	return 31
}

type formatsDT struct{ y, mo, d, h, mi, s int }

func (g *formatsG) dt() formatsDT {
	var t formatsDT
	switch g.rng.Intn(3) {
	case 0:
		t.y = []int{0, 1, 1600, 1900, 1999, 2000, 2023, 2024, 2100, 2400, 9999}[g.rng.Intn(11)]
	default:
		t.y = g.rng.Intn(10000)
	}
	switch g.rng.Intn(3) {
	case 0:
		t.mo = []int{1, 2, 2, 2, 4, 9, 10, 12}[g.rng.Intn(8)]
	default:
		t.mo = 1 + g.rng.Intn(12)
	}
	dim := formatsDim(t.y, t.mo)
	switch g.rng.Intn(3) {
	case 0:
		t.d = []int{1, 9, 10, dim, dim - 1}[g.rng.Intn(5)]
	default:
		t.d = 1 + g.rng.Intn(dim)
	}
	t.h = []int{0, 9, 10, 19, 20, 23, g.rng.Intn(24)}[g.rng.Intn(7)]
	t.mi = []int{0, 9, 59, g.rng.Intn(60)}[g.rng.Intn(4)]
	t.s = []int{0, 9, 59, g.rng.Intn(60)}[g.rng.Intn(4)]
	return t
}

func (t formatsDT) render(upto int, s1, s2, s3 string) string { return t.renderX(upto, s1, s1, s2, s3) }

// renderX: a between year and month, b between month and day
func (t formatsDT) renderX(upto int, a, b, s2, s3 string) string {
	out := fmt.Sprintf("%04d", t.y)
	if upto >= 2 {
		out += a + fmt.Sprintf("%02d", t.mo)
	}
	if upto >= 3 {
		out += b + fmt.Sprintf("%02d", t.d)
	}
	if upto >= 6 {
		out += s2 + fmt.Sprintf("%02d", t.h) + s3 + fmt.Sprintf("%02d", t.mi) + s3 + fmt.Sprintf("%02d", t.s)
	}
	return out
}

// grammar-directed misses of a date: each field just outside its range, wrong widths, mixed separators
func (g *formatsG) dtMisses(upto int, s1, s2, s3 string) []string {
	var out []string
	t := g.dt()
	mut := func(f func(x *formatsDT)) {
		x := t
		f(&x)
		out = append(out, x.render(upto, s1, s2, s3))
	}
	mut(func(x *formatsDT) { x.mo = 0 })
	mut(func(x *formatsDT) { x.mo = 13 })
	if upto >= 3 {
		mut(func(x *formatsDT) { x.d = 0 })
		mut(func(x *formatsDT) { x.d = formatsDim(x.y, x.mo) + 1 })
		mut(func(x *formatsDT) { x.y = 2023; x.mo = 2; x.d = 29 })
		mut(func(x *formatsDT) { x.y = 1900; x.mo = 2; x.d = 29 })
		mut(func(x *formatsDT) { x.y = 2100; x.mo = 2; x.d = 29 })
		mut(func(x *formatsDT) { x.mo = 4; x.d = 31 })
		mut(func(x *formatsDT) { x.mo = 2; x.d = 30 })
	}
	if upto >= 6 {
		mut(func(x *formatsDT) { x.h = 24 })
		mut(func(x *formatsDT) { x.mi = 60 })
		mut(func(x *formatsDT) { x.s = 60 })
		mut(func(x *formatsDT) { x.s = 61 })
	}
	// mixed / foreign separators (a layout builder that swaps them accepts these)
	for _, o := range formatsSeps {
		if o != s1 {
			out = append(out, t.render(upto, o, s2, s3))
			if upto >= 3 {
				out = append(out, t.renderX(upto, s1, o, s2, s3), t.renderX(upto, o, s1, s2, s3))
			}
		}
		if upto >= 6 {
			if o != s2 {
				out = append(out, t.render(upto, s1, o, s3))
			}
			if o != s3 {
				out = append(out, t.render(upto, s1, s2, o))
			}
		}
	}
	if upto >= 6 {
		out = append(out, t.render(upto, s3, s2, s1), t.render(upto, s2, s1, s3), t.render(upto, s1, s3, s2))
		out = append(out, t.render(3, s1, s2, s3), t.render(3, s1, s2, s3)+s2)
	}
	// wrong widths
	out = append(out, fmt.Sprintf("%d", t.y%100)+t.render(upto, s1, s2, s3)[4:], "0"+t.render(upto, s1, s2, s3), t.render(upto, s1, s2, s3)+"0")
	out = append(out, fmt.Sprintf("%04d", t.y)+s1+fmt.Sprintf("%d", 1+g.rng.Intn(9)))
	return out
}

// formatsSepArg renders a separator argument: unquoted where that is documented to work, else between single quotes
func (g *formatsG) sepArg(sep string) string {
	if sep == "" || sep == " " || g.rng.Intn(2) == 0 {
		return "'" + sep + "'"
	}
	return sep
}

func (g *formatsG) genDates(p formatsPlan) {
	hot := formatsHotPlus("TZ")
	narrow := []rune("0129-/: ")
	// year
	var ms []string
	for i := 0; i < p.members; i++ {
		ms = append(ms, fmt.Sprintf("%04d", g.dt().y))
	}
	g.around("year", "", ms, []string{g.digits(3), g.digits(5), g.digits(2), "２０２２", "20" + "２２", g.digits(4) + "\n", " " + g.digits(4), "-" + g.digits(3)}, hot, narrow, p.full, p.sample, p.random)

	// year2month / date: default + every single separator
	for _, rule := range []string{"year2month", "date"} {
		upto := 2
		if rule == "date" {
			upto = 3
		}
		variants := []struct{ arg, sep string }{{"", "-"}}
		for _, s := range formatsSeps {
			variants = append(variants, struct{ arg, sep string }{g.sepArg(s), s})
		}
		for vi, v := range variants {
			ms = nil
			nm := p.members
			full, sample, random := p.full, p.sample, p.random
			if vi > 0 { // the custom separators share the budget
				nm = 1 + p.members/4
				full, sample, random = p.full/4, p.sample/4, p.random/6
			}
			for i := 0; i < nm; i++ {
				ms = append(ms, g.dt().render(upto, v.sep, "", ""))
			}
			g.around(rule, v.arg, ms, g.dtMisses(upto, v.sep, "", ""), hot, narrow, full, sample, random)
		}
	}

	// datetime: default, single separator, separator triples
	type dv struct{ arg, s1, s2, s3 string }
	variants := []dv{{"", "-", " ", ":"}}
	for _, s := range formatsSeps {
		variants = append(variants, dv{g.sepArg(s), s, " ", ":"})
	}
	var triples []dv
	for _, a := range formatsSeps {
		for _, b := range formatsSeps {
			for _, c := range formatsSeps {
				triples = append(triples, dv{"'" + a + "," + b + "," + c + "'", a, b, c})
			}
		}
	}
	g.rng.Shuffle(len(triples), func(i, j int) { triples[i], triples[j] = triples[j], triples[i] })
	if p.args < len(triples) {
		triples = triples[:p.args]
	}
	variants = append(variants, dv{"'/, ,/'", "/", " ", "/"}, dv{"', ,'", "", " ", ""}, dv{"',,'", "", "", ""})
	// two separators given: date and date-time, the time separator keeps its default
	for i := 0; i < 4+p.args/4; i++ {
		a, b := formatsSeps[g.rng.Intn(len(formatsSeps))], formatsSeps[g.rng.Intn(len(formatsSeps))]
		if a != b {
			variants = append(variants, dv{"'" + a + "," + b + "'", a, b, ":"})
		}
	}
	variants = append(variants, triples...)
	for vi, v := range variants {
		ms = nil
		nm := p.members
		full, sample, random := p.full, p.sample, p.random
		if vi > 0 {
			nm = 1 + p.members/6
			full, sample, random = p.full/8, p.sample/8, p.random/10
		}
		for i := 0; i < nm; i++ {
			ms = append(ms, g.dt().render(6, v.s1, v.s2, v.s3))
		}
		g.around("datetime", v.arg, ms, g.dtMisses(6, v.s1, v.s2, v.s3), hot, narrow, full, sample, random)
	}
}

// ---- int / ints / float / unique / in on strings, numbers and collections

func (g *formatsG) num(rule, arg, gotype, nk, text, src string) {
	g.emit(formatsVec{Rule: rule, Arg: formatsCps(arg), Kind: "num", NK: nk, GoType: gotype, Input: formatsCps(text), Src: src})
}

func (g *formatsG) list(rule, arg, gotype, nk string, elems []string, src string) {
	es := make([][]int, len(elems))
	for i, e := range elems {
		es[i] = formatsCps(e)
	}
	if strings.HasPrefix(gotype, "[n]") { // an all-zero array is the zero value: not a non-empty value
		nz := false
		for _, e := range elems {
			if e != "" && e != "0" {
				nz = true
			}
		}
		if !nz {
			return
		}
	}
	g.emit(formatsVec{Rule: rule, Arg: formatsCps(arg), Kind: "list", NK: nk, GoType: gotype, Input: []int{}, Elems: es, Src: src})
}

// canonical decimal renderings by construction (no rendering function involved): integers without leading zeros,
// fractions without trailing zeros, few enough digits to be exact in the Go type
func (g *formatsG) intText(neg bool, max int) string {
	n := 1 + g.rng.Intn(max)
	s := strconv.Itoa(n)
	if neg {
		s = "-" + s
	}
	return s
}

func (g *formatsG) fracText(neg bool) string {
	ip := strconv.Itoa(g.rng.Intn(1000))
	fp := g.oneOf("5", "25", "125", "1", "01", "3", "75", "007")
	s := ip + "." + fp
	if neg {
		s = "-" + s
	}
	return s
}

var formatsIntTypes = []struct {
	name string
	nk   string
	max  int
	neg  bool
}{
	{"int", "int", 1 << 30, true}, {"int8", "int", 127, true}, {"int16", "int", 32767, true}, {"int32", "int", 1 << 30, true}, {"int64", "int", 1 << 30, true},
	{"uint", "uint", 1 << 30, false}, {"uint8", "uint", 255, false}, {"uint16", "uint", 65535, false}, {"uint32", "uint", 1 << 30, false}, {"uint64", "uint", 1 << 30, false},
}

func (g *formatsG) genNumbers(p formatsPlan) {
	hot := formatsHotPlus("eE")
	// int on strings
	var ms []string
	for i := 0; i < p.members; i++ {
		ms = append(ms, g.digits(1+g.rng.Intn(10)))
	}
	ms = append(ms, "0", "007", g.digits(25))
	g.around("int", "", ms, []string{"1.0", "1.", "1e3", "0x1f", "1,000", "１２", "1 ", " 1", "1\n", "٣", "1_000", "12a", "a12", "+"}, hot, []rune("0123456789.,x"), p.full, p.sample, p.random)
	// float on strings
	ms = nil
	for i := 0; i < p.members; i++ {
		ms = append(ms, g.digits(1+g.rng.Intn(4))+"."+g.digits(1+g.rng.Intn(4)))
	}
	ms = append(ms, "0.0", "1.5", "00.50")
	g.around("float", "", ms, []string{"1", "1.", ".5", "1..5", "1.5.2", "1e5", "1.5e3", "1,5", "1x5", "1 5", "1/5", "1:5", "1.5\n", "１.５", "1.x", "x.5", "."}, hot, []rune("0123456789.,x"), p.full, p.sample, p.random)
	// int / float on numeric kinds
	for i := 0; i < p.members*2+10; i++ {
		t := formatsIntTypes[g.rng.Intn(len(formatsIntTypes))]
		g.num("int", "", t.name, t.nk, g.intText(t.neg && g.rng.Intn(3) == 0, t.max), "num")
		ft := g.oneOf("float32", "float64")
		txt := g.fracText(g.rng.Intn(4) == 0)
		if g.rng.Intn(3) == 0 {
			txt = g.intText(g.rng.Intn(4) == 0, 100000) // an integral float value
		}
		g.num("float", "", ft, "float", txt, "num")
	}

	// ints on strings: default and custom separators
	seps := []struct{ arg, sep string }{{"", ","}, {"-", "-"}, {"/", "/"}, {".", "."}, {":", ":"}, {"_", "_"}, {";", ";"}, {" ", " "}, {"--", "--"}, {"::", "::"}, {"#", "#"}, {"-,", "-,"}}
	seps = seps[:len(seps)-1] // a separator containing "," cannot be written unquoted: undocumented
	for si, sp := range seps {
		nm := p.members
		full, sample, random := p.full, p.sample, p.random
		if si > 0 {
			nm = 1 + p.members/4
			full, sample, random = p.full/4, p.sample/4, p.random/6
		}
		ms = nil
		for i := 0; i < nm; i++ {
			k := 1 + g.rng.Intn(5)
			ps := make([]string, k)
			for j := range ps {
				ps[j] = g.digits(1 + g.rng.Intn(4))
			}
			ms = append(ms, strings.Join(ps, sp.sep))
		}
		other := ","
		if sp.sep == "," {
			other = "-"
		}
		d := func() string { return g.digits(1 + g.rng.Intn(3)) }
		misses := []string{d() + sp.sep + d() + sp.sep + "x", d() + sp.sep + "x" + sp.sep + d(), "x" + sp.sep + d() + sp.sep + d(), d() + sp.sep, sp.sep + d(),
			d() + sp.sep + sp.sep + d(), d() + other + d(), d() + sp.sep + d() + other + d(), d() + sp.sep + " " + d(), d() + sp.sep + d() + ".5", d() + sp.sep + "１"}
		g.around("ints", sp.arg, ms, misses, formatsHotPlus(sp.sep+";#"), []rune("0123456789,x"+sp.sep), full, sample, random)
	}
	// ints on collections
	for i := 0; i < p.members*3+12; i++ {
		k := 1 + g.rng.Intn(4)
		t := formatsIntTypes[g.rng.Intn(len(formatsIntTypes))]
		shape := g.oneOf("[]", "[]", "[n]")
		es := make([]string, k)
		for j := range es {
			es[j] = g.intText(false, t.max)
			if g.rng.Intn(6) == 0 {
				es[j] = "0"
			}
		}
		g.list("ints", "", shape+t.name, t.nk, es, "list")
		// strings: all digit strings, or one element off
		ss := make([]string, k)
		for j := range ss {
			ss[j] = g.digits(1 + g.rng.Intn(4))
		}
		g.list("ints", "", shape+"string", "str", ss, "list")
		bad := append([]string{}, ss...)
		bad[g.rng.Intn(k)] = g.oneOf("hello", "1.5", "1,2", "", " 1", "1x", "中", "１", "1\n", "0x10", "1e2")
		g.list("ints", "", shape+"string", "str", bad, "list")
		last := append([]string{}, ss...)
		last[k-1] = g.oneOf("x", "1.0", "a1")
		g.list("ints", "", shape+"string", "str", last, "list")
		first := append([]string{}, ss...)
		first[0] = g.oneOf("x", "1.0", "1a")
		g.list("ints", "", shape+"string", "str", first, "list")
		// floats: integral values render as integers, fractions do not
		fs := make([]string, k)
		for j := range fs {
			fs[j] = g.intText(false, 5000)
		}
		g.list("ints", "", "[]"+g.oneOf("float32", "float64"), "float", fs, "list")
		ff := append([]string{}, fs...)
		ff[g.rng.Intn(k)] = g.fracText(false)
		g.list("ints", "", "[]"+g.oneOf("float32", "float64"), "float", ff, "list")
	}

	// unique on strings (pieces between commas) and on collections
	vocab := []string{"a", "b", "ab", "A", "1", "01", "1.0", "篮球", "足球", "a ", " a", "", "x-y", "b"}
	hotU := formatsHotPlus("ab")
	ms = nil
	var miss []string
	for i := 0; i < p.members*2; i++ {
		k := 1 + g.rng.Intn(5)
		perm := g.rng.Perm(len(vocab) - 1)[:k]
		ps := make([]string, k)
		for j, x := range perm {
			ps[j] = vocab[x]
		}
		ms = append(ms, strings.Join(ps, ","))
		if k >= 2 {
			dup := append([]string{}, ps...)
			a := g.rng.Intn(k)
			b := (a + 1 + g.rng.Intn(k-1)) % k
			dup[b] = dup[a]
			miss = append(miss, strings.Join(dup, ","))
		}
	}
	miss = append(miss, "a,,b,", ",", ",,", "a,b,a", "打篮球,踢足球,打篮球", "a,b;a", "a,a ")
	g.around("unique", "", ms, miss, hotU, []rune("ab,1 "), p.full, p.sample, p.random)
	for i := 0; i < p.members*4+16; i++ {
		k := 1 + g.rng.Intn(5)
		shape := g.oneOf("[]", "[]", "[n]")
		// integers
		t := formatsIntTypes[g.rng.Intn(len(formatsIntTypes))]
		es := make([]string, k)
		for j := range es {
			es[j] = g.intText(t.neg && g.rng.Intn(3) == 0, 6)
		}
		g.list("unique", "", shape+t.name, t.nk, es, "list")
		// strings
		ss := make([]string, k)
		for j := range ss {
			ss[j] = vocab[g.rng.Intn(len(vocab))]
		}
		g.list("unique", "", shape+"string", "str", ss, "list")
		// floats
		fs := make([]string, k)
		for j := range fs {
			fs[j] = g.oneOf("1", "2", "1.5", "2.5", "0.5", "-1.5", "1.25", "10")
		}
		g.list("unique", "", shape+g.oneOf("float32", "float64"), "float", fs, "list")
	}
	// floats whose rendering and whose == disagree: two NaN render alike (duplicates), 0 and -0 render differently
	// (distinct), the infinities render with their sign
	for _, ft := range []string{"float32", "float64"} {
		g.list("unique", "", "[]"+ft, "float", []string{"NaN", "1", "NaN"}, "list")
		g.list("unique", "", "[]"+ft, "float", []string{"1", "NaN", "2"}, "list")
		g.list("unique", "", "[]"+ft, "float", []string{"0", "-0", "3"}, "list")
		g.list("unique", "", "[]"+ft, "float", []string{"-0", "3", "-0"}, "list")
		g.list("unique", "", "[]"+ft, "float", []string{"+Inf", "-Inf", "1"}, "list")
		g.list("unique", "", "[]"+ft, "float", []string{"+Inf", "1", "+Inf"}, "list")
	}
}

// ---- in / include / prefix / suffix

// optList builds a documented option list: plain options, or options protected by single quotes
func (g *formatsG) optList(numeric bool) (arg string, opts []string) {
	k := 1 + g.rng.Intn(5)
	var raws []string
	plain := []rune("abcxyzAB0189中文年_-+.:;!@#%&*<>~^$= ")
	for i := 0; i < k; i++ {
		var o string
		switch {
		case numeric:
			o = g.oneOf("1", "2", "3", "10", "01", "1.5", "0.1", "-1", "100", "7", "255", "1.0", "2.25", "+1", "12", "0.5", "0.3", "1.1", "2.7")
		case g.rng.Intn(8) == 0:
			o = g.oneOf("f(x)", "(a", "b)", "()", "a(b)c")
		default:
			o = g.randStr(plain, 1, 4)
		}
		switch {
		case !numeric && g.rng.Intn(4) == 0:
			// protected: may contain "/" and ","
			o = g.randStr([]rune("ab/,d 中()"), 1, 4)
			raws = append(raws, "'"+o+"'")
		case g.rng.Intn(6) == 0:
			raws = append(raws, "'"+o+"'")
		default:
			raws = append(raws, o)
		}
		opts = append(opts, o)
	}
	return "(" + strings.Join(raws, "/") + ")", opts
}

func (g *formatsG) genOptions(p formatsPlan) {
	hot := formatsHotPlus("ab/")
	for a := 0; a < p.args; a++ {
		arg, opts := g.optList(false)
		full, sample := p.full/4, p.sample/4
		// in: the members are exactly the options
		misses := []string{}
		for _, o := range opts {
			misses = append(misses, o+o, "'"+o+"'", o+"/", "/"+o, "("+o+")", strings.ToUpper(o), strings.ToLower(o), " "+o, o+" ")
		}
		if len(opts) >= 2 {
			misses = append(misses, opts[0]+"/"+opts[1], opts[0]+opts[1])
		}
		g.around("in", arg, opts, misses, hot, nil, full, sample, p.random/6+2)
		// include: members embed an option
		var ms []string
		for _, o := range opts {
			ms = append(ms, g.randStr(formatsWide, 0, 3)+o+g.randStr(formatsWide, 0, 3), o)
		}
		misses = nil
		for _, o := range opts {
			rs := []rune(o)
			if len(rs) >= 2 {
				misses = append(misses, string(rs[:len(rs)-1]), string(rs[1:]), string(rs[:1])+"·"+string(rs[1:]))
			}
		}
		g.around("include", arg, ms, misses, hot, nil, full, sample, p.random/6+2)
	}
	// in on numbers: membership of the canonical decimal rendering; half of the values are taken from the option list
	canon := regexp.MustCompile(`^-?(0|[1-9][0-9]*)(\.[0-9]*[1-9])?$`)
	for a := 0; a < p.args; a++ {
		arg, opts := g.optList(true)
		var members []string
		for _, o := range opts {
			if canon.MatchString(o) && o != "0" {
				members = append(members, o)
			}
		}
		for i := 0; i < 10; i++ {
			var txt string
			if len(members) > 0 && i%2 == 0 {
				txt = members[g.rng.Intn(len(members))]
			} else {
				txt = g.oneOf("1", "2", "3", "10", "100", "7", "255", "12", "4", "11", "-1", "-2", "1.5", "0.1", "2.25", "0.5", "0.25", "1.25", "0.3", "1.1", "2.7")
			}
			switch {
			case strings.Contains(txt, ".") || g.rng.Intn(4) == 0:
				g.num("in", arg, g.oneOf("float32", "float64"), "float", txt, "num")
			default:
				t := formatsIntTypes[g.rng.Intn(len(formatsIntTypes))]
				if strings.HasPrefix(txt, "-") && !t.neg {
					t = formatsIntTypes[0]
				}
				g.num("in", arg, t.name, t.nk, txt, "num")
			}
		}
	}
	// the extreme values of every integer type, as members and as non-members (canonical decimal rendering: a value
	// above MaxInt64 must not come out negative, MinInt64 must keep its digits)
	ext := []struct{ gotype, nk, txt string }{
		{"uint", "uint", "18446744073709551615"}, {"uint64", "uint", "18446744073709551615"}, {"uint64", "uint", "9223372036854775808"},
		{"uint32", "uint", "4294967295"}, {"uint16", "uint", "65535"}, {"uint8", "uint", "255"},
		{"int", "int", "9223372036854775807"}, {"int64", "int", "-9223372036854775808"}, {"int32", "int", "-2147483648"}, {"int8", "int", "-128"},
	}
	for _, e := range ext {
		g.num("in", "("+e.txt+"/5)", e.gotype, e.nk, e.txt, "num")
		g.num("in", "(7/"+e.txt+")", e.gotype, e.nk, e.txt, "num")
		g.num("in", "(-1/3)", e.gotype, e.nk, e.txt, "num")
		g.num("in", "(0/1/"+e.txt[:len(e.txt)-1]+")", e.gotype, e.nk, e.txt, "num")
		g.list("unique", "", "[]"+e.gotype, e.nk, []string{e.txt, "1", e.txt}, "list")
		g.list("unique", "", "[]"+e.gotype, e.nk, []string{e.txt, "1", "2"}, "list")
		if !strings.HasPrefix(e.txt, "-") {
			g.list("ints", "", "[]"+e.gotype, e.nk, []string{"1", e.txt}, "list")
		}
	}
	// prefix / suffix
	pc := []rune("abcxyzAB0189中文_-.:/@#()+")
	for a := 0; a < p.args; a++ {
		fix := g.randStr(pc, 1, 4)
		var pm, sm []string
		for i := 0; i < 1+p.members/4; i++ {
			pm = append(pm, fix+g.randStr(formatsWide, 0, 5))
			sm = append(sm, g.randStr(formatsWide, 0, 5)+fix)
		}
		pm = append(pm, fix)
		sm = append(sm, fix)
		rs := []rune(fix)
		pmiss := []string{" " + fix, "x" + fix, strings.ToUpper(fix) + "q", fix[:len(fix)-1] + "q", "q" + fix + fix}
		smiss := []string{fix + " ", fix + "x", "q" + strings.ToUpper(fix), "q" + string(rs[1:]), fix + fix + "q", fix + "\n"}
		if len(rs) >= 2 {
			pmiss = append(pmiss, string(rs[:len(rs)-1]), string(rs[1:])+string(rs[:1]))
			smiss = append(smiss, string(rs[1:]), string(rs[:len(rs)-1]))
		}
		g.around("prefix", fix, pm, pmiss, hot, pc, p.full/4, p.sample/4, p.random/6+2)
		g.around("suffix", fix, sm, smiss, hot, pc, p.full/4, p.sample/4, p.random/6+2)
	}
}

// ---- delegated languages: re / json / file / dir

type formatsFrag struct {
	pat     string
	samples []string
}

var formatsFrags = []formatsFrag{
	{`[a-z]+`, []string{"ab", "z", "q"}}, {`\d{2,3}`, []string{"12", "123"}}, {`(ab|cd)`, []string{"ab", "cd"}}, {`\'`, []string{"'"}},
	{`,`, []string{","}}, {`x{1,2}`, []string{"x", "xx"}}, {`中`, []string{"中"}}, {`\.`, []string{"."}}, {`-`, []string{"-"}}, {` `, []string{" "}},
	{`[一-龥]`, []string{"文", "川"}}, {`(,|\')`, []string{",", "'"}}, {`[,;]`, []string{",", ";"}}, {`a|b`, []string{"a", "b"}}, {`\w*`, []string{"", "a_1"}},
}

func (g *formatsG) reVec(pat, msg, input, src string) {
	arg := "'" + pat + "'" + msg
	g.emit(formatsVec{Rule: "re", Arg: formatsCps(arg), Input: formatsCps(input), Pat: formatsCps(pat), Src: src})
}

func (g *formatsG) genDelegated(p formatsPlan) {
	hot := formatsHotPlus("ab;")
	fixed := []string{`^a\'b,c$`, `^a\'b$`, `^a,b$`, `^[A-Za-z0-9]{8,16}$`, `[a-z]+`, `\d{2}`, `^(x|y),\'z\'$`, `^it\'s (ok|fine), really$`, `^\d+(,\d+)*$`, `^\'[^\']*\',$`}
	fixedSamples := []string{"a'b,c", "a'b", "a,b", "abcd1234", "abc", "12", "x,'z'", "it's ok, really", "1,22,333", "'q',"}
	for a := 0; a < p.args+len(fixed); a++ {
		var pat string
		var ms []string
		if a < len(fixed) {
			pat = fixed[a]
			ms = []string{fixedSamples[a]}
		} else {
			k := 1 + g.rng.Intn(4)
			body := ""
			sample := []string{"", ""}
			for i := 0; i < k; i++ {
				f := formatsFrags[g.rng.Intn(len(formatsFrags))]
				if strings.Contains(f.pat, "|") && !strings.HasPrefix(f.pat, "(") && k > 1 {
					f = formatsFrags[2]
				}
				body += f.pat
				for j := range sample {
					sample[j] += f.samples[g.rng.Intn(len(f.samples))]
				}
			}
			pat = body
			if g.rng.Intn(4) != 0 {
				pat = "^" + body + "$"
			}
			ms = sample
		}
		msg := ""
		if g.rng.Intn(4) == 0 {
			msg = "|" + g.oneOf("bad", "no match", "格式不对", "wrong, really")
			if strings.Contains(msg, ",") {
				msg = "|bad" // a message with a comma needs its own quotes: rule-text territory (C14), not generated here
			}
		}
		for _, m := range ms {
			g.reVec(pat, msg, m, "member")
			lim := p.sample / 3
			if a < len(fixed) {
				lim = p.sample
			}
			for _, e := range g.edits(m, hot, lim, 3) {
				g.reVec(pat, msg, e, "edit")
			}
		}
		for i := 0; i < 3; i++ {
			g.reVec(pat, msg, g.randStr(formatsWide, 1, 8), "random")
		}
	}

	// json
	var js func(d int) string
	js = func(d int) string {
		switch n := g.rng.Intn(8); {
		case d > 2 || n == 0:
			return g.oneOf("1", "-2.5e3", "true", "false", "null", `"a"`, `"中\n"`, `"中"`, "0", `""`)
		case n <= 3:
			k := g.rng.Intn(3)
			xs := make([]string, k)
			for i := range xs {
				xs[i] = js(d + 1)
			}
			return "[" + strings.Join(xs, ",") + "]"
		default:
			k := g.rng.Intn(3)
			xs := make([]string, k)
			for i := range xs {
				xs[i] = `"` + g.oneOf("a", "id", "名", "k1") + `":` + js(d+1)
			}
			return "{" + strings.Join(xs, g.oneOf(",", ", ")) + "}"
		}
	}
	var jm []string
	for i := 0; i < p.members*2; i++ {
		s := js(0)
		if len([]rune(s)) <= 40 {
			jm = append(jm, s)
		}
	}
	jmiss := []string{"{", "}", "[1,]", "{'a':1}", `{"a":}`, `{"a" 1}`, "01", "1.", "tru", "nul", `"a`, `{"a":1,}`, "[1 2]", `{"a":1}}`, "NaN", `"\x"`, "{}{}", "1 2", "+1", ".5"}
	g.around("json", "", jm, jmiss, formatsHotPlus("{}\":tn"), []rune(`{}[]",:1a `), p.full, p.sample, p.random)

	// file / dir: paths relative to the fixture tree (the harness has made it the working directory)
	paths := []string{"f.txt", "d/inner.txt", "文件.txt", "d/sub/x", "noext", "目录/内.json", "d", "d/sub", "目录", "a.d", ".", "d/", "d/.", "d/..", "./f.txt", "d/../f.txt", "d//inner.txt"}
	misses := []string{"nope", "f.txt/", "f.txt/x", "d/nope", "F.TXT", "f.txt ", " f.txt", "文件", "d/sub/x/y", "f", "d\x00", "~", "*", "d/*", "f.tx", "目录/内"}
	for _, rule := range []string{"file", "dir"} {
		g.around(rule, "", paths, misses, []rune("./dfx 文*"), []rune("./dfx"), p.sample, p.sample/4, p.random/2)
	}
}

var formatsRules = []string{"phone", "idcard", "email", "ip", "dates", "numbers", "options", "delegated"}

func formatsGenCmd(args []string) error {
	fs := flag.NewFlagSet("formats-gen", flag.ContinueOnError)
	scale := fs.Int("scale", 1, "number of rounds of the generation plan (quick 1, thorough 16)")
	outp := fs.String("out", "", "output prefix: <out>.<shard>.ndjson")
	shards := fs.Int("shards", 4, "number of output files (records are dealt round robin)")
	full := fs.Int("full", 900, "edit budget of the first member of every (rule, argument): all edits when there are no more")
	sample := fs.Int("sample", 80, "edit budget (seeded sample) of the other members")
	fsroot := fs.String("fs", "formats-fs", "directory for the file/dir fixtures")
	only := fs.String("only", "", "comma separated generator groups (default all): "+strings.Join(formatsRules, ","))
	if err := fs.Parse(args); err != nil {
		return err
	}
	if *outp == "" {
		return fmt.Errorf("-out is required")
	}
	abs, err := filepath.Abs(*outp)
	if err != nil {
		return err
	}
	var outs []*lineWriter
	for i := 0; i < *shards; i++ {
		ff, err := os.Create(fmt.Sprintf("%s.%d.ndjson", abs, i))
		if err != nil {
			return err
		}
		defer ff.Close()
		w := newLineWriter(ff)
		defer w.flush()
		outs = append(outs, w)
	}
	if err := formatsFS(*fsroot); err != nil {
		return err
	}
	g := &formatsG{rng: rand.New(rand.NewSource(seed()*7919 + 5)), outs: outs, seen: map[string]bool{}, perSrc: map[string]int{}}
	p := formatsPlan{members: 7, full: *full, sample: *sample, random: 60, args: 12}
	want := map[string]bool{}
	for _, r := range strings.Split(*only, ",") {
		if r != "" {
			want[r] = true
		}
	}
	run := func(name string, fn func(formatsPlan)) {
		if len(want) == 0 || want[name] {
			fn(p)
		}
	}
	// the whole plan is repeated scale times with fresh members, arguments and random strings
	rounds := *scale
	for r := 0; r < rounds; r++ {
		run("phone", g.genPhone)
		run("idcard", g.genIDCard)
		run("email", g.genEmail)
		run("ip", g.genIP)
		run("dates", g.genDates)
		run("numbers", g.genNumbers)
		run("options", g.genOptions)
		run("delegated", g.genDelegated)
	}
	srcs := make([]string, 0, len(g.perSrc))
	for k := range g.perSrc {
		srcs = append(srcs, fmt.Sprintf("%s=%d", k, g.perSrc[k]))
	}
	sort.Strings(srcs)
	fmt.Fprintf(os.Stderr, "formats-gen: %d records (%s)\n", g.n, strings.Join(srcs, " "))
	return nil
}
