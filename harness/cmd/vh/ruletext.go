package main

// Rule-text family (C14, C15): concretise TLC-emitted windows, run the real builder / splitter / parser /
// validators / explanation extractor, abstract the outputs back to the wire alphabet of spec/RuleText.tla.
// No verdict is taken here: the recorded outputs are judged by TLC (Judge_RuleText) or compared for equality
// with TLC-emitted expectations by lib/fam_ruletext.py.

import (
	"bufio"
	"encoding/json"
	"fmt"
	"math/rand"
	"os"
	"strings"
	"unicode/utf8"

	"gitee.com/xuesongtao/protoc-go-valid/valid"
)

func init() {
	register("ruletext-split", ruletextSplitCmd)
	register("ruletext-rt", ruletextRtCmd)
	register("ruletext-explain", ruletextExplainCmd)
}

// ---------------------------------------------------------------- wire alphabet

// "Z" stands for one CJK character. Which one is chosen per text (by a hash of the text, so that equal abstract texts
// stay equal): the candidates are CJK characters whose code point ends in the byte of a separator of the rule language
// (U+5927 ', U+4E2C ",", U+4E3D =, U+4E7C |, U+4E5C \) next to the plain U+4E2D - none of them is a separator.
var ruletextZ = []string{"中", "大", "丬", "丽", "乼", "乜"}
var ruletextToWire = map[rune]string{'中': "Z", '大': "Z", '丬': "Z", '丽': "Z", '乼': "Z", '乜': "Z", '说': "S", '明': "M"}
var ruletextFromWire = map[string]string{"S": "说", "M": "明"}

func ruletextSyms(s string) []string {
	out := make([]string, 0, len(s))
	for i := 0; i < len(s); {
		r, n := utf8.DecodeRuneInString(s[i:])
		if r == utf8.RuneError && n <= 1 {
			out = append(out, fmt.Sprintf("\\x%02x", s[i]))
			i++
			continue
		}
		if w, ok := ruletextToWire[r]; ok {
			out = append(out, w)
		} else {
			out = append(out, string(r))
		}
		i += n
	}
	return out
}

func ruletextText(syms []string) string {
	var b strings.Builder
	h := uint32(2166136261)
	for _, s := range syms {
		for i := 0; i < len(s); i++ {
			h = (h ^ uint32(s[i])) * 16777619
		}
	}
	z := ruletextZ[h%uint32(len(ruletextZ))]
	for _, s := range syms {
		if s == "Z" {
			b.WriteString(z)
		} else if c, ok := ruletextFromWire[s]; ok {
			b.WriteString(c)
		} else {
			b.WriteString(s)
		}
	}
	return b.String()
}

func ruletextSymsAll(ss []string) [][]string {
	out := make([][]string, len(ss))
	for i, s := range ss {
		out[i] = ruletextSyms(s)
	}
	return out
}

type ruletextShards struct {
	files []*os.File
	ws    []*lineWriter
	n     int
}

func ruletextNewShards(prefix string, k int) (*ruletextShards, error) {
	sh := &ruletextShards{}
	for i := 0; i < k; i++ {
		f, err := os.Create(fmt.Sprintf("%s-%d.ndjson", prefix, i))
		if err != nil {
			return nil, err
		}
		sh.files = append(sh.files, f)
		sh.ws = append(sh.ws, newLineWriter(f))
	}
	return sh, nil
}

func (sh *ruletextShards) put(v interface{}) {
	sh.ws[sh.n%len(sh.ws)].put(v)
	sh.n++
}

func (sh *ruletextShards) close() {
	for i := range sh.ws {
		sh.ws[i].flush()
		sh.files[i].Close()
	}
}

func ruletextReadStdin(v interface{}) error {
	dec := json.NewDecoder(bufio.NewReaderSize(os.Stdin, 1<<20))
	return dec.Decode(v)
}

// ---------------------------------------------------------------- C14: splitter on arbitrary strings

type ruletextSplitPlan struct {
	Alpha     []string `json:"alpha"`
	MaxLen    int      `json:"maxlen"`
	Shards    int      `json:"shards"`
	Out       string   `json:"out"`
	Rand      int      `json:"rand"`
	RandAlpha []string `json:"randalpha"`
	RandLen   int      `json:"randlen"`
	Inputs    []string `json:"inputs"` // replay: explicit inputs instead of the enumeration
}

type ruletextSplitRec struct {
	In  []string   `json:"in"`
	Out [][]string `json:"out"`
	Txt string     `json:"txt"` // the concrete input (for replays; not read by the judge)
}

func ruletextSplitOne(s string) (rec ruletextSplitRec) {
	rec.In = ruletextSyms(s)
	rec.Txt = s
	defer func() {
		if p := recover(); p != nil {
			rec.Out = [][]string{{"!panic: " + fmt.Sprint(p)}}
		}
	}()
	pieces := valid.ValidNamesSplit(s)
	// detach from the splitter's scratch buffer before anything else runs
	cp := make([]string, len(pieces))
	for i, p := range pieces {
		cp[i] = string([]byte(p))
	}
	rec.Out = ruletextSymsAll(cp)
	return
}

func ruletextSplitCmd(args []string) error {
	var plan ruletextSplitPlan
	if err := ruletextReadStdin(&plan); err != nil {
		return err
	}
	if plan.Shards < 1 {
		plan.Shards = 1
	}
	sh, err := ruletextNewShards(plan.Out, plan.Shards)
	if err != nil {
		return err
	}
	defer sh.close()
	if plan.Inputs != nil {
		for _, s := range plan.Inputs {
			sh.put(ruletextSplitOne(s))
		}
		return nil
	}
	alpha := make([]string, len(plan.Alpha))
	for i, a := range plan.Alpha {
		alpha[i] = ruletextText([]string{a})
	}
	// every string of length 0..MaxLen over alpha
	var rec func(prefix string, left int)
	rec = func(prefix string, left int) {
		sh.put(ruletextSplitOne(prefix))
		if left == 0 {
			return
		}
		for _, a := range alpha {
			rec(prefix+a, left-1)
		}
	}
	rec("", plan.MaxLen)
	if plan.Rand > 0 {
		f, err := os.Create(plan.Out + "-rand.ndjson")
		if err != nil {
			return err
		}
		defer f.Close()
		w := newLineWriter(f)
		defer w.flush()
		rng := rand.New(rand.NewSource(seed()))
		ra := make([]string, len(plan.RandAlpha))
		for i, a := range plan.RandAlpha {
			ra[i] = ruletextText([]string{a})
		}
		for i := 0; i < plan.Rand; i++ {
			n := rng.Intn(plan.RandLen + 1)
			var b strings.Builder
			z := ruletextZ[i%len(ruletextZ)] // the CJK character of this string
			for j := 0; j < n; j++ {
				if k := rng.Intn(len(ra)); plan.RandAlpha[k] == "Z" {
					b.WriteString(z)
				} else {
					b.WriteString(ra[k])
				}
			}
			w.put(ruletextSplitOne(b.String()))
		}
	}
	return nil
}

// ---------------------------------------------------------------- C14: builder -> join -> split -> parse

type ruletextRule struct {
	K  string   `json:"k"`
	Hv bool     `json:"hv"`
	V  []string `json:"v"`
	Hm bool     `json:"hm"`
	M  []string `json:"m"`
}

type ruletextParsed struct {
	K []string `json:"k"`
	V []string `json:"v"`
	M []string `json:"m"`
}

type ruletextRtRec struct {
	Rules  []ruletextRule   `json:"rules"`
	Mode   string           `json:"mode"`
	Gen    [][]string       `json:"gen"`
	Joined []string         `json:"joined"`
	Pieces [][]string       `json:"pieces"`
	Parsed []ruletextParsed `json:"parsed"`
}

type ruletextRtPlan struct {
	Keys    []string              `json:"keys"`
	Vals    map[string][][]string `json:"vals"` // per key, all documented values (<= 3 symbols)
	Msgs    [][]string            `json:"msgs"`
	Singles [][2]int              `json:"singles"` // (nv, nm) windows
	Pool2   []ruletextRule        `json:"pool2"`
	Pool3   []ruletextRule        `json:"pool3"`
	Pairs   bool                  `json:"pairs"`
	Triples bool                  `json:"triples"`
	Shards  int                   `json:"shards"`
	Out     string                `json:"out"`
	Lists   []ruletextRtRec       `json:"lists"` // replay: explicit lists (rules + mode)
}

func ruletextGen(r ruletextRule) string {
	switch {
	case !r.Hv && !r.Hm:
		return valid.GenValidKV(r.K)
	case r.Hv && !r.Hm:
		return valid.GenValidKV(r.K, ruletextText(r.V))
	case !r.Hv && r.Hm:
		return valid.GenValidKV(r.K, "", ruletextText(r.M))
	default:
		return valid.GenValidKV(r.K, ruletextText(r.V), ruletextText(r.M))
	}
}

var ruletextModes = []string{"once", "incr", "multi", "premulti"}

func ruletextRtOne(rules []ruletextRule, mode string) (rec ruletextRtRec) {
	rec.Rules = rules
	rec.Mode = mode
	rec.Gen = [][]string{}
	rec.Joined = []string{}
	rec.Pieces = [][]string{}
	rec.Parsed = []ruletextParsed{}
	defer func() {
		if p := recover(); p != nil {
			rec.Pieces = append(rec.Pieces, []string{"!panic: " + fmt.Sprint(p)})
		}
	}()
	gens := make([]string, len(rules))
	for i, r := range rules {
		gens[i] = ruletextGen(r)
	}
	rec.Gen = ruletextSymsAll(gens)
	rm := valid.NewRule()
	field := "F"
	switch mode {
	case "incr": // one Set call per rule: accumulation on the same field
		for _, g := range gens {
			rm.Set("F", g)
		}
	case "multi": // several field names in one call
		rm.Set("G,F,H", gens...)
		field = "F"
	case "premulti": // several field names in one call, the first of which already holds rules: F gets the list exactly once
		rm.Set("G", gens...)
		rm.Set("G,F,H", gens...)
		field = "F"
	default:
		rm.Set("F", gens...)
	}
	joined := rm.Get(field)
	rec.Joined = ruletextSyms(joined)
	pieces := valid.ValidNamesSplit(joined)
	cp := make([]string, len(pieces))
	for i, p := range pieces {
		cp[i] = string([]byte(p))
	}
	rec.Pieces = ruletextSymsAll(cp)
	for _, p := range cp {
		k, v, m := valid.ParseValidNameKV(p)
		rec.Parsed = append(rec.Parsed, ruletextParsed{ruletextSyms(k), ruletextSyms(v), ruletextSyms(m)})
	}
	return
}

func ruletextRtCmd(args []string) error {
	var plan ruletextRtPlan
	if err := ruletextReadStdin(&plan); err != nil {
		return err
	}
	if plan.Shards < 1 {
		plan.Shards = 1
	}
	sh, err := ruletextNewShards(plan.Out, plan.Shards)
	if err != nil {
		return err
	}
	defer sh.close()
	if plan.Lists != nil {
		for _, l := range plan.Lists {
			sh.put(ruletextRtOne(l.Rules, l.Mode))
		}
		return nil
	}
	n := 0
	emit := func(rules ...ruletextRule) {
		cp := make([]ruletextRule, len(rules))
		copy(cp, rules)
		sh.put(ruletextRtOne(cp, ruletextModes[n%len(ruletextModes)]))
		n++
	}
	// single rules: keys x (none | values of <= nv symbols) x (none | messages of <= nm symbols), union over the windows
	inWin := func(lv, lm int) bool {
		for _, w := range plan.Singles {
			if lv <= w[0] && lm <= w[1] {
				return true
			}
		}
		return false
	}
	none := [][]string{nil}
	for _, k := range plan.Keys {
		for _, v := range append(none, plan.Vals[k]...) {
			for _, m := range append(none, plan.Msgs...) {
				if !inWin(len(v), len(m)) {
					continue
				}
				r := ruletextRule{K: k, Hv: v != nil, V: v, Hm: m != nil, M: m}
				if r.V == nil {
					r.V = []string{}
				}
				if r.M == nil {
					r.M = []string{}
				}
				emit(r)
			}
		}
	}
	if plan.Pairs {
		for _, a := range plan.Pool2 {
			for _, b := range plan.Pool2 {
				emit(a, b)
			}
		}
	}
	if plan.Triples {
		for _, a := range plan.Pool3 {
			for _, b := range plan.Pool3 {
				for _, c := range plan.Pool3 {
					emit(a, b, c)
				}
			}
		}
	}
	return nil
}

// ---------------------------------------------------------------- C15: clauses produced by the library + extractor

type ruletextField struct {
	Rule  string  `json:"rule"`
	Arg   string  `json:"arg"`
	Input string  `json:"input"`
	Msg   *string `json:"msg"`
}

type ruletextCase struct {
	ID      int             `json:"id"`
	Carrier string          `json:"carrier"`
	Grp     bool            `json:"grp"`
	Fields  []ruletextField `json:"fields"`
}

type ruletextCaseOut struct {
	ID       int      `json:"id"`
	Rules    []string `json:"rules"`
	Nil      bool     `json:"nil"`
	Err      string   `json:"err"`
	Panic    string   `json:"panic"`
	Extract  string   `json:"extract"`
	XPanic   string   `json:"xpanic"`
	XChanged string   `json:"xchanged,omitempty"` // what the extractor's result reads after all later calls, if it changed
	ErrValid bool     `json:"errUtf8"`
}

type ruletextS6 struct {
	A, B, C, D, E, F string
}

var ruletextFieldNames = []string{"A", "B", "C", "D"}

func ruletextRuleText(f ruletextField) string {
	switch {
	case f.Msg != nil:
		return valid.GenValidKV(f.Rule, f.Arg, *f.Msg)
	case f.Arg != "":
		return valid.GenValidKV(f.Rule, f.Arg)
	default:
		return valid.GenValidKV(f.Rule)
	}
}

func ruletextRunCase(c ruletextCase) (out ruletextCaseOut) {
	out.ID = c.ID
	rules := make([]string, len(c.Fields))
	for i, f := range c.Fields {
		rules[i] = ruletextRuleText(f)
	}
	out.Rules = rules
	var err error
	func() {
		defer func() {
			if p := recover(); p != nil {
				out.Panic = fmt.Sprint(p)
			}
		}()
		switch c.Carrier {
		case "struct":
			rm := valid.NewRule()
			var s ruletextS6
			ptrs := []*string{&s.A, &s.B, &s.C, &s.D}
			for i, f := range c.Fields {
				rm.Set(ruletextFieldNames[i], rules[i])
				*ptrs[i] = f.Input
			}
			if c.Grp {
				rm.Set("E,F", valid.GenValidKV(valid.Either, "1"))
			}
			err = valid.Struct(&s, rm)
		case "var":
			err = valid.Var(c.Fields[0].Input, rules...)
		case "map":
			rm := valid.NewRule()
			m := map[string]string{}
			for i, f := range c.Fields {
				rm.Set(ruletextFieldNames[i], rules[i])
				m[ruletextFieldNames[i]] = f.Input
			}
			err = valid.Map(m, rm)
		case "url":
			rm := valid.NewRule()
			qs := []string{}
			for i, f := range c.Fields {
				rm.Set(ruletextFieldNames[i], rules[i])
				qs = append(qs, ruletextFieldNames[i]+"="+f.Input)
			}
			if c.Grp {
				rm.Set("E,F", valid.GenValidKV(valid.Either, "1"))
				qs = append(qs, "E=", "F=")
			}
			err = valid.Url("http://h.test/p?"+strings.Join(qs, "&"), rm)
		default:
			panic("unknown carrier " + c.Carrier)
		}
	}()
	if out.Panic != "" {
		return
	}
	if err == nil {
		out.Nil = true
		return
	}
	out.Err = err.Error()
	out.ErrValid = utf8.ValidString(out.Err)
	func() {
		defer func() {
			if p := recover(); p != nil {
				out.XPanic = fmt.Sprint(p)
			}
		}()
		out.Extract = valid.GetOnlyExplainErr(out.Err)
	}()
	return
}

func ruletextExplainCmd(args []string) error {
	r := newLineReader(os.Stdin)
	w := newLineWriter(os.Stdout)
	defer w.flush()
	// results are written at the end: what GetOnlyExplainErr handed out is kept as it is and compared, after all later
	// calls, with the copy taken at return (the judged one) - the string must be the caller's alone
	var outs []ruletextCaseOut
	var held []string
	for {
		var c ruletextCase
		if !r.next(&c) {
			break
		}
		o := ruletextRunCase(c)
		held = append(held, o.Extract)
		o.Extract = string(append([]byte(nil), o.Extract...))
		outs = append(outs, o)
	}
	for i := range outs {
		if held[i] != outs[i].Extract {
			outs[i].XChanged = string(append([]byte(nil), held[i]...))
			if outs[i].XChanged == "" {
				outs[i].XChanged = "(empty)"
			}
		}
		w.put(outs[i])
	}
	return nil
}
