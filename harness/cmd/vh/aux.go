package main

// Family "aux": parts of the library the listed properties lean on without naming them, specified in their own small
// modules (spec/TimeFmt.tla, spec/Echo.tla) and bound to the code by replaying every TLC-emitted vector.
//
//   timefmt-run < vectors.ndjson > results.ndjson   valid.GetTimeFmt(int8(mask), splits...) per vector
//   echo-run    < vectors.ndjson > results.ndjson   valid.StrEscape / GetJoinValidErrStr / GetJoinFieldErr / ToStr
//
// Nothing here decides anything: results go back to the orchestrator, which compares them with the expectation that
// TLC printed next to each vector.

import (
	"errors"
	"fmt"
	"os"

	"gitee.com/xuesongtao/protoc-go-valid/valid"
)

func init() {
	register("timefmt-run", timefmtRunCmd)
	register("echo-run", echoRunCmd)
}

func auxStr(cps []int) string {
	rs := make([]rune, len(cps))
	for i, c := range cps {
		rs[i] = rune(c)
	}
	return string(rs)
}

func auxBytes(bs []int) string {
	b := make([]byte, len(bs))
	for i, c := range bs {
		b[i] = byte(c)
	}
	return string(b)
}

func auxByteList(s string) []int {
	out := make([]int, len(s))
	for i := 0; i < len(s); i++ {
		out[i] = int(s[i])
	}
	return out
}

type timefmtVec struct {
	Mask   int     `json:"mask"`
	Splits [][]int `json:"splits"`
	Want   []int   `json:"want"`
	Mech   []int   `json:"mech"`
	Doc    bool    `json:"doc"`
}

type timefmtRes struct {
	I     int    `json:"i"`
	Got   []int  `json:"got"`
	Panic string `json:"panic,omitempty"`
}

func timefmtRunCmd(args []string) error {
	in := newLineReader(os.Stdin)
	out := newLineWriter(os.Stdout)
	defer out.flush()
	i := 0
	for {
		var v timefmtVec
		if !in.next(&v) {
			break
		}
		res := timefmtRes{I: i}
		func() {
			defer func() {
				if r := recover(); r != nil {
					res.Panic = fmt.Sprint(r)
				}
			}()
			sp := make([]string, len(v.Splits))
			for k, s := range v.Splits {
				sp[k] = auxStr(s)
			}
			res.Got = formatsCps(valid.GetTimeFmt(int8(v.Mask), sp...))
		}()
		if res.Got == nil {
			res.Got = []int{}
		}
		out.put(res)
		i++
	}
	return nil
}

// echoVec: op selects the function; text travels as byte values (StrEscape works on bytes).
type echoVec struct {
	Op     string  `json:"op"`     // escape | valid | field
	S      []int   `json:"s"`      // escape: the input bytes
	Obj    []int   `json:"obj"`    // valid / field: object name
	Field  []int   `json:"field"`  // valid / field: field name
	Input  []int   `json:"input"`  // valid: echoed input
	Others [][]int `json:"others"` // valid: further words; field: one element = the message
	AsErr  bool    `json:"aserr"`  // field: the message is handed over as an error value, not as a string
}

type echoRes struct {
	I     int    `json:"i"`
	Got   []int  `json:"got"`
	Panic string `json:"panic,omitempty"`
}

func echoRunCmd(args []string) error {
	in := newLineReader(os.Stdin)
	out := newLineWriter(os.Stdout)
	defer out.flush()
	i := 0
	for {
		var v echoVec
		if !in.next(&v) {
			break
		}
		res := echoRes{I: i}
		func() {
			defer func() {
				if r := recover(); r != nil {
					res.Panic = fmt.Sprint(r)
				}
			}()
			switch v.Op {
			case "escape":
				res.Got = auxByteList(valid.StrEscape(auxBytes(v.S)))
			case "valid":
				oth := make([]string, len(v.Others))
				for k, o := range v.Others {
					oth[k] = auxBytes(o)
				}
				res.Got = auxByteList(valid.GetJoinValidErrStr(auxBytes(v.Obj), auxBytes(v.Field), auxBytes(v.Input), oth...))
			case "field":
				msg := ""
				if len(v.Others) > 0 {
					msg = auxBytes(v.Others[0])
				}
				if v.AsErr {
					res.Got = auxByteList(valid.GetJoinFieldErr(auxBytes(v.Obj), auxBytes(v.Field), errors.New(msg)))
				} else {
					res.Got = auxByteList(valid.GetJoinFieldErr(auxBytes(v.Obj), auxBytes(v.Field), msg))
				}
			default:
				res.Panic = "harness: unknown op " + v.Op
			}
		}()
		if res.Got == nil {
			res.Got = []int{}
		}
		out.put(res)
		i++
	}
	return nil
}
