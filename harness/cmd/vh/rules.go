package main

// Size/comparison rules and carrier agreement (C01, C18).
//
// Everything here only concretises abstract vectors (kind + abstract value + rule text + carrier) into real calls of
// the library, and abstracts the returned error back into "which rules produced a clause". The expected verdicts come
// from TLC (spec/Gen_Rules.tla) or the recordings are judged by TLC (spec/Judge_Rules.tla); nothing in this file knows
// what a rule means.

import (
	"flag"
	"fmt"
	"math"
	"math/rand"
	"net/url"
	"os"
	"reflect"
	"regexp"
	"strconv"
	"strings"

	"gitee.com/xuesongtao/protoc-go-valid/valid"
)

func init() {
	register("rules-groups", rulesGroups)
	register("rules-one", rulesOne)
	register("rules-record", rulesRecord)
	register("rules-agree", rulesAgree)
}

// ------------------------------------------------------------------ abstract values and their Go types

type rulesVal struct {
	N   int64   `json:"n"`
	Far int     `json:"far"`
	Cps []int32 `json:"cps"`
	Eps int     `json:"eps"` // floats: -1 / 1 = the representable neighbour just below / above N halves
}

// named struct types for the "rm" carrier (rules supplied by an RM override, not by a tag)
type rulesSString struct{ A string }
type rulesSInt8 struct{ A int8 }
type rulesSInt16 struct{ A int16 }
type rulesSInt32 struct{ A int32 }
type rulesSInt64 struct{ A int64 }
type rulesSInt struct{ A int }
type rulesSUint8 struct{ A uint8 }
type rulesSUint16 struct{ A uint16 }
type rulesSUint32 struct{ A uint32 }
type rulesSUint64 struct{ A uint64 }
type rulesSUint struct{ A uint }
type rulesSFloat32 struct{ A float32 }
type rulesSFloat64 struct{ A float64 }
type rulesSSliceInt struct{ A []int }
type rulesSSliceString struct{ A []string }

type rulesKindInfo struct {
	t     reflect.Type // type of the value
	named reflect.Type // named struct type with one field A of type t
	class string       // string / int / uint / float / slice  (only to pick the concretiser)
}

var rulesKinds = map[string]rulesKindInfo{
	"string":       {reflect.TypeOf(""), reflect.TypeOf(rulesSString{}), "string"},
	"string_delim": {reflect.TypeOf(""), reflect.TypeOf(rulesSString{}), "string"},
	"string_rep":   {reflect.TypeOf(""), reflect.TypeOf(rulesSString{}), "string"}, // n characters: the pattern cps repeated (long strings)
	"int8":         {reflect.TypeOf(int8(0)), reflect.TypeOf(rulesSInt8{}), "int"},
	"int16":        {reflect.TypeOf(int16(0)), reflect.TypeOf(rulesSInt16{}), "int"},
	"int32":        {reflect.TypeOf(int32(0)), reflect.TypeOf(rulesSInt32{}), "int"},
	"int64":        {reflect.TypeOf(int64(0)), reflect.TypeOf(rulesSInt64{}), "int"},
	"int":          {reflect.TypeOf(int(0)), reflect.TypeOf(rulesSInt{}), "int"},
	"uint8":        {reflect.TypeOf(uint8(0)), reflect.TypeOf(rulesSUint8{}), "uint"},
	"uint16":       {reflect.TypeOf(uint16(0)), reflect.TypeOf(rulesSUint16{}), "uint"},
	"uint32":       {reflect.TypeOf(uint32(0)), reflect.TypeOf(rulesSUint32{}), "uint"},
	"uint64":       {reflect.TypeOf(uint64(0)), reflect.TypeOf(rulesSUint64{}), "uint"},
	"uint":         {reflect.TypeOf(uint(0)), reflect.TypeOf(rulesSUint{}), "uint"},
	"float32":      {reflect.TypeOf(float32(0)), reflect.TypeOf(rulesSFloat32{}), "float"},
	"float64":      {reflect.TypeOf(float64(0)), reflect.TypeOf(rulesSFloat64{}), "float"},
	"slice_int":    {reflect.TypeOf([]int(nil)), reflect.TypeOf(rulesSSliceInt{}), "slice"},
	"slice_string": {reflect.TypeOf([]string(nil)), reflect.TypeOf(rulesSSliceString{}), "slice"},
}

var rulesKindOrder = []string{"string", "int8", "int16", "int32", "int64", "int", "uint8", "uint16", "uint32", "uint64", "uint",
	"float32", "float64", "slice_int", "slice_string", "string_rep"}

// Bounds and values beyond 32 bits: TLC integers are 32-bit, so the model works with rulesBigModel + d where the real
// call uses rulesBigReal(kind) + d (d small). The map is strictly monotone on the numbers the recorder generates
// (|x| <= 2*10^6 or within a few units of +-rulesBigModel), so every comparison has the same outcome on both sides.
// Integers sit at 2^53 (where float64 has gaps of 2: a comparison routed through float64 merges neighbours), floats
// at 2^40 (where halves are still exact).
const rulesBigModel = 400000000

// The end of the int64 range: the model's rulesExtModel - d stands for MaxInt64 - d, -(rulesExtModel - d) for
// MinInt64 + d (d small; 4 * rulesExtModel still fits TLC's integers, and Rules!FAR lies beyond it).
const rulesExtModel = 500000000

func rulesBigReal(kind string) int64 {
	switch rulesKinds[kind].class {
	case "float":
		return int64(1) << 40
	case "string", "slice": // lengths: beyond 1 KiB of text
		return 1100
	}
	return int64(1) << 53
}

func rulesReal(kind string, x int64) int64 {
	if c := rulesKinds[kind].class; c == "int" || c == "uint" {
		if x > rulesExtModel-1000 {
			return math.MaxInt64 - (rulesExtModel - x)
		}
		if x < -(rulesExtModel - 1000) {
			return math.MinInt64 + (x + rulesExtModel)
		}
	}
	if x >= rulesBigModel/2 {
		return x - rulesBigModel + rulesBigReal(kind)
	}
	if x <= -rulesBigModel/2 {
		return x + rulesBigModel - rulesBigReal(kind)
	}
	return x
}

// rulesRealHalves maps a count of halves to the real float
func rulesRealHalves(h int64) float64 {
	big := float64(rulesBigReal("float64"))
	if h >= rulesBigModel {
		return float64(h-2*rulesBigModel)/2 + big
	}
	if h <= -rulesBigModel {
		return float64(h+2*rulesBigModel)/2 - big
	}
	return float64(h) / 2
}

// rulesConc builds the Go value of an abstract value. far = -1 / 1 are the extreme values of the type
// (the symbolic exterior points of the model); floats count halves.
func rulesConc(kind string, v rulesVal) (reflect.Value, error) {
	ki, ok := rulesKinds[kind]
	if !ok {
		return reflect.Value{}, fmt.Errorf("unknown kind %q", kind)
	}
	rv := reflect.New(ki.t).Elem()
	switch ki.class {
	case "string":
		if kind == "string_rep" {
			n := int(rulesReal(kind, v.N))
			if n < 1 || len(v.Cps) == 0 {
				return rv, fmt.Errorf("string_rep of %d characters over %v", n, v.Cps)
			}
			var bs []byte
			for i := 0; i < n; i++ {
				if c := v.Cps[i%len(v.Cps)]; c < 0 {
					bs = append(bs, 0xff)
				} else {
					bs = append(bs, string(rune(c))...)
				}
			}
			rv.SetString(string(bs))
			break
		}
		var bs []byte
		for _, c := range v.Cps {
			if c < 0 { // a byte that is not UTF-8 at all (0xff): one character for every way of counting runes
				bs = append(bs, 0xff)
			} else {
				bs = append(bs, string(rune(c))...)
			}
		}
		rv.SetString(string(bs))
	case "int":
		x := rulesReal(kind, v.N)
		bits := uint(ki.t.Bits())
		if v.Far < 0 {
			x = -1 << (bits - 1)
		} else if v.Far > 0 {
			x = 1<<(bits-1) - 1
		}
		if rv.OverflowInt(x) {
			return rv, fmt.Errorf("%d does not fit %s", x, kind)
		}
		rv.SetInt(x)
	case "uint":
		var x uint64
		if v.Far > 0 {
			x = math.MaxUint64 >> (64 - uint(ki.t.Bits()))
		} else if v.Far < 0 || v.N < 0 {
			return rv, fmt.Errorf("negative value for %s", kind)
		} else {
			x = uint64(rulesReal(kind, v.N))
		}
		if rv.OverflowUint(x) {
			return rv, fmt.Errorf("%d does not fit %s", x, kind)
		}
		rv.SetUint(x)
	case "float":
		x := rulesRealHalves(v.N)
		big := math.MaxFloat64
		if ki.t.Bits() == 32 {
			big = math.MaxFloat32
		}
		if v.Far < 0 {
			x = -big
		} else if v.Far > 0 {
			x = big
		}
		rv.SetFloat(x)
		if v.Far == 0 && rv.Float() != x {
			return rv, fmt.Errorf("%v is not exact in %s", x, kind)
		}
		if v.Far == 0 && v.Eps != 0 {
			dir := math.Inf(v.Eps)
			if ki.t.Bits() == 32 {
				rv.SetFloat(float64(math.Nextafter32(float32(x), float32(dir))))
			} else {
				rv.SetFloat(math.Nextafter(x, dir))
			}
			if rv.Float() == x {
				return rv, fmt.Errorf("no neighbour of %v in %s", x, kind)
			}
		}
	case "slice":
		n := int(rulesReal(kind, v.N))
		s := reflect.MakeSlice(ki.t, n, n)
		for i := 0; i < n; i++ {
			if ki.t.Elem().Kind() == reflect.String {
				s.Index(i).SetString("e" + strconv.Itoa(i))
			} else {
				s.Index(i).SetInt(int64(i + 1))
			}
		}
		rv.Set(s)
	}
	return rv, nil
}

// ------------------------------------------------------------------ carriers

const rulesKey = "k"

var rulesAllCarriers = []string{"tag", "rm", "var", "map", "mapiface", "slicemap", "url", "urle", "urln", "urlne", "urlw", "urlwn"}

// rulesRawSafe: the value can be written into a query string as it is (DESIGN C18 carve-out: & = ? + % #)
func rulesRawSafe(s string) bool { return !strings.ContainsAny(s, "&=?+%#") }

// rulesApplicable says whether a carrier can hold a value of this kind at all.
func rulesApplicable(carrier, kind string, v reflect.Value) bool {
	class := rulesKinds[kind].class
	switch carrier {
	case "tag", "rm", "var":
		return true
	case "map", "mapiface", "slicemap":
		return class != "slice" // the README documents scalar map values only
	case "url", "urln":
		return class == "string" && rulesRawSafe(v.String())
	case "urle", "urlne":
		return class == "string"
	case "urlw", "urlwn":
		// the whole URL is escaped (the form the repository's own tests pass): after the one decoding step the
		// delimiters of the value are indistinguishable from those of the query, so values containing them are out
		return class == "string" && !strings.ContainsAny(v.String(), "&=?")
	}
	return false
}

var rulesTagTypes = map[string]reflect.Type{}

func rulesTagType(t reflect.Type, rules string) reflect.Type {
	key := t.String() + "\x00" + rules
	if st, ok := rulesTagTypes[key]; ok {
		return st
	}
	st := reflect.StructOf([]reflect.StructField{{Name: "A", Type: t, Tag: reflect.StructTag("valid:" + strconv.Quote(rules))}})
	rulesTagTypes[key] = st
	return st
}

// rulesEscCase writes the hex digits of every second text's percent-escapes in lower case (RFC 3986: %3f = %3F).
func rulesEscCase(s string, rng *rand.Rand) string {
	if rng.Intn(2) == 0 {
		return s
	}
	b := []byte(s)
	for i := 0; i+2 < len(b); i++ {
		if b[i] == '%' {
			for k := i + 1; k <= i+2; k++ {
				if b[k] >= 'A' && b[k] <= 'F' {
					b[k] += 'a' - 'A'
				}
			}
			i += 2
		}
	}
	return string(b)
}

func rulesURL(val string, escape, many bool, rng *rand.Rand) string {
	enc := func(s string) string {
		if escape {
			return rulesEscCase(url.QueryEscape(s), rng)
		}
		return s
	}
	params := []string{rulesKey + "=" + enc(val)}
	if many {
		params = append(params, "a=1", "zz="+enc("hello w"), "n=42")
		rng.Shuffle(len(params), func(i, j int) { params[i], params[j] = params[j], params[i] })
	}
	return "http://h.test/p?" + strings.Join(params, "&")
}

// rulesCall sends one value under one rule list through one carrier of the real library.
func rulesCall(carrier, kind string, v reflect.Value, rules string, rng *rand.Rand) (errText string, isNil bool, panicText string) {
	defer func() {
		if r := recover(); r != nil {
			panicText = fmt.Sprint(r)
			if panicText == "" {
				panicText = "panic"
			}
		}
	}()
	var err error
	ki := rulesKinds[kind]
	switch carrier {
	case "tag":
		p := reflect.New(rulesTagType(ki.t, rules))
		p.Elem().Field(0).Set(v)
		err = valid.Struct(p.Interface())
	case "rm":
		p := reflect.New(ki.named)
		p.Elem().Field(0).Set(v)
		err = valid.Struct(p.Interface(), valid.RM{"A": rules})
	case "var":
		err = valid.Var(v.Interface(), rules)
	case "map":
		m := reflect.MakeMap(reflect.MapOf(reflect.TypeOf(""), ki.t))
		m.SetMapIndex(reflect.ValueOf(rulesKey), v)
		err = valid.Map(m.Interface(), valid.RM{rulesKey: rules})
	case "mapiface":
		err = valid.Map(map[string]interface{}{rulesKey: v.Interface()}, valid.RM{rulesKey: rules})
	case "slicemap":
		mt := reflect.MapOf(reflect.TypeOf(""), ki.t)
		s := reflect.MakeSlice(reflect.SliceOf(mt), 2, 2)
		m0 := reflect.MakeMap(mt)
		m0.SetMapIndex(reflect.ValueOf("z"), v)
		m1 := reflect.MakeMap(mt)
		m1.SetMapIndex(reflect.ValueOf(rulesKey), v)
		m1.SetMapIndex(reflect.ValueOf("z"), v)
		s.Index(0).Set(m0)
		s.Index(1).Set(m1)
		// "z" holds the same non-empty value under a rule nothing satisfies: its clauses must not disturb those of "k"
		err = valid.Map(s.Interface(), valid.RM{rulesKey: rules, "z": "to=1~0|tkz"})
	case "url":
		err = valid.Url(rulesURL(v.String(), false, false, rng), valid.RM{rulesKey: rules})
	case "urle":
		err = valid.Url(rulesURL(v.String(), true, false, rng), valid.RM{rulesKey: rules})
	case "urln":
		err = valid.Url(rulesURL(v.String(), false, true, rng), valid.RM{rulesKey: rules, "zz": "to=1~0|tkz"})
	case "urlne":
		err = valid.Url(rulesURL(v.String(), true, true, rng), valid.RM{rulesKey: rules, "zz": "to=1~0|tkz"})
	case "urlw":
		err = valid.Url(rulesEscCase(url.QueryEscape(rulesURL(v.String(), false, false, rng)), rng), valid.RM{rulesKey: rules})
	case "urlwn":
		err = valid.Url(rulesEscCase(url.QueryEscape(rulesURL(v.String(), false, true, rng)), rng), valid.RM{rulesKey: rules, "zz": "to=1~0|tkz"})
	default:
		panic("unknown carrier " + carrier)
	}
	if err == nil {
		return "", true, ""
	}
	return err.Error(), false, ""
}

func rulesAbstractC(carrier, kind string, v reflect.Value, rules string, rng *rand.Rand) rulesObs {
	errText, isNil, panicText := rulesCall(carrier, kind, v, rules, rng)
	return rulesAbstractFor(carrier, errText, isNil, panicText)
}

// ------------------------------------------------------------------ abstraction of the error

var rulesTokRe = regexp.MustCompile(`explain: (?:n=1 )?(tk[0-9]+) ?$`)

type rulesObs struct {
	Verdict string   `json:"verdict"` // "0" no clause, "1" only rule clauses, "E" some other error text, "P" panic
	Toks    []string `json:"toks"`    // tokens (custom messages) of the rules that produced a clause
	Bodies  []string `json:"bodies"`  // clause texts without the path prefix
	Text    string   `json:"text,omitempty"`
	Panic   string   `json:"panic,omitempty"`
}

func rulesStripPath(clause string) string {
	if strings.HasPrefix(clause, `"`) {
		if i := strings.Index(clause[1:], `" `); i >= 0 {
			return clause[i+3:]
		}
	}
	return clause
}

// rulesKeep tells which clause paths belong to the value under test for a carrier that also carries a second,
// always-violating ruled entry ("zz" in the many-parameter URL, the first map / key "z" of the map slice).
func rulesKeep(carrier string) func(path string) bool {
	switch carrier {
	case "urln", "urlne", "urlwn":
		return func(p string) bool { return p != "zz" }
	case "slicemap":
		return func(p string) bool { return p == "[1]map["+rulesKey+"]" || p == "" }
	}
	return nil
}

func rulesPathOf(clause string) string {
	if strings.HasPrefix(clause, `"`) {
		if i := strings.Index(clause[1:], `" `); i >= 0 {
			return clause[1 : i+1]
		}
	}
	return ""
}

func rulesAbstractFor(carrier string, errText string, isNil bool, panicText string) rulesObs {
	keep := rulesKeep(carrier)
	if keep == nil || isNil || panicText != "" {
		return rulesAbstract(errText, isNil, panicText)
	}
	var mine []string
	others := 0
	for _, c := range strings.Split(errText, "; ") {
		if keep(rulesPathOf(c)) {
			mine = append(mine, c)
		} else {
			others++
		}
	}
	o := rulesAbstract(strings.Join(mine, "; "), len(mine) == 0, "")
	if others == 0 { // the companion entry always violates its rule: its clause must be there
		o.Verdict = "E"
		o.Bodies = append(o.Bodies, "companion clause missing: "+errText)
	}
	o.Text = errText
	return o
}

func rulesAbstract(errText string, isNil bool, panicText string) rulesObs {
	o := rulesObs{Toks: []string{}, Bodies: []string{}}
	if panicText != "" {
		o.Verdict, o.Panic = "P", panicText
		return o
	}
	if isNil {
		o.Verdict = "0"
		return o
	}
	o.Text = errText
	o.Verdict = "1"
	for _, c := range strings.Split(errText, "; ") {
		body := rulesStripPath(c)
		o.Bodies = append(o.Bodies, body)
		if !strings.HasPrefix(body, `input "`) {
			o.Verdict = "E"
		}
		if m := rulesTokRe.FindStringSubmatch(body); m != nil {
			o.Toks = append(o.Toks, m[1])
		}
	}
	return o
}

// rulesNum writes a bound.  One rule text in four spells its bounds with leading zeros (010 is ten: bounds are decimal
// integers), the choice being a function of the rule so that a replay writes the same text.
func rulesNum(n int64, pad bool) string {
	s := strconv.FormatInt(n, 10)
	if !pad || n == math.MinInt64 {
		return s
	}
	if n < 0 {
		return "-0" + s[1:]
	}
	return "00" + s
}

func rulesText(kind, rule string, lo, hi int, msg string) string {
	var s string
	pad := (len(rule)+3*lo+5*hi+len(msg))%4 == 1 || (len(rule)+3*lo+5*hi+len(msg))%4 == -3
	switch rule {
	case "to", "oto":
		s = rule + "=" + rulesNum(rulesReal(kind, int64(lo)), pad) + "~" + rulesNum(rulesReal(kind, int64(hi)), pad)
	case "le", "lt":
		s = rule + "=" + rulesNum(rulesReal(kind, int64(hi)), pad)
	default: // ge gt eq noeq
		s = rule + "=" + rulesNum(rulesReal(kind, int64(lo)), pad)
	}
	if msg != "" {
		s += "|" + msg
	}
	return s
}

func rulesCarrierList(s string) []string {
	if s == "" || s == "all" {
		return rulesAllCarriers
	}
	return strings.Split(s, ",")
}

// ------------------------------------------------------------------ rules-groups: bulk replay of TLC's groups

type rulesGroupIn struct {
	T    string     `json:"t"` // "vals" | "grp"
	Kind string     `json:"kind"`
	Vals []rulesVal `json:"vals"`
	Gid  int        `json:"gid"`
	Rule string     `json:"rule"`
	Lo   int        `json:"lo"`
	Hi   int        `json:"hi"`
	Msg  string     `json:"msg"`
}

type rulesGroupOut struct {
	T     string            `json:"t"`
	Gid   int               `json:"gid"`
	Rules string            `json:"rules"`
	Obs   map[string]string `json:"obs"` // carrier -> one character per value of the kind's list ('-' = carrier not applicable)
	Calls int               `json:"calls"`
}

func rulesGroups(args []string) error {
	fs := flag.NewFlagSet("rules-groups", flag.ContinueOnError)
	carriers := fs.String("carriers", "all", "comma separated carriers")
	if err := fs.Parse(args); err != nil {
		return err
	}
	cl := rulesCarrierList(*carriers)
	rng := rand.New(rand.NewSource(seed()))
	in := newLineReader(os.Stdin)
	out := newLineWriter(os.Stdout)
	defer out.flush()
	vals := map[string][]reflect.Value{}
	total, groups := 0, 0
	for {
		var g rulesGroupIn
		if !in.next(&g) {
			break
		}
		if g.T == "vals" {
			for _, av := range g.Vals {
				rv, err := rulesConc(g.Kind, av)
				if err != nil {
					return err
				}
				vals[g.Kind] = append(vals[g.Kind], rv)
			}
			continue
		}
		vs, ok := vals[g.Kind]
		if !ok {
			return fmt.Errorf("group for kind %q before its value list", g.Kind)
		}
		rules := rulesText(g.Kind, g.Rule, g.Lo, g.Hi, g.Msg)
		o := rulesGroupOut{T: "grp", Gid: g.Gid, Rules: rules, Obs: map[string]string{}}
		for _, c := range cl {
			b := make([]byte, len(vs))
			applicable := false
			for i, v := range vs {
				if !rulesApplicable(c, g.Kind, v) {
					b[i] = '-'
					continue
				}
				applicable = true
				ob := rulesAbstractC(c, g.Kind, v, rules, rng)
				b[i] = ob.Verdict[0]
				o.Calls++
			}
			if applicable {
				o.Obs[c] = string(b)
			}
		}
		total += o.Calls
		groups++
		out.put(o)
	}
	out.put(map[string]interface{}{"t": "summary", "calls": total, "groups": groups})
	return nil
}

// ------------------------------------------------------------------ rules-one: one request with the full text (replay, diagnostics)

type rulesOneIn struct {
	Kind    string  `json:"kind"`
	N       int64   `json:"n"`
	Far     int     `json:"far"`
	Cps     []int32 `json:"cps"`
	Eps     int     `json:"eps"`
	Rules   string  `json:"rules"`
	Carrier string  `json:"carrier"`
}

func rulesOne(args []string) error {
	rng := rand.New(rand.NewSource(seed()))
	in := newLineReader(os.Stdin)
	out := newLineWriter(os.Stdout)
	defer out.flush()
	for {
		var r rulesOneIn
		if !in.next(&r) {
			break
		}
		v, err := rulesConc(r.Kind, rulesVal{N: r.N, Far: r.Far, Cps: r.Cps, Eps: r.Eps})
		if err != nil {
			return err
		}
		res := map[string]interface{}{"carrier": r.Carrier, "rules": r.Rules, "value": fmt.Sprintf("%#v", v.Interface())}
		if !rulesApplicable(r.Carrier, r.Kind, v) {
			res["obs"] = rulesObs{Verdict: "-", Toks: []string{}, Bodies: []string{}}
		} else {
			res["obs"] = rulesAbstractC(r.Carrier, r.Kind, v, r.Rules, rng)
		}
		out.put(res)
	}
	return nil
}

// ------------------------------------------------------------------ rules-record: seeded random tuples (code -> model, judged by TLC)

var rulesIntervalRules = []string{"to", "ge", "le", "oto", "gt", "lt", "eq", "noeq"}

var rulesAlphabet = []int32{97, 233, 20013, 128512, 48, 90, -1} // -1: the byte 0xff (not UTF-8)

type rulesTuple struct {
	ID       int     `json:"id"`
	Rule     string  `json:"rule"`
	Lo       int     `json:"lo"`
	Hi       int     `json:"hi"`
	Kind     string  `json:"kind"`
	N        int64   `json:"n"`
	Far      int     `json:"far"`
	Cps      []int32 `json:"cps"`
	Eps      int     `json:"eps"`
	Carrier  string  `json:"carrier"`
	Rules    string  `json:"rules"`
	Violated bool    `json:"violated"`
}

func rulesRndIn(rng *rand.Rand, lo, hi int) int { return lo + rng.Intn(hi-lo+1) }

// rulesRandomValue draws a non-zero value of the kind whose magnitude is as close to `target` as the kind allows
// (target counts halves for floats, runes / elements for strings / slices).
func rulesRandomValue(rng *rand.Rand, kind string, target int64) rulesVal {
	ki := rulesKinds[kind]
	v := rulesVal{Cps: []int32{}}
	// exterior points only for 64-bit integers and floats: there Min/Max of the type is beyond every generated bound (10^6)
	if ki.class != "string" && ki.class != "slice" && (ki.class == "float" || ki.t.Bits() == 64) && rng.Intn(12) == 0 {
		v.Far = 1
		if ki.class != "uint" && rng.Intn(2) == 0 {
			v.Far = -1
		}
		if ki.class == "int" { // MaxInt64 / MinInt64 are ordinary numbers of the extreme region (a bound can equal them)
			v.N, v.Far = int64(v.Far)*rulesExtModel, 0
		}
		return v
	}
	wide := ki.class == "float" && ki.t.Bits() == 64 || (ki.class == "int" || ki.class == "uint") && ki.t.Bits() == 64
	if ki.class == "string" || ki.class == "slice" {
		wide = true // lengths: the big region stands for 1100 +- d characters / elements
	}
	if !wide { // narrow kinds cannot sit next to a bound beyond 32 bits: keep them in the plain region
		if target > 2000000 {
			target = 2000000 - int64(rng.Intn(3))
		}
		if target < -2000000 {
			target = -2000000 + int64(rng.Intn(3))
		}
	}
	switch ki.class {
	case "int":
		bits := uint(ki.t.Bits())
		min, max := int64(-1)<<(bits-1), int64(1)<<(bits-1)-1
		if bits == 64 {
			min, max = -rulesBigModel-100, rulesBigModel+100
			if target > rulesExtModel-1000 || target < -(rulesExtModel-1000) {
				min, max = -rulesExtModel, rulesExtModel
			}
		}
		if target < min {
			target = min
		}
		if target > max {
			target = max
		}
		if target == 0 {
			target = int64(1 - 2*rng.Intn(2))
		}
		v.N = target
	case "uint":
		bits := uint(ki.t.Bits())
		max := int64(rulesBigModel + 100)
		if bits == 64 && target > rulesExtModel-1000 {
			max = rulesExtModel
		}
		if bits < 64 {
			max = int64(1)<<bits - 1
		}
		if target <= 0 {
			target = int64(rulesRndIn(rng, 1, 3))
		}
		if target > max {
			target = max
		}
		v.N = target
	case "float":
		// one time in three: the representable neighbour of the target instead of the target itself (also of 0)
		if rng.Intn(3) == 0 && (ki.t.Bits() == 64 || (target < 2000000 && target > -2000000)) {
			v.Eps = 1 - 2*rng.Intn(2)
		}
		if target == 0 && v.Eps == 0 {
			target = int64(1 - 2*rng.Intn(2))
		}
		v.N = target
	case "slice":
		if target < 1 {
			target = int64(rulesRndIn(rng, 1, 2))
		}
		if target > 45 && target < rulesBigModel-100 {
			target = 45
		}
		if target > rulesBigModel+100 {
			target = rulesBigModel + 100
		}
		v.N = target
	case "string":
		if kind == "string_rep" {
			if target < rulesBigModel-100 {
				target = rulesBigModel - 100
			}
			if target > rulesBigModel+100 {
				target = rulesBigModel + 100
			}
			v.N = target
			for i := rulesRndIn(rng, 1, 3); i > 0; i-- {
				v.Cps = append(v.Cps, rulesAlphabet[rng.Intn(len(rulesAlphabet))])
			}
			break
		}
		if target < 1 {
			target = int64(rulesRndIn(rng, 1, 2))
		}
		if target > 45 {
			target = 45
		}
		for i := int64(0); i < target; i++ {
			v.Cps = append(v.Cps, rulesAlphabet[rng.Intn(len(rulesAlphabet))])
		}
	}
	return v
}

func rulesRecord(args []string) error {
	fs := flag.NewFlagSet("rules-record", flag.ContinueOnError)
	n := fs.Int("n", 1000, "number of tuples")
	outp := fs.String("out", "", "output ndjson")
	carriers := fs.String("carriers", "tag,rm,var,map,url,urle", "carriers to draw from")
	if err := fs.Parse(args); err != nil {
		return err
	}
	f, err := os.Create(*outp)
	if err != nil {
		return err
	}
	defer f.Close()
	out := newLineWriter(f)
	defer out.flush()
	rng := rand.New(rand.NewSource(seed()*7919 + 17))
	cl := rulesCarrierList(*carriers)
	for id := 1; id <= *n; id++ {
		kind := rulesKindOrder[rng.Intn(len(rulesKindOrder))]
		class := rulesKinds[kind].class
		rule := rulesIntervalRules[rng.Intn(len(rulesIntervalRules))]
		scales := []int{4, 120, 1000000}
		if class == "string" || class == "slice" {
			scales = []int{4, 12, 40}
		}
		sc := scales[rng.Intn(len(scales))]
		lo := rulesRndIn(rng, -sc, sc)
		big := class != "string" && rng.Intn(8) == 0
		if kind == "string_rep" {
			big = true
		}
		if big { // a bound beyond 32 bits (model: rulesBigModel + d, real: 2^53 + d for integers, 2^40 + d for floats)
			lo = (1 - 2*rng.Intn(2)) * (rulesBigModel + rulesRndIn(rng, -3, 3))
		}
		// a bound at the very end of the int64 range (64-bit integer kinds only: the others have no value near it)
		ext := (class == "int" || class == "uint") && rulesKinds[kind].t.Bits() == 64 && rng.Intn(12) == 0
		if ext {
			lo = (1 - 2*rng.Intn(2)) * (rulesExtModel - rulesRndIn(rng, 0, 2))
		}
		hi := lo
		if rule == "to" || rule == "oto" {
			if rng.Intn(3) == 0 {
				hi = rulesRndIn(rng, -sc, sc)
			} else {
				hi = lo + rulesRndIn(rng, -2, 6)
			}
		}
		if hi > rulesExtModel {
			hi = rulesExtModel
		}
		if hi < -rulesExtModel {
			hi = -rulesExtModel
		}
		b := lo
		if rng.Intn(2) == 0 {
			b = hi
		}
		var target int64
		if class == "float" {
			target = int64(2*b + rulesRndIn(rng, -2, 2))
		} else {
			target = int64(b + rulesRndIn(rng, -1, 1))
		}
		if rng.Intn(10) == 0 { // sometimes far from the bounds
			target = int64(rulesRndIn(rng, -2*sc, 2*sc))
		}
		if kind == "float32" && (target > 2000000 || target < -2000000) {
			target = int64(rulesRndIn(rng, -2*sc, 2*sc)) // float32 cannot sit next to 2^40
		}
		av := rulesRandomValue(rng, kind, target)
		v, err := rulesConc(kind, av)
		if err != nil {
			return err
		}
		var carrier string
		for {
			carrier = cl[rng.Intn(len(cl))]
			if rulesApplicable(carrier, kind, v) {
				break
			}
		}
		msg := ""
		if rng.Intn(2) == 0 {
			msg = "tk0"
		}
		rules := rulesText(kind, rule, lo, hi, msg)
		ob := rulesAbstractC(carrier, kind, v, rules, rng)
		if ob.Verdict != "0" && ob.Verdict != "1" {
			out.put(map[string]interface{}{"id": id, "bad": ob, "kind": kind, "n": av.N, "far": av.Far, "cps": av.Cps, "eps": av.Eps, "carrier": carrier, "rules": rules,
				"rule": rule, "lo": lo, "hi": hi})
			continue
		}
		out.put(rulesTuple{ID: id, Rule: rule, Lo: lo, Hi: hi, Kind: kind, N: av.N, Far: av.Far, Cps: av.Cps, Eps: av.Eps, Carrier: carrier, Rules: rules,
			Violated: ob.Verdict == "1"})
	}
	return nil
}

// ------------------------------------------------------------------ rules-agree: one value, one rule list, every carrier (C18)

type rulesAgreeRule struct {
	Key  string `json:"key"`
	Lo   int    `json:"lo"`
	Hi   int    `json:"hi"`
	Tok  string `json:"tok"`
	Iv   bool   `json:"iv"`
	Text string `json:"text"`
}

type rulesAgreeObs struct {
	C      string   `json:"c"`
	Toks   []string `json:"toks"`
	Bodies []string `json:"bodies"`
	V      string   `json:"v"`
}

type rulesAgreeRec struct {
	ID    int              `json:"id"`
	Kind  string           `json:"kind"`
	N     int64            `json:"n"`
	Far   int              `json:"far"`
	Cps   []int32          `json:"cps"`
	Eps   int              `json:"eps"`
	Str   string           `json:"str"`
	Rules []rulesAgreeRule `json:"rules"`
	Obs   []rulesAgreeObs  `json:"obs"`
}

// format / content rules with fixed sample arguments, each with values that are members or near-misses (the languages
// themselves are C05's business; here only the agreement of the carriers is judged)
var rulesFormat = []struct {
	text    string
	samples []string
	numeric bool // also meaningful for numeric kinds
}{
	{"phone", []string{"13812345678", "12812345678", "1381234567"}, false},
	{"email", []string{"ab.cd@ef.com", "ab@cd", "a_b@x-y.org"}, false},
	{"idcard", []string{"110101199003071234", "11010119900307123X", "1101011990030712"}, false},
	{"int", []string{"12345", "12a45", "007"}, true},
	{"float", []string{"12.5", "12", "1.2.3"}, true},
	{"ints", []string{"1,2,3", "1,b,3", "12"}, false},
	{"in=(ab/cd/12/3)", []string{"ab", "cd", "12", "abc", "3"}, true},
	{"include=(ab/12)", []string{"xxabyy", "x12", "a b"}, false},
	{"prefix=ab", []string{"abzz", "bazz", "ab"}, false},
	{"suffix=yz", []string{"qqyz", "qqzy", "yz"}, false},
	{"year", []string{"1996", "96", "19a6"}, false},
	{"year2month", []string{"1996-09", "1996-13", "1996/09"}, false},
	{"year2month=/", []string{"1996/09", "1996-09"}, false},
	{"date", []string{"1996-09-28", "1996-02-30", "1996/09/28"}, false},
	{"date=/", []string{"1996/09/28", "1996-09-28"}, false},
	{"datetime", []string{"1996-09-28 23:00:00", "1996-09-28 24:00:00", "1996-09-28"}, false},
	{"ip", []string{"1.2.3.4", "::1", "1.2.3"}, false},
	{"ipv4", []string{"1.2.3.4", "::1", "256.1.1.1"}, false},
	{"ipv6", []string{"fe80::1", "1.2.3.4", "::g"}, false},
	{"unique", []string{"a,b,c", "a,b,a", "x"}, false},
	{"json", []string{`{"a":1}`, `{"a":1`, "[1,2]"}, false},
	{"re='^[a-c]+$'", []string{"abc", "abd", "cab"}, false},
}

var rulesMutAlphabet = []rune("019aZ-_/.:@ ,&=%+#?'\"(中é😀")

func rulesMutate(rng *rand.Rand, s string) string {
	rs := []rune(s)
	for k := rulesRndIn(rng, 1, 2); k > 0; k-- {
		c := rulesMutAlphabet[rng.Intn(len(rulesMutAlphabet))]
		switch op := rng.Intn(3); {
		case op == 0 || len(rs) == 0: // insert
			i := rng.Intn(len(rs) + 1)
			rs = append(rs[:i], append([]rune{c}, rs[i:]...)...)
		case op == 1 && len(rs) > 1: // delete
			i := rng.Intn(len(rs))
			rs = append(rs[:i], rs[i+1:]...)
		default: // replace
			rs[rng.Intn(len(rs))] = c
		}
	}
	return string(rs)
}

func rulesAgree(args []string) error {
	fs := flag.NewFlagSet("rules-agree", flag.ContinueOnError)
	n := fs.Int("n", 1000, "number of (value, rule list) pairs")
	outp := fs.String("out", "", "output ndjson")
	carriers := fs.String("carriers", "all", "carriers")
	if err := fs.Parse(args); err != nil {
		return err
	}
	f, err := os.Create(*outp)
	if err != nil {
		return err
	}
	defer f.Close()
	out := newLineWriter(f)
	defer out.flush()
	rng := rand.New(rand.NewSource(seed()*104729 + 5))
	cl := rulesCarrierList(*carriers)
	scalarKinds := rulesKindOrder[:13]
	for id := 1; id <= *n; id++ {
		kind := "string"
		if rng.Intn(5) < 2 {
			kind = scalarKinds[1+rng.Intn(12)]
		}
		class := rulesKinds[kind].class
		nrules := rulesRndIn(rng, 1, 3)
		var rs []rulesAgreeRule
		var texts []string
		pool := []string{}
		for i := 0; i < nrules; i++ {
			tok := "tk" + strconv.Itoa(i)
			msg := tok
			switch rng.Intn(4) {
			case 0:
				msg = tok + " " // a message (hence a rule text) that ends in a blank: no carrier may trim it
			case 1:
				msg = "n=1 " + tok // a message that contains the connector '=': it stays part of the message
			}
			if rng.Intn(2) == 0 || (class != "string" && rng.Intn(3) > 0) {
				rule := rulesIntervalRules[rng.Intn(len(rulesIntervalRules))]
				lo := rulesRndIn(rng, -3, 12)
				hi := lo
				if rule == "to" || rule == "oto" {
					hi = lo + rulesRndIn(rng, -2, 6)
				}
				rs = append(rs, rulesAgreeRule{Key: rule, Lo: lo, Hi: hi, Tok: tok, Iv: true, Text: rulesText(kind, rule, lo, hi, msg)})
				pool = append(pool, strings.Repeat("x", rulesRndIn(rng, 1, 13)))
			} else {
				var fr = rulesFormat[rng.Intn(len(rulesFormat))]
				for class != "string" && !fr.numeric {
					fr = rulesFormat[rng.Intn(len(rulesFormat))]
				}
				rs = append(rs, rulesAgreeRule{Key: fr.text, Tok: tok, Iv: false, Text: fr.text + "|" + msg})
				pool = append(pool, fr.samples...)
			}
			texts = append(texts, rs[i].Text)
		}
		av := rulesVal{Cps: []int32{}}
		str := ""
		switch class {
		case "string":
			str = pool[rng.Intn(len(pool))]
			if rng.Intn(2) == 0 {
				str = rulesMutate(rng, str)
			}
			if str == "" || strings.Contains(str, ";") {
				str = "x"
			}
			for _, r := range str {
				av.Cps = append(av.Cps, int32(r))
			}
		case "float":
			av = rulesRandomValue(rng, kind, int64(rulesRndIn(rng, -8, 28)))
		default:
			av = rulesRandomValue(rng, kind, int64(rulesRndIn(rng, -4, 14)))
		}
		v, err := rulesConc(kind, av)
		if err != nil {
			return err
		}
		rec := rulesAgreeRec{ID: id, Kind: kind, N: av.N, Far: av.Far, Cps: av.Cps, Eps: av.Eps, Str: str, Rules: rs}
		rules := strings.Join(texts, ",")
		for _, c := range cl {
			if !rulesApplicable(c, kind, v) {
				continue
			}
			ob := rulesAbstractC(c, kind, v, rules, rng)
			if ob.Verdict == "P" {
				ob.Bodies = append(ob.Bodies, "panic: "+ob.Panic)
			}
			rec.Obs = append(rec.Obs, rulesAgreeObs{C: c, Toks: ob.Toks, Bodies: ob.Bodies, V: ob.Verdict})
		}
		out.put(rec)
	}
	return nil
}
