package main

// Walker conformance (C02, C04): concretises the scenarios of spec/Walker.tla into real Go values and types
// (fixed named types + RM, reflect.StructOf types with tags, generated named types), runs the real walkers
// (Struct / Var / Map / Url) with probe functions registered per call, and abstracts the returned error into the
// clause records the specification speaks about. No verdict is taken here: results are compared with the
// expectation computed by TLC (replay) or judged by TLC against Trace_Walker.tla (recorded traces).

import (
	"crypto/sha1"
	"encoding/hex"
	"encoding/json"
	"flag"
	"fmt"
	"math/rand"
	"os"
	"reflect"
	"strconv"
	"strings"
	"sync/atomic"
	"time"
	"unsafe"

	"gitee.com/xuesongtao/protoc-go-valid/valid"
)

func init() {
	register("walker-replay", walkerReplay)
	register("walker-groupslast", walkerGroupsLast)
	register("walker-genprog", walkerGenProg)
	register("walker-record", walkerRecord)
}

// ---------------------------------------------------------------- scenario (wire format of spec/Walker.tla)

type walkerTy struct {
	K  string     `json:"k"`
	N  int        `json:"n"`
	Of []walkerTy `json:"of"`
}

type walkerVal struct {
	K    string      `json:"k"`
	Nil  bool        `json:"nil"`
	N    int         `json:"n"`
	Kids []walkerVal `json:"kids"`
}

type walkerRule struct {
	Key  string `json:"key"`
	Lo   int    `json:"lo"`
	Hi   int    `json:"hi"`
	Msg  string `json:"msg"`
	Text string `json:"text,omitempty"`
}

type walkerField struct {
	Name  string       `json:"name"`
	Exp   bool         `json:"exp"`
	Emb   bool         `json:"emb"`
	Ty    walkerTy     `json:"ty"`
	Rules []walkerRule `json:"rules"`
}

type walkerTypeDef struct {
	Name   string        `json:"name"`
	Fields []walkerField `json:"fields"`
}

type walkerScn struct {
	Styles []string        `json:"styles"`
	Types  []walkerTypeDef `json:"types"`
	RootTy walkerTy        `json:"rootTy"`
	Root   walkerVal       `json:"root"`
}

type walkerClause struct {
	Path string `json:"path"`
	Echo string `json:"echo"`
	Cls  string `json:"cls"`
}

type walkerMarker struct {
	Cls string `json:"cls"`
	Pre string `json:"pre"`
}

// walkerRuleText is the concrete syntax of one rule (the specification's RuleText; the trace spec re-derives it
// and compares it with what the probe functions received).
func walkerRuleText(r walkerRule) string {
	if r.Text != "" {
		return r.Text
	}
	base := r.Key
	switch r.Key {
	case "to", "oto":
		base = r.Key + "=" + strconv.Itoa(r.Lo) + "~" + strconv.Itoa(r.Hi)
	case "ge", "gt", "eq", "noeq":
		base = r.Key + "=" + strconv.Itoa(r.Lo)
	case "le", "lt":
		base = r.Key + "=" + strconv.Itoa(r.Hi)
	}
	if r.Msg != "" {
		base += "|" + r.Msg
	}
	return base
}

func walkerRulesText(rs []walkerRule) string {
	parts := make([]string, len(rs))
	for i, r := range rs {
		parts[i] = walkerRuleText(r)
	}
	return strings.Join(parts, ",")
}

func walkerSig(types []walkerTypeDef) string {
	cp := make([]walkerTypeDef, len(types))
	for i, t := range types {
		cp[i] = walkerTypeDef{Name: t.Name}
		for _, f := range t.Fields {
			g := f
			g.Rules = nil
			for _, r := range f.Rules {
				g.Rules = append(g.Rules, walkerRule{Text: walkerRuleText(r)})
			}
			cp[i].Fields = append(cp[i].Fields, g)
		}
	}
	b, _ := json.Marshal(cp)
	h := sha1.Sum(b)
	return hex.EncodeToString(h[:8])
}

// ---------------------------------------------------------------- fixed named types (rules come from an RM)

type walkerFi struct{ A int }
type walkerFs struct{ A string }
type walkerFii struct{ A, B int }
type walkerFis struct {
	A int
	B string
}
type walkerFsi struct {
	A string
	B int
}
type walkerFss struct{ A, B string }
type walkerFisi struct {
	A int
	B string
	C int
}
type walkerFsss struct{ A, B, C string }
type walkerFiii struct{ A, B, C int }

var walkerFixedTypes = map[string]reflect.Type{
	"walkerFi":   reflect.TypeOf(walkerFi{}),
	"walkerFs":   reflect.TypeOf(walkerFs{}),
	"walkerFii":  reflect.TypeOf(walkerFii{}),
	"walkerFis":  reflect.TypeOf(walkerFis{}),
	"walkerFsi":  reflect.TypeOf(walkerFsi{}),
	"walkerFss":  reflect.TypeOf(walkerFss{}),
	"walkerFisi": reflect.TypeOf(walkerFisi{}),
	"walkerFsss": reflect.TypeOf(walkerFsss{}),
	"walkerFiii": reflect.TypeOf(walkerFiii{}),
}

// walkerGenTypes is filled by the generated file walker_gen.go (named types with tags), keyed by walkerSig.
var walkerGenTypes = map[string][]reflect.Type{}

// ---------------------------------------------------------------- concretiser

type walkerResolver struct {
	scn   *walkerScn
	mode  string // "tag": reflect.StructOf with tags; "fixed": walkerFixedTypes; "gen": walkerGenTypes; "plain": StructOf without tags
	named []reflect.Type
	memo  map[int]reflect.Type
	wide  bool // tag mode: the first type gets 258 rule-less fields in front of its own (field indices beyond one byte)
}

var walkerWideNo int32

func walkerNewResolver(scn *walkerScn, mode string) (*walkerResolver, error) {
	r := &walkerResolver{scn: scn, mode: mode, memo: map[int]reflect.Type{}}
	r.wide = mode == "tag" && atomic.AddInt32(&walkerWideNo, 1)%17 == 0
	switch mode {
	case "fixed":
		if len(scn.Types) != 1 {
			return nil, fmt.Errorf("fixed types are flat")
		}
		t, ok := walkerFixedTypes[scn.Types[0].Name]
		if !ok {
			return nil, fmt.Errorf("no fixed type %q", scn.Types[0].Name)
		}
		r.named = []reflect.Type{t}
	case "gen":
		ts, ok := walkerGenTypes[walkerSig(scn.Types)]
		if !ok {
			return nil, fmt.Errorf("no generated types for this scenario")
		}
		r.named = ts
	}
	return r, nil
}

var walkerTimeType = reflect.TypeOf(time.Time{})

func (r *walkerResolver) structType(i int) reflect.Type {
	if r.named != nil {
		return r.named[i-1]
	}
	if t, ok := r.memo[i]; ok {
		return t
	}
	td := r.scn.Types[i-1]
	fs := make([]reflect.StructField, len(td.Fields))
	for j, f := range td.Fields {
		fs[j] = reflect.StructField{Name: f.Name, Type: r.typeOf(f.Ty)}
		if r.mode == "tag" && len(f.Rules) > 0 {
			fs[j].Tag = reflect.StructTag("valid:" + strconv.Quote(walkerRulesText(f.Rules)))
		}
	}
	if r.mode == "tag" {
		// a rule-less time.Time field in front of the declared fields: it is never validated and must not shift
		// anything (values are set by field name in this mode)
		fs = append([]reflect.StructField{{Name: "Wdecoy", Type: walkerTimeType}}, fs...)
		if r.wide && i == 1 {
			pads := make([]reflect.StructField, 258)
			for k := range pads {
				pads[k] = reflect.StructField{Name: fmt.Sprintf("Wp%03d", k), Type: reflect.TypeOf(int8(0))}
			}
			fs = append(pads, fs...)
		}
	}
	t := reflect.StructOf(fs)
	r.memo[i] = t
	return t
}

func (r *walkerResolver) typeOf(t walkerTy) reflect.Type {
	switch t.K {
	case "int":
		return reflect.TypeOf(int(0))
	case "str":
		return reflect.TypeOf("")
	case "time":
		return walkerTimeType
	case "struct":
		return r.structType(t.N)
	case "ptr":
		return reflect.PtrTo(r.typeOf(t.Of[0]))
	case "slice":
		return reflect.SliceOf(r.typeOf(t.Of[0]))
	case "array":
		return reflect.ArrayOf(t.N, r.typeOf(t.Of[0]))
	case "map":
		return reflect.MapOf(reflect.TypeOf(""), r.typeOf(t.Of[0]))
	}
	panic("walker: unknown type kind " + t.K)
}

// structOfOK: reflect.StructOf cannot make unexported or embedded fields.
func walkerStructOfOK(scn *walkerScn) bool {
	if walkerCyclic(scn) {
		return false
	}
	for _, t := range scn.Types {
		for _, f := range t.Fields {
			if !f.Exp || f.Emb {
				return false
			}
		}
	}
	return true
}

// walkerUsesProbes: some rule of the scenario names a per-call probe function.
func walkerUsesProbes(scn *walkerScn) bool {
	for _, t := range scn.Types {
		for _, f := range t.Fields {
			for _, r := range f.Rules {
				if r.Key == "p_ok" || r.Key == "p_bad" {
					return true
				}
			}
		}
	}
	return false
}

// walkerCyclic: the type table refers back to a type it is reached from (recursive types exist as named types only).
func walkerCyclic(scn *walkerScn) bool {
	state := make([]int, len(scn.Types)+1) // 0 unseen, 1 on the path, 2 done
	var structsOf func(t walkerTy, out *[]int)
	structsOf = func(t walkerTy, out *[]int) {
		if t.K == "struct" {
			*out = append(*out, t.N)
		}
		for _, o := range t.Of {
			structsOf(o, out)
		}
	}
	var visit func(i int) bool
	visit = func(i int) bool {
		if i < 1 || i > len(scn.Types) {
			return false
		}
		if state[i] == 1 {
			return true
		}
		if state[i] == 2 {
			return false
		}
		state[i] = 1
		for _, f := range scn.Types[i-1].Fields {
			var refs []int
			structsOf(f.Ty, &refs)
			for _, r := range refs {
				if visit(r) {
					return true
				}
			}
		}
		state[i] = 2
		return false
	}
	for i := 1; i <= len(scn.Types); i++ {
		if visit(i) {
			return true
		}
	}
	return false
}

const walkerLetters = "abcdefghijklmnopqrstuvwxyz"

func walkerSet(dst, v reflect.Value) {
	if dst.CanSet() {
		dst.Set(v)
		return
	}
	reflect.NewAt(dst.Type(), unsafe.Pointer(dst.UnsafeAddr())).Elem().Set(v) // unexported field
}

func (r *walkerResolver) build(t walkerTy, v walkerVal) reflect.Value {
	typ := r.typeOf(t)
	out := reflect.New(typ).Elem()
	switch t.K {
	case "int":
		out.SetInt(int64(v.N))
	case "str":
		out.SetString(walkerLetters[:v.N])
	case "time":
		if v.N != 0 {
			out.Set(reflect.ValueOf(time.Unix(1700000000+int64(v.N), 0)))
		}
	case "struct":
		td := r.scn.Types[t.N-1]
		for i := range td.Fields {
			dst := out.Field(i)
			if r.named == nil {
				dst = out.FieldByName(td.Fields[i].Name)
			}
			walkerSet(dst, r.build(td.Fields[i].Ty, v.Kids[i]))
		}
	case "ptr":
		if !v.Nil {
			p := reflect.New(typ.Elem())
			p.Elem().Set(r.build(t.Of[0], v.Kids[0]))
			out.Set(p)
		}
	case "slice":
		if !v.Nil {
			s := reflect.MakeSlice(typ, len(v.Kids), len(v.Kids))
			for i, k := range v.Kids {
				s.Index(i).Set(r.build(t.Of[0], k))
			}
			out.Set(s)
		}
	case "array":
		for i, k := range v.Kids {
			out.Index(i).Set(r.build(t.Of[0], k))
		}
	case "map":
		if !v.Nil {
			m := reflect.MakeMapWithSize(typ, len(v.Kids))
			for i, k := range v.Kids {
				m.SetMapIndex(reflect.ValueOf("k"+strconv.Itoa(i+1)), r.build(t.Of[0], k))
			}
			out.Set(m)
		}
	}
	return out
}

// walkerRootStruct: index (1-based) of the struct type the root (or its elements) is made of.
func walkerRootStruct(t walkerTy) int {
	for t.K != "struct" {
		if len(t.Of) == 0 {
			return 0
		}
		t = t.Of[0]
	}
	return t.N
}

// ---------------------------------------------------------------- running one scenario through one carrier

type walkerEvent struct {
	E       string         `json:"e"`
	Scn     *walkerScn     `json:"scn,omitempty"`
	Style   string         `json:"style,omitempty"`
	Carrier string         `json:"carrier,omitempty"`
	Fp      string         `json:"fp"`
	Rule    string         `json:"rule"`
	Val     string         `json:"val"`
	Buf     []walkerClause `json:"buf"`
	Kind    string         `json:"kind"`
	Clauses []walkerClause `json:"clauses"`
	Msg     string         `json:"msg"`
}

type walkerResult struct {
	Kind    string         `json:"kind"` // nil | err | panic | skip
	Clauses []walkerClause `json:"clauses"`
	Raw     string         `json:"raw,omitempty"`
	Panic   string         `json:"panic,omitempty"`
	Probes  []walkerEvent  `json:"-"`
}

type walkerAbs struct {
	markers []walkerMarker
	style   string
	// root label renaming (the root label is an opaque name: Go type name / "map" / element type text)
	fromPrefix string // real prefix to replace when the path starts with it
	toPrefix   string
	gather     bool   // top-level slice/array/map: everything before the first "[" is the label
	strip      string // generated type-name prefix to drop from every segment
}

func (a *walkerAbs) path(p string) string {
	if a.strip != "" {
		p = strings.ReplaceAll(p, a.strip, "")
	}
	if a.style != "struct" || p == "" {
		return p
	}
	if a.gather {
		if i := strings.IndexByte(p, '['); i >= 0 {
			return "$" + p[i:]
		}
		return p
	}
	if a.fromPrefix != "" && strings.HasPrefix(p, a.fromPrefix) {
		rest := p[len(a.fromPrefix):]
		if rest == "" || rest[0] == '.' || rest[0] == '[' {
			return a.toPrefix + rest
		}
	}
	return p
}

func (a *walkerAbs) classify(text string, labelled bool) string {
	for _, m := range a.markers {
		if strings.HasPrefix(text, m.Pre) {
			switch m.Cls {
			case "tok":
				return "tok:" + text[len(m.Pre):]
			case "notexist":
				if !labelled && strings.Contains(text, "is not exist") {
					return "notexist"
				}
				continue
			case "required":
				if text == m.Pre {
					return "required"
				}
				continue
			}
			return m.Cls
		}
	}
	if labelled {
		return "msg:" + text
	}
	return "free:" + text
}

// clause: [ "path" SP ] ( input "echo" [ , label SP text ] | free text )
func (a *walkerAbs) clause(s string) walkerClause {
	c := walkerClause{Echo: "<none>"}
	rest := s
	if strings.HasPrefix(rest, "\"") {
		if j := strings.Index(rest[1:], "\" "); j >= 0 {
			c.Path = rest[1 : 1+j]
			rest = rest[j+3:]
		}
	}
	c.Path = a.path(c.Path)
	if strings.HasPrefix(rest, "input \"") {
		body := rest[len("input \""):]
		j := strings.Index(body, "\"")
		if j < 0 {
			c.Cls = "free:" + rest
			return c
		}
		c.Echo = body[:j]
		tail := body[j+1:]
		switch {
		case tail == "":
			c.Cls = "bare"
		case strings.HasPrefix(tail, ", explain: "):
			c.Cls = a.classify(tail[len(", explain: "):], true)
		case strings.HasPrefix(tail, ", 说明: "):
			c.Cls = a.classify(tail[len(", 说明: "):], true)
		default:
			c.Cls = "free:" + tail
		}
	} else {
		c.Cls = a.classify(rest, false)
	}
	if c.Cls == "notexist" && a.style != "struct" {
		c.Path = "*" // Var/Map/Url print no usable path for an unknown rule
	}
	return c
}

func (a *walkerAbs) clauses(s string) []walkerClause {
	out := []walkerClause{}
	if s == "" {
		return out
	}
	for _, part := range strings.Split(s, walkerSep) {
		out = append(out, a.clause(part))
	}
	return out
}

func walkerEcho(tv reflect.Value) string {
	switch tv.Kind() {
	case reflect.Int, reflect.Int8, reflect.Int16, reflect.Int32, reflect.Int64:
		return strconv.FormatInt(tv.Int(), 10)
	case reflect.String:
		return tv.String()
	}
	return "<" + tv.Kind().String() + ">"
}

// walkerRun executes the real library on one scenario. carrier: rm | tag | gen | var | map | url.
func walkerRun(scn *walkerScn, style, carrier string, markers []walkerMarker) (res walkerResult) {
	res.Clauses = []walkerClause{}
	abs := &walkerAbs{markers: markers, style: style}
	mode := map[string]string{"rm": "fixed", "tag": "tag", "gen": "gen"}[carrier]
	if mode == "" {
		mode = "plain"
	}
	rsv, err := walkerNewResolver(scn, mode)
	if err != nil {
		res.Kind = "skip"
		res.Raw = err.Error()
		return
	}
	probe := func(bad bool) valid.CommonValidFn {
		return func(errBuf *strings.Builder, validName, objName, fieldName string, tv reflect.Value) {
			fp := fieldName
			if objName != "" {
				fp = objName + "." + fieldName
			}
			live := strings.TrimSuffix(errBuf.String(), walkerSep)
			res.Probes = append(res.Probes, walkerEvent{E: "probe", Fp: abs.path(fp), Rule: validName, Val: walkerEcho(tv), Buf: abs.clauses(live)})
			if bad {
				errBuf.WriteString(valid.GetJoinValidErrStr(objName, fieldName, walkerEcho(tv), "explain:", "tok", validName))
			}
		}
	}
	fns := valid.Name2FnMap{"p_ok": probe(false), "p_bad": probe(true)}
	// a scenario whose rules are all built in is validated through the plain entry points: no function, no rule set
	plain := !walkerUsesProbes(scn)

	var call func() error
	rootIdx := walkerRootStruct(scn.RootTy)
	specName := ""
	if rootIdx > 0 {
		specName = scn.Types[rootIdx-1].Name
	}
	switch carrier {
	case "rm", "tag", "gen":
		if style != "struct" {
			res.Kind = "skip"
			return
		}
		if carrier == "tag" && !walkerStructOfOK(scn) {
			res.Kind = "skip"
			return
		}
		src := rsv.build(scn.RootTy, scn.Root)
		k := scn.RootTy.K
		abs.gather = k == "slice" || k == "array" || k == "map"
		var in interface{}
		switch carrier {
		case "tag":
			if k == "slice" || k == "array" {
				res.Kind = "skip" // the element label of an anonymous type is its whole definition text
				return
			}
			if k == "map" {
				in = src.Interface()
			} else { // anonymous root: give it a label by passing it as the single entry of a map
				m := reflect.MakeMap(reflect.MapOf(reflect.TypeOf(""), src.Type()))
				m.SetMapIndex(reflect.ValueOf("k1"), src)
				in = m.Interface()
				abs.fromPrefix, abs.toPrefix = "map[k1]", specName
			}
			call = func() error {
				if plain {
					return valid.ValidateStruct(in)
				}
				vs := valid.NewVStruct()
				for n, f := range fns {
					vs.SetValidFn(n, f)
				}
				return vs.Valid(in)
			}
		case "gen":
			in = src.Interface()
			abs.strip = walkerGenPrefix(rsv.named)
			call = func() error {
				if plain {
					return valid.Struct(in)
				}
				return valid.StructForFns(in, nil, fns)
			}
		case "rm":
			if k == "struct" && len(scn.Types[0].Fields)%2 == 1 { // both ways of passing a struct
				p := reflect.New(src.Type())
				p.Elem().Set(src)
				in = p.Interface()
			} else {
				in = src.Interface()
			}
			rm := valid.NewRule()
			for _, f := range scn.Types[0].Fields {
				rm[f.Name] = walkerRulesText(f.Rules)
			}
			call = func() error { return valid.StructForFns(in, rm, fns) }
		}
	case "var":
		f := scn.Types[0].Fields[0]
		x := rsv.build(f.Ty, scn.Root.Kids[0]).Interface()
		call = func() error {
			v := valid.NewVVar().SetRules(walkerRulesText(f.Rules))
			for n, fn := range fns {
				v.SetValidFn(n, fn)
			}
			return v.Valid(x)
		}
	case "map":
		fs := scn.Types[0].Fields
		m := reflect.MakeMap(reflect.MapOf(reflect.TypeOf(""), rsv.typeOf(fs[0].Ty)))
		rm := valid.NewRule()
		for i, f := range fs {
			m.SetMapIndex(reflect.ValueOf(f.Name), rsv.build(f.Ty, scn.Root.Kids[i]))
			rm[f.Name] = walkerRulesText(f.Rules)
		}
		in := m.Interface()
		call = func() error { return valid.MapFn(in, rm, fns) }
	case "url":
		fs := scn.Types[0].Fields
		rm := valid.NewRule()
		q := make([]string, len(fs))
		for i, f := range fs {
			q[i] = f.Name + "=" + walkerLetters[:scn.Root.Kids[i].N]
			rm[f.Name] = walkerRulesText(f.Rules)
		}
		u := "http://h.example/p?" + strings.Join(q, "&")
		call = func() error {
			v := valid.NewVUrl().SetRule(rm)
			for n, fn := range fns {
				v.SetValidFn(n, fn)
			}
			return v.Valid(u)
		}
	default:
		res.Kind = "skip"
		return
	}
	func() {
		defer func() {
			if p := recover(); p != nil {
				res.Kind = "panic"
				res.Panic = fmt.Sprint(p)
			}
		}()
		e := call()
		if e == nil {
			res.Kind = "nil"
			return
		}
		res.Kind = "err"
		res.Raw = e.Error()
		res.Clauses = abs.clauses(res.Raw)
	}()
	return
}

// walkerGenPrefix: generated types are called WalkerG<k>T<d>; the specification calls them T<d>.
func walkerGenPrefix(ts []reflect.Type) string {
	if len(ts) == 0 {
		return ""
	}
	n := ts[0].Name()
	if i := strings.LastIndex(n, "T"); i > 0 {
		return n[:i]
	}
	return ""
}

func walkerCarriers(scn *walkerScn, style string, withGen bool) []string {
	switch style {
	case "struct":
		cs := []string{}
		if _, ok := walkerFixedTypes[scn.Types[0].Name]; ok && len(scn.Types) == 1 && scn.RootTy.K == "struct" {
			cs = append(cs, "rm")
		}
		cs = append(cs, "tag")
		if withGen {
			cs = append(cs, "gen")
		}
		return cs
	}
	return []string{style}
}

// ---------------------------------------------------------------- walker-replay

type walkerVec struct {
	ID  int       `json:"id"`
	Scn walkerScn `json:"scn"`
}

type walkerOut struct {
	ID      int            `json:"id"`
	Style   string         `json:"style"`
	Carrier string         `json:"carrier"`
	Kind    string         `json:"kind"`
	Clauses []walkerClause `json:"clauses"`
	Raw     string         `json:"raw,omitempty"`
	Panic   string         `json:"panic,omitempty"`
	Probes  int            `json:"probes"`
	TrailOK bool           `json:"trailOK"`
	Sep     string         `json:"sep"`
}

func walkerLoadMarkers(path string) ([]walkerMarker, error) {
	b, err := os.ReadFile(path)
	if err != nil {
		return nil, err
	}
	var ms []walkerMarker
	return ms, json.Unmarshal(b, &ms)
}

// walker-replay -markers <file> [-gen] [-carriers a,b] < vectors.ndjson > results.ndjson
// ---------------------------------------------------------------- walker-groupslast: where the group clauses stand
//
// A fixed family of inputs in which field violations and group violations occur together: one object, slices / arrays /
// maps of objects (by value and by pointer) as root and as a `required` field, with 1..4 elements of which some violate
// the group, some a field rule, some both.  Every call is recorded as the sequence of its clause classes ("g" group
// clause, "f" other clause) plus the numbers of each the input calls for; spec/Judge_GroupsLast.tla judges the records.

type walkerGL struct {
	A int    `valid:"either=1"`
	B int    `valid:"either=1"`
	C string `valid:"required"`
	P string `valid:"botheq=2"`
	Q string `valid:"botheq=2"`
}

type walkerGLOuter struct {
	L []walkerGL          `valid:"required"`
	D string              `valid:"required"`
	M map[string]walkerGL `valid:"exist"`
	E int                 `valid:"ge=5"`
}

// elem k: bit 0 = the either group is violated, bit 1 = the field rule is violated, bit 2 = the botheq group is violated
func walkerGLElem(k int) (e walkerGL, g, f int) {
	e = walkerGL{A: 1, C: "c", P: "x", Q: "x"}
	if k&1 != 0 {
		e.A = 0
		g++
	}
	if k&2 != 0 {
		e.C = ""
		f++
	}
	if k&4 != 0 {
		e.Q = "y"
		g++
	}
	return
}

type walkerGLRec struct {
	ID    int      `json:"id"`
	Shape string   `json:"shape"`
	Elems []int    `json:"elems"`
	Kinds []string `json:"kinds"`
	WantG int      `json:"wantg"`
	WantF int      `json:"wantf"`
	Err   string   `json:"err"`
}

func walkerGroupsLast(args []string) error {
	out := newLineWriter(os.Stdout)
	defer out.flush()
	id := 0
	var combos [][]int
	for n := 1; n <= 3; n++ {
		idx := make([]int, n)
		for {
			combos = append(combos, append([]int(nil), idx...))
			k := n - 1
			for k >= 0 {
				idx[k]++
				if idx[k] < 8 {
					break
				}
				idx[k] = 0
				k--
			}
			if k < 0 {
				break
			}
		}
	}
	for _, shape := range []string{"one", "slice", "pslice", "array", "map", "field", "fieldmap"} {
		for _, cb := range combos {
			if (shape == "one" && len(cb) != 1) || (shape == "array" && len(cb) != 2) || ((shape == "map" || shape == "fieldmap") && len(cb) != 1) {
				continue
			}
			var src interface{}
			g, f := 0, 0
			es := make([]walkerGL, len(cb))
			for i, k := range cb {
				var dg, df int
				es[i], dg, df = walkerGLElem(k)
				g += dg
				f += df
			}
			switch shape {
			case "one":
				src = &es[0]
			case "slice":
				src = es
			case "pslice":
				ps := make([]*walkerGL, len(es))
				for i := range es {
					ps[i] = &es[i]
				}
				src = ps
			case "array":
				src = [2]walkerGL{es[0], es[1]}
			case "map":
				src = map[string]walkerGL{"k1": es[0]}
			case "field":
				src = &walkerGLOuter{L: es, E: 1} // D missing, E below 5: two field clauses of the outer object BEHIND the nested ones
				f += 2
			case "fieldmap":
				src = &walkerGLOuter{L: []walkerGL{{A: 1, C: "c", P: "x", Q: "x"}}, D: "d", M: map[string]walkerGL{"k1": es[0]}, E: 1}
				f++
			}
			id++
			rec := walkerGLRec{ID: id, Shape: shape, Elems: cb, Kinds: []string{}, WantG: g, WantF: f}
			func() {
				defer func() {
					if p := recover(); p != nil {
						rec.Err = "panic: " + fmt.Sprint(p)
						rec.Kinds = []string{"panic"}
					}
				}()
				if err := valid.Struct(src); err != nil {
					rec.Err = err.Error()
					for _, cl := range strings.Split(rec.Err, valid.ErrEndFlag) {
						if strings.Contains(cl, "they shouldn't all be empty") || strings.Contains(cl, "they should be equal") {
							rec.Kinds = append(rec.Kinds, "g")
						} else {
							rec.Kinds = append(rec.Kinds, "f")
						}
					}
				}
			}()
			out.put(rec)
		}
	}
	return nil
}

// walkerSep is the clause separator of this process.  The library takes it from the exported variable ErrEndFlag; with
// VERIF_ENDFLAG set the harness assigns that variable before the first call and splits errors at the same text, so the
// walkers are also observed under a separator other than the default one.
var walkerSep = "; "

func walkerSetSep() {
	if s := os.Getenv("VERIF_ENDFLAG"); s != "" {
		valid.ErrEndFlag = s
		walkerSep = s
	}
}

func walkerReplay(args []string) error {
	walkerSetSep()
	fs := flag.NewFlagSet("walker-replay", flag.ContinueOnError)
	mpath := fs.String("markers", "", "marker table (json) printed by Gen_Walker")
	withGen := fs.Bool("gen", false, "run the generated named types too")
	only := fs.String("carriers", "", "restrict to these carriers")
	if err := fs.Parse(args); err != nil {
		return err
	}
	markers, err := walkerLoadMarkers(*mpath)
	if err != nil {
		return err
	}
	allow := map[string]bool{}
	for _, c := range strings.Split(*only, ",") {
		if c != "" {
			allow[c] = true
		}
	}
	in := newLineReader(os.Stdin)
	out := newLineWriter(os.Stdout)
	defer out.flush()
	for {
		var v walkerVec
		if !in.next(&v) {
			break
		}
		for _, style := range v.Scn.Styles {
			for _, carrier := range walkerCarriers(&v.Scn, style, *withGen) {
				if len(allow) > 0 && !allow[carrier] {
					continue
				}
				r := walkerRun(&v.Scn, style, carrier, markers)
				if r.Kind == "skip" {
					continue
				}
				out.put(walkerOut{ID: v.ID, Style: style, Carrier: carrier, Kind: r.Kind, Clauses: r.Clauses, Raw: r.Raw,
					Panic: r.Panic, Probes: len(r.Probes), TrailOK: !strings.HasSuffix(r.Raw, walkerSep) && !strings.HasSuffix(r.Raw, strings.TrimSpace(walkerSep)), Sep: walkerSep})
			}
		}
	}
	return nil
}

// ---------------------------------------------------------------- walker-genprog: named types as Go source

func walkerGoType(t walkerTy, prefix string) string {
	switch t.K {
	case "int":
		return "int"
	case "str":
		return "string"
	case "time":
		return "time.Time"
	case "struct":
		return prefix + "T" + strconv.Itoa(t.N)
	case "ptr":
		return "*" + walkerGoType(t.Of[0], prefix)
	case "slice":
		return "[]" + walkerGoType(t.Of[0], prefix)
	case "array":
		return "[" + strconv.Itoa(t.N) + "]" + walkerGoType(t.Of[0], prefix)
	case "map":
		return "map[string]" + walkerGoType(t.Of[0], prefix)
	}
	return "interface{}"
}

// walker-genprog < vectors.ndjson > walker_gen.go : one set of named types (with tags) per distinct type table
func walkerGenProg(args []string) error {
	in := newLineReader(os.Stdin)
	var b strings.Builder
	b.WriteString("// Code generated by vh walker-genprog. DO NOT EDIT.\npackage main\n\nimport (\n\t\"reflect\"\n\t\"time\"\n)\n\nvar _ = time.Time{}\n\n")
	seen := map[string]bool{}
	var reg strings.Builder
	k := 0
	for {
		var v walkerVec
		if !in.next(&v) {
			break
		}
		sig := walkerSig(v.Scn.Types)
		if seen[sig] {
			continue
		}
		seen[sig] = true
		k++
		prefix := "WalkerG" + strconv.Itoa(k)
		names := []string{}
		for i, td := range v.Scn.Types {
			if td.Name != "T"+strconv.Itoa(i+1) {
				return fmt.Errorf("generated programs need types named T<i>, got %q", td.Name)
			}
			name := prefix + "T" + strconv.Itoa(i+1)
			names = append(names, "reflect.TypeOf("+name+"{})")
			fmt.Fprintf(&b, "type %s struct {\n", name)
			for _, f := range td.Fields {
				tag := ""
				if len(f.Rules) > 0 {
					tag = " `valid:" + strconv.Quote(walkerRulesText(f.Rules)) + "`"
				}
				if f.Emb {
					fmt.Fprintf(&b, "\t%s%s\n", walkerGoType(f.Ty, prefix), tag)
				} else {
					fmt.Fprintf(&b, "\t%s %s%s\n", f.Name, walkerGoType(f.Ty, prefix), tag)
				}
			}
			b.WriteString("}\n\n")
		}
		fmt.Fprintf(&reg, "\twalkerGenTypes[%q] = []reflect.Type{%s}\n", sig, strings.Join(names, ", "))
		if k%200 == 0 { // many small init functions: one huge function overflows the compiler's liveness bitmaps
			b.WriteString("func init() {\n" + reg.String() + "}\n\n")
			reg.Reset()
		}
	}
	b.WriteString("func init() {\n" + reg.String() + "}\n")
	_, err := os.Stdout.WriteString(b.String())
	return err
}

// ---------------------------------------------------------------- walker-record: traces for Trace_Walker.tla

type walkerGen struct {
	rnd     *rand.Rand
	nils    bool // nil elements / nil inner pointers allowed
	noInv   bool // no inverted intervals (to=5~1): that class belongs to C02
	orders  int  // product of n! over the maps built so far (bounds the number of entry orders TLC has to consider)
	depth   int
	msgN    int
	unknown int
}

func (g *walkerGen) pick(xs ...string) string { return xs[g.rnd.Intn(len(xs))] }

func (g *walkerGen) msg() string {
	if g.rnd.Intn(3) > 0 {
		return ""
	}
	g.msgN++
	if g.rnd.Intn(4) == 0 {
		return "须" + strconv.Itoa(g.msgN) // a Chinese message takes the Chinese label
	}
	return "mm" + strconv.Itoa(g.msgN)
}

func (g *walkerGen) scalarRule() walkerRule {
	switch g.rnd.Intn(12) {
	case 0:
		return walkerRule{Key: "required", Msg: g.msg()}
	case 1:
		return walkerRule{Key: ""}
	case 2:
		g.unknown++
		return walkerRule{Key: "nosuch" + strconv.Itoa(g.unknown%3)}
	case 3, 4:
		return walkerRule{Key: "p_ok", Msg: g.msg()}
	case 5, 6:
		return walkerRule{Key: "p_bad", Msg: g.msg()}
	}
	key := g.pick("to", "oto", "ge", "le", "gt", "lt", "eq", "noeq")
	r := walkerRule{Key: key, Msg: g.msg()}
	switch key {
	case "to", "oto":
		r.Lo, r.Hi = g.rnd.Intn(8)-1, g.rnd.Intn(8)-1
		if g.noInv && r.Lo >= r.Hi {
			r.Lo, r.Hi = r.Hi, r.Lo+1
		}
	case "le", "lt":
		r.Hi = g.rnd.Intn(8) - 1
	default:
		r.Lo = g.rnd.Intn(8) - 1
	}
	return r
}

func (g *walkerGen) rules(max int) []walkerRule {
	n := g.rnd.Intn(max + 1)
	rs := make([]walkerRule, 0, n)
	for i := 0; i < n; i++ {
		rs = append(rs, g.scalarRule())
	}
	return rs
}

func walkerWrap(kind string, t walkerTy) walkerTy {
	p := func(x walkerTy) walkerTy { return walkerTy{K: "ptr", Of: []walkerTy{x}} }
	switch kind {
	case "ptr":
		return p(t)
	case "ptrptr":
		return p(p(t))
	case "slice":
		return walkerTy{K: "slice", Of: []walkerTy{t}}
	case "sliceptr":
		return walkerTy{K: "slice", Of: []walkerTy{p(t)}}
	case "array":
		return walkerTy{K: "array", N: 2, Of: []walkerTy{t}}
	case "arrayptr":
		return walkerTy{K: "array", N: 2, Of: []walkerTy{p(t)}}
	case "map":
		return walkerTy{K: "map", Of: []walkerTy{t}}
	case "mapptr":
		return walkerTy{K: "map", Of: []walkerTy{p(t)}}
	}
	return t
}

var walkerKinds = []string{"value", "ptr", "ptrptr", "slice", "sliceptr", "array", "arrayptr", "map", "mapptr"}

func (g *walkerGen) types() []walkerTypeDef {
	ts := make([]walkerTypeDef, g.depth)
	for d := 1; d <= g.depth; d++ {
		td := walkerTypeDef{Name: "T" + strconv.Itoa(d)}
		ns := 1 + g.rnd.Intn(3)
		for i := 0; i < ns; i++ {
			k := g.pick("int", "str")
			td.Fields = append(td.Fields, walkerField{Name: string(rune('A' + i)), Exp: true, Ty: walkerTy{K: k, Of: []walkerTy{}}, Rules: g.rules(5)})
		}
		if d < g.depth {
			nc := 1 + g.rnd.Intn(2)
			for j := 0; j < nc; j++ {
				kind := walkerKinds[g.rnd.Intn(len(walkerKinds))]
				var rs []walkerRule
				switch g.rnd.Intn(8) {
				case 0:
					rs = []walkerRule{}
				case 1:
					rs = []walkerRule{{Key: "p_ok"}}
				case 2:
					rs = []walkerRule{{Key: ""}, {Key: "exist"}, {Key: "nosuch1"}}
				case 3:
					rs = []walkerRule{{Key: "required", Msg: g.msg()}, {Key: "exist"}}
				case 4, 5:
					rs = []walkerRule{{Key: "exist"}}
				default:
					rs = []walkerRule{{Key: "required", Msg: g.msg()}}
				}
				td.Fields = append(td.Fields, walkerField{Name: "K" + strconv.Itoa(j+1), Exp: true,
					Ty: walkerWrap(kind, walkerTy{K: "struct", N: d + 1, Of: []walkerTy{}}), Rules: rs})
			}
		}
		for i := range td.Fields {
			if td.Fields[i].Rules == nil {
				td.Fields[i].Rules = []walkerRule{}
			}
		}
		ts[d-1] = td
	}
	return ts
}

func walkerZero(types []walkerTypeDef, t walkerTy) walkerVal {
	v := walkerVal{K: t.K, Kids: []walkerVal{}}
	switch t.K {
	case "ptr", "slice", "map":
		v.Nil = true
	case "array":
		v.N = t.N
		for i := 0; i < t.N; i++ {
			v.Kids = append(v.Kids, walkerZero(types, t.Of[0]))
		}
	case "struct":
		v.N = t.N
		for _, f := range types[t.N-1].Fields {
			v.Kids = append(v.Kids, walkerZero(types, f.Ty))
		}
	}
	return v
}

func (g *walkerGen) value(types []walkerTypeDef, t walkerTy, top bool) walkerVal {
	v := walkerVal{K: t.K, Kids: []walkerVal{}}
	switch t.K {
	case "int":
		if g.rnd.Intn(4) > 0 {
			v.N = g.rnd.Intn(8) - 1
		}
	case "str":
		if g.rnd.Intn(4) > 0 {
			v.N = 1 + g.rnd.Intn(6)
		}
	case "struct":
		v.N = t.N
		if !top && g.rnd.Intn(6) == 0 {
			return walkerZero(types, t)
		}
		for _, f := range types[t.N-1].Fields {
			v.Kids = append(v.Kids, g.value(types, f.Ty, false))
		}
	case "ptr":
		wantNil := g.rnd.Intn(5) == 0
		if top && !g.nils { // a nil root pointer belongs to the nil-handling class
			wantNil = false
		}
		if wantNil {
			v.Nil = true
			return v
		}
		inner := g.value(types, t.Of[0], top)
		if t.Of[0].K == "ptr" && inner.Nil && !g.nils { // **T: without nils the inner pointer is never nil
			v.Nil = true
			return v
		}
		v.Kids = []walkerVal{inner}
	case "slice", "map":
		if t.K == "slice" && t.Of[0].K == "ptr" && g.nils && g.rnd.Intn(5) == 0 {
			// a WIDE slice: 66..80 elements, almost all of them nil pointers, the last one always populated - whatever
			// is done per skipped element must not add up to anything
			n := 66 + g.rnd.Intn(15)
			for i := 0; i < n; i++ {
				if i < n-1 && g.rnd.Intn(12) > 0 {
					v.Kids = append(v.Kids, walkerVal{K: "ptr", Nil: true, Kids: []walkerVal{}})
				} else {
					v.Kids = append(v.Kids, walkerVal{K: "ptr", Kids: []walkerVal{g.value(types, t.Of[0].Of[0], false)}})
				}
			}
			return v
		}
		switch g.rnd.Intn(6) {
		case 0:
			v.Nil = true
		case 1:
		default:
			n := 1 + g.rnd.Intn(3)
			if t.K == "map" {
				f := 1
				for i := 2; i <= n; i++ {
					f *= i
				}
				if g.orders*f > 12 {
					n, f = 1, 1
				}
				g.orders *= f
			}
			for i := 0; i < n; i++ {
				v.Kids = append(v.Kids, g.elem(types, t.Of[0]))
			}
		}
	case "array":
		v.N = t.N
		for i := 0; i < t.N; i++ {
			v.Kids = append(v.Kids, g.elem(types, t.Of[0]))
		}
	}
	return v
}

// elem: an element of a collection; without nils a pointer element always points to something
func (g *walkerGen) elem(types []walkerTypeDef, t walkerTy) walkerVal {
	if t.K == "ptr" {
		if g.nils && g.rnd.Intn(4) == 0 {
			return walkerVal{K: "ptr", Nil: true, Kids: []walkerVal{}}
		}
		return walkerVal{K: "ptr", Kids: []walkerVal{g.value(types, t.Of[0], false)}}
	}
	return g.value(types, t, false)
}

func walkerFlatStyles(td walkerTypeDef) []string {
	st := []string{"struct"}
	kinds := map[string]bool{}
	some := false
	for _, f := range td.Fields {
		kinds[f.Ty.K] = true
		if walkerRulesText(f.Rules) != "" {
			some = true
		}
	}
	if len(td.Fields) == 1 && some {
		st = append(st, "var")
	}
	if len(kinds) == 1 {
		st = append(st, "map")
		if kinds["str"] {
			st = append(st, "url")
		}
	}
	return st
}

func (g *walkerGen) scenario() walkerScn {
	g.depth = 1 + g.rnd.Intn(3)
	g.orders = 1
	types := g.types()
	s := walkerScn{Types: types, Styles: []string{"struct"}}
	root := walkerTy{K: "struct", N: 1, Of: []walkerTy{}}
	if g.depth == 1 {
		s.Styles = walkerFlatStyles(types[0])
		if g.rnd.Intn(3) == 0 {
			s.RootTy = walkerWrap("ptr", root)
		} else {
			s.RootTy = root
		}
	} else {
		s.RootTy = walkerWrap(g.pick("value", "value", "ptr", "ptrptr", "map", "mapptr", "slice", "sliceptr", "array"), root)
	}
	if s.RootTy.K != "struct" {
		s.Styles = []string{"struct"}
	}
	s.Root = g.value(types, s.RootTy, true)
	return s
}

func walkerStripText(s *walkerScn) *walkerScn {
	c := *s
	c.Types = make([]walkerTypeDef, len(s.Types))
	for i, t := range s.Types {
		c.Types[i] = walkerTypeDef{Name: t.Name, Fields: make([]walkerField, len(t.Fields))}
		for j, f := range t.Fields {
			g := f
			g.Rules = make([]walkerRule, len(f.Rules))
			for k, r := range f.Rules {
				g.Rules[k] = walkerRule{Key: r.Key, Lo: r.Lo, Hi: r.Hi, Msg: r.Msg}
			}
			c.Types[i].Fields[j] = g
		}
	}
	return &c
}

// walker-record -markers f -out prefix -shards k [-n N -nils] [-stdin] [-gen]
// Writes traces  scn probe* (ret|panic)  for random scenarios (seeded) or for the scenarios on stdin.
func walkerRecord(args []string) error {
	walkerSetSep()
	fs := flag.NewFlagSet("walker-record", flag.ContinueOnError)
	mpath := fs.String("markers", "", "marker table")
	outp := fs.String("out", "walkertrace", "output prefix")
	shards := fs.Int("shards", 4, "number of output files")
	n := fs.Int("n", 100, "number of random scenarios")
	nils := fs.Bool("nils", false, "generate nil elements and nil inner pointers")
	stdin := fs.Bool("stdin", false, "record the scenarios read from stdin instead of random ones")
	withGen := fs.Bool("gen", false, "use the generated named types")
	only := fs.String("carriers", "", "restrict to these carriers")
	dump := fs.Bool("dump", false, "print the random scenarios as vectors instead of running them")
	noInv := fs.Bool("noinv", false, "no inverted intervals in random scenarios")
	if err := fs.Parse(args); err != nil {
		return err
	}
	if *dump {
		out := newLineWriter(os.Stdout)
		defer out.flush()
		g := &walkerGen{rnd: rand.New(rand.NewSource(seed()*7919 + 13)), nils: *nils, noInv: *noInv}
		for i := 0; i < *n; i++ {
			out.put(walkerVec{ID: i, Scn: g.scenario()})
		}
		return nil
	}
	markers, err := walkerLoadMarkers(*mpath)
	if err != nil {
		return err
	}
	allow := map[string]bool{}
	for _, c := range strings.Split(*only, ",") {
		if c != "" {
			allow[c] = true
		}
	}
	ws := make([]*lineWriter, *shards)
	for i := range ws {
		f, err := os.Create(*outp + "_" + strconv.Itoa(i) + ".ndjson")
		if err != nil {
			return err
		}
		defer f.Close()
		ws[i] = newLineWriter(f)
		defer ws[i].flush()
	}
	count := 0
	emit := func(scn *walkerScn) {
		for _, style := range scn.Styles {
			for _, carrier := range walkerCarriers(scn, style, *withGen) {
				if carrier == "rm" {
					continue
				}
				if *withGen && carrier == "tag" {
					continue
				}
				if len(allow) > 0 && !allow[carrier] {
					continue
				}
				r := walkerRun(scn, style, carrier, markers)
				if r.Kind == "skip" {
					continue
				}
				w := ws[count%len(ws)]
				count++
				w.put(walkerEvent{E: "scn", Scn: walkerStripText(scn), Style: style, Carrier: carrier, Buf: []walkerClause{}, Clauses: []walkerClause{}})
				for _, p := range r.Probes {
					p.Clauses = []walkerClause{}
					w.put(p)
				}
				if r.Kind == "panic" {
					w.put(walkerEvent{E: "panic", Msg: r.Panic, Buf: []walkerClause{}, Clauses: []walkerClause{}})
				} else {
					w.put(walkerEvent{E: "ret", Kind: r.Kind, Clauses: r.Clauses, Buf: []walkerClause{}, Msg: r.Raw})
				}
			}
		}
	}
	if *stdin {
		in := newLineReader(os.Stdin)
		for {
			var v walkerVec
			if !in.next(&v) {
				break
			}
			emit(&v.Scn)
		}
	} else {
		g := &walkerGen{rnd: rand.New(rand.NewSource(seed()*7919 + 13)), nils: *nils, noInv: *noInv}
		for i := 0; i < *n; i++ {
			s := g.scenario()
			emit(&s)
		}
	}
	fmt.Fprintln(os.Stderr, "walker-record: traces", count)
	return nil
}
