// vh: the conformance harness. One binary, sub-commands registered by the other files of this package.
package main

import (
	"bufio"
	"encoding/json"
	"fmt"
	"os"
	"sort"
	"strconv"
)

var commands = map[string]func(args []string) error{}

func register(name string, fn func(args []string) error) { commands[name] = fn }

func main() {
	if len(os.Args) < 2 {
		names := make([]string, 0, len(commands))
		for n := range commands {
			names = append(names, n)
		}
		sort.Strings(names)
		fmt.Fprintln(os.Stderr, "usage: vh <command> [args]; commands:", names)
		os.Exit(2)
	}
	fn, ok := commands[os.Args[1]]
	if !ok {
		fmt.Fprintln(os.Stderr, "unknown command", os.Args[1])
		os.Exit(2)
	}
	if err := fn(os.Args[2:]); err != nil {
		fmt.Fprintln(os.Stderr, "vh:", err)
		os.Exit(3)
	}
}

func seed() int64 {
	s, err := strconv.ParseInt(os.Getenv("VERIF_SEED"), 10, 64)
	if err != nil {
		return 1
	}
	return s
}

// ndjson helpers ------------------------------------------------------------

type lineReader struct{ sc *bufio.Scanner }

func newLineReader(f *os.File) *lineReader {
	sc := bufio.NewScanner(f)
	sc.Buffer(make([]byte, 1<<20), 1<<28)
	return &lineReader{sc}
}

func (r *lineReader) next(v interface{}) bool {
	for r.sc.Scan() {
		b := r.sc.Bytes()
		if len(b) == 0 {
			continue
		}
		if err := json.Unmarshal(b, v); err != nil {
			fmt.Fprintln(os.Stderr, "vh: bad input line:", err)
			os.Exit(3)
		}
		return true
	}
	return false
}

type lineWriter struct {
	w   *bufio.Writer
	enc *json.Encoder
}

func newLineWriter(f *os.File) *lineWriter {
	w := bufio.NewWriterSize(f, 1<<20)
	enc := json.NewEncoder(w)
	enc.SetEscapeHTML(false)
	return &lineWriter{w, enc}
}

func (w *lineWriter) put(v interface{}) {
	if err := w.enc.Encode(v); err != nil {
		fmt.Fprintln(os.Stderr, "vh: encode:", err)
		os.Exit(3)
	}
}

func (w *lineWriter) flush() { w.w.Flush() }
