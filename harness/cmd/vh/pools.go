package main

// Pools conformance (C11, C12): concretises the call descriptors emitted by TLC (spec/Gen_Pools.tla) into real
// validation calls, runs them (single goroutine without the race detector for C12, 2..32 goroutines under the race
// detector for C11), abstracts every result back into the clause records of spec/Pools.tla and writes an ndjson trace
// that TLC judges against spec/Trace_Pools.tla.  Nothing here decides a verdict.
//
// Named struct types come from a generated file (pools_gen.go, written by lib/fam_pools.py from the @@TYPE table the
// spec emits); anonymous types are built with reflect.StructOf from the same table.

import (
	"encoding/json"
	"flag"
	"fmt"
	"math/rand"
	"os"
	"reflect"
	"runtime"
	"sort"
	"strconv"
	"strings"
	"sync"
	"sync/atomic"
	"time"

	"gitee.com/xuesongtao/protoc-go-valid/valid"
)

func init() {
	register("pools-replay", poolsReplay)
	register("pools-conc", poolsConc)
	register("pools-types", poolsTypesCmd)
}

// poolsNamed is filled by the generated pools_gen.go: type id -> named Go struct type.
var poolsNamed = map[string]reflect.Type{}

// ---------------------------------------------------------------- wire format (spec/Pools.tla records)

type poolsRule struct {
	K    string `json:"k"`
	N    string `json:"n"`
	A    int    `json:"a"`
	Text string `json:"text"`
	Key  string `json:"key"`
	Val  string `json:"val"`
	Msg  string `json:"msg"`
	Lab  string `json:"lab"`
}

type poolsRME struct {
	F  string      `json:"f"`
	Rs []poolsRule `json:"rs"`
}

type poolsTE struct {
	T  string     `json:"T"`
	Rm []poolsRME `json:"rm"`
}

type poolsVal struct {
	K  string     `json:"k"`
	N  int        `json:"n"`
	S  string     `json:"s"`
	Re bool       `json:"re"`
	Fs []poolsVal `json:"fs"`
}

type poolsEntry struct {
	K string   `json:"k"`
	V poolsVal `json:"v"`
}

type poolsDesc struct {
	Key      string       `json:"key"`
	Car      string       `json:"car"`
	T        string       `json:"T"`
	Tag      string       `json:"tag"`
	Val      poolsVal     `json:"val"`
	Typed    []poolsTE    `json:"typed"`
	Unscoped []poolsRME   `json:"unscoped"`
	Fns      []string     `json:"fns"`
	Rules    []poolsRule  `json:"rules"`
	Entries  []poolsEntry `json:"entries"`
}

type poolsClause struct {
	P string `json:"p"`
	M string `json:"m"`
	X string `json:"x"`
	V string `json:"v"`
}

type poolsDescRec struct {
	Id  int           `json:"id"`
	D   poolsDesc     `json:"d"`
	Exp []poolsClause `json:"exp"`
}

type poolsField struct {
	Name string            `json:"name"`
	Kind string            `json:"kind"`
	Elem string            `json:"elem"`
	Tags map[string]string `json:"tags"`
}

type poolsType struct {
	Id     string       `json:"id"`
	Name   string       `json:"name"`
	Fields []poolsField `json:"fields"`
}

type poolsMarker struct {
	M string `json:"m"`
	T string `json:"t"`
}

type poolsMark struct {
	Markers []poolsMarker `json:"markers"`
	Globals []string      `json:"globals"`
	Late    string        `json:"late"`
	Tags    []string      `json:"tags"`
	Menu    int           `json:"menu"`
}

type poolsMenu struct {
	Types []poolsType    `json:"types"`
	Mark  poolsMark      `json:"mark"`
	Descs []poolsDescRec `json:"descs"`
}

// poolsEvent is one trace line; every field is always present (TLC reads them as records of one shape).
type poolsEvent struct {
	E         string        `json:"e"`
	C         int           `json:"c"`
	D         int           `json:"d"`
	Key       string        `json:"key"`
	Clauses   []poolsClause `json:"clauses"`
	Keep      bool          `json:"keep"`
	InputSame bool          `json:"inputSame"`
	RmSame    bool          `json:"rmSame"`
	Same      bool          `json:"same"`
	G         int           `json:"g"`
	Api       string        `json:"api"`
	Note      string        `json:"note"`
	Recycled  bool          `json:"recycled"`
	Text      string        `json:"text"`
	Ty        string        `json:"ty"` // concrete struct types the call touches (named type id, or anonymous id#clone), root first
	stamp     int64
}

// ---------------------------------------------------------------- the world: menu + Go types

type poolsWorld struct {
	menu   poolsMenu
	types  map[string]poolsType
	anon   map[string][]reflect.Type
	descs  []poolsDescRec
	nclone int
}

func poolsLoad(menuPath string, nclone int) (*poolsWorld, error) {
	b, err := os.ReadFile(menuPath)
	if err != nil {
		return nil, err
	}
	w := &poolsWorld{types: map[string]poolsType{}, anon: map[string][]reflect.Type{}, nclone: nclone}
	if err := json.Unmarshal(b, &w.menu); err != nil {
		return nil, err
	}
	for _, t := range w.menu.Types {
		w.types[t.Id] = t
	}
	for _, t := range w.menu.Types {
		if t.Name != "" {
			rt, ok := poolsNamed[t.Id]
			if !ok {
				return nil, fmt.Errorf("named type %s (%s) is not in the generated pools_gen.go", t.Id, t.Name)
			}
			if err := poolsCheckNamed(t, rt, w.menu.Mark.Tags); err != nil {
				return nil, err
			}
		}
	}
	for _, t := range w.menu.Types {
		if t.Name == "" {
			for c := 0; c < nclone; c++ {
				w.anon[t.Id] = append(w.anon[t.Id], w.structOf(t, c))
			}
		}
	}
	w.descs = w.menu.Descs
	for i, d := range w.descs {
		if d.Id != i+1 {
			return nil, fmt.Errorf("descriptor ids are not 1..n in order")
		}
	}
	return w, nil
}

// Tag-name aliases: a tag name of the model other than the default one is an opaque label, so every type also carries
// its rules under the names <tag>r<run>k<k>; the concurrent runs pick one of the aliases of their run per call, so that
// tag names - like types - are seen for the first time by several goroutines at once. (lib/fam_pools.py writes the same
// names into the generated types; poolsCheckNamed compares.)
const (
	poolsAliasRuns = 4
	poolsAliasK    = 4
)

func poolsAliases(tn string) []string {
	if tn == "valid" {
		return nil
	}
	var out []string
	for r := 1; r <= poolsAliasRuns; r++ {
		for k := 0; k < poolsAliasK; k++ {
			out = append(out, fmt.Sprintf("%sr%dk%d", tn, r, k))
		}
	}
	return out
}

// poolsCheckNamed: the generated Go type must be exactly what the spec's table says.
func poolsCheckNamed(t poolsType, rt reflect.Type, tags []string) error {
	if rt.Name() != t.Name || rt.NumField() != len(t.Fields) {
		return fmt.Errorf("generated type %s does not match the spec table", t.Id)
	}
	for i, f := range t.Fields {
		sf := rt.Field(i)
		if sf.Name != f.Name {
			return fmt.Errorf("generated type %s field %d name", t.Id, i)
		}
		for _, tn := range tags {
			if sf.Tag.Get(tn) != f.Tags[tn] {
				return fmt.Errorf("generated type %s field %s tag %s: %q vs %q", t.Id, f.Name, tn, sf.Tag.Get(tn), f.Tags[tn])
			}
			for _, al := range poolsAliases(tn) {
				if sf.Tag.Get(al) != f.Tags[tn] {
					return fmt.Errorf("generated type %s field %s tag alias %s: %q vs %q", t.Id, f.Name, al, sf.Tag.Get(al), f.Tags[tn])
				}
			}
		}
	}
	return nil
}

func (w *poolsWorld) fieldType(f poolsField) reflect.Type {
	switch f.Kind {
	case "int":
		return reflect.TypeOf(int(0))
	case "str":
		return reflect.TypeOf("")
	case "ptr":
		return reflect.PtrTo(poolsNamed[f.Elem])
	case "slice":
		return reflect.SliceOf(poolsNamed[f.Elem])
	}
	panic("pools: unknown field kind " + f.Kind)
}

// structOf builds clone number `clone` of an anonymous type: same fields and rules, distinct reflect.Type.
func (w *poolsWorld) structOf(t poolsType, clone int) reflect.Type {
	fs := make([]reflect.StructField, 0, len(t.Fields))
	for i, f := range t.Fields {
		tag := ""
		for _, tn := range w.menu.Mark.Tags {
			if txt := f.Tags[tn]; txt != "" {
				tag += tn + ":" + strconv.Quote(txt) + " "
				for _, al := range poolsAliases(tn) {
					tag += al + ":" + strconv.Quote(txt) + " "
				}
			}
		}
		if i == 0 {
			tag += "pid:" + strconv.Quote(strconv.Itoa(clone))
		}
		fs = append(fs, reflect.StructField{Name: f.Name, Type: w.fieldType(f), Tag: reflect.StructTag(strings.TrimSpace(tag))})
	}
	return reflect.StructOf(fs)
}

// volleyType: a brand-new clone of anonymous type t whose rules for tag names a and b sit under two brand-new names.
func (w *poolsWorld) volleyType(t poolsType, ta, na, tb, nb string, serial int) reflect.Type {
	fs := make([]reflect.StructField, 0, len(t.Fields))
	for i, f := range t.Fields {
		tag := ""
		if txt := f.Tags[ta]; txt != "" {
			tag += na + ":" + strconv.Quote(txt) + " "
		}
		if txt := f.Tags[tb]; txt != "" {
			tag += nb + ":" + strconv.Quote(txt) + " "
		}
		if i == 0 {
			tag += "vid:" + strconv.Quote(strconv.Itoa(serial))
		}
		fs = append(fs, reflect.StructField{Name: f.Name, Type: w.fieldType(f), Tag: reflect.StructTag(strings.TrimSpace(tag))})
	}
	return reflect.StructOf(fs)
}

func (w *poolsWorld) rtype(id string, clone int) reflect.Type {
	if t, ok := poolsNamed[id]; ok {
		return t
	}
	cl := w.anon[id]
	return cl[clone%len(cl)]
}

// build makes a fresh value of struct type t from the abstract value.
func (w *poolsWorld) build(t reflect.Type, v poolsVal) reflect.Value {
	x := reflect.New(t).Elem()
	w.fill(x, v)
	return x
}

func (w *poolsWorld) fill(dst reflect.Value, v poolsVal) {
	switch v.K {
	case "int":
		dst.SetInt(int64(v.N))
	case "str":
		dst.SetString(v.S)
	case "nilptr":
	case "struct":
		for i, fv := range v.Fs {
			w.fill(dst.Field(i), fv)
		}
	case "ptr":
		p := reflect.New(dst.Type().Elem())
		w.fill(p.Elem(), v.Fs[0])
		dst.Set(p)
	case "slice":
		if len(v.Fs) == 0 {
			return
		}
		s := reflect.MakeSlice(dst.Type(), len(v.Fs), len(v.Fs))
		for i, ev := range v.Fs {
			w.fill(s.Index(i), ev)
		}
		dst.Set(s)
	default:
		panic("pools: unknown value kind " + v.K)
	}
}

func poolsJoin(rs []poolsRule) string {
	ts := make([]string, len(rs))
	for i, r := range rs {
		ts[i] = r.Text
	}
	return strings.Join(ts, ",")
}

func poolsRM(rm []poolsRME) valid.RM {
	out := valid.RM{}
	for _, e := range rm {
		out[e.F] = poolsJoin(e.Rs)
	}
	return out
}

func poolsRMEqual(a, b valid.RM) bool {
	if len(a) != len(b) {
		return false
	}
	for k, v := range a {
		if w, ok := b[k]; !ok || w != v {
			return false
		}
	}
	return true
}

func poolsDetach(s string) string { return string(append([]byte(nil), s...)) }

// ---------------------------------------------------------------- what a call hands out

type poolsHeld struct {
	got  string // the string as handed out by the library (may alias library memory)
	copy string // detached copy taken at that moment
}

type poolsKept struct {
	c, d   int
	owner  string
	car    string
	err    error
	text   poolsHeld
	strs   []poolsHeld // rule tokens / names handed to per-call functions; split and parse results
	isSpl  bool
	isPar  bool
	hasErr bool
}

func (k *poolsKept) hold(s string) { k.strs = append(k.strs, poolsHeld{s, poolsDetach(s)}) }

func poolsPath(obj, field string) string {
	if obj != "" && field != "" {
		return obj + "." + field
	}
	return field
}

// per-call function: a token owned by exactly one call
func poolsTokFn(name, owner string, rec *poolsKept) valid.CommonValidFn {
	return func(errBuf *strings.Builder, validName, objName, fieldName string, tv reflect.Value) {
		rec.hold(validName)
		rec.hold(objName)
		rec.hold(fieldName)
		if p := poolsPath(objName, fieldName); p != "" {
			errBuf.WriteString("\"" + p + "\" ")
		}
		errBuf.WriteString("TOK " + name + " " + owner + valid.ErrEndFlag)
	}
}

func poolsGlobFn(name string) valid.CommonValidFn {
	return func(errBuf *strings.Builder, validName, objName, fieldName string, tv reflect.Value) {
		if p := poolsPath(objName, fieldName); p != "" {
			errBuf.WriteString("\"" + p + "\" ")
		}
		errBuf.WriteString("GLOB " + name + valid.ErrEndFlag)
	}
}

const poolsUserPanic = "user function panics (recovered by the caller)"

var poolsGlobOnce sync.Once
var poolsArrLen int64

func (w *poolsWorld) registerGlobals() {
	poolsGlobOnce.Do(func() {
		for _, g := range w.menu.Mark.Globals {
			valid.SetCustomerValidFn(g, poolsGlobFn(g))
		}
	})
}

// ---------------------------------------------------------------- abstraction: error text -> clause records

func (w *poolsWorld) abstract(text, owner string) []poolsClause {
	out := []poolsClause{}
	if text == "" {
		return out
	}
	for _, cl := range strings.Split(text, valid.ErrEndFlag) {
		out = append(out, w.abstractClause(cl, owner))
	}
	return out
}

func (w *poolsWorld) abstractClause(cl, owner string) poolsClause {
	path, rest := "", cl
	if strings.HasPrefix(cl, "\"") {
		if j := strings.Index(cl[1:], "\""); j >= 0 {
			path = cl[1 : 1+j]
			rest = strings.TrimPrefix(cl[2+j:], " ")
		}
	}
	switch {
	case strings.HasPrefix(rest, "TOK "):
		f := strings.Fields(rest)
		if len(f) == 3 {
			who := "own"
			if f[2] != owner {
				who = "foreign:" + f[2]
			}
			return poolsClause{path, "tok", f[1], who}
		}
	case strings.HasPrefix(rest, "GLOB "):
		f := strings.Fields(rest)
		if len(f) == 2 {
			return poolsClause{path, "glob", f[1], ""}
		}
	case strings.HasPrefix(rest, "input \""):
		r := rest[len("input \""):]
		j := strings.Index(r, "\"")
		if j < 0 {
			break
		}
		echo := r[:j]
		r = r[j+1:]
		if r == "" {
			return poolsClause{path, "bare", "", echo}
		}
		r = strings.TrimPrefix(r, ", ")
		body := r
		if strings.HasPrefix(r, valid.ExplainEn+" ") {
			body = r[len(valid.ExplainEn)+1:]
		} else if strings.HasPrefix(r, valid.ExplainZh+" ") {
			body = r[len(valid.ExplainZh)+1:]
		}
		for _, mk := range w.menu.Mark.Markers {
			if mk.M == "notexist" || !strings.HasPrefix(body, mk.T) {
				continue
			}
			switch mk.M {
			case "lt", "gt":
				f := strings.Fields(body[len(mk.T):])
				if len(f) >= 1 {
					return poolsClause{path, mk.M, f[0], echo}
				}
			case "required", "re", "dt":
				return poolsClause{path, mk.M, "", echo}
			}
		}
		return poolsClause{path, "custom", body, echo}
	}
	for _, mk := range w.menu.Mark.Markers {
		if mk.M == "notexist" && strings.Contains(rest, mk.T) && strings.HasPrefix(rest, "valid \"") {
			r := rest[len("valid \""):]
			if j := strings.Index(r, "\""); j >= 0 {
				return poolsClause{path, "notexist", r[:j], ""}
			}
		}
	}
	return poolsClause{path, "other", rest, ""}
}

// ---------------------------------------------------------------- running one call

type poolsOutcome struct {
	clauses   []poolsClause
	text      string
	inputSame bool
	rmSame    bool
	api       string
	panicMsg  string
	noKeep    bool // nothing of this call is re-read later (a user function panicked and the caller recovered)
	ty        string
	ptr       uintptr // the pooled validator, when the builder API exposed it
	kept      *poolsKept
}

type poolsRunner struct {
	w      *poolsWorld
	rng    *rand.Rand
	g      int // goroutine number (selects private clones)
	shared float64
	cl     int // clone of the anonymous types used by the current call
	alias  int // > 0: non-default tag names are replaced by one of their aliases of this run
	// a volley call: this root type and this concrete tag name instead of the descriptor's (same fields, same rules)
	volType reflect.Type
	volTag  string
}

func (r *poolsRunner) clone() int {
	// clones 0..3 are shared by everybody; the others are private to goroutine g
	priv := (r.w.nclone - 4) / 33
	if priv < 1 || r.rng.Float64() < r.shared {
		return r.rng.Intn(4)
	}
	return 4 + r.g*priv + r.rng.Intn(priv)
}

// typesOf lists the concrete struct types a call touches: the root type and every struct type reachable from it.
func (w *poolsWorld) typesOf(d poolsDesc, clone int) string {
	if d.Car != "struct" {
		return ""
	}
	name := func(id string) string {
		if _, named := poolsNamed[id]; named {
			return id
		}
		return id + "#" + strconv.Itoa(clone%len(w.anon[id]))
	}
	out := []string{name(d.T)}
	for _, f := range w.types[d.T].Fields {
		if f.Elem != "" {
			out = append(out, name(f.Elem))
		}
	}
	return strings.Join(out, ",")
}

func (r *poolsRunner) run(c int, rec poolsDescRec, clone int) (o poolsOutcome) {
	d := rec.D
	r.cl = clone
	o.ty = r.w.typesOf(d, clone)
	owner := "c" + strconv.Itoa(c)
	k := &poolsKept{c: c, d: rec.Id, owner: owner, car: d.Car}
	o.kept = k
	o.inputSame, o.rmSame = true, true
	defer func() {
		if p := recover(); p != nil {
			if msg := fmt.Sprint(p); msg == poolsUserPanic {
				// a per-call function of THIS call panicked and the caller recovers: the call has no result the contract
				// speaks about (its descriptor is free); what matters is that later calls are not affected
				o.clauses = []poolsClause{{"", "other", "recovered: " + msg, ""}}
				o.inputSame, o.rmSame = true, true
				o.noKeep = true
				return
			}
			o.panicMsg = fmt.Sprint(p)
			o.clauses = []poolsClause{}
		}
	}()
	fnMap := valid.Name2FnMap{}
	for _, n := range d.Fns {
		if n == "p_panic" {
			fnMap[n] = func(errBuf *strings.Builder, validName, objName, fieldName string, tv reflect.Value) { panic(poolsUserPanic) }
			continue
		}
		fnMap[n] = poolsTokFn(n, owner, k)
	}
	var err error
	switch d.Car {
	case "struct":
		err = r.runStruct(d, fnMap, &o)
	case "var":
		err = r.runVar(d, fnMap, &o)
	case "map":
		err = r.runMap(d, fnMap, &o)
	case "url":
		err = r.runUrl(d, fnMap, &o)
	case "split":
		in := poolsJoin(d.Rules)
		toks := valid.ValidNamesSplit(in)
		o.api = "ValidNamesSplit"
		k.isSpl = true
		o.clauses = []poolsClause{}
		for _, t := range toks {
			k.hold(t)
			o.clauses = append(o.clauses, poolsClause{"", "token", t, ""})
		}
		o.inputSame = in == poolsJoin(d.Rules)
		return
	case "parse":
		in := d.Rules[0].Text
		key, val, msg := valid.ParseValidNameKV(in)
		o.api = "ParseValidNameKV"
		k.isPar = true
		k.hold(key)
		k.hold(val)
		k.hold(msg)
		o.clauses = []poolsClause{{key, "kv", val, msg}}
		o.inputSame = in == d.Rules[0].Text
		return
	default:
		panic("pools: unknown carrier " + d.Car)
	}
	k.err = err
	if err != nil {
		k.hasErr = true
		s := err.Error()
		k.text = poolsHeld{s, poolsDetach(s)}
		o.text = s
	}
	o.clauses = r.w.abstract(o.text, owner)
	return
}

func (r *poolsRunner) runStruct(d poolsDesc, fnMap valid.Name2FnMap, o *poolsOutcome) error {
	cl := r.cl
	rt := r.w.rtype(d.T, cl)
	if r.volType != nil {
		rt = r.volType
	}
	nilRoot := d.Val.K == "nilptr" // the argument is a nil pointer to the root type
	var val, pristine reflect.Value
	if nilRoot {
		val, pristine = reflect.New(rt).Elem(), reflect.New(rt).Elem()
	} else {
		val = r.w.build(rt, d.Val)
		pristine = r.w.build(rt, d.Val)
	}
	var src interface{}
	if nilRoot {
		src = reflect.Zero(reflect.PtrTo(rt)).Interface()
	} else if r.rng.Intn(2) == 0 {
		src = val.Addr().Interface()
	} else {
		src = val.Interface()
		val = reflect.ValueOf(src) // the copy the library sees
	}
	var unscoped, unscopedCopy valid.RM
	if len(d.Unscoped) > 0 {
		unscoped, unscopedCopy = poolsRM(d.Unscoped), poolsRM(d.Unscoped)
	}
	type typedRM struct {
		obj      interface{}
		rm, copy valid.RM
	}
	var typed []typedRM
	for _, te := range d.Typed {
		tt := r.w.rtype(te.T, cl)
		typed = append(typed, typedRM{reflect.New(tt).Interface(), poolsRM(te.Rm), poolsRM(te.Rm)})
	}
	var err error
	tag := d.Tag
	if r.alias > 0 && r.alias <= poolsAliasRuns && tag != "valid" {
		tag = fmt.Sprintf("%sr%dk%d", tag, r.alias, r.rng.Intn(poolsAliasK))
	}
	if r.volTag != "" {
		tag = r.volTag
	}
	choice := r.rng.Intn(4)
	fnKeys := len(fnMap) // the caller's function table is an input too: the library must not add to it
	// a rule set registered for a type and then registered again: the first one names a field the type does not have,
	// so it cannot matter for the result under any reading - but it is the caller's map and must stay as it was
	var decoys []valid.RM
	switch {
	case len(typed) == 0 && len(fnMap) == 0 && choice == 0 && d.Tag == "valid":
		if unscoped != nil {
			o.api = "Struct+rm"
			err = valid.Struct(src, unscoped)
		} else {
			o.api = "Struct"
			err = valid.Struct(src)
		}
	case len(typed) == 0 && len(fnMap) == 0 && choice == 1:
		if unscoped != nil {
			o.api = "ValidStructForRule"
			err = valid.ValidStructForRule(unscoped, src, tag)
		} else {
			o.api = "ValidateStruct"
			err = valid.ValidateStruct(src, tag)
		}
	case len(typed) == 0 && unscoped == nil && len(fnMap) == 1 && choice < 2:
		o.api = "ValidStructForMyValidFn"
		for n, fn := range fnMap {
			err = valid.ValidStructForMyValidFn(src, n, fn, tag)
		}
	case len(typed) == 0 && choice == 2:
		o.api = "StructForFns"
		err = valid.StructForFns(src, unscoped, fnMap, tag)
	case len(typed) > 0 && unscoped == nil && len(fnMap) == 0 && d.Tag == "valid" && choice == 3:
		o.api = "NestedStructForRule"
		m := map[interface{}]valid.RM{}
		for _, t := range typed {
			m[t.obj] = t.rm
		}
		err = valid.NestedStructForRule(src, m)
	default:
		o.api = "NewVStruct"
		var vs *valid.VStruct
		if d.Tag == "valid" && r.rng.Intn(2) == 0 {
			vs = valid.NewVStruct()
		} else {
			vs = valid.NewVStruct(tag)
		}
		o.ptr = reflect.ValueOf(vs).Pointer()
		if unscoped != nil {
			vs.SetRule(unscoped)
		}
		for _, t := range typed {
			dec := valid.RM{"NoSuchFieldZq": "required"}
			decoys = append(decoys, dec)
			vs.SetRule(dec, t.obj)
			vs.SetRule(t.rm, t.obj)
		}
		for n, fn := range fnMap {
			vs.SetValidFn(n, fn)
		}
		err = vs.Valid(src)
	}
	got := reflect.ValueOf(src)
	for got.Kind() == reflect.Ptr && !got.IsNil() {
		got = got.Elem()
	}
	if nilRoot {
		o.inputSame = got.Kind() == reflect.Ptr && got.IsNil()
	} else {
		o.inputSame = reflect.DeepEqual(got.Interface(), pristine.Interface())
	}
	o.rmSame = poolsRMEqual(unscoped, unscopedCopy) && len(fnMap) == fnKeys
	for _, t := range typed {
		o.rmSame = o.rmSame && poolsRMEqual(t.rm, t.copy)
	}
	for _, dec := range decoys {
		o.rmSame = o.rmSame && len(dec) == 1 && dec["NoSuchFieldZq"] == "required"
	}
	return err
}

func poolsScalar(v poolsVal) interface{} {
	switch v.K {
	case "badvar": // not a scalar at all: Var refuses it
		return struct{ A int }{7}
	case "nilvar":
		return nil
	case "arrvar": // an array type no earlier call has used (its length is new), every element 7
		n := int(atomic.AddInt64(&poolsArrLen, 1)) + 40
		a := reflect.New(reflect.ArrayOf(n, reflect.TypeOf(int(0)))).Elem()
		for i := 0; i < n; i++ {
			a.Index(i).SetInt(7)
		}
		return a.Interface()
	}
	if v.K == "int" {
		return v.N
	}
	return v.S
}

func (r *poolsRunner) runVar(d poolsDesc, fnMap valid.Name2FnMap, o *poolsOutcome) error {
	src := poolsScalar(d.Val)
	rules := make([]string, len(d.Rules))
	for i, ru := range d.Rules {
		rules[i] = ru.Text
	}
	if r.rng.Intn(2) == 0 {
		rules = []string{strings.Join(rules, ",")}
	}
	before := append([]string(nil), rules...)
	var err error
	if len(fnMap) == 0 && r.rng.Intn(2) == 0 {
		o.api = "Var"
		err = valid.Var(src, rules...)
	} else {
		o.api = "NewVVar"
		vv := valid.NewVVar()
		o.ptr = reflect.ValueOf(vv).Pointer()
		vv.SetRules(rules...)
		for n, fn := range fnMap {
			vv.SetValidFn(n, fn)
		}
		err = vv.Valid(src)
	}
	o.inputSame = d.Val.K == "arrvar" || reflect.DeepEqual(src, poolsScalar(d.Val)) // (an array is handed over by value)
	o.rmSame = reflect.DeepEqual(before, rules)
	return err
}

func (r *poolsRunner) runMap(d poolsDesc, fnMap valid.Name2FnMap, o *poolsOutcome) error {
	mk := func() interface{} {
		if len(d.Entries) > 0 && d.Entries[0].V.K == "int" {
			m := map[string]int{}
			for _, e := range d.Entries {
				m[e.K] = e.V.N
			}
			return m
		}
		m := map[string]string{}
		for _, e := range d.Entries {
			m[e.K] = e.V.S
		}
		return m
	}
	src, pristine := mk(), mk()
	rm, rmCopy := poolsRM(d.Unscoped), poolsRM(d.Unscoped)
	var err error
	fnKeys := len(fnMap)
	if len(fnMap) == 0 && r.rng.Intn(2) == 0 {
		o.api = "Map"
		err = valid.Map(src, rm)
	} else {
		o.api = "MapFn"
		err = valid.MapFn(src, rm, fnMap)
	}
	o.inputSame = reflect.DeepEqual(src, pristine)
	o.rmSame = poolsRMEqual(rm, rmCopy) && len(fnMap) == fnKeys
	return err
}

func (r *poolsRunner) runUrl(d poolsDesc, fnMap valid.Name2FnMap, o *poolsOutcome) error {
	qs := make([]string, len(d.Entries))
	for i, e := range d.Entries {
		qs[i] = e.K + "=" + e.V.S
	}
	src := "http://pools.test/p?" + strings.Join(qs, "&")
	before := poolsDetach(src)
	rm, rmCopy := poolsRM(d.Unscoped), poolsRM(d.Unscoped)
	var err error
	if len(fnMap) == 0 && r.rng.Intn(2) == 0 {
		o.api = "Url"
		err = valid.Url(src, rm)
	} else {
		o.api = "NewVUrl"
		vu := valid.NewVUrl().SetRule(rm)
		for n, fn := range fnMap {
			vu.SetValidFn(n, fn)
		}
		if r.rng.Intn(2) == 0 {
			err = vu.Valid(src)
		} else {
			err = vu.Valid(&src)
		}
	}
	o.inputSame = src == before
	o.rmSame = poolsRMEqual(rm, rmCopy)
	return err
}

// recheck re-reads everything the call handed out and abstracts the error text again.
func (w *poolsWorld) recheck(k *poolsKept) poolsEvent {
	ev := poolsEvent{E: "recheck", C: k.c, D: k.d, Clauses: []poolsClause{}, Same: true, InputSame: true, RmSame: true}
	var changed []string
	if k.hasErr {
		now := k.err.Error()
		if now != k.text.copy || k.text.got != k.text.copy {
			ev.Same = false
			changed = append(changed, fmt.Sprintf("error text %q was %q", now, k.text.copy))
		}
		ev.Clauses = w.abstract(now, k.owner)
		ev.Text = now
	}
	for i, h := range k.strs {
		if h.got != h.copy {
			ev.Same = false
			changed = append(changed, fmt.Sprintf("string %d %q was %q", i, h.got, h.copy))
		}
	}
	switch {
	case k.isSpl:
		for _, h := range k.strs {
			ev.Clauses = append(ev.Clauses, poolsClause{"", "token", h.got, ""})
		}
	case k.isPar:
		ev.Clauses = []poolsClause{{k.strs[0].got, "kv", k.strs[1].got, k.strs[2].got}}
	}
	ev.Note = strings.Join(changed, "; ")
	return ev
}

func poolsCut(s string, n int) string {
	if len(s) > n {
		return s[:n] + "..."
	}
	return s
}

// poolsCorrupt: self-test knob (VERIF_POOLS_CORRUPT=<call id>): the logged result of that call is falsified, so the
// check must go red although the library is right (demonstrates that the trace really binds the verdict).
var poolsCorrupt, _ = strconv.Atoi(os.Getenv("VERIF_POOLS_CORRUPT"))

func poolsRetEvent(c int, rec poolsDescRec, o poolsOutcome, g int, keep, recycled bool) poolsEvent {
	e := "ret"
	if o.panicMsg != "" {
		e = "panic"
	}
	if poolsCorrupt != 0 && c == poolsCorrupt {
		o.clauses = append(append([]poolsClause{}, o.clauses...), poolsClause{"corrupt", "tok", "p_t1", "own"})
	}
	return poolsEvent{E: e, C: c, D: rec.Id, Key: rec.D.Key, Clauses: o.clauses, Keep: keep, InputSame: o.inputSame, RmSame: o.rmSame,
		Same: true, G: g, Api: o.api, Note: o.panicMsg, Recycled: recycled, Text: poolsCut(o.text, 400), Ty: o.ty}
}

func poolsCallEvent(c int, rec poolsDescRec, g int, ty string) poolsEvent {
	return poolsEvent{E: "call", C: c, D: rec.Id, Key: rec.D.Key, Clauses: []poolsClause{}, InputSame: true, RmSame: true, Same: true, G: g, Ty: ty}
}

// ---------------------------------------------------------------- pools-replay (C12): histories, one goroutine

type poolsHist struct {
	Calls []int `json:"calls"`
}

func poolsReplay(args []string) error {
	fs := flag.NewFlagSet("pools-replay", flag.ContinueOnError)
	menuPath := fs.String("menu", "", "menu json")
	histPath := fs.String("hist", "", "histories ndjson")
	outPath := fs.String("out", "", "trace ndjson")
	sumPath := fs.String("sum", "", "summary json")
	round := fs.Int("round", 2500, "calls per generation: an item is re-read after at least this many later calls")
	if err := fs.Parse(args); err != nil {
		return err
	}
	runtime.GOMAXPROCS(1) // one P: the next Get really returns what the previous call Put
	w, err := poolsLoad(*menuPath, 4+33*2)
	if err != nil {
		return err
	}
	w.registerGlobals()
	hf, err := os.Open(*histPath)
	if err != nil {
		return err
	}
	var hists []poolsHist
	lr := newLineReader(hf)
	for {
		var h poolsHist
		if !lr.next(&h) {
			break
		}
		hists = append(hists, h)
	}
	hf.Close()
	of, err := os.Create(*outPath)
	if err != nil {
		return err
	}
	out := newLineWriter(of)
	r := &poolsRunner{w: w, rng: rand.New(rand.NewSource(seed())), g: 0, shared: 0.5}
	out.put(poolsEvent{E: "reset", Clauses: []poolsClause{}, InputSame: true, RmSame: true, Same: true})
	seen := map[uintptr]bool{}
	var prev, cur []*poolsKept
	c, calls, recycled, exposed, rechecks, panics := 0, 0, 0, 0, 0, 0
	doCall := func(id int, keep bool) {
		if id < 1 || id > len(w.descs) {
			panic("pools-replay: descriptor id out of range")
		}
		rec := w.descs[id-1]
		c++
		calls++
		cl := r.clone()
		out.put(poolsCallEvent(c, rec, 0, w.typesOf(rec.D, cl)))
		o := r.run(c, rec, cl)
		rc := false
		if o.ptr != 0 {
			exposed++
			rc = seen[o.ptr]
			seen[o.ptr] = true
			if rc {
				recycled++
			}
		}
		if o.panicMsg != "" {
			panics++
			keep = false
		}
		if o.noKeep {
			keep = false
		}
		out.put(poolsRetEvent(c, rec, o, 0, keep, rc))
		if keep {
			cur = append(cur, o.kept)
		}
	}
	flush := func(ks []*poolsKept) {
		for _, k := range ks {
			out.put(w.recheck(k))
			rechecks++
		}
	}
	// The global function table is process state: after the first and after the second third of the histories the
	// harness registers a global function (nothing is pending then) and logs an `epoch` event - Pools!GlobAt says what
	// the table holds from there on: epoch 1 = the name g_3 exists, epoch 2 = g_1 is another function (reports g_1#2).
	epochAt := map[int]int{}
	if len(hists) >= 6 && w.menu.Mark.Late != "" {
		epochAt[len(hists)/3] = 1
		epochAt[2*len(hists)/3] = 2
	}
	for hi, h := range hists {
		if ep, ok := epochAt[hi]; ok {
			if ep == 1 {
				valid.SetCustomerValidFn(w.menu.Mark.Late, poolsGlobFn(w.menu.Mark.Late))
			} else {
				valid.SetCustomerValidFn("g_1", poolsGlobFn("g_1#2"))
			}
			out.put(poolsEvent{E: "epoch", C: ep, Clauses: []poolsClause{}, InputSame: true, RmSame: true, Same: true})
		}
		for _, id := range h.Calls {
			doCall(id, true)
		}
		if len(cur) >= *round {
			flush(prev)
			prev, cur = cur, nil
		}
	}
	// a tail of unkept calls so that the last generation also sees `round` later calls
	for i, n := 0, 0; n < *round && len(hists) > 0; i++ {
		for _, id := range hists[i%len(hists)].Calls {
			doCall(id, false)
			n++
		}
	}
	flush(prev)
	flush(cur)
	out.flush()
	of.Close()
	if *sumPath != "" {
		b, _ := json.Marshal(map[string]int{"histories": len(hists), "calls": calls, "validators_exposed": exposed,
			"recycled_validators": recycled, "rechecks": rechecks, "panics": panics})
		if err := os.WriteFile(*sumPath, b, 0o644); err != nil {
			return err
		}
	}
	return nil
}

// ---------------------------------------------------------------- pools-conc (C11): seeded streams in 2..32 goroutines

func poolsConc(args []string) error {
	fs := flag.NewFlagSet("pools-conc", flag.ContinueOnError)
	menuPath := fs.String("menu", "", "menu json")
	outPath := fs.String("out", "", "trace file prefix: one <prefix>.<run>.ndjson per run")
	sumPath := fs.String("sum", "", "summary json")
	capFlag := fs.Int("cap", -1, "type cache capacity (-1 = library default)")
	gors := fs.String("gor", "2x200,8x100,32x50", "runs: <goroutines>x<calls per goroutine>")
	priv := fs.Int("private", 10, "private clones of each anonymous type per goroutine")
	tmo := fs.Int("timeout", 120, "seconds before a run counts as deadlocked")
	volleys := fs.Int("volleys", 0, "per run: rounds in which all goroutines use a brand-new type under brand-new tag names at the same moment")
	if err := fs.Parse(args); err != nil {
		return err
	}
	w, err := poolsLoad(*menuPath, 4+33**priv)
	if err != nil {
		return err
	}
	if *capFlag >= 0 {
		valid.SetStructTypeCache(valid.NewLRU(*capFlag))
	}
	w.registerGlobals() // global registration happens before the goroutines start
	var stamp int64
	total, overlapRuns, rechecks, panics := 0, 0, 0, 0
	for run, gs := range strings.Split(*gors, ",") {
		var G, N int
		if _, err := fmt.Sscanf(strings.TrimSpace(gs), "%dx%d", &G, &N); err != nil || G < 1 || G > 32 || N < 1 {
			return fmt.Errorf("bad run spec %q", gs)
		}
		of, err := os.Create(fmt.Sprintf("%s.%d.ndjson", *outPath, run))
		if err != nil {
			return err
		}
		out := newLineWriter(of)
		out.put(poolsEvent{E: "reset", Clauses: []poolsClause{}, InputSame: true, RmSame: true, Same: true, G: G})
		gen := 600 / G // a kept item is re-read by its goroutine after at least `gen` of its own later calls
		if gen < 25 {
			gen = 25
		}
		evs := make([][]poolsEvent, G)
		var wg sync.WaitGroup
		var inflight, maxInflight int32
		start := make(chan struct{})
		// volleys: two descriptors of one anonymous flat type under two different non-default tag names
		var volA, volB *poolsDescRec
		for i := range w.descs {
			d := w.descs[i].D
			if d.Car != "struct" || len(d.Typed) > 0 || len(d.Unscoped) > 0 || d.Tag == "valid" || d.Val.K == "nilptr" {
				continue
			}
			if _, named := poolsNamed[d.T]; named {
				continue
			}
			flat := true
			for _, f := range w.types[d.T].Fields {
				flat = flat && f.Elem == ""
			}
			if !flat {
				continue
			}
			if volA == nil {
				volA = &w.descs[i]
			} else if volB == nil && d.T == volA.D.T && d.Tag != volA.D.Tag {
				volB = &w.descs[i]
			}
		}
		nvol := *volleys
		if volA == nil || volB == nil {
			if nvol > 0 {
				return fmt.Errorf("pools-conc: no pair of descriptors for the volleys")
			}
			nvol = 0
		}
		volTypes := make([]reflect.Type, nvol)
		volNames := make([][2]string, nvol)
		for v := 0; v < nvol; v++ {
			volNames[v] = [2]string{fmt.Sprintf("x%dr%dv%d", seed()%1000, run, v), fmt.Sprintf("y%dr%dv%d", seed()%1000, run, v)}
			volTypes[v] = w.volleyType(w.types[volA.D.T], volA.D.Tag, volNames[v][0], volB.D.Tag, volNames[v][1], run*1000000+v)
		}
		var barMu sync.Mutex
		barCond := sync.NewCond(&barMu)
		barCount, barGen := 0, 0
		barrier := func() {
			barMu.Lock()
			gen := barGen
			barCount++
			if barCount == G {
				barCount = 0
				barGen++
				barCond.Broadcast()
			} else {
				for gen == barGen {
					barCond.Wait()
				}
			}
			barMu.Unlock()
		}
		for g := 0; g < G; g++ {
			wg.Add(1)
			go func(g int) {
				defer wg.Done()
				r := &poolsRunner{w: w, rng: rand.New(rand.NewSource(seed()*1000003 + int64(G)*131 + int64(g))), g: g + 1, shared: 0.4, alias: run + 1}
				var prev, cur []*poolsKept
				flush := func(ks []*poolsKept) {
					for _, k := range ks {
						e := w.recheck(k)
						e.G = g + 1
						e.stamp = atomic.AddInt64(&stamp, 1)
						evs[g] = append(evs[g], e)
					}
				}
				<-start
				for v := 0; v < nvol; v++ {
					barrier()
					// first use of the two names at the same moment, then each goroutine under the other name
					for step := 0; step < 2; step++ {
						rec, tn := *volA, volNames[v][0]
						if (g+step)%2 == 1 {
							rec, tn = *volB, volNames[v][1]
						}
						c := (g+1)*1000000 + 500000 + 2*v + step + 1
						ce := poolsCallEvent(c, rec, g+1, rec.D.T+"#vol"+strconv.Itoa(v))
						ce.stamp = atomic.AddInt64(&stamp, 1)
						r.volType, r.volTag = volTypes[v], tn
						o := r.run(c, rec, 0)
						r.volType, r.volTag = nil, ""
						re := poolsRetEvent(c, rec, o, g+1, false, false)
						re.stamp = atomic.AddInt64(&stamp, 1)
						evs[g] = append(evs[g], ce, re)
					}
				}
				for i := 0; i < N; i++ {
					var id int
					if r.rng.Intn(4) == 0 {
						id = 1 + r.rng.Intn(w.menu.Mark.Menu) // the hot menu: the same few descriptors in every goroutine
					} else {
						id = 1 + r.rng.Intn(len(w.descs))
					}
					rec := w.descs[id-1]
					c := (g+1)*1000000 + i + 1
					cl := r.clone()
					ce := poolsCallEvent(c, rec, g+1, w.typesOf(rec.D, cl))
					ce.stamp = atomic.AddInt64(&stamp, 1)
					n := atomic.AddInt32(&inflight, 1)
					for {
						m := atomic.LoadInt32(&maxInflight)
						if n <= m || atomic.CompareAndSwapInt32(&maxInflight, m, n) {
							break
						}
					}
					o := r.run(c, rec, cl)
					atomic.AddInt32(&inflight, -1)
					re := poolsRetEvent(c, rec, o, g+1, o.panicMsg == "" && !o.noKeep, false)
					re.stamp = atomic.AddInt64(&stamp, 1)
					evs[g] = append(evs[g], ce, re)
					if o.panicMsg == "" && !o.noKeep {
						cur = append(cur, o.kept)
					}
					if len(cur) >= gen {
						flush(prev)
						prev, cur = cur, nil
					}
				}
				flush(prev)
				flush(cur)
			}(g)
		}
		done := make(chan struct{})
		go func() { wg.Wait(); close(done) }()
		close(start)
		select {
		case <-done:
		case <-time.After(time.Duration(*tmo) * time.Second):
			buf := make([]byte, 1<<20)
			n := runtime.Stack(buf, true)
			fmt.Fprintf(os.Stderr, "POOLS-DEADLOCK run %q did not finish in %ds\n%s\n", gs, *tmo, buf[:n])
			out.put(poolsEvent{E: "deadlock", Clauses: []poolsClause{}, G: G, Note: "run did not finish"})
			out.flush()
			of.Close()
			os.Exit(5)
		}
		var all []poolsEvent
		for g := range evs {
			all = append(all, evs[g]...)
		}
		sort.Slice(all, func(i, j int) bool { return all[i].stamp < all[j].stamp })
		for _, e := range all {
			switch e.E {
			case "panic":
				panics++
			case "ret":
				total++
			case "recheck":
				rechecks++
			}
			out.put(e)
		}
		if maxInflight >= 2 {
			overlapRuns++
		}
		out.flush()
		of.Close()
	}
	if *sumPath != "" {
		b, _ := json.Marshal(map[string]int{"calls": total, "runs_with_overlap": overlapRuns, "rechecks": rechecks, "panics": panics,
			"types": 3 + 2*w.nclone})
		if err := os.WriteFile(*sumPath, b, 0o644); err != nil {
			return err
		}
	}
	return nil
}

// pools-types: prints the named types the binary was generated with (debugging aid)
func poolsTypesCmd(args []string) error {
	ids := make([]string, 0, len(poolsNamed))
	for id := range poolsNamed {
		ids = append(ids, id)
	}
	sort.Strings(ids)
	for _, id := range ids {
		fmt.Println(id, poolsNamed[id].String())
	}
	return nil
}
