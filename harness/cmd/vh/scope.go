package main

// Conformance driver for the "scope" family (C16 rule-set / function scoping, C17 either / botheq groups).
// It only concretises and runs: every case names a registered Go type (generated per run into scope_gen.go by
// lib/fam_scope.py, see scopeTypes), a JSON value to build, the rule sets / functions to supply and the entry point to
// use; the error text of the real library is written back verbatim. Verdicts are taken elsewhere (TLC's expectation).

import (
	"fmt"
	"os"
	"reflect"
	"sort"
	"strings"

	"gitee.com/xuesongtao/protoc-go-valid/valid"
)

// scopeTypes is filled by the init() of the generated file scope_gen.go (absent in a plain build).
var scopeTypes = map[string]reflect.Type{}

// scopeTwins: per generated C16 type a constructor of a value of a different struct type with the same printed name.
var scopeTwins = map[string]func() interface{}{}

func init() {
	register("scope-run", scopeRun)
	register("scope-types", scopeListTypes)
}

type scopeTypedSet struct {
	Type string            `json:"type"`
	RM   map[string]string `json:"rm"`
}

type scopeCase struct {
	ID       int               `json:"id"`
	Carrier  string            `json:"carrier"`  // struct | map | url
	RootKind string            `json:"rootkind"` // val | ptr | slice | pslice | map
	Type     string            `json:"type"`     // registered struct type (struct carrier)
	Val      interface{}       `json:"val"`
	Typed    []scopeTypedSet   `json:"typed"`
	Unscoped map[string]string `json:"unscoped"` // nil = no unscoped set
	HasUn    bool              `json:"hasun"`
	CallFns  []string          `json:"callfns"`
	API      string            `json:"api"`
	MapKind  string            `json:"mapkind"` // int | string | bool | float | iface
	URL      string            `json:"url"`
	Decoys   []string          `json:"decoys"`
}

type scopeResult struct {
	ID    int    `json:"id"`
	Nil   bool   `json:"nil"`
	Err   string `json:"err"`
	Panic string `json:"panic,omitempty"`
}

// scopeFn builds a validation function that always reports (level, the rule text it was called with).
func scopeFn(level string) valid.CommonValidFn {
	return func(errBuf *strings.Builder, validName, objName, fieldName string, tv reflect.Value) {
		errBuf.WriteString(valid.GetJoinValidErrStr(objName, fieldName, "", valid.ExplainEn, level+":"+validName))
	}
}

func scopeListTypes(args []string) error {
	names := make([]string, 0, len(scopeTypes))
	for n := range scopeTypes {
		names = append(names, n)
	}
	sort.Strings(names)
	fmt.Println(len(names), "generated types")
	return nil
}

func scopeRun(args []string) error {
	// global registration happens once, before any call of this process (only in this sub-command)
	globals := strings.Split(os.Getenv("SCOPE_GLOBALS"), ",")
	for _, g := range globals {
		if g != "" {
			valid.SetCustomerValidFn(g, scopeFn("global"))
		}
	}
	in := newLineReader(os.Stdin)
	out := newLineWriter(os.Stdout)
	defer out.flush()
	for {
		var c scopeCase
		if !in.next(&c) {
			break
		}
		out.put(scopeDo(&c))
	}
	return nil
}

func scopeDo(c *scopeCase) (res scopeResult) {
	res.ID = c.ID
	defer func() {
		if r := recover(); r != nil {
			res.Panic = fmt.Sprint(r)
		}
	}()
	var err error
	switch c.Carrier {
	case "struct":
		err = scopeDoStruct(c)
	case "map":
		err = scopeDoMap(c)
	case "url":
		err = scopeDoURL(c)
	default:
		panic("scope: unknown carrier " + c.Carrier)
	}
	if err == nil {
		res.Nil = true
	} else {
		res.Err = err.Error()
	}
	return
}

func scopeFnMap(c *scopeCase) valid.Name2FnMap {
	m := valid.Name2FnMap{}
	for _, n := range c.CallFns {
		m[n] = scopeFn("call")
	}
	return m
}

func scopeRM(m map[string]string) valid.RM {
	r := valid.NewRule()
	for k, v := range m {
		r[k] = v
	}
	return r
}

func scopeType(name string) reflect.Type {
	t, ok := scopeTypes[name]
	if !ok {
		panic("scope: type not generated: " + name)
	}
	return t
}

func scopeDoStruct(c *scopeCase) error {
	t := scopeType(c.Type)
	var src interface{}
	switch c.RootKind {
	case "val":
		v := reflect.New(t).Elem()
		scopeFill(v, c.Val)
		src = v.Interface()
	case "ptr":
		v := reflect.New(t)
		scopeFill(v.Elem(), c.Val)
		src = v.Interface()
	case "slice":
		v := reflect.New(reflect.SliceOf(t)).Elem()
		scopeFill(v, c.Val)
		src = v.Interface()
	case "pslice":
		v := reflect.New(reflect.SliceOf(reflect.PtrTo(t))).Elem()
		scopeFill(v, c.Val)
		src = v.Interface()
	case "map":
		v := reflect.New(reflect.MapOf(reflect.TypeOf(""), t)).Elem()
		scopeFill(v, c.Val)
		src = v.Interface()
	default:
		panic("scope: unknown rootkind " + c.RootKind)
	}
	switch c.API {
	case "Struct": // unscoped set or nothing, no functions
		if c.HasUn {
			return valid.Struct(src, scopeRM(c.Unscoped))
		}
		return valid.Struct(src)
	case "ValidateStruct":
		return valid.ValidateStruct(src)
	case "StructForFn":
		return valid.StructForFn(src, scopeRM(c.Unscoped))
	case "ValidStructForRule":
		return valid.ValidStructForRule(scopeRM(c.Unscoped), src)
	case "StructForFns":
		return valid.StructForFns(src, scopeRM(c.Unscoped), scopeFnMap(c))
	case "NestedStructForRule":
		rm := map[interface{}]valid.RM{}
		for i, ts := range c.Typed {
			// the key names the type: a pointer to a value, or a typed nil pointer (nothing is ever read through it)
			if (c.ID+i)%3 == 2 {
				rm[reflect.Zero(reflect.PtrTo(scopeType(ts.Type))).Interface()] = scopeRM(ts.RM)
			} else {
				rm[reflect.New(scopeType(ts.Type)).Interface()] = scopeRM(ts.RM)
			}
		}
		return valid.NestedStructForRule(src, rm)
	case "vstruct", "vstruct-rev":
		vs := valid.NewVStruct()
		setTyped := func() {
			for i, ts := range c.Typed {
				obj := reflect.New(scopeType(ts.Type)) // the type is named by a pointer or by a value of it
				switch (c.ID + i) % 4 {
				case 1:
					vs.SetRule(scopeRM(ts.RM), obj.Elem().Interface())
				case 2: // a typed nil pointer names the type as well as any other pointer
					vs.SetRule(scopeRM(ts.RM), reflect.Zero(obj.Type()).Interface())
				case 3: // a pointer to a pointer
					pp := reflect.New(obj.Type())
					pp.Elem().Set(obj)
					vs.SetRule(scopeRM(ts.RM), pp.Interface())
				default:
					vs.SetRule(scopeRM(ts.RM), obj.Interface())
				}
			}
		}
		setUn := func() {
			if c.HasUn {
				vs.SetRule(scopeRM(c.Unscoped))
			}
		}
		// decoys: rule sets (with an unknown rule name, which would always show) registered for twin types - struct types
		// that differ from the scenario's types but print the same; they must apply to nothing
		setDecoys := func() {
			for _, n := range c.Decoys {
				if mk, ok := scopeTwins[n]; ok {
					vs.SetRule(valid.RM{"A": "p_decoy=1", "B": "p_decoy=1"}, mk())
				}
			}
		}
		if c.API == "vstruct" {
			setDecoys()
			setUn()
			setTyped()
		} else { // registration order must not matter
			setTyped()
			setUn()
			setDecoys()
		}
		for n, fn := range scopeFnMap(c) {
			vs.SetValidFn(n, fn)
		}
		return vs.Valid(src)
	}
	panic("scope: unknown api " + c.API)
}

func scopeMapType(kind string) reflect.Type {
	var e reflect.Type
	switch kind {
	case "int":
		e = reflect.TypeOf(int(0))
	case "uint":
		e = reflect.TypeOf(uint(0))
	case "string":
		e = reflect.TypeOf("")
	case "bool":
		e = reflect.TypeOf(false)
	case "float":
		e = reflect.TypeOf(float64(0))
	case "iface":
		e = reflect.TypeOf((*interface{})(nil)).Elem()
	default:
		panic("scope: unknown map kind " + kind)
	}
	return reflect.MapOf(reflect.TypeOf(""), e)
}

func scopeDoMap(c *scopeCase) error {
	mt := scopeMapType(c.MapKind)
	var src interface{}
	switch c.RootKind {
	case "val":
		v := reflect.New(mt).Elem()
		scopeFill(v, c.Val)
		src = v.Interface()
	case "ptr":
		v := reflect.New(mt)
		scopeFill(v.Elem(), c.Val)
		src = v.Interface()
	case "slice":
		v := reflect.New(reflect.SliceOf(mt)).Elem()
		scopeFill(v, c.Val)
		src = v.Interface()
	default:
		panic("scope: unknown rootkind " + c.RootKind)
	}
	switch c.API {
	case "Map":
		return valid.Map(src, scopeRM(c.Unscoped))
	case "MapFn":
		return valid.MapFn(src, scopeRM(c.Unscoped), scopeFnMap(c))
	case "vmap":
		vm := valid.NewVMap().SetRule(scopeRM(c.Unscoped))
		for n, fn := range scopeFnMap(c) {
			vm.SetValidFn(n, fn)
		}
		return vm.Valid(src)
	}
	panic("scope: unknown api " + c.API)
}

func scopeDoURL(c *scopeCase) error {
	switch c.API {
	case "Url":
		return valid.Url(c.URL, scopeRM(c.Unscoped))
	case "UrlPtr":
		u := c.URL
		return valid.Url(&u, scopeRM(c.Unscoped))
	case "vurl":
		vu := valid.NewVUrl().SetRule(scopeRM(c.Unscoped))
		for n, fn := range scopeFnMap(c) {
			vu.SetValidFn(n, fn)
		}
		return vu.Valid(c.URL)
	}
	panic("scope: unknown api " + c.API)
}

// scopeFill builds a Go value of rv's type from decoded JSON, driven by the Go type:
// struct <- object (field name -> value), slice <- array, map <- object, pointer <- null | pointee, scalars <- scalars.
func scopeFill(rv reflect.Value, j interface{}) {
	switch rv.Kind() {
	case reflect.Ptr:
		if j == nil {
			return
		}
		p := reflect.New(rv.Type().Elem())
		scopeFill(p.Elem(), j)
		rv.Set(p)
	case reflect.Struct:
		if j == nil {
			return
		}
		m, ok := j.(map[string]interface{})
		if !ok {
			panic(fmt.Sprintf("scope: struct %s wants an object, got %T", rv.Type(), j))
		}
		for k, v := range m {
			f := rv.FieldByName(k)
			if !f.IsValid() {
				panic("scope: no field " + k + " in " + rv.Type().String())
			}
			scopeFill(f, v)
		}
	case reflect.Slice:
		if j == nil {
			return
		}
		a := j.([]interface{})
		s := reflect.MakeSlice(rv.Type(), len(a), len(a))
		for i := range a {
			// {"$alias": k}: this element is the SAME pointer as element k (one object reached along two paths)
			if m, ok := a[i].(map[string]interface{}); ok && len(m) == 1 && m["$alias"] != nil && rv.Type().Elem().Kind() == reflect.Ptr {
				s.Index(i).Set(s.Index(int(m["$alias"].(float64))))
				continue
			}
			scopeFill(s.Index(i), a[i])
		}
		rv.Set(s)
	case reflect.Map:
		if j == nil {
			return
		}
		m := j.(map[string]interface{})
		mv := reflect.MakeMapWithSize(rv.Type(), len(m))
		for k, v := range m {
			e := reflect.New(rv.Type().Elem()).Elem()
			scopeFill(e, v)
			mv.SetMapIndex(reflect.ValueOf(k), e)
		}
		rv.Set(mv)
	case reflect.Interface:
		switch x := j.(type) {
		case nil:
		case float64:
			if x == float64(int(x)) {
				rv.Set(reflect.ValueOf(int(x)))
			} else {
				rv.Set(reflect.ValueOf(x))
			}
		default:
			rv.Set(reflect.ValueOf(j))
		}
	case reflect.Int, reflect.Int8, reflect.Int16, reflect.Int32, reflect.Int64:
		rv.SetInt(int64(j.(float64)))
	case reflect.Uint, reflect.Uint8, reflect.Uint16, reflect.Uint32, reflect.Uint64:
		rv.SetUint(uint64(j.(float64)))
	case reflect.Float32, reflect.Float64:
		rv.SetFloat(j.(float64))
	case reflect.String:
		rv.SetString(j.(string))
	case reflect.Bool:
		rv.SetBool(j.(bool))
	default:
		panic("scope: cannot fill " + rv.Type().String())
	}
}
