package main

// Concurrent LRU conformance (C10): lock-table extraction, small concurrent histories for the
// linearizability check by TLC, long histories ordered by under-lock stamps, and a plain stress mode
// for the race detector.

import (
	"encoding/json"
	"flag"
	"fmt"
	"math/rand"
	"os"
	"runtime"
	"sort"
	"strconv"
	"strings"
	"sync"
	"sync/atomic"
	"time"

	"gitee.com/xuesongtao/protoc-go-valid/valid"
)

func init() {
	register("lru-lockprobe", lruLockProbe)
	register("lru-conc-record", lruConcRecord)
	register("lru-conc-long", lruConcLong)
	register("lru-hammer", lruHammer)
}

// lruLockProbe: single goroutine; inside each method (via the hook) ask which lock mode is held.
// One public call may reach several access points (a method calling another locked method while it
// still holds its own lock): the first hook event of a call gives the method's own mode, the further
// ones are reported as nested acquisitions (op -> list of "<inner op>:<mode held when reached>").
func lruLockProbe(args []string) error {
	c := valid.NewLRU(2)
	table := map[string]string{}
	nested := map[string][]string{}
	cur := ""
	first := true
	valid.VerifLRUHook = func(l *valid.LRUCache, op string) {
		st := l.VerifLockState()
		if first {
			first = false
			table[cur] = st
			if op != cur {
				nested[cur] = append(nested[cur], op+":"+st)
			}
			return
		}
		nested[cur] = append(nested[cur], op+":"+st)
	}
	call := func(name string, f func()) {
		cur = name
		first = true
		done := make(chan struct{})
		go func() { defer close(done); f() }()
		select {
		case <-done:
		case <-time.After(10 * time.Second):
			// a method that re-acquires its own lock exclusively never returns even single-threaded
			table[name+"!selfdeadlock"] = "1"
		}
	}
	call("Store", func() { c.Store("a", "a=1") })
	call("Load", func() { c.Load("a") })
	call("Len", func() { c.Len() })
	call("Dump", func() { c.Dump() })
	call("Delete", func() { c.Delete("a") })
	valid.VerifLRUHook = nil
	after := c.VerifLockState()
	out := map[string]interface{}{"table": table, "after": after, "nested": nested}
	b, _ := json.Marshal(out)
	fmt.Println(string(b))
	return nil
}

// blockedOnCacheLock reports whether some goroutine is parked inside the cache's RWMutex (used to tell a real
// deadlock from a slow machine when a watchdog expires).
func blockedOnCacheLock() (bool, string) {
	buf := make([]byte, 1<<20)
	n := runtime.Stack(buf, true)
	st := string(buf[:n])
	for _, g := range strings.Split(st, "\n\n") {
		if strings.Contains(g, "sync.(*RWMutex)") && strings.Contains(g, "valid.(*LRUCache)") {
			lines := strings.Split(g, "\n")
			if len(lines) > 12 {
				lines = lines[:12]
			}
			return true, strings.Join(lines, " | ")
		}
	}
	return false, ""
}

type concEvent struct {
	Seq  int64       `json:"-"`
	E    string      `json:"e"`
	Cap  int         `json:"cap"`
	P    string      `json:"p"`
	Op   string      `json:"op"`
	K    string      `json:"k"`
	V    string      `json:"v"`
	Ok   bool        `json:"ok"`
	Res  string      `json:"res"`
	N    int         `json:"n"`
	Dump [][2]string `json:"dump"`
	Len  int         `json:"len"`
	H    int         `json:"h"`
}

func parseDump(s string) [][2]string {
	out := [][2]string{}
	if s == "" {
		return out
	}
	for _, line := range strings.Split(s, "\n") {
		k, v, _ := decVal(line)
		out = append(out, [2]string{k, v})
	}
	return out
}

func randOp(rng *rand.Rand, keys, vals int, withDump bool) lruOp {
	k := "k" + strconv.Itoa(1+rng.Intn(keys))
	r := rng.Intn(100)
	switch {
	case r < 35:
		return lruOp{"Store", k, "v" + strconv.Itoa(1+rng.Intn(vals))}
	case r < 60:
		return lruOp{"Load", k, "none"}
	case r < 78:
		return lruOp{"Delete", k, "none"}
	case r < 90 || !withDump:
		return lruOp{"Len", "none", "none"}
	default:
		return lruOp{"Dump", "none", "none"}
	}
}

// oneHistory runs procs goroutines with nops operations each on a fresh cache and returns the merged event log.
func oneHistory(rng *rand.Rand, h, cap, procs, nops, keys, vals int) (evs []concEvent, panicked string) {
	var seq int64
	c := valid.NewLRU(cap)
	var cbMu sync.Mutex
	var cbs []concEvent
	c.SetDelCallBackFn(func(key, value interface{}) {
		s := atomic.AddInt64(&seq, 1)
		ks := lruKeyName(key)
		_, v, _ := decVal(fmt.Sprint(value))
		cbMu.Lock()
		cbs = append(cbs, concEvent{Seq: s, E: "cb", Cap: cap, P: "none", Op: "none", K: ks, V: v, Res: "none", Dump: [][2]string{}, H: h})
		cbMu.Unlock()
	})
	plans := make([][]lruOp, procs)
	for p := range plans {
		plans[p] = make([]lruOp, nops)
		for i := range plans[p] {
			plans[p][i] = randOp(rng, keys, vals, true)
		}
	}
	per := make([][]concEvent, procs)
	var wg sync.WaitGroup
	var ready int32
	start := make(chan struct{})
	var panicMu sync.Mutex
	for p := 0; p < procs; p++ {
		wg.Add(1)
		go func(p int) {
			defer wg.Done()
			defer func() {
				if r := recover(); r != nil {
					panicMu.Lock()
					panicked = fmt.Sprint(r)
					panicMu.Unlock()
				}
			}()
			name := "p" + strconv.Itoa(p+1)
			atomic.AddInt32(&ready, 1)
			<-start
			for _, op := range plans[p] {
				s := atomic.AddInt64(&seq, 1)
				per[p] = append(per[p], concEvent{Seq: s, E: "inv", Cap: cap, P: name, Op: op.op, K: op.k, V: op.v, Res: "none", Dump: [][2]string{}, H: h})
				ev := concEvent{E: "ret", Cap: cap, P: name, Op: op.op, K: "none", V: "none", Res: "none", Dump: [][2]string{}, H: h}
				switch op.op {
				case "Store":
					c.Store(lruKey(op.k), encVal(op.k, op.v))
					ev.Ok = true
				case "Load":
					val, hit := c.Load(lruKey(op.k))
					ev.Ok = hit
					if hit {
						kk, vv, good := decVal(fmt.Sprint(val))
						if good && kk == op.k {
							ev.Res = vv
						} else {
							ev.Res = "foreign:" + fmt.Sprint(val)
						}
					}
				case "Delete":
					c.Delete(lruKey(op.k))
					ev.Ok = true
				case "Len":
					ev.N = c.Len()
					ev.Ok = true
				case "Dump":
					ev.Dump = parseDump(c.Dump())
					ev.N = len(ev.Dump)
					ev.Ok = true
				}
				ev.Seq = atomic.AddInt64(&seq, 1)
				per[p] = append(per[p], ev)
			}
		}(p)
	}
	for atomic.LoadInt32(&ready) < int32(procs) {
		runtime.Gosched()
	}
	close(start)
	done := make(chan struct{})
	go func() { wg.Wait(); close(done) }()
	select {
	case <-done:
	case <-time.After(20 * time.Second):
		if blocked, where := blockedOnCacheLock(); blocked {
			return nil, "deadlock: history did not finish in 20s; goroutine parked in the cache lock: " + where
		}
		return nil, "stalled: history did not finish in 20s but no goroutine is parked in the cache lock"
	}
	evs = append(evs, concEvent{Seq: 0, E: "reset", Cap: cap, P: "none", Op: "none", K: "none", V: "none", Res: "none", Dump: [][2]string{}, H: h})
	for _, pe := range per {
		evs = append(evs, pe...)
	}
	evs = append(evs, cbs...)
	sort.Slice(evs, func(i, j int) bool { return evs[i].Seq < evs[j].Seq })
	evs = append(evs, concEvent{E: "q", Cap: cap, P: "none", Op: "none", K: "none", V: "none", Res: "none", Dump: parseDump(c.Dump()), Len: c.Len(), H: h})
	return evs, panicked
}

func parseInts(s string) ([]int, error) {
	var out []int
	for _, x := range strings.Split(s, ",") {
		n, err := strconv.Atoi(x)
		if err != nil {
			return nil, err
		}
		out = append(out, n)
	}
	return out, nil
}

// lruConcRecord: many small concurrent histories, sharded round-robin into <out>.<i>.ndjson
func lruConcRecord(args []string) error {
	fs := flag.NewFlagSet("lru-conc-record", flag.ExitOnError)
	n := fs.Int("n", 200, "histories")
	capsS := fs.String("caps", "0,1,2,3", "")
	maxProcs := fs.Int("procs", 4, "2..procs goroutines")
	maxOps := fs.Int("ops", 5, "3..ops operations each")
	keys := fs.Int("keys", 3, "")
	shards := fs.Int("shards", 1, "")
	outp := fs.String("out", "lruconc", "")
	fs.Parse(args)
	caps, err := parseInts(*capsS)
	if err != nil {
		return err
	}
	ws := make([]*lineWriter, *shards)
	for i := range ws {
		f, err := os.Create(fmt.Sprintf("%s.%d.ndjson", *outp, i))
		if err != nil {
			return err
		}
		defer f.Close()
		ws[i] = newLineWriter(f)
		defer ws[i].flush()
	}
	rng := rand.New(rand.NewSource(seed()))
	overlaps := 0
	for h := 0; h < *n; h++ {
		procs := 2 + rng.Intn(*maxProcs-1)
		nops := 3 + rng.Intn(*maxOps-2)
		cap := caps[rng.Intn(len(caps))]
		evs, pan := oneHistory(rng, h, cap, procs, nops, 2+rng.Intn(*keys-1), 2)
		if pan != "" {
			ws[h%*shards].put(concEvent{E: "panic", Cap: cap, P: "none", Op: "none", K: "none", V: "none", Res: pan, Dump: [][2]string{}, H: h})
			if strings.HasPrefix(pan, "deadlock") || strings.HasPrefix(pan, "stalled") {
				fmt.Fprintf(os.Stderr, "aborted after history %d: %s\n", h, pan)
				fmt.Fprintf(os.Stderr, "histories=%d overlapping=%d\n", h+1, overlaps)
				return nil // leaked goroutines hold the old cache only
			}
			continue
		}
		// count real overlap: an inv that follows another process's inv before that one's ret
		open := map[string]bool{}
		ov := false
		for _, e := range evs {
			if e.E == "inv" {
				if len(open) > 0 {
					ov = true
				}
				open[e.P] = true
			} else if e.E == "ret" {
				delete(open, e.P)
			}
		}
		if ov {
			overlaps++
		}
		for _, e := range evs {
			ws[h%*shards].put(e)
		}
	}
	fmt.Fprintf(os.Stderr, "histories=%d overlapping=%d\n", *n, overlaps)
	return nil
}

func goid() int64 {
	var buf [64]byte
	n := runtime.Stack(buf[:], false)
	// "goroutine 123 ["
	s := string(buf[:n])
	s = strings.TrimPrefix(s, "goroutine ")
	if i := strings.IndexByte(s, ' '); i > 0 {
		id, _ := strconv.ParseInt(s[:i], 10, 64)
		return id
	}
	return -1
}

type longRec struct {
	stamp int64
	ev    lruEvent
}

// lruConcLong: many goroutines, many operations; the hook (called inside the method while it holds its lock)
// stamps the linearization order; the output is a *sequential* trace in Trace_LRU format ("opx" events).
func lruConcLong(args []string) error {
	fs := flag.NewFlagSet("lru-conc-long", flag.ExitOnError)
	procs := fs.Int("procs", 16, "")
	nops := fs.Int("ops", 1000, "per goroutine")
	capsS := fs.String("caps", "0,1,2,4,8", "")
	keys := fs.Int("keys", 12, "")
	rounds := fs.Int("rounds", 4, "")
	outp := fs.String("out", "lrulong.ndjson", "")
	fs.Parse(args)
	caps, err := parseInts(*capsS)
	if err != nil {
		return err
	}
	f, err := os.Create(*outp)
	if err != nil {
		return err
	}
	defer f.Close()
	w := newLineWriter(f)
	defer w.flush()
	rng := rand.New(rand.NewSource(seed()))
	for r := 0; r < *rounds; r++ {
		cap := caps[r%len(caps)]
		nkeys := *keys
		if r%2 == 1 && cap > 1 {
			nkeys = cap - 1 // key set smaller than capacity: no eviction, hits dominate
		}
		var seq int64
		var stamps sync.Map // goid -> stamp of the operation in progress
		var cur int64       // stamp of the operation currently inside a write-locked method
		c := valid.NewLRU(cap)
		var cbMu sync.Mutex
		cbBy := map[int64][][2]string{}
		c.SetDelCallBackFn(func(key, value interface{}) {
			ks := lruKeyName(key)
			_, v, _ := decVal(fmt.Sprint(value))
			st := atomic.LoadInt64(&cur)
			cbMu.Lock()
			cbBy[st] = append(cbBy[st], [2]string{ks, v})
			cbMu.Unlock()
		})
		valid.VerifLRUHook = func(l *valid.LRUCache, op string) {
			if l != c {
				return
			}
			s := atomic.AddInt64(&seq, 1)
			stamps.Store(goid(), s)
			if op == "Store" || op == "Load" || op == "Delete" {
				atomic.StoreInt64(&cur, s)
			}
		}
		per := make([][]longRec, *procs)
		plans := make([][]lruOp, *procs)
		for p := range plans {
			plans[p] = make([]lruOp, *nops)
			for i := range plans[p] {
				plans[p][i] = randOp(rng, nkeys, 3, false)
			}
		}
		var wg sync.WaitGroup
		var pan atomic.Value
		for p := 0; p < *procs; p++ {
			wg.Add(1)
			go func(p int) {
				defer wg.Done()
				defer func() {
					if r := recover(); r != nil {
						pan.Store(fmt.Sprint(r))
					}
				}()
				me := goid()
				for _, op := range plans[p] {
					ev := lruEvent{E: "opx", Cap: cap, Op: op.op, K: op.k, V: op.v, Res: "none", Cb: [][2]string{}, Dump: [][2]string{}}
					switch op.op {
					case "Store":
						c.Store(lruKey(op.k), encVal(op.k, op.v))
						ev.Ok = true
					case "Load":
						val, hit := c.Load(lruKey(op.k))
						ev.Ok = hit
						if hit {
							kk, vv, good := decVal(fmt.Sprint(val))
							if good && kk == op.k {
								ev.Res = vv
							} else {
								ev.Res = "foreign:" + fmt.Sprint(val)
							}
						}
					case "Delete":
						c.Delete(lruKey(op.k))
						ev.Ok = true
					case "Len":
						ev.N = c.Len()
						ev.Ok = true
					}
					st, ok := stamps.Load(me)
					if !ok {
						pan.Store("hook not called for " + op.op)
						return
					}
					per[p] = append(per[p], longRec{st.(int64), ev})
				}
			}(p)
		}
		done := make(chan struct{})
		go func() { wg.Wait(); close(done) }()
		select {
		case <-done:
		case <-time.After(120 * time.Second):
			w.put(lruEvent{E: "panic", Cap: cap, Op: "none", K: "none", V: "none", Res: "deadlock: round did not finish in 120s", Cb: [][2]string{}, Dump: [][2]string{}})
			valid.VerifLRUHook = nil
			return nil
		}
		valid.VerifLRUHook = nil
		w.put(lruEvent{E: "reset", Cap: cap, Op: "none", K: "none", V: "none", Res: "none", Cb: [][2]string{}, Dump: [][2]string{}, Id: r})
		if s := pan.Load(); s != nil {
			w.put(lruEvent{E: "panic", Cap: cap, Op: "none", K: "none", V: "none", Res: s.(string), Cb: [][2]string{}, Dump: [][2]string{}})
			continue
		}
		var all []longRec
		for _, pe := range per {
			all = append(all, pe...)
		}
		sort.Slice(all, func(i, j int) bool { return all[i].stamp < all[j].stamp })
		for _, r := range all {
			if cbs := cbBy[r.stamp]; cbs != nil {
				r.ev.Cb = cbs
			}
			w.put(r.ev)
		}
		w.put(lruEvent{E: "q", Cap: cap, Op: "none", K: "none", V: "none", Res: "none", Cb: [][2]string{}, Dump: parseDump(c.Dump()), Len: c.Len()})
	}
	return nil
}

// lruHammer: plain stress for the race detector; no harness-side synchronisation between the goroutines.
func lruHammer(args []string) error {
	fs := flag.NewFlagSet("lru-hammer", flag.ExitOnError)
	ms := fs.Int("ms", 1500, "duration per configuration")
	pair := fs.String("pair", "", "restrict to two operations, e.g. Store,Dump")
	procs := fs.Int("procs", 8, "")
	capsS := fs.String("caps", "0,1,3,8", "")
	fs.Parse(args)
	caps, err := parseInts(*capsS)
	if err != nil {
		return err
	}
	var ops []string
	if *pair != "" {
		ops = strings.Split(*pair, ",")
	} else {
		ops = []string{"Store", "Load", "Delete", "Len", "Dump"}
	}
	total := int64(0)
	for _, cap := range caps {
		c := valid.NewLRU(cap)
		var fired int64
		c.SetDelCallBackFn(func(key, value interface{}) { atomic.AddInt64(&fired, 1) })
		var stop int32
		var wg sync.WaitGroup
		var cnt int64
		if *pair != "" { // targeted run: make hits (and therefore recency updates) the common case
			for i := 1; i <= cap; i++ {
				k := "k" + strconv.Itoa(i)
				c.Store(lruKey(k), k+"=v")
			}
		}
		for p := 0; p < *procs; p++ {
			wg.Add(1)
			go func(p int) {
				defer wg.Done()
				rng := rand.New(rand.NewSource(seed()*1000 + int64(p)))
				n := int64(0)
				for atomic.LoadInt32(&stop) == 0 {
					op := ops[p%len(ops)]
					if *pair == "" {
						op = ops[rng.Intn(len(ops))]
					}
					k := "k" + strconv.Itoa(1+rng.Intn(cap+3))
					switch op {
					case "Store":
						c.Store(lruKey(k), k+"=v")
					case "Load":
						c.Load(lruKey(k))
					case "Delete":
						c.Delete(lruKey(k))
					case "Len":
						if c.Len() > cap {
							fmt.Println("HAMMER-FAIL len exceeds capacity")
						}
					case "Dump":
						_ = c.Dump()
					}
					n++
				}
				atomic.AddInt64(&cnt, n)
			}(p)
		}
		time.Sleep(time.Duration(*ms) * time.Millisecond)
		atomic.StoreInt32(&stop, 1)
		done := make(chan struct{})
		go func() { wg.Wait(); close(done) }()
		select {
		case <-done:
		case <-time.After(15 * time.Second):
			if blocked, where := blockedOnCacheLock(); blocked {
				fmt.Println("HAMMER-FAIL deadlock: goroutines did not stop; parked in the cache lock: " + where)
			} else {
				fmt.Println("HAMMER-STALL goroutines did not stop but none is parked in the cache lock")
			}
			return nil
		}
		if n := c.Len(); n < 0 || n > cap {
			fmt.Printf("HAMMER-FAIL quiescent Len=%d cap=%d\n", n, cap)
		}
		total += cnt
	}
	fmt.Printf("HAMMER-OK ops=%d\n", total)
	return nil
}
