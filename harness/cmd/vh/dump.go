package main

// Struct dumper conformance (C20).
//
//   dump-run   stdin: ndjson records {id, tn?, ty, v, doc?} (typed value trees of spec/Dump.tla); each tree is
//              concretised into a real Go value (a generated named type registered in dumpReg under tn, or a
//              reflect.StructOf type when tn is empty), handed to valid.GetDumpStructStr and to the standard
//              encoder (encoding/json), and both outputs are abstracted into the token alphabet of the spec.
//              stdout: ndjson {id, ty, v, tokens, jtokens, out, jout, valid, docEq?, looseEq, panic?}.
//              The verdict is TLC's (Judge_Dump.tla); valid/docEq/looseEq are encoding/json cross-checks.
//   dump-rand  seeded random typed value trees (volume tier), same record format.
//
// Nothing here knows what the dumper should print: the code only concretises (tree -> Go value), abstracts
// (characters -> tokens, JSON text -> document) and compares for equality.

import (
	"encoding/json"
	"flag"
	"fmt"
	"math"
	"math/rand"
	"os"
	"reflect"
	"regexp"
	"runtime"
	"strconv"
	"strings"
	"sync"
	"unicode"
	"unicode/utf16"
	"unsafe"

	"gitee.com/xuesongtao/protoc-go-valid/valid"
)

func init() {
	register("dump-run", dumpRun)
	register("dump-rand", dumpRand)
}

// dumpReg holds the generated named struct types (filled by generated files' init functions).
var dumpReg = map[string]reflect.Type{}

// ---------------------------------------------------------------- wire format (spec/Dump.tla)

type dumpField struct {
	N string    `json:"n"`
	X bool      `json:"x"`
	T *dumpType `json:"t"`
}

type dumpType struct {
	K    string      `json:"k"`
	Kind string      `json:"kind"` // sc: string bool int uint float
	G    string      `json:"g"`    // sc: concrete Go kind (harness annotation, not read by the spec)
	Fs   []dumpField `json:"fs"`   // st
	T    *dumpType   `json:"t"`    // pt sl mp
	Key  string      `json:"key"`  // mp: int | string
	KeyG string      `json:"keyg"` // mp: concrete Go kind of the key
}

func (t *dumpType) MarshalJSON() ([]byte, error) {
	switch t.K {
	case "sc":
		return json.Marshal(map[string]interface{}{"k": t.K, "kind": t.Kind, "g": t.G})
	case "st":
		fs := t.Fs
		if fs == nil {
			fs = []dumpField{}
		}
		return json.Marshal(map[string]interface{}{"k": t.K, "fs": fs})
	case "pt", "sl":
		return json.Marshal(map[string]interface{}{"k": t.K, "t": t.T})
	case "mp":
		return json.Marshal(map[string]interface{}{"k": t.K, "key": t.Key, "keyg": t.KeyG, "t": t.T})
	}
	return nil, fmt.Errorf("bad type node %q", t.K)
}

type dumpEntry struct {
	Key string   `json:"key"`
	V   *dumpVal `json:"v"`
}

type dumpVal struct {
	K   string      `json:"k"`
	Txt string      `json:"txt"`
	Nil bool        `json:"nil"`
	Fs  []*dumpVal  `json:"fs"`
	To  *dumpVal    `json:"to"`
	Es  []*dumpVal  `json:"es"`
	En  []dumpEntry `json:"en"`
}

func (v *dumpVal) MarshalJSON() ([]byte, error) {
	switch v.K {
	case "sc":
		return json.Marshal(map[string]interface{}{"k": v.K, "txt": v.Txt})
	case "st":
		fs := v.Fs
		if fs == nil {
			fs = []*dumpVal{}
		}
		return json.Marshal(map[string]interface{}{"k": v.K, "fs": fs})
	case "pt":
		to := v.To
		if v.Nil || to == nil {
			to = &dumpVal{K: "none"}
		}
		return json.Marshal(map[string]interface{}{"k": v.K, "nil": v.Nil, "to": to})
	case "sl":
		es := v.Es
		if es == nil {
			es = []*dumpVal{}
		}
		return json.Marshal(map[string]interface{}{"k": v.K, "nil": v.Nil, "es": es})
	case "mp":
		en := v.En
		if en == nil {
			en = []dumpEntry{}
		}
		return json.Marshal(map[string]interface{}{"k": v.K, "nil": v.Nil, "en": en})
	case "none":
		return []byte(`{"k":"none"}`), nil
	}
	return nil, fmt.Errorf("bad value node %q", v.K)
}

type dumpTok struct {
	T string `json:"t"`
	S string `json:"s"`
}

// dumpDoc is the document shape of the spec: leaves (str num true false null), arr, obj.
type dumpDoc struct {
	T    string     `json:"t"`
	S    string     `json:"s"`
	Keys []string   `json:"keys"`
	Kids []*dumpDoc `json:"kids"`
}

type dumpRec struct {
	ID  int       `json:"id"`
	TN  string    `json:"tn,omitempty"`
	Ty  *dumpType `json:"ty"`
	V   *dumpVal  `json:"v"`
	Doc *dumpDoc  `json:"doc,omitempty"`
}

type dumpOut struct {
	ID      int       `json:"id"`
	TN      string    `json:"tn,omitempty"`
	Ty      *dumpType `json:"ty"`
	V       *dumpVal  `json:"v"`
	Tokens  []dumpTok `json:"tokens"`
	JTokens []dumpTok `json:"jtokens"`
	Out     string    `json:"out"`
	JOut    string    `json:"jout"`
	Valid   bool      `json:"valid"`
	HasDoc  bool      `json:"hasDoc"`
	DocEq   bool      `json:"docEq"`
	LooseEq bool      `json:"looseEq"`
	FJDiff  bool      `json:"fjdiff,omitempty"`
	Conc    bool      `json:"conc,omitempty"`    // the library call ran concurrently with the other calls of its batch
	Changed string    `json:"changed,omitempty"` // what the returned string reads now, if not what it read at return
	Panic   string    `json:"panic,omitempty"`
}

// ---------------------------------------------------------------- concretiser: tree -> Go type and value

var dumpKinds = map[string]reflect.Type{
	"string": reflect.TypeOf(""), "bool": reflect.TypeOf(false),
	"int": reflect.TypeOf(int(0)), "int8": reflect.TypeOf(int8(0)), "int16": reflect.TypeOf(int16(0)),
	"int32": reflect.TypeOf(int32(0)), "int64": reflect.TypeOf(int64(0)),
	"uint": reflect.TypeOf(uint(0)), "uint8": reflect.TypeOf(uint8(0)), "uint16": reflect.TypeOf(uint16(0)),
	"uint32": reflect.TypeOf(uint32(0)), "uint64": reflect.TypeOf(uint64(0)),
	"float32": reflect.TypeOf(float32(0)), "float64": reflect.TypeOf(float64(0)),
}

var dumpDefaultG = map[string]string{"string": "string", "bool": "bool", "int": "int", "uint": "uint", "float": "float64"}

func dumpScalarType(kind, g string) (reflect.Type, error) {
	if g == "" {
		g = dumpDefaultG[kind]
	}
	t, ok := dumpKinds[g]
	if !ok {
		return nil, fmt.Errorf("unknown Go kind %q for %q", g, kind)
	}
	// the concrete kind must belong to the abstract kind
	okKind := false
	switch kind {
	case "string":
		okKind = t.Kind() == reflect.String
	case "bool":
		okKind = t.Kind() == reflect.Bool
	case "int":
		okKind = t.Kind() >= reflect.Int && t.Kind() <= reflect.Int64
	case "uint":
		okKind = t.Kind() >= reflect.Uint && t.Kind() <= reflect.Uint64
	case "float":
		okKind = t.Kind() == reflect.Float32 || t.Kind() == reflect.Float64
	}
	if !okKind {
		return nil, fmt.Errorf("Go kind %q is not a %q", g, kind)
	}
	return t, nil
}

func dumpKeyType(ty *dumpType) (reflect.Type, error) {
	g := ty.KeyG
	if g == "" {
		g = ty.Key
	}
	t, ok := dumpKinds[g]
	if !ok {
		return nil, fmt.Errorf("unknown key kind %q", g)
	}
	switch ty.Key {
	case "string":
		if t.Kind() != reflect.String {
			return nil, fmt.Errorf("key kind %q is not a string", g)
		}
	case "int":
		if !(t.Kind() >= reflect.Int && t.Kind() <= reflect.Uint64) {
			return nil, fmt.Errorf("key kind %q is not an integer", g)
		}
	default:
		return nil, fmt.Errorf("bad key class %q", ty.Key)
	}
	return t, nil
}

// dumpGoType builds the Go type of a type tree at run time (exported fields only: reflect.StructOf limit).
func dumpGoType(ty *dumpType) (reflect.Type, error) {
	switch ty.K {
	case "sc":
		return dumpScalarType(ty.Kind, ty.G)
	case "st":
		fs := make([]reflect.StructField, len(ty.Fs))
		for i, f := range ty.Fs {
			if !f.X {
				return nil, fmt.Errorf("unexported field %q needs a generated named type", f.N)
			}
			ft, err := dumpGoType(f.T)
			if err != nil {
				return nil, err
			}
			fs[i] = reflect.StructField{Name: f.N, Type: ft}
		}
		return reflect.StructOf(fs), nil
	case "pt":
		et, err := dumpGoType(ty.T)
		if err != nil {
			return nil, err
		}
		return reflect.PtrTo(et), nil
	case "sl":
		et, err := dumpGoType(ty.T)
		if err != nil {
			return nil, err
		}
		return reflect.SliceOf(et), nil
	case "mp":
		kt, err := dumpKeyType(ty)
		if err != nil {
			return nil, err
		}
		et, err := dumpGoType(ty.T)
		if err != nil {
			return nil, err
		}
		return reflect.MapOf(kt, et), nil
	}
	return nil, fmt.Errorf("bad type node %q", ty.K)
}

// dumpCheckType verifies that a (generated) Go type is the one the type tree describes.
func dumpCheckType(t reflect.Type, ty *dumpType) error {
	switch ty.K {
	case "sc":
		want, err := dumpScalarType(ty.Kind, ty.G)
		if err != nil {
			return err
		}
		if t != want {
			return fmt.Errorf("scalar %v, want %v", t, want)
		}
	case "st":
		if t.Kind() != reflect.Struct || t.NumField() != len(ty.Fs) {
			return fmt.Errorf("%v is not a struct of %d fields", t, len(ty.Fs))
		}
		for i, f := range ty.Fs {
			sf := t.Field(i)
			if sf.Name != f.N || sf.Anonymous || (sf.PkgPath == "") != f.X {
				return fmt.Errorf("field %d of %v is %q, want %q exported=%v", i, t, sf.Name, f.N, f.X)
			}
			if err := dumpCheckType(sf.Type, f.T); err != nil {
				return err
			}
		}
	case "pt":
		if t.Kind() != reflect.Ptr {
			return fmt.Errorf("%v is not a pointer", t)
		}
		return dumpCheckType(t.Elem(), ty.T)
	case "sl":
		if t.Kind() != reflect.Slice {
			return fmt.Errorf("%v is not a slice", t)
		}
		return dumpCheckType(t.Elem(), ty.T)
	case "mp":
		kt, err := dumpKeyType(ty)
		if err != nil {
			return err
		}
		if t.Kind() != reflect.Map || t.Key() != kt {
			return fmt.Errorf("%v is not a map keyed by %v", t, kt)
		}
		return dumpCheckType(t.Elem(), ty.T)
	default:
		return fmt.Errorf("bad type node %q", ty.K)
	}
	return nil
}

func dumpSetScalar(dst reflect.Value, txt string) error {
	switch dst.Kind() {
	case reflect.String:
		dst.SetString(txt)
	case reflect.Bool:
		if txt != "true" && txt != "false" {
			return fmt.Errorf("bad bool text %q", txt)
		}
		dst.SetBool(txt == "true")
	case reflect.Int, reflect.Int8, reflect.Int16, reflect.Int32, reflect.Int64:
		n, err := strconv.ParseInt(txt, 10, dst.Type().Bits())
		if err != nil {
			return err
		}
		dst.SetInt(n)
	case reflect.Uint, reflect.Uint8, reflect.Uint16, reflect.Uint32, reflect.Uint64:
		n, err := strconv.ParseUint(txt, 10, dst.Type().Bits())
		if err != nil {
			return err
		}
		dst.SetUint(n)
	case reflect.Float32, reflect.Float64:
		f, err := strconv.ParseFloat(txt, dst.Type().Bits())
		if err != nil {
			return err
		}
		dst.SetFloat(f)
	default:
		return fmt.Errorf("not a scalar: %v", dst.Type())
	}
	return nil
}

// dumpFill stores the value tree v into the addressable Go value dst.
func dumpFill(dst reflect.Value, ty *dumpType, v *dumpVal) error {
	if v == nil || v.K != ty.K {
		return fmt.Errorf("value node does not fit type node %q", ty.K)
	}
	switch ty.K {
	case "sc":
		return dumpSetScalar(dst, v.Txt)
	case "st":
		if len(v.Fs) != len(ty.Fs) {
			return fmt.Errorf("struct value has %d fields, type %d", len(v.Fs), len(ty.Fs))
		}
		for i := range ty.Fs {
			f := dst.Field(i)
			if !f.CanSet() { // unexported field of a generated type
				f = reflect.NewAt(f.Type(), unsafe.Pointer(f.UnsafeAddr())).Elem()
			}
			if err := dumpFill(f, ty.Fs[i].T, v.Fs[i]); err != nil {
				return err
			}
		}
	case "pt":
		if v.Nil {
			return nil
		}
		p := reflect.New(dst.Type().Elem())
		if err := dumpFill(p.Elem(), ty.T, v.To); err != nil {
			return err
		}
		dst.Set(p)
	case "sl":
		if v.Nil {
			if len(v.Es) != 0 {
				return fmt.Errorf("nil slice with elements")
			}
			return nil
		}
		s := reflect.MakeSlice(dst.Type(), len(v.Es), len(v.Es))
		for i, e := range v.Es {
			if err := dumpFill(s.Index(i), ty.T, e); err != nil {
				return err
			}
		}
		dst.Set(s)
	case "mp":
		if v.Nil {
			if len(v.En) != 0 {
				return fmt.Errorf("nil map with entries")
			}
			return nil
		}
		m := reflect.MakeMapWithSize(dst.Type(), len(v.En))
		for _, e := range v.En {
			k := reflect.New(dst.Type().Key()).Elem()
			if err := dumpSetScalar(k, e.Key); err != nil {
				return err
			}
			ev := reflect.New(dst.Type().Elem()).Elem()
			if err := dumpFill(ev, ty.T, e.V); err != nil {
				return err
			}
			if m.MapIndex(k).IsValid() {
				return fmt.Errorf("duplicate map key %q", e.Key)
			}
			m.SetMapIndex(k, ev)
		}
		dst.Set(m)
	}
	return nil
}

// dumpConcretise returns the Go value (as interface{}) for a record: a struct, or a pointer to a struct.
func dumpConcretise(r *dumpRec) (interface{}, error) {
	ty := r.Ty
	if ty.K != "st" && !(ty.K == "pt" && ty.T != nil && ty.T.K == "st") {
		return nil, fmt.Errorf("root must be a struct or a pointer to a struct")
	}
	var rt reflect.Type
	if r.TN != "" {
		st, ok := dumpReg[r.TN]
		if !ok {
			return nil, fmt.Errorf("generated type %q is not in this binary", r.TN)
		}
		rt = st
		if ty.K == "pt" {
			rt = reflect.PtrTo(st)
		}
		if err := dumpCheckType(rt, ty); err != nil {
			return nil, fmt.Errorf("generated type %s: %v", r.TN, err)
		}
	} else {
		var err error
		if rt, err = dumpGoType(ty); err != nil {
			return nil, err
		}
	}
	root := reflect.New(rt).Elem()
	if err := dumpFill(root, ty, r.V); err != nil {
		return nil, err
	}
	return root.Interface(), nil
}

// ---------------------------------------------------------------- abstraction: characters -> tokens, text -> document

var dumpNumRe = regexp.MustCompile(`^-?(0|[1-9][0-9]*)(\.[0-9]+)?([eE][+-]?[0-9]+)?$`)
var dumpIntRe = regexp.MustCompile(`^-?(0|[1-9][0-9]*)$`)

// dumpCanonNum: canonical text of a JSON number. Integers keep their digits. Other numbers are printed in
// positional notation with the fewest digits that identify the value - at binary32 precision when the value
// is exactly a binary32 number (a float32 field printed through float64 reads 0.10000000149011612 and is the
// same number as 0.1 "at the field's own precision"), at binary64 precision otherwise.
func dumpCanonNum(s string) (string, bool) {
	if !dumpNumRe.MatchString(s) {
		return s, false
	}
	if dumpIntRe.MatchString(s) {
		return s, true
	}
	x, err := strconv.ParseFloat(s, 64)
	if err != nil || math.IsInf(x, 0) || math.IsNaN(x) {
		return s, false
	}
	if float64(float32(x)) == x {
		return strconv.FormatFloat(x, 'f', -1, 32), true
	}
	return strconv.FormatFloat(x, 'f', -1, 64), true
}

// dumpLex reads JSON-like text into the token alphabet of spec/Dump.tla:
// { } [ ] , : str num true false null, and bad for anything else.
func dumpLex(s string) []dumpTok {
	toks := []dumpTok{}
	i := 0
	for i < len(s) {
		c := s[i]
		switch {
		case c == ' ' || c == '\t' || c == '\n' || c == '\r':
			i++
		case strings.IndexByte("{}[],:", c) >= 0:
			toks = append(toks, dumpTok{T: string(c)})
			i++
		case c == '"':
			// a JSON string: the standard escapes are decoded (an escaped character is the character), anything else
			// after a backslash, a raw control character or a missing closing quote makes the token "bad"
			j := i + 1
			var sb strings.Builder
			ok, closed := true, false
			for j < len(s) {
				ch := s[j]
				if ch == '"' {
					closed = true
					break
				}
				if ch < 0x20 {
					ok = false
					j++
					continue
				}
				if ch != '\\' {
					sb.WriteByte(ch)
					j++
					continue
				}
				if j+1 >= len(s) {
					ok = false
					j++
					break
				}
				switch e := s[j+1]; e {
				case '"', '\\', '/':
					sb.WriteByte(e)
					j += 2
				case 'b':
					sb.WriteByte('\b')
					j += 2
				case 'f':
					sb.WriteByte('\f')
					j += 2
				case 'n':
					sb.WriteByte('\n')
					j += 2
				case 'r':
					sb.WriteByte('\r')
					j += 2
				case 't':
					sb.WriteByte('\t')
					j += 2
				case 'u':
					r, n := dumpHex4(s, j+2)
					if n == 0 {
						ok = false
						j += 2
						break
					}
					j += 2 + n
					if utf16.IsSurrogate(r) {
						r2, n2 := rune(0), 0
						if j+1 < len(s) && s[j] == '\\' && s[j+1] == 'u' {
							r2, n2 = dumpHex4(s, j+2)
						}
						if d := utf16.DecodeRune(r, r2); n2 > 0 && d != unicode.ReplacementChar {
							r = d
							j += 2 + n2
						} else {
							r = unicode.ReplacementChar
						}
					}
					sb.WriteRune(r)
				default:
					ok = false
					j += 2
				}
			}
			if !closed { // unterminated
				toks = append(toks, dumpTok{T: "bad", S: s[i+1:]})
				i = len(s)
				break
			}
			if ok {
				toks = append(toks, dumpTok{T: "str", S: sb.String()})
			} else {
				toks = append(toks, dumpTok{T: "bad", S: s[i+1 : j]})
			}
			i = j + 1
		default:
			j := i
			for j < len(s) && strings.IndexByte("{}[],:\" \t\r\n", s[j]) < 0 {
				j++
			}
			w := s[i:j]
			switch w {
			case "true", "false", "null":
				toks = append(toks, dumpTok{T: w})
			default:
				if cn, ok := dumpCanonNum(w); ok {
					toks = append(toks, dumpTok{T: "num", S: cn})
				} else {
					toks = append(toks, dumpTok{T: "bad", S: w})
				}
			}
			i = j
		}
	}
	return toks
}

// dumpHex4 reads four hex digits at s[i:]; n = 4 on success, 0 otherwise.
func dumpHex4(s string, i int) (rune, int) {
	if i+4 > len(s) {
		return 0, 0
	}
	v, err := strconv.ParseUint(s[i:i+4], 16, 32)
	if err != nil {
		return 0, 0
	}
	return rune(v), 4
}

// dumpDecode decodes JSON text with encoding/json into the document shape of the spec (nil if not JSON).
func dumpDecode(s string) *dumpDoc {
	dec := json.NewDecoder(strings.NewReader(s))
	dec.UseNumber()
	d, ok := dumpDecodeValue(dec)
	if !ok {
		return nil
	}
	if _, err := dec.Token(); err == nil { // trailing data
		return nil
	}
	return d
}

func dumpDecodeValue(dec *json.Decoder) (*dumpDoc, bool) {
	tk, err := dec.Token()
	if err != nil {
		return nil, false
	}
	switch x := tk.(type) {
	case json.Delim:
		switch x {
		case '[':
			d := &dumpDoc{T: "arr", Keys: []string{}, Kids: []*dumpDoc{}}
			for dec.More() {
				k, ok := dumpDecodeValue(dec)
				if !ok {
					return nil, false
				}
				d.Kids = append(d.Kids, k)
			}
			if _, err := dec.Token(); err != nil {
				return nil, false
			}
			return d, true
		case '{':
			d := &dumpDoc{T: "obj", Keys: []string{}, Kids: []*dumpDoc{}}
			for dec.More() {
				kt, err := dec.Token()
				if err != nil {
					return nil, false
				}
				ks, isStr := kt.(string)
				if !isStr {
					return nil, false
				}
				k, ok := dumpDecodeValue(dec)
				if !ok {
					return nil, false
				}
				d.Keys = append(d.Keys, ks)
				d.Kids = append(d.Kids, k)
			}
			if _, err := dec.Token(); err != nil {
				return nil, false
			}
			return d, true
		}
		return nil, false
	case string:
		return &dumpDoc{T: "str", S: x}, true
	case json.Number:
		cn, ok := dumpCanonNum(string(x))
		if !ok {
			return nil, false
		}
		return &dumpDoc{T: "num", S: cn}, true
	case bool:
		if x {
			return &dumpDoc{T: "true"}, true
		}
		return &dumpDoc{T: "false"}, true
	case nil:
		return &dumpDoc{T: "null"}, true
	}
	return nil, false
}

func dumpLast(keys []string, k string) int {
	for i := len(keys) - 1; i >= 0; i-- {
		if keys[i] == k {
			return i
		}
	}
	return -1
}

// dumpDocEqual: equality of documents (arrays by position, objects as maps, a repeated key holds its last value).
// With loose set, b may differ from a by a type-blind reading of the documented deviations: a bool of a against
// the string "true"/"false" of b, a null of a against [] / {} of b.
func dumpDocEqual(a, b *dumpDoc, loose bool) bool {
	if a == nil || b == nil {
		return false
	}
	if loose {
		if (a.T == "true" || a.T == "false") && b.T == "str" && b.S == a.T {
			return true
		}
		if a.T == "null" && (b.T == "arr" || b.T == "obj") && len(b.Kids) == 0 {
			return true
		}
	}
	if a.T != b.T || a.S != b.S {
		return false
	}
	switch a.T {
	case "arr":
		if len(a.Kids) != len(b.Kids) {
			return false
		}
		for i := range a.Kids {
			if !dumpDocEqual(a.Kids[i], b.Kids[i], loose) {
				return false
			}
		}
	case "obj":
		for _, k := range a.Keys {
			j := dumpLast(b.Keys, k)
			if j < 0 || !dumpDocEqual(a.Kids[dumpLast(a.Keys, k)], b.Kids[j], loose) {
				return false
			}
		}
		for _, k := range b.Keys {
			if dumpLast(a.Keys, k) < 0 {
				return false
			}
		}
	}
	return true
}

// ---------------------------------------------------------------- dump-run

func dumpCall(fn func(interface{}) string, v interface{}) (out string, pan string) {
	defer func() {
		if r := recover(); r != nil {
			pan = fmt.Sprint(r)
		}
	}()
	return fn(v), ""
}

// dumpStdEncode is the reference: encoding/json with HTML escaping off (no character of the domain is escaped).
func dumpStdEncode(v interface{}) (string, error) {
	var sb strings.Builder
	enc := json.NewEncoder(&sb)
	enc.SetEscapeHTML(false)
	if err := enc.Encode(v); err != nil {
		return "", err
	}
	return strings.TrimSuffix(sb.String(), "\n"), nil
}

func dumpRun(args []string) error {
	fs := flag.NewFlagSet("dump-run", flag.ContinueOnError)
	seq := fs.Bool("seq", false, "no concurrent batches: the records are dumped one after the other in the given order")
	if err := fs.Parse(args); err != nil {
		return err
	}
	if *seq {
		// one processor: whatever the library recycles per processor (sync.Pool) is then the same object in every call
		runtime.GOMAXPROCS(1)
	}
	in := newLineReader(os.Stdin)
	out := newLineWriter(os.Stdout)
	defer out.flush()
	// Records are handled in batches of dumpBatch; in every other batch the library calls of the batch run
	// concurrently (one goroutine per record, released together), so that half of the outputs judged by TLC were
	// produced while other dumps were in flight: the dumper's result must be a function of its argument alone.
	type item struct {
		r    dumpRec
		val  interface{}
		o    dumpOut
		held string // the string as the library handed it out (o.Out is a copy taken at return)
	}
	batchNo := 0
	// a batch is judged after the calls of the NEXT batch: what it was handed must not change by then
	var pending []*item
	judge := func(batch []*item) error {
		for _, it := range batch {
			r, o, val := &it.r, &it.o, it.val
			var jerr error
			if o.JOut, jerr = dumpStdEncode(val); jerr != nil {
				return fmt.Errorf("record %d: the standard encoder failed: %v", r.ID, jerr)
			}
			// the library's own wrapper of the standard encoder is only compared (a difference is a note, not a verdict)
			if fj, fp := dumpCall(valid.GetDumpStructStrForJson, val); fp != "" || fj != o.JOut {
				o.FJDiff = true
			}
			if it.held != o.Out { // the string handed out is not the caller's alone: a later call wrote into it
				o.Changed = string(append([]byte(nil), it.held...))
				if o.Changed == o.Out {
					o.Changed += " (still changing)"
				}
			}
			o.Tokens = dumpLex(o.Out)
			o.JTokens = dumpLex(o.JOut)
			o.Valid = json.Valid([]byte(o.Out))
			got := dumpDecode(o.Out)
			if (got != nil) != o.Valid {
				return fmt.Errorf("record %d: json.Valid and the decoder disagree on %q", r.ID, o.Out)
			}
			std := dumpDecode(o.JOut)
			if std == nil {
				return fmt.Errorf("record %d: the standard encoder's output does not decode: %q", r.ID, o.JOut)
			}
			o.LooseEq = got != nil && dumpDocEqual(std, got, true)
			if r.Doc != nil {
				o.HasDoc = true
				o.DocEq = got != nil && dumpDocEqual(r.Doc, got, false)
			}
			out.put(o)
		}
		return nil
	}
	for {
		var batch []*item
		for len(batch) < dumpBatch {
			it := &item{}
			if !in.next(&it.r) {
				break
			}
			if it.r.Ty == nil || it.r.V == nil {
				return fmt.Errorf("record %d: no tree", it.r.ID)
			}
			val, err := dumpConcretise(&it.r)
			if err != nil {
				return fmt.Errorf("record %d: %v", it.r.ID, err)
			}
			it.val = val
			it.o = dumpOut{ID: it.r.ID, TN: it.r.TN, Ty: it.r.Ty, V: it.r.V}
			batch = append(batch, it)
		}
		if len(batch) == 0 {
			break
		}
		batchNo++
		if batchNo%2 == 0 && len(batch) > 1 && !*seq {
			var wg sync.WaitGroup
			start := make(chan struct{})
			for _, it := range batch {
				wg.Add(1)
				go func(it *item) {
					defer wg.Done()
					<-start
					it.held, it.o.Panic = dumpCall(valid.GetDumpStructStr, it.val)
					it.o.Out = string(append([]byte(nil), it.held...)) // judged: what the string read at return
					it.o.Conc = true
				}(it)
			}
			close(start)
			wg.Wait()
		} else {
			for _, it := range batch {
				it.held, it.o.Panic = dumpCall(valid.GetDumpStructStr, it.val)
				it.o.Out = string(append([]byte(nil), it.held...))
			}
		}
		if err := judge(pending); err != nil {
			return err
		}
		pending = batch
	}
	return judge(pending)
}

const dumpBatch = 8

// ---------------------------------------------------------------- dump-rand

type dumpGen struct {
	rng        *rand.Rand
	maxWidth   int
	unexported bool
}

var dumpIntKinds = []string{"int", "int8", "int16", "int32", "int64"}
var dumpUintKinds = []string{"uint", "uint8", "uint16", "uint32", "uint64"}
var dumpFloatKinds = []string{"float32", "float64"}
var dumpExpNames = []string{"A", "B", "Name", "ID", "X1", "Time", "URL", "Val_2", "Zz", "Data", "Item", "Map", "Ptr", "Json", "N"}
var dumpUnexpNames = []string{"a", "b", "name", "_x", "x1", "time", "zz"}

// characters that need no escape in JSON (and that encoding/json does not escape with SetEscapeHTML(false))
// (DEL, no-break space, zero-width space, a tag character and the last code point need no JSON escape either - they are
// "non-printable" for strconv.Quote, which is exactly why they are here)
var dumpAlphabet = []rune("abcXYZ019 ,:{}[]-_.!?@#$%^*()+=~;'/|<>&éß中文😀\u007f\u00a0\u200b\U000e0001\U0010ffff")
var dumpSpecialStrings = []string{"", "true", "false", "null", "123", "-1.5", "a b", "{}", "[]", ",", ":", "a,b:c", "{é}", "\u007f", "x\U000e0001y", "\U0010ffff"}

func (g *dumpGen) scalar() *dumpType {
	switch g.rng.Intn(5) {
	case 0:
		return &dumpType{K: "sc", Kind: "string", G: "string"}
	case 1:
		return &dumpType{K: "sc", Kind: "bool", G: "bool"}
	case 2:
		return &dumpType{K: "sc", Kind: "int", G: dumpIntKinds[g.rng.Intn(len(dumpIntKinds))]}
	case 3:
		return &dumpType{K: "sc", Kind: "uint", G: dumpUintKinds[g.rng.Intn(len(dumpUintKinds))]}
	}
	return &dumpType{K: "sc", Kind: "float", G: dumpFloatKinds[g.rng.Intn(len(dumpFloatKinds))]}
}

func (g *dumpGen) structType(depth int) *dumpType {
	n := 0
	switch r := g.rng.Intn(10); {
	case r == 0:
		n = 0
	case r <= 3:
		n = 1
	default:
		n = 2 + g.rng.Intn(g.maxWidth-1)
	}
	t := &dumpType{K: "st", Fs: []dumpField{}}
	used := map[string]bool{}
	for i := 0; i < n; i++ {
		x := !(g.unexported && g.rng.Intn(3) == 0)
		var name string
		if x {
			name = dumpExpNames[g.rng.Intn(len(dumpExpNames))]
		} else {
			name = dumpUnexpNames[g.rng.Intn(len(dumpUnexpNames))]
		}
		for used[name] {
			name += strconv.Itoa(i)
		}
		used[name] = true
		t.Fs = append(t.Fs, dumpField{N: name, X: x, T: g.anyType(depth - 1)})
	}
	return t
}

func (g *dumpGen) anyType(depth int) *dumpType {
	if depth <= 0 {
		return g.scalar()
	}
	switch r := g.rng.Intn(10); {
	case r < 4:
		return g.scalar()
	case r < 6:
		return g.structType(depth)
	case r == 6:
		return &dumpType{K: "pt", T: g.structType(depth - 1)}
	case r < 9:
		et := g.anyType(depth - 1)
		if et.K == "sc" && et.G == "uint8" { // []byte is base64 text for the standard encoder: not in the property's domain
			et.G = "uint16"
		}
		return &dumpType{K: "sl", T: et}
	}
	m := &dumpType{K: "mp", T: g.anyType(depth - 1)}
	if g.rng.Intn(2) == 0 {
		m.Key, m.KeyG = "string", "string"
	} else {
		m.Key = "int"
		ks := append(append([]string{}, dumpIntKinds...), dumpUintKinds...)
		m.KeyG = ks[g.rng.Intn(len(ks))]
	}
	return m
}

func (g *dumpGen) str() string {
	if g.rng.Intn(4) == 0 {
		return dumpSpecialStrings[g.rng.Intn(len(dumpSpecialStrings))]
	}
	n := g.rng.Intn(9)
	var sb strings.Builder
	for i := 0; i < n; i++ {
		sb.WriteRune(dumpAlphabet[g.rng.Intn(len(dumpAlphabet))])
	}
	return sb.String()
}

func (g *dumpGen) intText(kind string) string {
	t := dumpKinds[kind]
	bits := uint(t.Bits())
	signed := t.Kind() >= reflect.Int && t.Kind() <= reflect.Int64
	switch g.rng.Intn(6) {
	case 0:
		return "0"
	case 1: // maximum
		if signed {
			return strconv.FormatInt(int64(1)<<(bits-1)-1, 10)
		}
		return strconv.FormatUint(^uint64(0)>>(64-bits), 10)
	case 2: // minimum
		if signed {
			return strconv.FormatInt(-(int64(1) << (bits - 1)), 10)
		}
		return "1"
	}
	if signed {
		n := g.rng.Int63() >> (64 - bits)
		if g.rng.Intn(2) == 0 {
			n = -n
		}
		return strconv.FormatInt(n, 10)
	}
	return strconv.FormatUint(g.rng.Uint64()>>(64-bits), 10)
}

// moderate floats: 0 or +-m*10^-k with m in 1..999999 and k in 0..4 (|x| in [1e-4, 1e6), <= 6 significant digits)
func (g *dumpGen) floatText(kind string) string {
	if g.rng.Intn(8) == 0 {
		return "0"
	}
	s := fmt.Sprintf("%de-%d", g.rng.Intn(999999)+1, g.rng.Intn(5))
	bits := dumpKinds[kind].Bits()
	if bits == 64 && g.rng.Intn(4) == 0 {
		// a binary64 value of moderate size that needs more digits than a binary32 number carries (up to 15 significant
		// digits, |x| < 10^9): as a field, as a slice element and as a map value it keeps all of them
		s = fmt.Sprintf("%de-%d", g.rng.Int63n(999999999999999)+1, 6+g.rng.Intn(4))
	}
	if g.rng.Intn(2) == 0 {
		s = "-" + s
	}
	f, _ := strconv.ParseFloat(s, bits)
	cn, ok := dumpCanonNum(strconv.FormatFloat(f, 'f', -1, bits))
	if !ok {
		panic("float text")
	}
	return cn
}

func (g *dumpGen) scalarText(kind, gk string) string {
	switch kind {
	case "string":
		return g.str()
	case "bool":
		if g.rng.Intn(2) == 0 {
			return "true"
		}
		return "false"
	case "int", "uint":
		return g.intText(gk)
	}
	return g.floatText(gk)
}

func (g *dumpGen) length() (isNil bool, n int) {
	switch r := g.rng.Intn(10); {
	case r == 0:
		return true, 0
	case r == 1:
		return false, 0
	case r < 5:
		return false, 1
	}
	return false, 2 + g.rng.Intn(3)
}

func (g *dumpGen) value(ty *dumpType) *dumpVal {
	switch ty.K {
	case "sc":
		return &dumpVal{K: "sc", Txt: g.scalarText(ty.Kind, ty.G)}
	case "st":
		v := &dumpVal{K: "st", Fs: []*dumpVal{}}
		for _, f := range ty.Fs {
			v.Fs = append(v.Fs, g.value(f.T))
		}
		return v
	case "pt":
		if g.rng.Intn(4) == 0 {
			return &dumpVal{K: "pt", Nil: true}
		}
		return &dumpVal{K: "pt", To: g.value(ty.T)}
	case "sl":
		isNil, n := g.length()
		v := &dumpVal{K: "sl", Nil: isNil, Es: []*dumpVal{}}
		for i := 0; i < n; i++ {
			v.Es = append(v.Es, g.value(ty.T))
		}
		return v
	}
	isNil, n := g.length()
	v := &dumpVal{K: "mp", Nil: isNil, En: []dumpEntry{}}
	seen := map[string]bool{}
	for i := 0; i < n; i++ {
		var k string
		if ty.Key == "string" {
			k = g.str()
		} else {
			k = g.intText(ty.KeyG)
		}
		if seen[k] {
			continue
		}
		seen[k] = true
		v.En = append(v.En, dumpEntry{Key: k, V: g.value(ty.T)})
	}
	return v
}

func dumpRand(args []string) error {
	fs := flag.NewFlagSet("dump-rand", flag.ContinueOnError)
	n := fs.Int("n", 1000, "number of trees")
	maxDepth := fs.Int("maxdepth", 4, "maximal depth of a root type")
	maxWidth := fs.Int("maxwidth", 5, "maximal number of struct fields")
	unexp := fs.Bool("unexported", false, "also generate unexported fields (such trees need generated named types)")
	perType := fs.Int("pertype", 3, "values per generated type")
	first := fs.Int("firstid", 0, "id of the first record")
	if err := fs.Parse(args); err != nil {
		return err
	}
	if *maxWidth < 2 {
		*maxWidth = 2
	}
	g := &dumpGen{rng: rand.New(rand.NewSource(seed()*7919 + int64(*first))), maxWidth: *maxWidth, unexported: *unexp}
	out := newLineWriter(os.Stdout)
	defer out.flush()
	id := *first
	for id < *first+*n {
		var ty *dumpType
		st := g.structType(1 + g.rng.Intn(*maxDepth))
		if g.rng.Intn(3) == 0 {
			ty = &dumpType{K: "pt", T: st}
		} else {
			ty = st
		}
		for j := 0; j < *perType && id < *first+*n; j++ {
			v := g.value(ty)
			if ty.K == "pt" && v.Nil && j > 0 {
				continue
			}
			out.put(&dumpRec{ID: id, Ty: ty, V: v})
			id++
		}
	}
	return nil
}
