package main

// LRU conformance (C09): model -> code edge replay and code -> model trace recording.

import (
	"flag"
	"fmt"
	"math/rand"
	"os"
	"strconv"
	"strings"
	"sync"

	"gitee.com/xuesongtao/protoc-go-valid/valid"
)

func init() {
	register("lru-edges", lruEdges)
	register("lru-record", lruRecord)
}

type lruState struct {
	Cap  int         `json:"cap"`
	Dump [][2]string `json:"dump"`
	Dels int         `json:"dels"`
}

type lruEdge struct {
	From lruState    `json:"from"`
	Op   string      `json:"op"`
	K    string      `json:"k"`
	V    string      `json:"v"`
	Ok   bool        `json:"ok"`
	Res  string      `json:"res"`
	N    int         `json:"n"`
	Cb   [][2]string `json:"cb"`
	To   lruState    `json:"to"`
}

// lruObs is what one real call showed.
type lruObs struct {
	Ok     bool        `json:"ok"`
	Res    string      `json:"res"`
	N      int         `json:"n"`
	Cb     [][2]string `json:"cb"`
	Dump   [][2]string `json:"dump"`
	Dels   int         `json:"dels"`
	Len    int         `json:"len"`
	DumpOK bool        `json:"dumpOK"`
	Panic  string      `json:"panic,omitempty"`
}

type lruDriver struct {
	c  *valid.LRUCache
	cb [][2]string
}

// Key codecs: the model's abstract keys k1, k2, ... are concretised into Go keys of different dynamic types
// (VERIF_LRU_KEYS = str | int | mixed), because the cache takes interface{} keys: nil, zero values of several
// types (which differ as interface keys), structs and arrays are all legitimate, distinct keys.
type lruStructKey struct {
	A int
	B string
}

var (
	lruCodec    = os.Getenv("VERIF_LRU_KEYS")
	lruKeyNames sync.Map // concrete key -> abstract name
)

func lruKeyNum(k string) int {
	if len(k) > 1 && k[0] == 'k' {
		if n, err := strconv.Atoi(k[1:]); err == nil {
			return n
		}
	}
	return 0
}

func lruKey(k string) interface{} {
	var key interface{} = k
	n := lruKeyNum(k)
	switch lruCodec {
	case "int":
		if n > 0 {
			key = n
		} else {
			key = -1
		}
	case "mixed":
		switch n {
		case 1:
			key = nil
		case 2:
			key = 0
		case 3:
			key = ""
		case 4:
			key = false
		case 5:
			key = float64(0)
		case 6:
			key = lruStructKey{}
		case 7:
			key = [1]int{0}
		case 8:
			key = int8(0)
		default:
			key = lruStructKey{A: n, B: k}
		}
	}
	lruKeyNames.Store(key, k)
	return key
}

func lruKeyName(key interface{}) string {
	if n, ok := lruKeyNames.Load(key); ok {
		return n.(string)
	}
	return fmt.Sprintf("<unknown key %#v>", key)
}

func encVal(k, v string) string { return k + "=" + v }

func decVal(s string) (k, v string, ok bool) {
	i := strings.IndexByte(s, '=')
	if i < 0 {
		return "", s, false
	}
	return s[:i], s[i+1:], true
}

func newLRUDriver(cap int) *lruDriver {
	d := &lruDriver{c: valid.NewLRU(cap)}
	d.c.SetDelCallBackFn(func(key, value interface{}) {
		_, v, _ := decVal(fmt.Sprint(value))
		d.cb = append(d.cb, [2]string{lruKeyName(key), v})
	})
	return d
}

// dump parses Dump() (values in recency order, one per line) back into (key,value) pairs.
func (d *lruDriver) dump() (out [][2]string, ok bool) {
	out = [][2]string{}
	s := d.c.Dump()
	if s == "" {
		return out, true
	}
	ok = true
	for _, line := range strings.Split(s, "\n") {
		k, v, good := decVal(line)
		if !good {
			ok = false
		}
		out = append(out, [2]string{k, v})
	}
	return out, ok
}

// do runs one operation and returns the observation (projected state after the call included).
func (d *lruDriver) do(op, k, v string) (o lruObs) {
	d.cb = [][2]string{}
	func() {
		defer func() {
			if r := recover(); r != nil {
				o.Panic = fmt.Sprint(r)
			}
		}()
		o.Res = "none"
		switch op {
		case "Store":
			d.c.Store(lruKey(k), encVal(k, v))
			o.Ok = true
		case "Load":
			val, hit := d.c.Load(lruKey(k))
			o.Ok = hit
			if hit {
				kk, vv, good := decVal(fmt.Sprint(val))
				if good && kk == k {
					o.Res = vv
				} else {
					o.Res = "foreign:" + fmt.Sprint(val)
				}
			} else if val != nil {
				o.Res = "nonnil-on-miss"
			}
		case "Delete":
			d.c.Delete(lruKey(k))
			o.Ok = true
		case "Len":
			o.N = d.c.Len()
			o.Ok = true
		case "Dump":
			dd, _ := d.dump()
			o.N = len(dd)
			o.Ok = true
		}
	}()
	o.Cb = d.cb
	o.Dump, o.DumpOK = d.dump()
	o.Len = d.c.Len()
	_, _, o.Dels = d.c.VerifState()
	return
}

// driveTo brings a fresh cache into the given abstract state, including the mechanism's delete counter.
func driveTo(st lruState) (*lruDriver, error) {
	d := newLRUDriver(st.Cap)
	for i := 0; i < st.Dels; i++ {
		d.c.Store(lruKey("scratch"), encVal("scratch", "x"))
		if st.Cap > 0 {
			d.c.Delete(lruKey("scratch"))
		}
	}
	for i := len(st.Dump) - 1; i >= 0; i-- {
		d.c.Store(lruKey(st.Dump[i][0]), encVal(st.Dump[i][0], st.Dump[i][1]))
	}
	got, _ := d.dump()
	if !eqPairs(got, st.Dump) {
		return d, fmt.Errorf("cannot reach from-state %v: dump is %v", st.Dump, got)
	}
	return d, nil
}

func eqPairs(a, b [][2]string) bool {
	if len(a) != len(b) {
		return false
	}
	for i := range a {
		if a[i] != b[i] {
			return false
		}
	}
	return true
}

// lruEdges: stdin = @@EDGE records, stdout = one record per mismatching edge + a summary record.
func lruEdges(args []string) error {
	in := newLineReader(os.Stdin)
	out := newLineWriter(os.Stdout)
	defer out.flush()
	var e lruEdge
	n, bad, drift, unreach := 0, 0, 0, 0
	for {
		e = lruEdge{}
		if !in.next(&e) {
			break
		}
		n++
		d, err := driveTo(e.From)
		if err != nil {
			// the from-state itself is unreachable by plain stores: report, it is a conformance failure of an earlier edge
			unreach++
			out.put(map[string]interface{}{"kind": "unreachable", "edge": e, "err": err.Error()})
			continue
		}
		_, _, dels0 := d.c.VerifState()
		o := d.do(e.Op, e.K, e.V)
		var what []string
		if o.Panic != "" {
			what = append(what, "panic")
		}
		switch e.Op {
		case "Load":
			if o.Ok != e.Ok {
				what = append(what, "hit")
			}
			if o.Res != e.Res {
				what = append(what, "res")
			}
		case "Len":
			if o.N != e.N {
				what = append(what, "len")
			}
		case "Dump":
			if o.N != e.N {
				what = append(what, "dumplen")
			}
		}
		if !eqPairs(o.Cb, e.Cb) {
			what = append(what, "cb")
		}
		if o.DumpOK && !eqPairs(o.Dump, e.To.Dump) {
			what = append(what, "state")
		}
		if o.Len != len(e.To.Dump) {
			what = append(what, "lenafter")
		}
		if len(what) > 0 {
			bad++
			out.put(map[string]interface{}{"kind": "mismatch", "what": what, "edge": e, "got": o})
			continue
		}
		if dels0 != e.From.Dels || o.Dels != e.To.Dels {
			drift++
			if drift <= 5 {
				out.put(map[string]interface{}{"kind": "drift", "edge": e, "dels0": dels0, "dels1": o.Dels})
			}
		}
	}
	out.put(map[string]interface{}{"kind": "summary", "edges": n, "mismatch": bad, "drift": drift, "unreachable": unreach})
	return nil
}

type lruEvent struct {
	E    string      `json:"e"`
	Cap  int         `json:"cap"`
	Op   string      `json:"op"`
	K    string      `json:"k"`
	V    string      `json:"v"`
	Ok   bool        `json:"ok"`
	Res  string      `json:"res"`
	N    int         `json:"n"`
	Cb   [][2]string `json:"cb"`
	Dump [][2]string `json:"dump"`
	Len  int         `json:"len"`
	Id   int         `json:"id"`
}

type lruOp struct{ op, k, v string }

func lruAlphabet(nk, nv int) []lruOp {
	var ops []lruOp
	for k := 1; k <= nk; k++ {
		ks := "k" + strconv.Itoa(k)
		for v := 1; v <= nv; v++ {
			ops = append(ops, lruOp{"Store", ks, "v" + strconv.Itoa(v)})
		}
		ops = append(ops, lruOp{"Load", ks, "none"}, lruOp{"Delete", ks, "none"})
	}
	ops = append(ops, lruOp{"Len", "none", "none"})
	return ops
}

func emitSeq(w *lineWriter, id, cap int, seq []lruOp) (panicked bool) {
	d := newLRUDriver(cap)
	w.put(lruEvent{E: "reset", Cap: cap, Op: "none", K: "none", V: "none", Res: "none", Cb: [][2]string{}, Dump: [][2]string{}, Id: id})
	for _, op := range seq {
		o := d.do(op.op, op.k, op.v)
		ev := lruEvent{E: "op", Cap: cap, Op: op.op, K: op.k, V: op.v, Ok: o.Ok, Res: o.Res, N: o.N, Cb: o.Cb, Dump: o.Dump, Len: o.Len, Id: id}
		if o.Panic != "" {
			ev.E = "panic"
			ev.Res = o.Panic
			w.put(ev)
			return true
		}
		w.put(ev)
	}
	return false
}

// lruRecord drives the real cache and writes ndjson traces into <out>.<shard>.ndjson
func lruRecord(args []string) error {
	fs := flag.NewFlagSet("lru-record", flag.ExitOnError)
	mode := fs.String("mode", "exh", "exh | rand")
	nk := fs.Int("keys", 3, "")
	nv := fs.Int("vals", 2, "")
	capsS := fs.String("caps", "0,1,2", "")
	length := fs.Int("len", 3, "sequence length")
	nseq := fs.Int("n", 100, "random sequences")
	shards := fs.Int("shards", 1, "")
	outp := fs.String("out", "lru-trace", "")
	fs.Parse(args)
	var caps []int
	for _, s := range strings.Split(*capsS, ",") {
		c, err := strconv.Atoi(s)
		if err != nil {
			return err
		}
		caps = append(caps, c)
	}
	ws := make([]*lineWriter, *shards)
	for i := range ws {
		f, err := os.Create(fmt.Sprintf("%s.%d.ndjson", *outp, i))
		if err != nil {
			return err
		}
		defer f.Close()
		ws[i] = newLineWriter(f)
		defer ws[i].flush()
	}
	id := 0
	switch *mode {
	case "exh":
		ops := lruAlphabet(*nk, *nv)
		idx := make([]int, *length)
		seq := make([]lruOp, *length)
		for _, c := range caps {
			for i := range idx {
				idx[i] = 0
			}
			for {
				for i, j := range idx {
					seq[i] = ops[j]
				}
				emitSeq(ws[id%*shards], id, c, seq)
				id++
				p := *length - 1
				for p >= 0 {
					idx[p]++
					if idx[p] < len(ops) {
						break
					}
					idx[p] = 0
					p--
				}
				if p < 0 {
					break
				}
			}
		}
	case "rand":
		rng := rand.New(rand.NewSource(seed()))
		for s := 0; s < *nseq; s++ {
			c := caps[rng.Intn(len(caps))]
			// key universes both smaller and larger than the capacity
			var keys int
			switch rng.Intn(3) {
			case 0:
				keys = 1 + rng.Intn(c+1)
			case 1:
				keys = c + 1 + rng.Intn(3)
			default:
				keys = 1 + rng.Intn(*nk)
			}
			if keys > *nk {
				keys = *nk
			}
			seq := make([]lruOp, *length)
			// weights: delete-heavy phases make the index rebuild threshold (dels > 2*cap) fire often
			delHeavy := rng.Intn(2) == 0
			for i := range seq {
				k := "k" + strconv.Itoa(1+rng.Intn(keys))
				r := rng.Intn(100)
				switch {
				case r < 40:
					seq[i] = lruOp{"Store", k, "v" + strconv.Itoa(1+rng.Intn(*nv))}
				case r < 65:
					seq[i] = lruOp{"Load", k, "none"}
				case r < 90 && delHeavy, r < 75:
					seq[i] = lruOp{"Delete", k, "none"}
				default:
					seq[i] = lruOp{"Len", "none", "none"}
				}
			}
			emitSeq(ws[id%*shards], id, c, seq)
			id++
		}
	}
	fmt.Fprintf(os.Stderr, "sequences=%d\n", id)
	return nil
}

// lruScript re-executes the operations of a recorded trace slice (replay of a rejected trace).
func lruScript(args []string) error {
	if len(args) != 2 {
		return fmt.Errorf("usage: lru-script <events.ndjson> <out.ndjson>")
	}
	fin, err := os.Open(args[0])
	if err != nil {
		return err
	}
	defer fin.Close()
	fout, err := os.Create(args[1])
	if err != nil {
		return err
	}
	defer fout.Close()
	in := newLineReader(fin)
	w := newLineWriter(fout)
	defer w.flush()
	var seq []lruOp
	cap, have := 0, false
	flush := func() {
		if have {
			emitSeq(w, 0, cap, seq)
		}
		seq = nil
	}
	for {
		var ev lruEvent
		if !in.next(&ev) {
			break
		}
		if ev.E == "reset" {
			flush()
			cap, have = ev.Cap, true
			continue
		}
		seq = append(seq, lruOp{ev.Op, ev.K, ev.V})
	}
	flush()
	return nil
}

func init() { register("lru-script", lruScript) }
