package main

// Struct-type cache conformance (C08).
//
// One process per cache configuration (valid.SetStructTypeCache works once per process):
//   default          the library's own cache, untouched (cannot be wrapped: call/ret events only)
//   lrudef           TracingCache{valid.NewLRU()}      (default capacity)
//   lru<c>           TracingCache{valid.NewLRU(c)}
//   syncmap          TracingCache{new(sync.Map)}
//   miss             TracingCache{a cache that forgets everything}
//
// typecache-replay   model -> code: histories emitted by TLC (Gen_TypeCache) with the contract's expected result of
//                    every call are executed; every result is compared for equality.
// typecache-record   code -> model: seeded random long histories over many reflect.StructOf types are executed and
//                    recorded as ndjson events for Trace_TypeCache (TLC is the judge).
// typecache-script   re-executes a list of calls (replay files) and records the events.
//
// This file only concretises (rule token -> rule text, shape -> struct type, value -> struct value), abstracts
// (error text -> clause list) and counts; expected results are never computed here.

import (
	"encoding/json"
	"flag"
	"fmt"
	"math/rand"
	"os"
	"reflect"
	"sort"
	"strconv"
	"strings"
	"sync"

	"gitee.com/xuesongtao/protoc-go-valid/valid"
)

func init() {
	register("typecache-replay", typecacheReplay)
	register("typecache-record", typecacheRecord)
	register("typecache-script", typecacheScript)
}

// ---------------------------------------------------------------- meta (printed by TLC, the single source)

type typecacheRule struct {
	Op string `json:"op"`
	Lo int    `json:"lo"`
	Hi int    `json:"hi"`
}

type typecacheShape map[string]map[string]string // tag -> field -> token

type typecacheMeta struct {
	Fields []string                  `json:"fields"`
	Tags   []string                  `json:"tags"`
	Rules  map[string]typecacheRule  `json:"rules"`
	NoRule string                    `json:"norule"`
	Shapes map[string]typecacheShape `json:"shapes"`
	Vals   []int                     `json:"vals"`
}

func typecacheLoadMeta(path string) (*typecacheMeta, error) {
	b, err := os.ReadFile(path)
	if err != nil {
		return nil, err
	}
	m := &typecacheMeta{}
	if err := json.Unmarshal(b, m); err != nil {
		return nil, err
	}
	if len(m.Fields) == 0 || len(m.Rules) == 0 || m.NoRule == "" {
		return nil, fmt.Errorf("typecache: incomplete meta")
	}
	return m, nil
}

// ruleText concretises a rule token: "<op>=<bounds>|m_<token>" (the custom message carries the token back).
func (m *typecacheMeta) ruleText(tok string) string {
	r, ok := m.Rules[tok]
	if !ok {
		panic("typecache: unknown rule token " + tok)
	}
	var s string
	switch r.Op {
	case "le":
		s = "le=" + strconv.Itoa(r.Hi)
	case "ge":
		s = "ge=" + strconv.Itoa(r.Lo)
	case "to":
		s = "to=" + strconv.Itoa(r.Lo) + "~" + strconv.Itoa(r.Hi)
	default:
		panic("typecache: unknown op " + r.Op)
	}
	return s + "|m_" + tok
}

// makeType builds a struct type with one int field per model field; the rule of (tag, field) goes into the
// struct tag under that tag name. The nonce makes the type distinct from every other type of the same shape.
func (m *typecacheMeta) makeType(shape typecacheShape, nonce string, nested bool) reflect.Type {
	tags := make([]string, 0, len(shape))
	for t := range shape {
		tags = append(tags, t)
	}
	sort.Strings(tags)
	fs := make([]reflect.StructField, 0, len(m.Fields))
	for i, f := range m.Fields {
		var parts []string
		for _, t := range tags {
			tok := shape[t][f]
			if tok == "" || tok == m.NoRule {
				continue
			}
			parts = append(parts, t+":"+strconv.Quote(m.ruleText(tok)))
		}
		if i == 0 {
			parts = append(parts, "vh:"+strconv.Quote(nonce))
		}
		fs = append(fs, reflect.StructField{Name: f, Type: reflect.TypeOf(int(0)), Tag: reflect.StructTag(strings.Join(parts, " "))})
		if i == 0 && nested {
			// a rule-less inner struct reached through `exist` between the ruled fields: one validation then looks up
			// two types (more than a capacity-0/1 cache holds) while the outer type's analysis is still in use;
			// the inner struct has no rules, so the result of the call is the one of the flat type
			// (two different inner types: the second one is analysed after the first one's entry has pushed the outer
			// type out of a small cache)
			for _, nm := range []string{"Nx", "Ny"} {
				// (as many fields as the outer type and more, so that an analysis table shared by mistake is overwritten
				// up to and beyond the outer type's last ruled field)
				inner := reflect.StructOf([]reflect.StructField{
					{Name: "X", Type: reflect.TypeOf(int(0)), Tag: reflect.StructTag("vh:" + strconv.Quote(nonce+"/"+nm))},
					{Name: "X1", Type: reflect.TypeOf(int(0))}, {Name: "X2", Type: reflect.TypeOf("")},
					{Name: "X3", Type: reflect.TypeOf(int(0))}, {Name: "X4", Type: reflect.TypeOf(int(0))}, {Name: "X5", Type: reflect.TypeOf(int(0))}})
				fs = append(fs, reflect.StructField{Name: nm, Type: inner, Tag: `a:"exist" b:"exist" valid:"exist"`})
			}
			// a third inner struct, held by value, WITH a rule set per tag name: Z = 3 violates ge=50 under `valid`, le=1
			// under `a` and nothing under `b`; exec() checks the clause for Z against the tag of the call and takes it out
			// of the result, so that the model's expectation (fields of the outer type) stays as it is
			nz := reflect.StructOf([]reflect.StructField{
				{Name: "Z", Type: reflect.TypeOf(int(0)), Tag: reflect.StructTag(`valid:"ge=50|m_NZvalid" a:"le=1|m_NZa" vh:` + strconv.Quote(nonce+"/Nz"))}})
			fs = append(fs, reflect.StructField{Name: "Nz", Type: nz, Tag: `a:"exist" b:"exist" valid:"exist"`})
		}
	}
	return reflect.StructOf(fs)
}

// ---------------------------------------------------------------- cache configurations

type typecacheMissCache struct{}

func (typecacheMissCache) Load(key interface{}) (interface{}, bool) { return nil, false }
func (typecacheMissCache) Store(key, value interface{})             {}

type typecacheConfig struct {
	name     string
	kind     string // model kind: lru / map / forget
	cap      int
	wrapped  bool
	newInner func(onEvict func(key interface{})) valid.CacheEr
	raw      func() valid.CacheEr // installed as it is, no tracing wrapper (the library sees the concrete cache type)
}

func typecacheParseConfig(name string) (*typecacheConfig, error) {
	lru := func(args ...int) func(func(interface{})) valid.CacheEr {
		return func(onEvict func(interface{})) valid.CacheEr {
			c := valid.NewLRU(args...)
			c.SetDelCallBackFn(func(key, value interface{}) { onEvict(key) })
			return c
		}
	}
	switch {
	case name == "default":
		return &typecacheConfig{name: name, kind: "lru", cap: 2 << 8}, nil
	case name == "lrudef":
		return &typecacheConfig{name: name, kind: "lru", cap: 2 << 8, wrapped: true, newInner: lru()}, nil
	case name == "syncmap":
		return &typecacheConfig{name: name, kind: "map", wrapped: true,
			newInner: func(func(interface{})) valid.CacheEr { return new(sync.Map) }}, nil
	case name == "miss":
		return &typecacheConfig{name: name, kind: "forget", wrapped: true,
			newInner: func(func(interface{})) valid.CacheEr { return typecacheMissCache{} }}, nil
	case strings.HasPrefix(name, "rawlru"):
		c, err := strconv.Atoi(name[6:])
		if err != nil || c < 0 {
			return nil, fmt.Errorf("bad cache configuration %q", name)
		}
		return &typecacheConfig{name: name, kind: "lru", cap: c, raw: func() valid.CacheEr { return valid.NewLRU(c) }}, nil
	case strings.HasPrefix(name, "lru"):
		c, err := strconv.Atoi(name[3:])
		if err != nil || c < 0 {
			return nil, fmt.Errorf("bad cache configuration %q", name)
		}
		return &typecacheConfig{name: name, kind: "lru", cap: c, wrapped: true, newInner: lru(c)}, nil
	}
	return nil, fmt.Errorf("bad cache configuration %q", name)
}

// typecacheTracing wraps the configured cache (valid.CacheEr is an interface) and reports every Load/Store.
// Key ids are assigned by first appearance, so nothing depends on how the library represents its keys.
type typecacheTracing struct {
	inner   valid.CacheEr
	ids     map[interface{}]int
	evicted []int
	onLoad  func(id int, hit bool)
	onStore func(id int, evicted []int)
}

func (t *typecacheTracing) id(key interface{}) int {
	if i, ok := t.ids[key]; ok {
		return i
	}
	i := len(t.ids)
	t.ids[key] = i
	return i
}

func (t *typecacheTracing) Load(key interface{}) (interface{}, bool) {
	v, ok := t.inner.Load(key)
	t.onLoad(t.id(key), ok)
	return v, ok
}

func (t *typecacheTracing) Store(key, value interface{}) {
	t.evicted = t.evicted[:0]
	id := t.id(key)
	t.inner.Store(key, value)
	t.onStore(id, append([]int{}, t.evicted...))
}

// ---------------------------------------------------------------- events, calls, statistics

type typecacheCall struct {
	T   string            `json:"T"`
	S   typecacheShape    `json:"S,omitempty"`
	Tag string            `json:"tag"`
	Ov  map[string]string `json:"ov"`
	Val map[string]int    `json:"val"`
	Exp [][2]string       `json:"exp,omitempty"`
}

type typecacheEvReset struct {
	E    string `json:"e"`
	Kind string `json:"kind"`
	Cap  int    `json:"cap"`
	Mode string `json:"mode"`
	Cfg  string `json:"cfg"`
}
type typecacheEvCall struct {
	E   string            `json:"e"`
	C   int               `json:"c"`
	T   string            `json:"T"`
	S   typecacheShape    `json:"S"`
	Tag string            `json:"tag"`
	Ov  map[string]string `json:"ov"`
	Val map[string]int    `json:"val"`
}
type typecacheEvLoad struct {
	E   string `json:"e"`
	Key int    `json:"key"`
	Hit bool   `json:"hit"`
}
type typecacheEvStore struct {
	E   string `json:"e"`
	Key int    `json:"key"`
	Ev  []int  `json:"ev"`
}
type typecacheEvRet struct {
	E       string      `json:"e"`
	C       int         `json:"c"`
	Clauses [][2]string `json:"clauses"`
}

type typecacheStats struct {
	Calls            int `json:"calls"`
	NonNil           int `json:"nonnil"`
	Overrides        int `json:"override_calls"`
	Loads            int `json:"loads"`
	Hits             int `json:"hits"`
	Misses           int `json:"misses"`
	Stores           int `json:"stores"`
	Evictions        int `json:"evictions"`
	Reanalysed       int `json:"reanalysed_after_eviction"`     // miss on a (type, tag) that had been stored before
	HitAfterEvict    int `json:"hit_after_eviction"`            // hit on a (type, tag) that was evicted and re-analysed earlier
	HitOtherTag      int `json:"hit_type_seen_under_other_tag"` // hit while the same type had been validated under another tag
	SecondTag        int `json:"calls_type_seen_under_other_tag"`
	HitAfterOverride int `json:"hit_after_override_call"` // hit, and the previous call on this (type, tag) carried an override
	AfterOverride    int `json:"calls_after_override_call"`
	DistinctTypes    int `json:"distinct_types"`
	Resets           int `json:"resets"`
}

// typecacheDriver owns the process-wide cache installation and executes calls.
type typecacheDriver struct {
	meta      *typecacheMeta
	cfg       *typecacheConfig
	tr        *typecacheTracing
	out       *lineWriter // nil: no events
	st        typecacheStats
	c         int
	types     map[string]reflect.Type // T id -> type (per reset epoch for wrapped caches; forever for default)
	shapes    map[string]typecacheShape
	tagsOf    map[string]map[string]bool // T -> tags used so far
	stored    map[string]bool            // T/tag analysed+stored at least once
	evict     map[string]bool            // T/tag re-analysed after an eviction
	lastOv    map[string]bool            // T/tag -> previous call carried an override
	sharedRM  valid.RM                   // one rule map object handed to every other call with overrides (refilled in place)
	rmCalls   int
	curKey    string
	keepTypes bool
	curMiss   bool
	curHit    bool
}

func typecacheNewDriver(meta *typecacheMeta, cfgName string, out *lineWriter) (*typecacheDriver, error) {
	cfg, err := typecacheParseConfig(cfgName)
	if err != nil {
		return nil, err
	}
	d := &typecacheDriver{meta: meta, cfg: cfg, out: out}
	d.clearBookkeeping()
	if cfg.wrapped {
		d.tr = &typecacheTracing{}
		d.tr.onLoad = func(id int, hit bool) {
			d.st.Loads++
			if hit {
				d.st.Hits++
				d.curHit = true
			} else {
				d.st.Misses++
				d.curMiss = true
			}
			if d.out != nil {
				d.out.put(typecacheEvLoad{"load", id, hit})
			}
		}
		d.tr.onStore = func(id int, ev []int) {
			d.st.Stores++
			d.st.Evictions += len(ev)
			if d.out != nil {
				d.out.put(typecacheEvStore{"store", id, ev})
			}
		}
		d.freshInner()
		valid.SetStructTypeCache(d.tr) // once per process
	} else if cfg.raw != nil {
		valid.SetStructTypeCache(cfg.raw()) // once per process
	}
	return d, nil
}

func (d *typecacheDriver) clearBookkeeping() {
	if !d.keepTypes || d.types == nil { // replay: a type id always has the same shape, the types are reused
		d.types = map[string]reflect.Type{}
		d.shapes = map[string]typecacheShape{}
	}
	d.tagsOf = map[string]map[string]bool{}
	d.stored = map[string]bool{}
	d.evict = map[string]bool{}
	d.lastOv = map[string]bool{}
}

func (d *typecacheDriver) freshInner() {
	d.tr.ids = map[interface{}]int{}
	d.tr.inner = d.cfg.newInner(func(key interface{}) { d.tr.evicted = append(d.tr.evicted, d.tr.id(key)) })
}

func (d *typecacheDriver) canReset() bool { return d.cfg.wrapped }

// reset starts a new history on an empty cache. The library's own default cache cannot be emptied: there a
// new history must use types never seen before (see typecacheReplay), and reset only writes the event.
func (d *typecacheDriver) reset() {
	d.st.Resets++
	mode := "contract"
	if d.cfg.wrapped {
		d.freshInner()
		d.clearBookkeeping()
		mode = "mech"
	}
	if d.out != nil {
		d.out.put(typecacheEvReset{"reset", d.cfg.kind, d.cfg.cap, mode, d.cfg.name})
	}
}

func (d *typecacheDriver) typeOf(id string, shape typecacheShape) reflect.Type {
	if t, ok := d.types[id]; ok {
		return t
	}
	// replay direction only (no cache events are validated there): every other type gets the nested form
	nested := d.out == nil && len(d.types)%2 == 1
	t := d.meta.makeType(shape, id, nested)
	d.types[id] = t
	d.shapes[id] = shape
	d.st.DistinctTypes++
	return t
}

// abstract turns the returned error into the clause list [[field, token]...]; nil error = empty list.
func typecacheAbstract(err error) [][2]string {
	out := [][2]string{}
	if err == nil {
		return out
	}
	for _, cl := range strings.Split(err.Error(), "; ") {
		field, tok := "?", "?"+cl
		if len(cl) > 0 && cl[0] == '"' {
			if j := strings.IndexByte(cl[1:], '"'); j >= 0 {
				field = cl[1 : 1+j]
				if k := strings.LastIndexByte(field, '.'); k >= 0 {
					field = field[k+1:]
				}
			}
		}
		if k := strings.LastIndex(cl, "m_"); k >= 0 {
			tok = cl[k+2:]
		}
		out = append(out, [2]string{field, tok})
	}
	return out
}

func typecacheTwin1() interface{} {
	type Req struct {
		A int `valid:"ge=50|m_tw1" a:"le=1|m_tw1a"`
	}
	return &Req{A: 3}
}

func typecacheTwin2() interface{} {
	type Req struct {
		A int `valid:"le=1|m_tw2" a:"ge=50|m_tw2a"`
	}
	return &Req{A: 3}
}

// typecacheTwinProbe validates the twins alternately under two tag names; "" = every call was judged by its own type.
func typecacheTwinProbe() string {
	steps := []struct {
		mk   func() interface{}
		tag  string
		want string
	}{{typecacheTwin1, "valid", "tw1"}, {typecacheTwin2, "valid", "tw2"}, {typecacheTwin2, "a", "tw2a"}, {typecacheTwin1, "a", "tw1a"},
		{typecacheTwin1, "valid", "tw1"}, {typecacheTwin2, "a", "tw2a"}}
	if reflect.TypeOf(typecacheTwin1()).String() != reflect.TypeOf(typecacheTwin2()).String() || reflect.TypeOf(typecacheTwin1()) == reflect.TypeOf(typecacheTwin2()) {
		return "" // (the platform prints them differently: nothing to probe)
	}
	for i, st := range steps {
		var err error
		func() {
			defer func() {
				if r := recover(); r != nil {
					err = fmt.Errorf("panic: %v", r)
				}
			}()
			if st.tag == "valid" {
				err = valid.Struct(st.mk())
			} else {
				err = valid.ValidateStruct(st.mk(), st.tag)
			}
		}()
		got := typecacheAbstract(err)
		if len(got) != 1 || got[0][1] != st.want {
			return fmt.Sprintf("twin types (two function-local struct types printing %s): call %d under tag %s returned %v, its own rule gives [[A %s]]",
				reflect.TypeOf(st.mk()).String(), i+1, st.tag, got, st.want)
		}
	}
	return ""
}

// exec performs one validation call against the real library and returns the abstracted result.
func (d *typecacheDriver) exec(id string, shape typecacheShape, tag string, ov map[string]string, val map[string]int) (res [][2]string) {
	t := d.typeOf(id, shape)
	d.c++
	d.st.Calls++
	key := id + "/" + tag
	d.curKey, d.curHit, d.curMiss = key, false, false
	if d.out != nil {
		d.out.put(typecacheEvCall{"call", d.c, id, d.shapes[id], tag, ov, val})
	}
	pv := reflect.New(t)
	for _, f := range d.meta.Fields {
		pv.Elem().FieldByName(f).SetInt(int64(val[f]))
	}
	for _, nm := range []string{"Nx", "Ny"} {
		if nx := pv.Elem().FieldByName(nm); nx.IsValid() {
			nx.Field(0).SetInt(1) // non-zero, so that `exist` enters it
		}
	}
	hasNz := false
	if nz := pv.Elem().FieldByName("Nz"); nz.IsValid() {
		nz.Field(0).SetInt(3)
		hasNz = true
	}
	var rm valid.RM
	d.rmCalls++
	for _, f := range d.meta.Fields {
		if tok := ov[f]; tok != "" && tok != d.meta.NoRule {
			if rm == nil {
				// every other call with overrides hands over the SAME map object as earlier calls, emptied and refilled
				// in place (callers keep one rule map around): what a call was given before must not matter
				if d.rmCalls%2 == 0 {
					if d.sharedRM == nil {
						d.sharedRM = valid.NewRule()
					}
					for k := range d.sharedRM {
						delete(d.sharedRM, k)
					}
					rm = d.sharedRM
				} else {
					rm = valid.NewRule()
				}
			}
			rm.Set(f, d.meta.ruleText(tok))
		}
	}
	func() {
		defer func() {
			if r := recover(); r != nil {
				res = [][2]string{{"!", "panic: " + fmt.Sprint(r)}}
			}
		}()
		var err error
		src := pv.Interface()
		switch {
		case rm == nil && tag == "valid":
			err = valid.Struct(src) // the default tag name
		case rm == nil:
			err = valid.ValidateStruct(src, tag)
		case tag == "valid":
			err = valid.StructForFn(src, rm)
		default:
			err = valid.StructForFn(src, rm, tag)
		}
		res = typecacheAbstract(err)
	}()
	if hasNz && (tag == "valid" || tag == "a" || tag == "b") && !(len(res) == 1 && res[0][0] == "!") {
		want := map[string]string{"valid": "NZvalid", "a": "NZa", "b": ""}[tag]
		kept, got := [][2]string{}, []string{}
		for _, c := range res {
			if c[0] == "Z" {
				got = append(got, c[1])
			} else {
				kept = append(kept, c)
			}
		}
		ok := (want == "" && len(got) == 0) || (want != "" && len(got) == 1 && got[0] == want)
		res = kept
		if !ok { // shows up as a clause the contract does not allow
			res = append(res, [2]string{"Nz.Z", fmt.Sprintf("nested struct judged under the wrong tag: want [%s] got %v (call tag %s)", want, got, tag)})
		}
	}
	// statistics (counting only)
	if len(res) > 0 {
		d.st.NonNil++
	}
	if rm != nil {
		d.st.Overrides++
	}
	otherTag := false
	for tg := range d.tagsOf[id] {
		if tg != tag {
			otherTag = true
		}
	}
	if otherTag {
		d.st.SecondTag++
	}
	if d.lastOv[key] {
		d.st.AfterOverride++
	}
	if d.curHit {
		if otherTag {
			d.st.HitOtherTag++
		}
		if d.evict[key] {
			d.st.HitAfterEvict++
		}
		if d.lastOv[key] {
			d.st.HitAfterOverride++
		}
	}
	if d.curMiss {
		if d.stored[key] && d.cfg.kind != "forget" {
			d.st.Reanalysed++
			d.evict[key] = true
		}
		d.stored[key] = true
	}
	if d.tagsOf[id] == nil {
		d.tagsOf[id] = map[string]bool{}
	}
	d.tagsOf[id][tag] = true
	d.lastOv[key] = rm != nil
	if d.out != nil {
		d.out.put(typecacheEvRet{"ret", d.c, res})
	}
	return res
}

func typecacheSame(a, b [][2]string) bool {
	if len(a) != len(b) {
		return false
	}
	for i := range a {
		if a[i] != b[i] {
			return false
		}
	}
	return true
}

// ---------------------------------------------------------------- typecache-replay

type typecacheHist struct {
	Calls []typecacheCall `json:"calls"`
}

type typecacheMismatch struct {
	Kind  string          `json:"kind"`
	Cache string          `json:"cache"`
	Hist  int             `json:"hist"`
	Call  int             `json:"call"`
	Got   [][2]string     `json:"got"`
	Exp   [][2]string     `json:"exp"`
	Calls []typecacheCall `json:"calls"`
}

func typecacheReplay(args []string) error {
	fs := flag.NewFlagSet("typecache-replay", flag.ContinueOnError)
	cache := fs.String("cache", "default", "cache configuration")
	metaPath := fs.String("meta", "", "meta json printed by TLC")
	limit := fs.Int("limit", 0, "replay only the first N histories (0 = all)")
	stride := fs.Int("stride", 1, "replay every k-th history")
	maxMis := fs.Int("maxmis", 50, "stop reporting after this many mismatches")
	if err := fs.Parse(args); err != nil {
		return err
	}
	meta, err := typecacheLoadMeta(*metaPath)
	if err != nil {
		return err
	}
	d, err := typecacheNewDriver(meta, *cache, nil)
	if err != nil {
		return err
	}
	d.keepTypes = true
	in := newLineReader(os.Stdin)
	out := newLineWriter(os.Stdout)
	defer out.flush()
	n, done, mis, calls, nonnil := 0, 0, 0, 0, 0
	for {
		var h typecacheHist
		if !in.next(&h) {
			break
		}
		n++
		if (n-1)%*stride != 0 {
			continue
		}
		if *limit > 0 && done >= *limit {
			continue
		}
		done++
		// a history starts on a cache that holds nothing about its types: wrapped caches are emptied, the
		// library's own default cache gets types it has never seen
		suffix := ""
		if d.canReset() {
			d.reset()
		} else {
			suffix = "#" + strconv.Itoa(n)
			d.st.Resets++
		}
		for i, c := range h.Calls {
			shape, ok := meta.Shapes[c.T]
			if !ok {
				return fmt.Errorf("history %d: unknown type %q", n, c.T)
			}
			got := d.exec(c.T+suffix, shape, c.Tag, c.Ov, c.Val)
			calls++
			exp := c.Exp
			if exp == nil {
				exp = [][2]string{}
			}
			if len(exp) > 0 {
				nonnil++
			}
			if !typecacheSame(got, exp) {
				mis++
				if mis <= *maxMis {
					out.put(typecacheMismatch{"mismatch", *cache, n, i, got, exp, h.Calls})
				}
				break
			}
		}
	}
	// twin types: two different struct types that print the same name (function-local types called Req).  A cache -
	// the built-in one or one installed by the user - must keep them apart under every tag name.
	if bad := typecacheTwinProbe(); bad != "" {
		mis++
		out.put(map[string]interface{}{"kind": "twin", "cache": *cache, "detail": bad})
	}
	out.put(map[string]interface{}{"kind": "summary", "cache": *cache, "histories": done, "seen": n, "calls": calls,
		"expected_nonnil": nonnil, "mismatches": mis, "stats": d.st})
	return nil
}

// ---------------------------------------------------------------- typecache-record

func typecacheRandShape(meta *typecacheMeta, toks []string, r *rand.Rand) typecacheShape {
	s := typecacheShape{}
	mk := func() map[string]string {
		m := map[string]string{}
		for _, f := range meta.Fields {
			if r.Intn(4) == 0 {
				m[f] = meta.NoRule
			} else {
				m[f] = toks[r.Intn(len(toks))]
			}
		}
		return m
	}
	for _, t := range meta.Tags {
		s[t] = mk()
	}
	// some types declare the same rules under two tag names, some declare nothing under one of them
	switch r.Intn(6) {
	case 0:
		s[meta.Tags[1%len(meta.Tags)]] = s[meta.Tags[0]]
	case 1:
		e := map[string]string{}
		for _, f := range meta.Fields {
			e[f] = meta.NoRule
		}
		s[meta.Tags[r.Intn(len(meta.Tags))]] = e
	}
	return s
}

func typecacheRecord(args []string) error {
	fs := flag.NewFlagSet("typecache-record", flag.ContinueOnError)
	cache := fs.String("cache", "default", "cache configuration")
	metaPath := fs.String("meta", "", "meta json printed by TLC")
	outPath := fs.String("out", "", "trace file")
	segs := fs.Int("segs", 1, "histories (each on a fresh cache; the default configuration always records one)")
	ncalls := fs.Int("calls", 1000, "calls per history")
	ntypes := fs.Int("types", 40, "distinct struct types per history")
	hot := fs.Int("hot", 6, "size of the recently used window")
	if err := fs.Parse(args); err != nil {
		return err
	}
	meta, err := typecacheLoadMeta(*metaPath)
	if err != nil {
		return err
	}
	f, err := os.Create(*outPath)
	if err != nil {
		return err
	}
	defer f.Close()
	w := newLineWriter(f)
	defer w.flush()
	d, err := typecacheNewDriver(meta, *cache, w)
	if err != nil {
		return err
	}
	toks := make([]string, 0, len(meta.Rules))
	for t := range meta.Rules {
		toks = append(toks, t)
	}
	sort.Strings(toks)
	r := rand.New(rand.NewSource(seed()*7919 + int64(len(*cache))*131 + int64(d.cfg.cap)))
	if !d.canReset() {
		*segs = 1
	}
	for s := 0; s < *segs; s++ {
		d.reset()
		shapes := make([]typecacheShape, *ntypes)
		for i := range shapes {
			shapes[i] = typecacheRandShape(meta, toks, r)
		}
		type tk struct {
			t   int
			tag string
		}
		var window []tk
		order, next := r.Perm(*ntypes), 0
		for c := 0; c < *ncalls; c++ {
			var k tk
			if len(window) > 0 && r.Intn(100) < 55 {
				k = window[r.Intn(len(window))]
				if r.Intn(4) == 0 { // same type, another tag
					k.tag = meta.Tags[r.Intn(len(meta.Tags))]
				}
			} else if r.Intn(100) < 70 { // sweep: the next type of a shuffled order, so that every type is used
				k = tk{order[next%len(order)], meta.Tags[r.Intn(len(meta.Tags))]}
				next++
			} else {
				k = tk{r.Intn(*ntypes), meta.Tags[r.Intn(len(meta.Tags))]}
			}
			window = append(window, k)
			if len(window) > *hot {
				window = window[1:]
			}
			ov := map[string]string{}
			for _, fl := range meta.Fields {
				ov[fl] = meta.NoRule
			}
			if r.Intn(100) < 35 {
				fl := meta.Fields[r.Intn(len(meta.Fields))]
				ov[fl] = toks[r.Intn(len(toks))]
				if r.Intn(4) == 0 {
					ov[meta.Fields[r.Intn(len(meta.Fields))]] = toks[r.Intn(len(toks))]
				}
			}
			val := map[string]int{}
			for _, fl := range meta.Fields {
				val[fl] = meta.Vals[r.Intn(len(meta.Vals))]
			}
			d.exec("t"+strconv.Itoa(k.t), shapes[k.t], k.tag, ov, val)
		}
	}
	w.flush()
	out := newLineWriter(os.Stdout)
	out.put(map[string]interface{}{"kind": "summary", "cache": *cache, "stats": d.st})
	out.flush()
	return nil
}

// ---------------------------------------------------------------- typecache-script

type typecacheScriptFile struct {
	Cache string          `json:"cache"`
	Calls []typecacheCall `json:"calls"`
}

func typecacheScript(args []string) error {
	fs := flag.NewFlagSet("typecache-script", flag.ContinueOnError)
	metaPath := fs.String("meta", "", "meta json printed by TLC")
	if err := fs.Parse(args); err != nil {
		return err
	}
	if fs.NArg() != 2 {
		return fmt.Errorf("usage: typecache-script -meta m.json script.json out.ndjson")
	}
	meta, err := typecacheLoadMeta(*metaPath)
	if err != nil {
		return err
	}
	b, err := os.ReadFile(fs.Arg(0))
	if err != nil {
		return err
	}
	var sc typecacheScriptFile
	if err := json.Unmarshal(b, &sc); err != nil {
		return err
	}
	f, err := os.Create(fs.Arg(1))
	if err != nil {
		return err
	}
	defer f.Close()
	w := newLineWriter(f)
	defer w.flush()
	d, err := typecacheNewDriver(meta, sc.Cache, w)
	if err != nil {
		return err
	}
	d.reset()
	for _, c := range sc.Calls {
		shape := c.S
		if shape == nil {
			shape = meta.Shapes[c.T]
		}
		if shape == nil {
			return fmt.Errorf("script: no shape for type %q", c.T)
		}
		d.exec(c.T, shape, c.Tag, c.Ov, c.Val)
	}
	return nil
}
