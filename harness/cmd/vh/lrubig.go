package main

// lru-big: recordings of the real LRUCache at LARGE capacities for spec/Trace_LRUBig.tla (C09: "capacities 0..4 and
// larger").  Keys are integers used in increasing order, values a fixed function of the key; the bulk of a run is
// `fill` events (thousands of Stores of fresh keys, logged as ONE event with the keys whose removal callback fired), the
// rest single operations around the capacity boundary and around keys that were touched.

import (
	"flag"
	"fmt"
	"math/rand"
	"os"
	"strconv"
	"strings"

	"gitee.com/xuesongtao/protoc-go-valid/valid"
)

func init() { register("lru-big", lruBig) }

type lruBigEv struct {
	E     string `json:"e"`
	Cap   int    `json:"cap"`
	A     int    `json:"a"`
	B     int    `json:"b"`
	K     int    `json:"k"`
	Ok    bool   `json:"ok"`
	ResOK bool   `json:"resok"`
	N     int    `json:"n"`
	Cb    []int  `json:"cb"`
}

func lruBig(args []string) error {
	fs := flag.NewFlagSet("lru-big", flag.ExitOnError)
	capsS := fs.String("caps", "513,1025,8200", "capacities")
	outp := fs.String("out", "lrubig.ndjson", "")
	fs.Parse(args)
	f, err := os.Create(*outp)
	if err != nil {
		return err
	}
	defer f.Close()
	out := newLineWriter(f)
	defer out.flush()
	rng := rand.New(rand.NewSource(seed()*7919 + 11))
	val := func(k int) string { return "v" + strconv.Itoa(k) }
	for _, cs := range strings.Split(*capsS, ",") {
		c, err := strconv.Atoi(strings.TrimSpace(cs))
		if err != nil {
			return err
		}
		cache := valid.NewLRU(c)
		var cbs []int
		cache.SetDelCallBackFn(func(key, value interface{}) {
			k, _ := key.(int)
			if value != val(k) {
				k = -k - 1 // a callback with the wrong value shows as a key the model never has
			}
			cbs = append(cbs, k)
		})
		take := func() []int {
			r := cbs
			if r == nil {
				r = []int{}
			}
			cbs = nil
			return r
		}
		out.put(lruBigEv{E: "reset", Cap: c, Cb: []int{}})
		next := 1
		fill := func(n int) {
			if n <= 0 {
				return
			}
			a := next
			for i := 0; i < n; i++ {
				cache.Store(next, val(next))
				next++
			}
			out.put(lruBigEv{E: "fill", A: a, B: next - 1, Cb: take()})
		}
		length := func() { out.put(lruBigEv{E: "len", N: cache.Len(), Cb: []int{}}) }
		load := func(k int) {
			v, ok := cache.Load(k)
			out.put(lruBigEv{E: "load", K: k, Ok: ok, ResOK: ok && v == val(k), Cb: take()})
		}
		store := func(k int) {
			cache.Store(k, val(k))
			out.put(lruBigEv{E: "store", K: k, Cb: take()})
		}
		del := func(k int) {
			cache.Delete(k)
			out.put(lruBigEv{E: "delete", K: k, Cb: take()})
		}
		// below capacity: nothing is evicted, every key is there
		fill(c - 3)
		length()
		load(1)
		load(c / 2)
		load(next) // never stored
		// to the brim and over it, one key at a time
		fill(2)
		length()
		store(next)
		next++
		length() // = c
		store(next)
		next++ // the first eviction: the oldest key that was not touched
		length()
		// the two keys loaded above were moved to the front: they survive a fill of c-3 more keys, everything else of the
		// first generation goes, oldest first
		fill(c - 3)
		length()
		load(1)
		load(c / 2)
		load(2)
		// deletions make room; the rebuild of the key index (every 2c+1 removals) has long happened by now
		for i := 0; i < 5; i++ {
			del(next - 1 - rng.Intn(c/2))
		}
		length()
		fill(7)
		length()
		// a second generation and a half, then random single operations over live, dead and fresh keys
		fill(c + c/2)
		length()
		for i := 0; i < 30; i++ {
			k := next - 1 - rng.Intn(2*c)
			if k < 1 {
				k = 1
			}
			switch rng.Intn(4) {
			case 0:
				load(k)
			case 1:
				store(k)
			case 2:
				del(k)
			default:
				store(next)
				next++
			}
		}
		length()
		fmt.Fprintf(os.Stderr, "lru-big: cap %d, %d keys\n", c, next-1)
	}
	return nil
}
