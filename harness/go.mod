module verifharness

go 1.16

require gitee.com/xuesongtao/protoc-go-valid v0.0.0

replace gitee.com/xuesongtao/protoc-go-valid => /repo
