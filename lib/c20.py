"""C20 - the struct dumper emits well-formed JSON matching the standard encoder.

1. MC_Dump*: TLC checks, for every typed value tree of the bounded universe of spec/Dump.tla, that the emitter
   (mechanism, transcribed from valid/dump.go) meets the contract (WellFormed, Decode = Doc) and that Doc is the
   standard encoder's document up to exactly the documented deviations. The same check on the mechanism of the
   pinned tree (MC_Dump_pinned) must FAIL (non-vacuity; it exhibits D16).
2. Gen_Dump: TLC prints every tree with Doc(T,v); every distinct root type becomes a generated named Go type,
   every tree a real value; GetDumpStructStr and encoding/json run on it; outputs are lexed into tokens.
3. Judge_Dump: TLC judges every recorded (tree, tokens, jtokens) triple in constant mode.
4. Seeded random trees (wider, deeper, all integer kinds, unicode, unexported fields; reflect.StructOf for the
   exported-only ones) go through 2-3 as well.
"""
import json
from concurrent.futures import ThreadPoolExecutor

from . import common, fam_dump
from .common import MachineryError

ASSUMPTIONS = [
    "root values are structs or pointers to structs (GetDumpStructStr prints nothing for other roots); pointers point to structs only",
    "strings (values, map keys) contain no character that JSON escapes (no quote, backslash, control character, U+2028/9); "
    "field names are ASCII identifiers, exported = first letter A-Z; no struct tags, no embedded fields",
    "map keys are strings or integers of any Go integer kind; no bool/float keys (the standard encoder rejects them)",
    "moderate floats: 0 or |x| in [1e-4, 1e6) with at most 6 significant digits; numbers are compared as canonical "
    "positional text, at binary32 precision when the value is a binary32 number (a float32 field is printed through float64)",
    "[]uint8 is not generated (the standard encoder prints it as base64 text; the property does not list it among the deviations); "
    "arrays, interface fields, pointers to scalars/slices/maps, time.Time, func, chan are outside the property's domain",
    "object members are compared as a map (order of map entries and duplicate keys are not judged); "
    "unexported fields hold non-zero values that must not appear",
    "GetDumpStructStrForJson is only compared with encoding/json (a difference is a note): the reference is encoding/json itself",
]


def universe(ctx):
    """(MC configs, Gen configs) of the tier"""
    if ctx.quick():
        return ["MC_Dump"], ["Gen_Dump_quick"]
    return ["MC_Dump3", "MC_Dump2w"], ["Gen_Dump", "Gen_Dump2w"]


def run(ctx):
    if ctx.replay:
        return replay(ctx)
    quick = ctx.quick()
    mcs, gens = universe(ctx)

    # 1. design check: emitter => contract on every tree; the pinned mechanism must be refuted
    # 2. model -> code: every tree of the universe with Doc(T,v)            (independent TLC runs, side by side)
    def mc_run(cfg):
        return ctx.tlc("Dump", cfg, workers=2, coverage=not quick, tag=cfg, timeout=1500, heap="8g", count=False)

    def pinned_run(_):
        return ctx.tlc("Dump", "MC_Dump_pinned", workers=1, expect_ok=False, count=False, tag="pinned")

    jobs = [(mc_run, c) for c in mcs] + [(pinned_run, None)] + [(lambda c: fam_dump.tlc_trees(ctx, c), c) for c in gens]
    with ThreadPoolExecutor(max_workers=fam_dump.PAR) as ex:
        results = list(ex.map(lambda fa: fa[0](fa[1]), jobs))
    mc_res, pin, gen_res = results[:len(mcs)], results[len(mcs)], results[len(mcs) + 1:]
    for cfg, mc in zip(mcs, mc_res):
        if not quick:
            zero = mc.coverage_zero + fam_dump.coverage_zero(ctx, cfg)
            if zero:
                raise MachineryError("vacuous: parts of Dump.tla never evaluated in %s: %s" % (cfg, zero[:5]))
    if pin.ok or not pin.invariant_violated or "EmitterMeetsContract" not in (pin.invariant_violated or ""):
        raise MachineryError("non-vacuity: the pinned mechanism (D16) was not refuted by EmitterMeetsContract: %s" % pin.raw[-1500:])
    states = sum(m.distinct for m in mc_res)
    transitions = sum(m.generated for m in mc_res)

    table = fam_dump.TypeTable(ctx.seed)
    trees = []
    seen = set()
    for ts in gen_res:
        for t in ts:
            c = fam_dump.canon([t["ty"], t["v"]])
            if c not in seen:       # the universes of two configurations overlap
                seen.add(c)
                trees.append(t)
    del seen
    enum = fam_dump.prepare(trees, table, 0, named="all")
    ctx.log("universe: %d trees, %d distinct root types" % (len(enum), len(table.decls)))

    # 4. random volume: trees from the seeded generator; types with unexported fields become named types too
    vh0 = ctx.build_vh(name="vh0")
    nrand = 20000 if quick else 60000
    rr = ctx.run_vh(vh0, ["dump-rand", "-n", str(nrand // 2), "-maxdepth", "4", "-maxwidth", "5", "-firstid", "0"]).stdout
    ru = ctx.run_vh(vh0, ["dump-rand", "-n", str(nrand // 2), "-maxdepth", "4", "-maxwidth", "5", "-unexported",
                          "-firstid", str(nrand // 2)]).stdout
    rand_trees = [json.loads(l) for l in (rr + ru).splitlines() if l.strip()]
    if len(rand_trees) != nrand:
        raise MachineryError("dump-rand produced %d of %d trees" % (len(rand_trees), nrand))
    rnd = fam_dump.prepare(rand_trees, table, len(enum), named="needed")
    n_structof = sum(1 for r in rnd if "tn" not in r)
    ctx.log("random: %d trees (%d on reflect.StructOf types, %d on generated named types); %d named types in all"
            % (len(rnd), n_structof, len(rnd) - n_structof, len(table.decls)))

    # sizes at which fixed-size scratch space ends (long strings, wide structs); prepared before the build: the structs
    # with unexported fields become generated named types
    ext = fam_dump.prepare(fam_dump.extreme_trees(), table, len(enum) + len(rnd) + 100000, named="needed")
    vh = ctx.build_vh(gen_files=table.gen_files(), name="vh")

    stats = fam_dump.new_stats()
    fam_dump.check_records(ctx, vh, enum + rnd, lambda rid: "enum" if rid < len(enum) else "rand", stats)
    fam_dump.check_records(ctx, vh, ext, lambda rid: "extreme", stats, tag="ext")
    # 5. history schedule (one process, in order): the result must not depend on which types were dumped before
    hist = fam_dump.prepare(fam_dump.history_schedule(70 if quick else 140), table, len(enum) + len(rnd), named="needed")
    if any("tn" in r for r in hist):
        raise MachineryError("history schedule: a type needs a generated named type")
    fam_dump.check_records(ctx, vh, hist, lambda rid: "hist", stats, tag="hist", seq=True)
    fam_dump.report(ctx, stats)

    if stats["drift"]:
        ctx.note("DRIFT: %d outputs satisfy the contract but differ token-wise from the mechanism spec" % stats["drift"])
    if stats.get("forjson_diff"):
        ctx.note("GetDumpStructStrForJson differs from encoding/json on %d values (not judged)" % stats["forjson_diff"])
    for need in ("empty_struct", "string_key", "all_unexported", "first_unexported", "bool", "multi_map", "nil_ptr", "nil_slice", "nil_map"):
        if not stats["feat"].get(need):
            raise MachineryError("vacuous: no tree with feature %s was run" % need)

    cov = dict(
        traces_validated_against_impl=stats["judged"],
        evaluations=stats["judged"],
        distinct_nontrivial=stats["nontrivial"],
        rule="one evaluation = one real GetDumpStructStr call on a value built from a tree, judged by TLC; non-trivial = the printed part "
             "of the tree has an empty struct, a struct with no/first field unexported, a bool, a nil pointer/slice/map, an empty map, "
             "a string-keyed or multi-entry map or a multi-element slice",
        universe_trees=len(enum), universe_root_types=sum(1 for _ in {fam_dump.canon(r["ty"]) for r in enum}),
        universe_nontrivial=stats["nontrivial_by"].get("enum", 0), states=states, transitions=transitions,
        random_trees=len(rnd), random_on_structof=n_structof,
        named_types_generated=len(table.decls),
        feature_counts=stats["feat"],
        contract_violations_seen=stats["bad"],
        mechanism_level_agreement="%d of %d order-determined outputs equal the mechanism spec's token sequence" % (stats["mech_agree"], stats["mech_comparable"]),
        exhaustive=True,
        bounds="exhaustive over spec/Dump.tla's universe: root struct / pointer-to-struct types of depth <= %s, <= 2 fields per struct "
               "(one field over all types of the level below, the sibling over the sibling alphabet), all 5 scalar classes, slices and maps "
               "nil/empty/1/2 entries over the Base/Alt representatives of the element type, int and string keys; beyond that sampled by the seeded generator"
               % ("2" if quick else "3 (small sibling alphabet) and depth <= 2 (wide sibling alphabet)"),
        samples=stats["samples"][:4],
    )
    return ctx.finish("model_checking", cov, ASSUMPTIONS)


def replay(ctx):
    r = json.load(open(ctx.replay))["replay"]
    table = fam_dump.TypeTable(ctx.seed)
    recs = fam_dump.prepare(r["trees"], table, 0, named="needed" if r.get("seq") else "all")
    vh = ctx.build_vh(gen_files=table.gen_files(), name="vh")
    stats = fam_dump.new_stats()
    fam_dump.check_records(ctx, vh, recs, lambda rid: "replay", stats, seq=bool(r.get("seq")))
    fam_dump.report(ctx, stats)
    return ctx.finish("model_checking", dict(evaluations=stats["judged"], distinct_nontrivial=stats["nontrivial"],
                                             traces_validated_against_impl=stats["judged"], samples=[r], replay=True), ASSUMPTIONS)
