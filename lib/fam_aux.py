"""Family "aux": small modules for parts of the library the listed properties lean on without naming them.

  TimeFmt.tla  GetTimeFmt (mask algebra + separators) behind year / year2month / date / datetime      -> step of C05
  Echo.tla     StrEscape, GetJoinValidErrStr, GetJoinFieldErr: the text every clause is made of         -> step of C15

Each step is: TLC checks mechanism => contract (+ laws) exhaustively on the window and prints one vector per element with
the contract's expectation; the harness calls the real function on every vector; the orchestrator compares.

Verdict policy: these helpers are public API but no listed property states their behaviour directly, so a difference
between the real helper and its module is reported as a DRIFT note (exit 0) - with one exception: a panic of a helper on
an input inside the window is handed to the caller, which may turn it into a candidate when the property speaks about
crashes.  What the properties do state (rule verdicts, clause texts) is decided by the property's own steps, which
exercise the same helpers through the rules.
"""
from . import common
from .common import MachineryError


def _text(cps):
    try:
        return "".join(chr(c) for c in cps)
    except Exception:  # noqa: BLE001
        return repr(cps)


def timefmt(ctx, vh, quick):
    """returns a coverage dict; differences are DRIFT notes"""
    envs = [{"TF_WIDE": "0" if quick else "1"}, {"TF_FOUR": "1"}]
    vecs = []
    states = 0
    for i, env in enumerate(envs):
        res = ctx.tlc("MC_TimeFmt", "MC_TimeFmt", workers=1, env=env, tag="timefmt-%d" % i, timeout=1200)
        states += res.distinct
        vecs += res.vecs.get("TF", [])
    if len(vecs) < 30000:
        raise MachineryError("MC_TimeFmt emitted only %d vectors" % len(vecs))
    # negative control: the time part joined with the date separator must be refuted by TLC
    neg = ctx.tlc("MC_TimeFmt", "MC_TimeFmt_neg", workers=1, expect_ok=False, tag="timefmt-neg", timeout=600, count=False)
    if not neg.invariant_violated:
        raise MachineryError("negative control of TimeFmt (time separator = date separator) was not refuted")
    ip, op = ctx.path("timefmt.vecs.ndjson"), ctx.path("timefmt.res.ndjson")
    common.write_ndjson(ip, vecs)
    ctx.run_vh(vh, ["timefmt-run"], stdin_path=ip, stdout_path=op)
    out = common.read_ndjson(op)
    if len(out) != len(vecs):
        raise MachineryError("timefmt-run returned %d results for %d vectors" % (len(out), len(vecs)))
    diffs, undocumented, panics = [], 0, []
    for v, r in zip(vecs, out):
        if r.get("panic"):
            panics.append((v, r["panic"]))
            continue
        if not v["doc"]:
            undocumented += 1
            if r["got"] != v["mech"]:
                diffs.append(("undocumented", v, r["got"]))
            continue
        if r["got"] != v["want"]:
            diffs.append(("documented", v, r["got"]))
    for kind, v, got in diffs[:5]:
        ctx.note("DRIFT GetTimeFmt(%d, %s) = %r, TimeFmt.tla (%s arguments) says %r" % (
            v["mask"], [_text(s) for s in v["splits"]], _text(got), kind, _text(v["want"] if kind == "documented" else v["mech"])))
    for v, p in panics[:3]:
        ctx.note("DRIFT GetTimeFmt(%d, %s) panicked: %s" % (v["mask"], [_text(s) for s in v["splits"]], p[:200]))
    return dict(timefmt_vectors=len(vecs), timefmt_states=states, timefmt_differences=len(diffs), timefmt_panics=len(panics),
                timefmt_undocumented_arity=undocumented,
                timefmt_rule="every int8 mask x every tuple of 0..3 separators over {'', '-', '/', ':', ' '} (thorough: + '.', 'T', '--'), "
                             "plus 0..4 separators over {'', '-', 'T'} (a fourth separator is not documented: compared with the mechanism only)")


def echo(ctx, vh, quick):
    res = ctx.tlc("MC_Echo", "MC_Echo", workers=1, env={"ECHO_WIDE": "0" if quick else "1"}, tag="echo", timeout=1200)
    esc = res.vecs.get("ESC", [])
    cl = res.vecs.get("CL", [])
    if len(esc) < 1000 or len(cl) < 500:
        raise MachineryError("MC_Echo emitted only %d + %d vectors" % (len(esc), len(cl)))
    vecs = []
    for v in esc:
        vecs.append(dict(op="escape", s=v["s"], obj=[], field=[], input=[], others=[], aserr=False, want=v["want"]))
    for v in cl:
        vecs.append(dict(op=v["op"], s=[], obj=v["obj"], field=v["field"], input=v["input"], others=v["others"],
                         aserr=bool(v.get("aserr", False)), want=v["want"]))
    ip, op = ctx.path("echo.vecs.ndjson"), ctx.path("echo.res.ndjson")
    common.write_ndjson(ip, vecs)
    ctx.run_vh(vh, ["echo-run"], stdin_path=ip, stdout_path=op)
    out = common.read_ndjson(op)
    if len(out) != len(vecs):
        raise MachineryError("echo-run returned %d results for %d vectors" % (len(out), len(vecs)))
    diffs, panics = [], []
    for v, r in zip(vecs, out):
        if r.get("panic"):
            panics.append((v, r["panic"]))
        elif r["got"] != v["want"]:
            diffs.append((v, r["got"]))
    for v, got in diffs[:5]:
        ctx.note("DRIFT %s%s = %r, Echo.tla says %r" % (
            v["op"], (bytes(v["s"]), bytes(v["obj"]), bytes(v["field"]), bytes(v["input"]), [bytes(o) for o in v["others"]]),
            bytes(got), bytes(v["want"])))
    for v, p in panics[:3]:
        ctx.note("DRIFT %s panicked on %r: %s" % (v["op"], v, p[:200]))
    return dict(echo_escape_vectors=len(esc), echo_clause_vectors=len(cl), echo_states=res.distinct,
                echo_differences=len(diffs), echo_panics=len(panics),
                echo_rule="StrEscape on every byte string of length <= 3 (thorough 4) over the 8 special bytes + '0' 'n' 'a' 0xff; "
                          "GetJoinValidErrStr / GetJoinFieldErr on names x fields x inputs x word lists incl. words that contain a label or the separator")
