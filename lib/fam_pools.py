"""Shared code of the `pools` family (C11, C12): spec/Pools.tla, Gen_Pools.tla, Trace_Pools.tla, harness pools.go.

Data flow (the oracle is always TLC):
  Gen_Pools (menu)  -> type table, marker table, every call descriptor with the contract's Expected clause list
  Gen_Pools (seq/perm/sim) -> call histories with Expected per call
  vh pools-replay / pools-conc -> ndjson trace of the real library (call / ret / recheck events)
  Trace_Pools -> TLC accepts the trace or names the first line the contract forbids
Python only moves files around, writes per-run cfg files and turns a rejected line into a replay file.
"""
import json
import os
import re
import subprocess
from concurrent.futures import ThreadPoolExecutor

from . import common
from .common import MachineryError

FLAGS = dict(ClearRuleMapOnFree="TRUE", FreshVC="TRUE", ReInitBuf="TRUE", ResetDetaches="TRUE", KeyWithTag="TRUE", WriteThrough="FALSE")
ACTIONS = ["Start", "Get", "ReInit", "GetBuf", "SetRule", "SetFn", "Lookup", "Evict", "Walk", "AppendCl", "ReadError", "ResetBuf",
           "Clear", "Put", "Return"]
MC_DESCS = [1, 2, 3, 8]          # menu ids used by the exhaustive mechanism check (two tags of T1, override, fns, Var)


def write_cfg(ctx, name, body):
    p = os.path.join(ctx.spec_dir(), name + ".cfg")
    with open(p, "w") as f:
        f.write(body)
    return name


def base_constants(calls="{1}", descs="{1}", maxobj=2, flags=None, distinct=False):
    fl = dict(FLAGS, EarlyDistinct="TRUE" if distinct else "FALSE")
    fl.update(flags or {})
    lines = ["CONSTANTS", "  Calls = %s" % calls, "  MCDescs = %s" % descs, "  MaxObj = %d" % maxobj]
    lines += ["  %s = %s" % kv for kv in fl.items()]
    return "\n".join(lines) + "\n"


# ------------------------------------------------------------------------------------------- mechanism check
def model_check(ctx, quick, descs=None):
    """B => A on the bounded mechanism model, plus the non-vacuity companions: with any one mechanism flag flipped
    (what a realistic breaking change does to the mechanism) TLC must find a violation."""
    inv = "INVARIANTS MTypeOK Exclusive NoForeign ResultOwn HandedOutStable PooledClean\n"
    if quick:
        pairs = [(a, b) for i, a in enumerate(MC_DESCS) for b in MC_DESCS[i + 1:]]
        a, b = pairs[ctx.seed % len(pairs)]
        body = base_constants("{1, 2, 3}", "{%d, %d}" % (a, b), 4, distinct=True) + "SPECIFICATION MSpec\nCHECK_DEADLOCK FALSE\n" + inv
        res = ctx.tlc("Pools", write_cfg(ctx, "MC_Pools_run", body), workers=4, timeout=900, tag="MC_Pools_quick")
    else:
        cfgname = "MC_Pools"
        if descs:
            cfgname = write_cfg(ctx, "MC_Pools_sel", open(os.path.join(ctx.spec_dir(), "MC_Pools.cfg")).read().replace(
                "MCDescs = {1, 2, 3, 8}", "MCDescs = {%s}" % ", ".join(map(str, descs))))
        res = ctx.tlc("Pools", cfgname, workers=4, timeout=2400, coverage=True, tag="MC_Pools")
        # -coverage 1 prints "<Action line .. of module Pools>: distinct:generated" per action
        outp = ctx.path("tlc-MC_Pools-%d.out" % (len(ctx.tlc_runs) - 1))
        ctx.tlc("Pools", "MC_Pools_live", workers=4, timeout=1800, tag="MC_Pools_live")
        taken = {}
        for line in open(outp, errors="replace"):
            m = re.match(r"<(\w+) line \d+, col \d+ to line \d+, col \d+ of module Pools>: (\d+):(\d+)", line)
            if m:
                taken[m.group(1)] = int(m.group(3))
        zero = [a for a in ACTIONS if taken.get(a, 0) == 0]
        if zero:
            raise MachineryError("vacuous: mechanism actions never taken in MC_Pools: %s (coverage %s)" % (zero, taken))
        res.actions_taken = {a: taken[a] for a in ACTIONS}
    negs = [("ClearRuleMapOnFree", "FALSE"), ("FreshVC", "FALSE"), ("ReInitBuf", "FALSE"), ("ResetDetaches", "FALSE"),
            ("KeyWithTag", "FALSE"), ("WriteThrough", "TRUE")]
    if quick:
        negs = [negs[ctx.seed % len(negs)], negs[(ctx.seed + 3) % len(negs)]]
    caught = {}
    for flag, val in negs:
        body = base_constants("{1, 2, 3}", "{2, 3}", 4, {flag: val}) + "SPECIFICATION MSpec\nCHECK_DEADLOCK FALSE\n" + inv
        r = ctx.tlc("Pools", write_cfg(ctx, "MC_Pools_neg_" + flag, body), workers=2, timeout=900, expect_ok=False,
                    tag="MC_Pools_neg_" + flag, count=False)
        m = re.search(r"Invariant (\w+) is violated", r.invariant_violated or "")
        if r.ok or not m:
            raise MachineryError("vacuous: the mechanism model with %s=%s violates no invariant:\n%s" % (flag, val, r.raw[-1500:]))
        caught[flag] = m.group(1)
    return res, caught


# ------------------------------------------------------------------------------------------- scenario emission
GEN_TAIL = "SPECIFICATION GSpec\nINVARIANT EmitHist\nCHECK_DEADLOCK FALSE\n"


MENU_N = 31          # descriptors m01..m31 of Pools!Menu12 (the name is historical)


def gen_cfg(mode, maxlen=3, selseed=1, selmod=12, menun=MENU_N):
    return (base_constants() + '  GenMode = "%s"\n  MaxLen = %d\n  MenuN = %d\n  SelSeed = %d\n  SelMod = %d\n' % (mode, maxlen, menun, selseed, selmod)
            + GEN_TAIL)


def gen_menu(ctx):
    res = ctx.tlc("Gen_Pools", write_cfg(ctx, "Gen_Pools_menu", gen_cfg("menu")), workers=1, tag="Gen_Pools_menu")
    types, mark, descs = res.vecs.get("TYPE", []), res.vecs.get("MARK", []), res.vecs.get("DESC", [])
    if len(types) < 3 or len(mark) != 1 or len(descs) < 100:
        raise MachineryError("Gen_Pools menu incomplete: %d types %d descs" % (len(types), len(descs)))
    descs.sort(key=lambda d: d["id"])
    menu = dict(types=types, mark=mark[0], descs=descs)
    p = ctx.path("pools-menu.json")
    with open(p, "w") as f:
        json.dump(menu, f, ensure_ascii=False)
    return menu, p


def gen_histories(ctx, mode, maxlen=3, simulate=None, selmod=12, menun=MENU_N):
    cfg = write_cfg(ctx, "Gen_Pools_" + mode, gen_cfg(mode, maxlen, ctx.seed, selmod, menun))
    if simulate:
        res = ctx.tlc("Gen_Pools", cfg, workers=1, simulate=simulate, depth=maxlen + 1, tag="Gen_Pools_" + mode, expect_ok=False, timeout=1800)
        if res.invariant_violated or "Error:" in res.raw:
            raise MachineryError("Gen_Pools simulation failed:\n" + res.raw[-2000:])
    else:
        res = ctx.tlc("Gen_Pools", cfg, workers=1, tag="Gen_Pools_" + mode, timeout=1800)
    hs = res.vecs.get("HIST", [])
    if not hs:
        raise MachineryError("Gen_Pools emitted no histories in mode " + mode)
    return hs


GO_KIND = {"int": "int", "str": "string"}


def go_types_source(menu):
    """Go source of the named struct types of the spec's type table (the spec is the single source of the types)."""
    tags = menu["mark"]["tags"]
    byid = {t["id"]: t for t in menu["types"]}
    out = ["// Code generated by lib/fam_pools.py from the @@TYPE table of spec/Gen_Pools.tla. DO NOT EDIT.", "package main", "",
           'import "reflect"', ""]
    reg = []
    for t in menu["types"]:
        if not t["name"]:
            continue
        out.append("type %s struct {" % t["name"])
        for f in t["fields"]:
            if f["kind"] in GO_KIND:
                gt = GO_KIND[f["kind"]]
            elif f["kind"] == "ptr":
                gt = "*" + byid[f["elem"]]["name"]
            elif f["kind"] == "slice":
                gt = "[]" + byid[f["elem"]]["name"]
            else:
                raise MachineryError("unknown field kind " + f["kind"])
            parts = []
            for tn in tags:
                txt = f["tags"].get(tn, "")
                if txt:
                    if '"' in txt or "\\" in txt or "`" in txt:
                        raise MachineryError("rule text not representable in a raw struct tag: " + txt)
                    parts.append('%s:"%s"' % (tn, txt))
                    if tn != "valid":   # the aliases of harness/cmd/vh/pools.go poolsAliases (checked there against this source)
                        parts += ['%sr%dk%d:"%s"' % (tn, r, k, txt) for r in range(1, 5) for k in range(4)]
            out.append("\t%s %s `%s`" % (f["name"], gt, " ".join(parts)))
        out.append("}")
        out.append("")
        reg.append('\tpoolsNamed["%s"] = reflect.TypeOf(%s{})' % (t["id"], t["name"]))
    out.append("func init() {")
    out += reg
    out.append("}")
    return "\n".join(out) + "\n"


def build(ctx, menu, race):
    return ctx.build_vh(race=race, gen_files={"cmd/vh/pools_gen.go": go_types_source(menu)}, name="vhpools")


# ------------------------------------------------------------------------------------------- trace validation
def tlc_trace(ctx, path, tag):
    res = ctx.tlc("Trace_Pools", "Trace_Pools", workers=1, env={"TRACE": path}, tag=tag, expect_ok=False, timeout=3000, heap="4g")
    rej = res.vecs.get("REJECT")
    if res.ok and not rej:
        return None
    if rej:
        return rej[0]["line"]
    raise MachineryError("trace validation of %s failed without a verdict:\n%s" % (path, res.raw[-3000:]))


def other_tag_before(menu, events, ev):
    """did another call that started earlier in the same process validate one of this call's struct types (root or
    nested) under another tag?  (scenario class of defect D7 / property C08: type cache keyed without the tag)"""
    if not ev.get("ty"):
        return False
    mine = set(ev["ty"].split(","))
    tag = menu["descs"][ev["d"] - 1]["d"]["tag"]
    for e in events:
        if e is ev or (e.get("c") == ev.get("c") and e["e"] == ev["e"]):
            break
        if e["e"] == "call" and e.get("c") != ev.get("c") and e.get("ty") and menu["descs"][e["d"] - 1]["d"]["tag"] != tag \
                and mine & set(e["ty"].split(",")):
            return True
    return False


def other_tag_class(menu, events):
    """ids of all struct calls of that class in a trace"""
    seen, out = {}, set()
    for e in events:
        if e.get("ty") and e["e"] in ("call", "ret"):
            tag = menu["descs"][e["d"] - 1]["d"]["tag"]
            for t in e["ty"].split(","):
                tags = seen.setdefault(t, {})
                if e["e"] == "call":
                    tags.setdefault(tag, e["c"])
                elif any(tg != tag for tg, c in tags.items() if c != e["c"]):
                    out.add(e["c"])
    return out


def classify(menu, ev, events_of_call, events=None):
    """signature + description of a rejected event (equality/inequality only; the verdict was TLC's)"""
    d = menu["descs"][ev["d"] - 1]
    ep = 0
    for e in (events or []):        # the epoch of the global function table the call ran in (Pools!GlobAt)
        if e is ev:
            break
        if e["e"] == "epoch":
            ep = e["c"]
    exp, got = d.get({0: "exp", 1: "exp1", 2: "exp2"}[ep], d["exp"]), ev["clauses"]
    sig = dict(src="trace", event=ev["e"], car=d["d"]["car"])
    if ep:
        sig["epoch"] = ep
    if d["d"]["car"] == "struct" and events is not None:
        sig["type_seen_under_other_tag"] = other_tag_before(menu, events, ev)
    if ev["e"] == "ret":
        if not ev["inputSame"]:
            sig["what"] = "input-modified"
        elif not ev["rmSame"]:
            sig["what"] = "rulemap-modified"
        elif any(c["m"] == "tok" and c["v"] != "own" for c in got):
            sig["what"] = "foreign-token"
        else:
            key = lambda c: (c["p"], c["m"], c["x"], c["v"])
            ge, gg = sorted(map(key, exp)), sorted(map(key, got))
            missing = [c for c in ge if c not in gg]
            extra = [c for c in gg if c not in ge]
            sig["what"] = "missing" if missing and not extra else "extra" if extra and not missing else "differs" if (missing or extra) else "order"
        lead = {"input-modified": "the call modified its input value; ", "rulemap-modified": "the call modified the rule map it was given; ",
                "foreign-token": "another call's per-call function ran; "}.get(sig["what"], "")
        desc = "%scall %s (%s via %s) returned %s; Expected(desc) = %s; text=%r" % (
            lead, ev["c"], d["d"]["key"], ev.get("api"), json.dumps(got, ensure_ascii=False), json.dumps(exp, ensure_ascii=False), ev.get("text"))
    elif ev["e"] == "recheck":
        sig["what"] = "handed-out-changed"
        prev = [e for e in events_of_call if e["e"] == "ret"]
        desc = "what call %s (%s) handed out changed afterwards: re-read %s (%s); handed out at return %s" % (
            ev["c"], d["d"]["key"], json.dumps(got, ensure_ascii=False), ev.get("note"),
            json.dumps(prev[0]["clauses"] if prev else None, ensure_ascii=False))
    else:
        sig["what"] = "protocol"
        desc = "event not accepted: " + json.dumps(ev)[:400]
    return sig, desc


def validate(ctx, menu, path, tag, max_rounds=4):
    """Validate one trace file; a rejected call is reported, cut out, and the rest validated again.
    Returns (events, n_calls, n_rechecks, rejected) where rejected = list of (event, events of that call, index)."""
    events = common.read_ndjson(path)
    # panics and deadlocks are not events of the model: reported by the caller, removed here
    live = [e for e in events if e["e"] in ("reset", "epoch", "call", "ret", "recheck")]
    rejected = []
    cur = live
    for rnd in range(max_rounds + 1):
        p = path if (rnd == 0 and len(live) == len(events)) else "%s.r%d" % (path, rnd)
        if p != path:
            common.write_ndjson(p, cur)
        line = tlc_trace(ctx, p, "%s-r%d" % (tag, rnd))
        if line is None:
            break
        if line < 1 or line > len(cur):
            raise MachineryError("trace rejected at impossible line %s of %s" % (line, p))
        bad = cur[line - 1]
        if bad["e"] in ("call", "reset", "epoch"):
            raise MachineryError("trace spec rejected a %s event (harness/spec out of step): %s" % (bad["e"], json.dumps(bad)[:300]))
        of_call = [e for e in cur if e.get("c") == bad["c"] and e["e"] not in ("reset", "epoch")]
        rejected.append((bad, of_call, line))
        if rnd == max_rounds:
            break
        drop = {bad["c"]}
        if bad["e"] == "ret" and bad.get("ty") and other_tag_before(menu, cur, bad):
            # the scenario class of D7 (type validated earlier under another tag): report it once per trace, take the whole
            # class out, so that anything else in the trace is still judged
            drop |= other_tag_class(menu, cur)
        cur = [e for e in cur if not (e.get("c") in drop and e["e"] not in ("reset", "epoch"))]
    n_calls = sum(1 for e in live if e["e"] == "ret")
    n_re = sum(1 for e in live if e["e"] == "recheck")
    return events, n_calls, n_re, rejected


def validate_many(ctx, menu, paths, tagbase, workers=4):
    with ThreadPoolExecutor(max_workers=workers) as ex:
        return list(ex.map(lambda ip: validate(ctx, menu, ip[1], "%s%d" % (tagbase, ip[0])), enumerate(paths)))


def is_witness(menu, d):
    """the descriptor's expectation contains a per-call-function token or a not-exist clause: a leaked or lost function
    table / rule map / cache entry changes it"""
    return any(c["m"] in ("tok", "notexist") for c in menu["descs"][d - 1]["exp"])


def nontrivial(menu, events):
    """(calls whose expectation is non-empty, calls expecting a witness clause, set of witness descriptor ids seen)"""
    ne = wit = 0
    ids = set()
    for e in events:
        if e["e"] == "ret":
            if menu["descs"][e["d"] - 1]["exp"]:
                ne += 1
            if is_witness(menu, e["d"]):
                wit += 1
                ids.add(e["d"])
    return ne, wit, ids


def corrupt_demo(ctx, menu, path, tag):
    """Binding demonstration: one logged clause of one ret event is changed; TLC must reject exactly that line."""
    events = [e for e in common.read_ndjson(path) if e["e"] in ("reset", "epoch", "call", "ret", "recheck")][:4000]
    # cut at a point where nothing is pending
    idx = next((i for i, e in enumerate(events) if e["e"] == "ret" and e["clauses"] and i > len(events) // 3
                and not menu["descs"][e["d"] - 1].get("free")), None)      # (a free descriptor accepts any non-empty clause list)
    if idx is None:
        raise MachineryError("no ret event with clauses to corrupt")
    ev = json.loads(json.dumps(events[idx]))
    ev["clauses"][0]["x"] = ev["clauses"][0]["x"] + "#corrupt"
    events[idx] = ev
    p = path + ".corrupt"
    common.write_ndjson(p, events)
    line = tlc_trace(ctx, p, tag + "-corrupt")
    if line != idx + 1:
        raise MachineryError("binding demo failed: corrupted line %d, TLC rejected %s" % (idx + 1, line))
    return idx + 1


def run_harness(ctx, vh, args, timeout, race_env=False):
    env = ctx.env({"GORACE": "halt_on_error=0 history_size=2"} if race_env else None)
    try:
        r = subprocess.run([vh] + args, stdout=subprocess.PIPE, stderr=subprocess.PIPE, text=True, env=env, cwd=ctx.work, timeout=timeout)
    except subprocess.TimeoutExpired:
        return None
    return r
