"""C03 - required means present and non-empty; all other rules skip empty values (family "empty", see lib/fam_empty.py)."""
from .fam_empty import run  # noqa: F401
