"""C08 - the struct-type cache is transparent.

1. MC_TypeCache: TLC proves mechanism => contract (Transparent, ResidentCorrect, OverrideOnCopy, ...) for every call
   history up to the bound over 3 types x 2 tags x 3 overrides x 5 cache kinds (LRU 0/1/2 = INSTANCE LRU, map, forget);
   two sanity configurations (key without the tag = the pinned code; override written through) must be refuted by TLC
   with their 2-call counterexamples; reachability companions must be violated.
2. model -> code: Gen_TypeCache prints call histories with the contract's expected result of every call; the harness
   replays each history in one process per cache configuration (default, NewLRU(), NewLRU(0|1|2|3|8), sync.Map,
   always-miss) and compares every result for equality.
3. code -> model: seeded random long histories over hundreds of reflect.StructOf types (more than the default capacity)
   are recorded with a TracingCache wrapper (load/store/evict events) and judged by TLC against Trace_TypeCache.
"""
import json
from concurrent.futures import ThreadPoolExecutor

from . import common
from . import fam_typecache as fam
from .common import MachineryError

ASSUMPTIONS = [
    "struct types are flat reflect.StructOf types with two int fields (A, B); nesting/paths belong to C04",
    "rule alphabet: le=1, le=2, ge=2, ge=3, to=2~3 on int fields, one rule per field and tag, each with a custom message "
    "'m_<token>' that carries the rule token back (wording of default messages is C15's subject, not judged here)",
    "values 1..4 only: zero values (skipped by every rule but required) are not generated - C03's subject",
    "tag names a, b and the default name valid (concretised as a call without a tag argument)",
    "per-call override = unscoped SetRule/StructForFn rule map replacing the rule string of the named fields",
    "calls are sequential (one goroutine); concurrent use of the cache is C10/C11",
    "the library's own default cache cannot be wrapped or emptied: in that process only call/ret are recorded (judged against "
    "the contract) and every replayed history uses never-seen types; its evictions are counted in the twin configuration "
    "NewLRU() (same capacity) which is wrapped",
    "cache events (hit/miss/store/evict) that differ from mechanism spec B while every result equals the contract are "
    "reported as DRIFT notes, not violations",
    "the value of each generated call is a deterministic pseudo-random function of VERIF_SEED and the history "
    "(all 16 values occur); type/tag/override choices are exhaustive up to the stated history length",
]


def run(ctx):
    vh = ctx.build_vh()
    if ctx.replay:
        return fam.replay_file(ctx, vh)
    quick = ctx.quick()
    ctx.spec_dir()          # create the scratch copy before any thread asks for it

    # ---- the three parts run side by side; fam.SEM bounds the number of child processes
    if quick:
        gens = [("tags", "Gen_TypeCache_tags", None, None, 2), ("len4", "Gen_TypeCache_quick", None, None, 2)]
        small = dict(segs=6, calls=200, types=40, hot=6)
        big = dict(segs=1, calls=2000, types=640, hot=48)
        groups = [["lrudef"], ["default"], ["lru0", "lru1", "lru2", "lru3"], ["lru8", "syncmap", "miss"]]
    else:
        gens = [("tags", "Gen_TypeCache_tags", None, None, 1), ("len4", "Gen_TypeCache", None, None, 2),
                ("len5", "Gen_TypeCache_len5", None, None, 2), ("sim", "Gen_TypeCache_sim", 500, 14, 2)]
        small = dict(segs=24, calls=500, types=60, hot=8)
        big = dict(segs=2, calls=5000, types=700, hot=64)
        groups = None
    plan = {c: dict(small) for c in fam.CONFIGS}
    plan["default"] = dict(big)
    plan["lrudef"] = dict(big)
    plan["syncmap"] = dict(small, types=200, hot=30)

    def gen_and_replay(label, cfg, sim, depth, stride):
        # ---- 2. model -> code
        meta, hists = fam.generate(ctx, cfg, sim, depth)
        if label == "tags":
            meta_ready.append(meta)
            meta_event.set()
        if os_corrupt() == "exp" and label == "len4":       # dev only: show that a wrong expectation is noticed
            h = hists[len(hists) // 2]["calls"][-1]
            h["exp"] = [] if h["exp"] else [["A", "le1"]]
        info = dict(label=label, histories=len(hists), nontrivial=sum(1 for h in hists if fam.history_nontrivial(h)),
                    sample=hists[len(hists) // 3])
        hl = [hists]
        del hists
        info["calls"], info["stats"] = fam.replay_histories(ctx, vh, meta, hl.pop(), label, stride_default=stride)
        return info

    def record():
        # ---- 3. code -> model (needs only the alphabet: META of the generator with the three tag names)
        if not meta_event.wait(3000) or not meta_ready:
            raise MachineryError("no META from Gen_TypeCache_tags")
        return fam.record_and_validate(ctx, vh, meta_ready[0], plan, groups)

    import threading
    meta_ready, meta_event = [], threading.Event()
    with ThreadPoolExecutor(max_workers=12) as ex:
        f_gens = [ex.submit(gen_and_replay, *g) for g in gens]
        f_rec = ex.submit(record)
        # ---- 1. design check
        f_mc = ex.submit(fam.model_check, ctx)
        f_san = ex.submit(fam.sanity_models, ctx)
        f_reach = ex.submit(fam.reachability, ctx) if not quick else None     # spec-internal: thorough tier only
        try:
            gres = [f.result() for f in f_gens]
        finally:
            meta_event.set()
        rstats, traces, nevents, tsample, drift = f_rec.result()
        mc, sanity, reach = f_mc.result(), f_san.result(), (f_reach.result() if f_reach else "thorough tier only")

    total_hist = sum(g["histories"] for g in gres)
    total_calls = sum(g["calls"] for g in gres)
    nontrivial = sum(g["nontrivial"] for g in gres)
    hsample = gres[0]["sample"]
    pstats = {}
    for g in gres:
        st = g["stats"]
        pstats[g["label"]] = dict(histories=g["histories"], calls_executed=g["calls"],
                                  hits=sum(s["hits"] for s in st.values()),
                                  hits_type_seen_under_other_tag=sum(s["hit_type_seen_under_other_tag"] for s in st.values()),
                                  hits_after_override_call=sum(s["hit_after_override_call"] for s in st.values()),
                                  hits_after_eviction=sum(s["hit_after_eviction"] for s in st.values()),
                                  evictions=sum(s["evictions"] for s in st.values()))

    # ---- non-vacuity of the code side (only meaningful while the code follows mechanism B)
    agg = {k: sum(rstats[c][k] for c in fam.WRAPPED) for k in rstats["lru2"]}
    if not drift and not ctx.violations:
        need = dict(hits=1, evictions=1, reanalysed_after_eviction=1, hit_after_eviction=1,
                    hit_type_seen_under_other_tag=1, hit_after_override_call=1)
        for k, v in need.items():
            if agg[k] < v:
                raise MachineryError("vacuous recording: %s = %d over all wrapped cache configurations" % (k, agg[k]))
        if rstats["lrudef"]["evictions"] == 0 or rstats["lrudef"]["distinct_types"] < 600:
            raise MachineryError("vacuous: the default-capacity LRU never overflowed (%s)" % json.dumps(rstats["lrudef"]))
    if fam.duplicates():
        ctx.note("%d further failing calls fall into the scenario classes already reported" % fam.duplicates())
    trace_calls = sum(rstats[c]["calls"] for c in fam.CONFIGS)

    cov = dict(
        traces_validated_against_impl=traces,
        trace_events=nevents,
        trace_calls=trace_calls,
        histories_generated=total_hist,
        history_calls_executed=total_calls,
        cache_configurations=fam.CONFIGS,
        evaluations=total_calls + trace_calls,
        distinct_nontrivial=nontrivial,
        rule="evaluations = validation calls executed against the real library whose result was compared with TLC's "
             "(replayed histories x 9 cache configurations + recorded calls); distinct_nontrivial = distinct TLC-generated "
             "histories in which a type is validated again under another tag or a key is validated again after an "
             "override call (the cache content can matter)",
        exhaustive=True,
        replay=pstats,
        recording=dict(served_from_cache=agg["hits"], evictions=agg["evictions"],
                       reanalysed_after_eviction=agg["reanalysed_after_eviction"],
                       hits_after_eviction_and_reanalysis=agg["hit_after_eviction"],
                       hits_type_seen_under_other_tag=agg["hit_type_seen_under_other_tag"],
                       hits_after_override_call=agg["hit_after_override_call"],
                       default_capacity_lru=dict(distinct_types=rstats["lrudef"]["distinct_types"],
                                                 evictions=rstats["lrudef"]["evictions"],
                                                 hits_after_eviction=rstats["lrudef"]["hit_after_eviction"]),
                       default_cache_process=dict(distinct_types=rstats["default"]["distinct_types"],
                                                  calls=rstats["default"]["calls"])),
        mc_distinct_states=mc.distinct,
        sanity_models_refuted=sanity,
        reachability_companions_violated=reach,
        samples=[hsample, tsample],
    )
    return ctx.finish("model_checking", cov, ASSUMPTIONS)


def os_corrupt():
    import os
    return os.environ.get("VERIF_C08_CORRUPT", "")
