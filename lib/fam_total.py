"""Family `total` (C13 - validation is total): shared code.

Pipeline (DESIGN.md section 3, C13 entry of section 6):
  1. mc       Total.tla: (a) guard structure of the four entry points over the shape catalogue (NoFault, bounded
              termination, B refines A), (b) index arithmetic of the rule-argument scanners over every argument string
              (AccessOK). The same machines with the guards left out must violate the invariants (non-vacuity; in the
              thorough tier once per necessary guard - each is a model-level prediction of one pinned-tree defect).
  2. gen      Gen_Total.tla prints the factors of the scenario catalogue (@@CONST) and the mechanism's predicted
              outcome per (entry point, shape, rule class) (@@RET).
  3. run      the Go harness concretises every shape scenario with reflect (run-time synthesised types), enumerates
              rule name x form x every argument string x value kinds x entry points, and draws seeded random
              values x random rule bytes; every real call runs under recover(); events call/return/panic/batch.
  4. validate Trace_Total.tla must consume every slice of every recording; it has no action for a panic event.
  5. classify rejected slices that contain a panic are candidate violations (grouped by panic site); any other
              rejection is a machinery error. Real outcomes outside the mechanism's prediction are DRIFT notes.
"""
import itertools
import json
import os
import re
from concurrent.futures import ThreadPoolExecutor

from . import common
from .common import MachineryError

PID = "C13"
ALL_GUARDS = None  # read from @@CONST


# ------------------------------------------------------------------------------------------------ model checking
def _guards_cfg(ctx, base, name, guards):
    d = ctx.spec_dir()
    txt = open(os.path.join(d, base + ".cfg")).read()
    txt = re.sub(r"Guards = \{[^}]*\}", "Guards = {" + ", ".join('"%s"' % g for g in sorted(guards)) + "}", txt)
    open(os.path.join(d, name + ".cfg"), "w").write(txt)
    return name


def model_check(ctx, consts):
    """B => A on the bounded models + non-vacuity of the invariants. Returns dict of run facts."""
    quick = ctx.quick()
    shapes_cfg = "MC_Total_shapes" if quick else "MC_Total_shapes4"
    scan_cfg = "MC_Total_scan" if quick else "MC_Total_scan4"
    jobs = [("ok", shapes_cfg, None), ("ok", scan_cfg, None),
            ("bad", "MC_Total_shapes_pinned", "NoFault"), ("bad", "MC_Total_scan_pinned", "AccessOK")]
    if not quick:
        allg = set(consts["guards"])
        for g in sorted(consts["necessary"]):
            base = "MC_Total_scan" if g in ("in.order", "datetime.count", "re.tail") else "MC_Total_shapes"
            inv = "AccessOK" if base == "MC_Total_scan" else "NoFault"
            jobs.append(("bad", _guards_cfg(ctx, base, "%s_without_%s" % (base, g.replace(".", "_")), allg - {g}), inv))
        # the two remaining guards only improve the error: without them the model must still be fault-free
        for g in sorted(allg - set(consts["necessary"])):
            jobs.append(("ok", _guards_cfg(ctx, "MC_Total_shapes", "MC_Total_shapes_without_%s" % g.replace(".", "_"), allg - {g}), None))

    def one(job):
        kind, cfg, inv = job
        res = ctx.tlc("Total", cfg, workers=2, expect_ok=(kind == "ok"), coverage=(kind == "ok" and not quick),
                      timeout=1500, count=(kind == "ok"))
        if kind == "bad":
            if res.ok or not res.invariant_violated or inv not in (res.invariant_violated or "") + res.raw:
                raise MachineryError("vacuous: %s did not violate %s although the guards are left out:\n%s" % (
                    cfg, inv, res.raw[-1500:]))
            if inv == "NoFault":
                w = [x for x in re.findall(r'/\\ fault = "([^"]+)"', res.raw) if x != "none"]
                sh = re.findall(r"/\\ shape = (<<[^\n]*>>)", res.raw)
                wit = (w[-1] if w else "?") + " on shape " + (sh[-1] if sh else "?")
            else:
                t = re.findall(r"/\\ text = (<<[^\n]*>>)", res.raw)
                sc = re.findall(r'/\\ sc = "([^"]+)"', res.raw)
                wit = (sc[-1] if sc else "?") + " on text " + (t[-1] if t else "?")
            return (cfg, inv, wit)
        # MapInvalid is reachable only when the guard map.nil is left out (exercised by the without_map_nil run)
        zero = [z for z in res.coverage_zero if not (z.startswith("<MapInvalid ") and "without_map_nil" not in cfg)]
        if zero:
            raise MachineryError("vacuous: actions never taken in %s: %s" % (cfg, zero[:6]))
        return (cfg, None, res.distinct)

    with ThreadPoolExecutor(max_workers=4) as ex:
        out = list(ex.map(one, jobs))
    return dict(mc=[dict(cfg=c, states=s) for c, i, s in out if i is None],
                predictions=[dict(cfg=c, violated=i, witness=s) for c, i, s in out if i is not None])


def generate(ctx):
    gen = ctx.tlc("Gen_Total", "Gen_Total" if ctx.quick() else "Gen_Total4", workers=1, timeout=1500)
    cs = gen.vecs.get("CONST", [])
    if len(cs) != 1:
        raise MachineryError("Gen_Total printed %d @@CONST records" % len(cs))
    rets = gen.vecs.get("RET", [])
    if len(rets) < 1000:
        raise MachineryError("Gen_Total printed only %d @@RET records" % len(rets))
    pred = {}
    for r in rets:
        pred.setdefault((r["ep"], tuple(r["shape"]), r["rc"]), set()).add(r["out"])
    return cs[0], pred


# ------------------------------------------------------------------------------------------------ scanner binding
def scan_expected(v):
    """Concretise the scanner model's extraction into the text the real rule function must then produce (value "zz")."""
    j = "".join
    msg = j(v["msg"])
    tail = lambda default: 'input "zz", explain: ' + (msg if msg else default) + "; "
    sc, res = v["sc"], v["res"]
    if sc == "Parse":
        k, val, m = (j(x) for x in v["parts"])
        return dict(key=k, value=val, msg=("explain: " + m) if m else "")
    if sc == "ToBounds":
        return dict(prefix={"err": 'valid "to" is not ok', "atoi": "strconv.Atoi", "ok": ""}[res])
    if res != "ok":
        return dict(prefix='valid "%s" is not ok' % {"InBrackets": "in", "ReExtract": "re", "DatetimeSeps": "datetime"}[sc])
    if sc == "InBrackets":
        return dict(buf=[tail("it should in (" + j(v["out"]) + ")")])
    if sc == "ReExtract":
        return dict(buf=["", tail("regex match is failed, pattern: " + j(v["out"]))])     # "" = the pattern matched "zz"
    s0, s1, s2 = (j(x) for x in v["parts"])
    return dict(buf=[tail("it is not datetime, eg: 1996%s09%s28%s23%s00%s00" % (s0, s0, s1, s2, s2))])


def scan_binding(ctx, vh):
    """Scanner model vs. code: TLC prints what each scanner model extracts from every rule text of length <= 3;
    the exported rule functions are called directly and must print exactly that. Differences are DRIFT notes."""
    gen = ctx.tlc("Gen_Total", "Gen_Total_scan", workers=1, timeout=1500)
    vecs = gen.vecs.get("SCAN", [])
    if len(vecs) < 1000:
        raise MachineryError("Gen_Total_scan printed only %d @@SCAN records" % len(vecs))
    ip, op = ctx.path("scan-in.ndjson"), ctx.path("scan-out.ndjson")
    common.write_ndjson(ip, [dict(sc=v["sc"], text=v["text"]) for v in vecs])
    ctx.run_vh(vh, ["total-scan"], stdin_path=ip, stdout_path=op)
    got = common.read_ndjson(op)
    if len(got) != len(vecs):
        raise MachineryError("total-scan answered %d of %d vectors" % (len(got), len(vecs)))
    agree, drift, panics, extracted = 0, 0, 0, 0
    for v, g in zip(vecs, got):
        exp = scan_expected(v)
        if "panic" in g:
            panics += 1
            ok = False
        elif "key" in exp:
            ok = (g["key"], g["value"], g["msg"]) == (exp["key"], exp["value"], exp["msg"])
        elif "prefix" in exp:
            ok = g["buf"].startswith(exp["prefix"]) and (exp["prefix"] != "" or g["buf"] == "" or g["buf"].startswith('input "zz", '))
        else:
            ok = g["buf"] in exp["buf"]
            extracted += 1 if (ok and g["buf"]) else 0
        if ok:
            agree += 1
        else:
            drift += 1
            if drift <= 5:
                ctx.note("DRIFT scanner model %s on %r predicts %s, real code: %s" % (
                    v["sc"], g["validName"], json.dumps(exp)[:200], json.dumps({k: g[k] for k in g if k not in ("sc", "text", "validName")})[:200]))
    if drift:
        ctx.note("DRIFT total: %d of %d scanner extractions differ from the model (%d direct calls panicked; no verdict - "
                 "the exported rule functions are not among the four entry points)" % (drift, len(vecs), panics))
    return dict(scan_vectors=len(vecs), scan_agree=agree, scan_drift=drift, scan_direct_panics=panics, scan_extractions_shown=extracted)


# ------------------------------------------------------------------------------------------------ catalogue
def shape_catalogue(consts, quick):
    """The product the spec's InCatalogue describes, enumerated from the printed factors: list of (shape, rules)."""
    W, L = sorted(consts["wrappers"]), sorted(consts["leaves"])
    rules = sorted(consts["shaperules"].keys())
    reps = sorted(consts["classreps"])
    deep = sorted(consts["deepwrappers"])
    out = []
    for n in range(0, 3 if quick else 4):
        for ws in itertools.product(W, repeat=n):
            for leaf in L:
                out.append((list(ws) + [leaf], rules))
    if quick:
        for ws in itertools.product(deep, repeat=3):
            for leaf in L:
                out.append((list(ws) + [leaf], reps))
    return out


def write_shape_calls(ctx, consts, path):
    cat = shape_catalogue(consts, ctx.quick())
    n = 0
    with open(path, "w") as f:
        for ep in sorted(consts["eps"]):
            for shape, rules in cat:
                f.write(json.dumps(dict(src="shapes", ep=ep, shape=shape, rules=rules), separators=(",", ":")) + "\n")
                n += len(rules)
    return n


# ------------------------------------------------------------------------------------------------ traces
def split_trace(path, parts, prefix):
    """Split an ndjson recording into <= parts files at reset lines. Returns list of (file, lines)."""
    lines = open(path).read().splitlines()
    if not lines:
        raise MachineryError("empty recording %s" % path)
    starts = [i for i, ln in enumerate(lines) if ln.startswith('{"e":"reset"')]
    if not starts or starts[0] != 0:
        raise MachineryError("recording %s does not start with a reset line" % path)
    per = max(1, (len(lines) + parts - 1) // parts)
    files, cur, begin = [], [], 0
    bounds = starts[1:] + [len(lines)]
    for b in bounds:
        if b - begin >= per or b == len(lines):
            chunk = lines[begin:b]
            if chunk:
                fn = "%s.%d.ndjson" % (prefix, len(files))
                with open(fn, "w") as fo:
                    fo.write("\n".join(chunk) + "\n")
                files.append((fn, chunk))
            begin = b
    return files


def slices_of(lines):
    """[(slice_id, [events])] of one trace file."""
    out = []
    for ln in lines:
        e = json.loads(ln)
        if e["e"] == "reset":
            out.append((e["id"], []))
        else:
            out[-1][1].append(e)
    return out


def validate(ctx, files, workers=4):
    """Run Trace_Total over each file. Returns list of (file, lines, accepted_ids:set, res)."""
    def one(item):
        fn, lines = item
        tag = "Trace_Total-" + os.path.basename(fn).replace(".", "_")
        res = ctx.tlc("Trace_Total", "Trace_Total", workers=1, env={"TRACE": fn}, tag=tag, expect_ok=False, timeout=3000)
        acc = set(a["slice"] for a in res.vecs.get("ACCEPT", []))
        rej = res.vecs.get("REJECT")
        nslices = sum(1 for ln in lines if ln.startswith('{"e":"reset"'))
        if res.ok and not rej:
            if len(res.vecs.get("ACCEPT", [])) != nslices:
                raise MachineryError("Trace_Total accepted %s but printed %d @@ACCEPT for %d slices" % (fn, len(acc), nslices))
            return (fn, lines, acc, res)
        if rej:
            return (fn, lines, acc, res)
        raise MachineryError("trace validation of %s failed without a verdict:\n%s" % (fn, res.raw[-3000:]))
    with ThreadPoolExecutor(max_workers=workers) as ex:
        return list(ex.map(one, files))


def panic_class(msg):
    m = re.sub(r"`[^`]*`", "`P`", msg or "")
    m = re.sub(r"[0-9]+", "N", m)
    m = re.sub(r"( type | on |interface conversion: ).*$", r"\1T", m)
    return m


def classify(ctx, results, src_rank):
    """Turn rejected slices into candidates (one per panic site x message class)."""
    groups = {}
    for fn, lines, acc, res in results:
        for sid, evs in slices_of(lines):
            if sid in acc:
                continue
            pan = [e for e in evs if e["e"] == "panic"]
            bat = [e for e in evs if e["e"] == "batch" and e.get("panics", 0) > 0]
            if not pan and not bat:
                raise MachineryError("Trace_Total rejected slice %s of %s for a reason other than a panic: %s" % (
                    sid, os.path.basename(fn), json.dumps(evs[:4])[:800]))
            call = next((e for e in evs if e["e"] == "call"), None)
            if pan and call:
                key = (pan[0].get("site", "?"), panic_class(pan[0].get("msg")))
                g = groups.setdefault(key, dict(calls=[], eps=set(), srcs=set(), batches=0, batch_panics=0))
                g["calls"].append((call, pan[0], evs))
                g["eps"].add(call["ep"])
                g["srcs"].add(call["src"])
            for b in bat:
                g = groups.setdefault(("batch", b["src"]), dict(calls=[], eps=set(), srcs=set(), batches=0, batch_panics=0, first=b))
                g["batches"] += 1
                g["batch_panics"] += b["panics"]
                g["eps"].add(b["ep"])
    bsum = {k: g for k, g in groups.items() if k[0] == "batch"}
    n = 0
    for key, g in sorted(groups.items()):
        if key[0] == "batch":
            continue
        g["calls"].sort(key=lambda c: (src_rank.get(c[0]["src"], 9), len(json.dumps(c[0]))))
        call, pan, evs = g["calls"][0]
        sig = dict(src=call["src"], ep=call["ep"], site=key[0], panic=key[1],
                   rule=call.get("name", call.get("rule", "")), shape=" ".join(call.get("shape", [])))
        desc = "%s panicked in %s: %s | scenario %s | entry points hit: %s; sources: %s; %d logged examples" % (
            call["ep"], key[0], pan.get("msg", "")[:160], describe_call(call), sorted(g["eps"]), sorted(g["srcs"]), len(g["calls"]))
        if ctx.candidate(sig, desc, dict(kind="call", call=strip_call(call), events=evs)):
            n += 1
    if bsum and not [k for k in groups if k[0] != "batch"]:
        # panics counted in a batch but no individually logged example: report the batch itself
        for key, g in bsum.items():
            b = g["first"]
            ctx.candidate(dict(src=b["src"], ep=b["ep"], site="batch", panic="", rule=b.get("name", ""), shape=""),
                          "batch with %d panics and no logged example: %s" % (g["batch_panics"], json.dumps(b)),
                          dict(kind="batch", batch=b))
    return dict(groups=len([k for k in groups if k[0] != "batch"]),
                batch_panics=sum(g["batch_panics"] for g in bsum.values()))


def strip_call(call):
    c = {k: v for k, v in call.items() if k not in ("e", "id", "text", "desc")}
    return c


def describe_call(call):
    if call["src"] == "shapes":
        return "%s(value of shape %s, rule %r)" % (call["ep"], "->".join(call["shape"]), call["rule"])
    if call["src"] == "rules":
        return "%s(%s value, rule text %r)" % (call["ep"], call["val"], call.get("text", ""))
    return call.get("desc", "random call seed=%s idx=%s" % (call.get("seed"), call.get("idx")))[:400]


# ------------------------------------------------------------------------------------------------ replay
def replay(ctx, vh):
    r = json.load(open(ctx.replay))["replay"]
    if r.get("kind") != "call":
        raise MachineryError("replay file of kind %r cannot be re-run (only single calls)" % r.get("kind"))
    ip = ctx.path("replay-in.ndjson")
    common.write_ndjson(ip, [r["call"]])
    op = ctx.path("replay-trace.ndjson")
    ctx.run_vh(vh, ["total-calls"], stdin_path=ip, stdout_path=op)
    lines = open(op).read().splitlines()
    results = validate(ctx, [(op, lines)], workers=1)
    info = classify(ctx, results, {"shapes": 0, "rules": 1, "random": 2})
    evs = [json.loads(x) for x in lines]
    ctx.log("replayed: " + json.dumps([e for e in evs if e["e"] != "reset"])[:600])
    return ctx.finish("exploration", dict(evaluations=1, distinct_nontrivial=2 if info["groups"] else 0, replay=True,
                                          rule="re-run of one recorded call", samples=[r["call"]]))


# ------------------------------------------------------------------------------------------------ self test
def selftest(ctx, vh):
    """Binding demonstration (DESIGN.md 8): a small real recording is accepted; each corruption of one logged field /
    one dropped event must make Trace_Total reject exactly the touched slice. Exit 0 iff all corruptions are rejected."""
    consts, _ = generate(ctx)
    ip = ctx.path("st-in.ndjson")
    with open(ip, "w") as f:
        for ep in sorted(consts["eps"]):
            for shape in (["nilptr", "struct"], ["slice", "nilptr", "struct"], ["mapS", "int"], ["string"]):
                f.write(json.dumps(dict(src="shapes", ep=ep, shape=shape, rules=["required", "eq=1", ""])) + "\n")
    op = ctx.path("st-shapes.ndjson")
    ctx.run_vh(vh, ["total-calls", "-slice", "6"], stdin_path=ip, stdout_path=op)
    cpath = ctx.path("st-consts.json")
    json.dump(dict(alphabet=consts["alphabet"], names=["in", "datetime"], forms=["eq"], vals=["str"], eps=["Var", "Url"],
                   directed=consts["directed"], maxlen=consts["batchmaxlen"][ctx.tier]), open(cpath, "w"))
    rp = ctx.path("st-rules.ndjson")
    ctx.run_vh(vh, ["total-rules", "-consts", cpath, "-sample", "50"], stdout_path=rp)
    base = open(op).read().splitlines() + [ln.replace('{"e":"reset","id":', '{"e":"reset","id":1000') for ln in open(rp).read().splitlines()]

    def idx(pred, nth=0):
        hits = [i for i, ln in enumerate(base) if pred(json.loads(ln))]
        if len(hits) <= nth:
            raise MachineryError("selftest: no line to corrupt")
        return hits[nth]

    def mod(i, fn):
        out = list(base)
        e = json.loads(out[i])
        r = fn(e)
        if r is None:
            del out[i]
        else:
            out[i] = json.dumps(r, separators=(",", ":"))
        return out

    def setf(**kw):
        def f(e):
            e.update(kw)
            return e
        return f
    ret = lambda e: e["e"] == "return"
    cases = [
        ("unchanged recording", list(base), False),
        ("a return rewritten as a panic event", mod(idx(ret, 3), setf(e="panic")), True),
        ("outcome outside {nil,error}", mod(idx(ret, 5), setf(out="ok")), True),
        ("a return event dropped", mod(idx(ret, 7), lambda e: None), True),
        ("a return answering another call (id)", mod(idx(ret, 9), lambda e: dict(e, id=e["id"] + 1)), True),
        ("a call outside the catalogue (unknown shape token)", mod(idx(lambda e: e["e"] == "call" and e["src"] == "shapes", 4),
                                                                  lambda e: dict(e, shape=["weird"] + e["shape"])), True),
        ("a call of an unknown entry point", mod(idx(lambda e: e["e"] == "call", 2), setf(ep="Json")), True),
        ("batch: one call neither returned nil nor error", mod(idx(lambda e: e["e"] == "batch"), lambda e: dict(e, nil=e["nil"] - 1)), True),
        ("batch: one panic counted", mod(idx(lambda e: e["e"] == "batch"), lambda e: dict(e, err=e["err"] - 1, panics=1)), True),
        ("batch: argument space not covered", mod(idx(lambda e: e["e"] == "batch", 1), lambda e: dict(e, calls=e["calls"] - 1, err=e["err"] - 1)), True),
    ]
    files = []
    for n, (name, lines, _) in enumerate(cases):
        fn = ctx.path("st-case%d.ndjson" % n)
        open(fn, "w").write("\n".join(lines) + "\n")
        files.append((fn, lines))
    results = validate(ctx, files, workers=4)
    bad = 0
    for (name, lines, expect_reject), (fn, _, acc, res) in zip(cases, results):
        nsl = sum(1 for ln in lines if ln.startswith('{"e":"reset"'))
        rejected = nsl - len(acc)
        ok = (rejected == 1) if expect_reject else (rejected == 0)
        bad += 0 if ok else 1
        print("SELFTEST %-62s slices=%d rejected=%d  %s" % (name, nsl, rejected, "ok" if ok else "UNEXPECTED"), flush=True)
    return 0 if bad == 0 else 2
