"""C12 - a call's result depends only on its own arguments and stays fixed afterwards.

1. MC_Pools: TLC checks B => A on the pool/buffer/cache mechanism (all interleavings of 2 concurrent + 1 later call):
   no call observes another call's rule map / function table / buffer content, Result(c) = Own(c), handedOut frozen;
   each mechanism flag flipped must break an invariant (non-vacuity).
2. Gen_Pools: TLC emits call histories over the 12-descriptor menu (every sequence up to a bound, every permutation of
   selected 4-subsets, simulated longer ones) with Expected per call.
3. vh pools-replay runs them in ONE goroutine WITHOUT the race detector (so sync.Pool really recycles), logs call/ret
   events, keeps everything handed out (error value, strings given to per-call functions, split/parse results) next to
   detached copies and re-reads it after >= `round` later calls (recheck events); inputs and rule maps are compared with
   deep copies.
4. Trace_Pools: TLC accepts each trace or names the first event the contract forbids.
"""
import json
import os

from . import common, fam_pools as fp
from .common import MachineryError

ASSUMPTIONS = [
    "provisional patch patches/C08-provisional-cachekey.patch (type cache key includes the tag, defect D7 owned by C08) is needed for "
    "same-type-different-tag sequences; on a tree without it those sequences are reported under the signature what=differs/missing car=struct",
    "call menu: flat and nested struct types (named and reflect.StructOf), int/string fields, pointer and slice of struct; rules "
    "required, exist, ge, le, re (quoted, containing the list separator), custom messages, per-call and global functions; no either/botheq "
    "(D13), no bool, no map[string]interface{}, no nil elements, every key of a Map/Url rule map present in the input",
    "no call passes both a typed rule set for the root type and an unscoped rule set (which wins is C16's subject); required/exist on a "
    "non-empty pointer or slice of struct descends into it (DESIGN Appendix D)",
    "a per-call function is a token owned by one call: its clause carries the owner, the abstraction maps it to own/foreign",
    "Map clauses are compared as a bag (Go map iteration order is unspecified)",
    "literal default wording is used only to recognise the marker class (table Markers in Pools.tla); echo and bound are compared",
    "split/parse expectations are limited to well-formed rule lists built by the spec (messages of >= 3 ASCII characters without '=')",
    "the mechanism model is checked for 3 calls over 4 descriptors; real runs bind only layer A (results, handed-out values)",
    "recycling is observed through the address of the validator returned by NewVStruct/NewVVar (builder API variants only)",
]


def shard(hists, n):
    out = [[] for _ in range(n)]
    for i, h in enumerate(hists):
        out[i % n].append(h)
    return [s for s in out if s]


def run(ctx):
    quick = ctx.quick()
    menu, menu_path = fp.gen_menu(ctx)
    vh = fp.build(ctx, menu, race=False)
    if ctx.replay:
        return replay(ctx, vh, menu, menu_path)

    mc, negs = fp.model_check(ctx, quick)

    hists = []
    if quick:
        hists += fp.gen_histories(ctx, "seq", 3, menun=17)      # every sequence of <= 3 calls over m01..m17
        hists += fp.gen_histories(ctx, "seq", 2)                # every sequence of <= 2 calls over the whole menu
        hists += fp.gen_histories(ctx, "perm", 4, selmod=12, menun=17)
        rnd, nshards = 1500, 4
    else:
        hists += fp.gen_histories(ctx, "seq", 4, menun=17)
        hists += fp.gen_histories(ctx, "seq", 3)
        # -simulate checks all 12 successors of every step: each simulated trace yields 12 histories of 10 calls
        # (a common 9-call prefix, every last call), so 850 traces give ~10^4 histories
        hists += fp.gen_histories(ctx, "sim", 10, simulate=850)
        rnd, nshards = 2500, 8
    # the model's expectation travels with every history; the harness needs only the ids
    for h in hists:
        if len(h["calls"]) != len(h["exp"]) or any(menu["descs"][c - 1]["exp"] != e for c, e in zip(h["calls"], h["exp"])):   # (epoch 0 table)
            raise MachineryError("history expectation and descriptor table disagree")
    import random
    random.Random(ctx.seed).shuffle(hists)
    shards = shard(hists, nshards)
    traces, sums = [], []
    for i, sh in enumerate(shards):
        hp, tp, sp = ctx.path("hist%d.ndjson" % i), ctx.path("pooltrace%d.ndjson" % i), ctx.path("sum%d.json" % i)
        common.write_ndjson(hp, [dict(calls=h["calls"]) for h in sh])
        ctx.run_vh(vh, ["pools-replay", "-menu", menu_path, "-hist", hp, "-out", tp, "-sum", sp, "-round", str(rnd)],
                   extra_env={"VERIF_SEED": ctx.seed * 100 + i})
        traces.append(tp)
        sums.append(json.load(open(sp)))
    results = fp.validate_many(ctx, menu, traces, "Trace_Pools-c12-", workers=4)
    calls = rechecks = nonempty = witness = 0
    sample = None
    for i, (events, n_calls, n_re, rejected) in enumerate(results):
        calls += n_calls
        rechecks += n_re
        a, b, _ = fp.nontrivial(menu, events)
        nonempty += a
        witness += b
        for e in events:
            if e["e"] == "panic":
                ctx.candidate(dict(src="trace", event="panic", car=menu["descs"][e["d"] - 1]["d"]["car"], what="panic"),
                              "call %s (%s) panicked: %s" % (e["c"], e["key"], e["note"][:300]), dict(kind="hist", histories=[[e["d"]]], shard=i))
        if sample is None:
            sample = [e for e in events if e["e"] in ("call", "ret", "recheck")][:4]
        for bad, of_call, line in rejected:
            sig, desc = fp.classify(menu, bad, of_call, events)
            ctx.candidate(sig, desc, dict(kind="hist", histories=context_histories(shards[i], events, bad), failing=bad, seed=ctx.seed * 100 + i))
    demo_line = fp.corrupt_demo(ctx, menu, traces[0], "Trace_Pools-c12") if not ctx.violations else None
    recycled = sum(s["recycled_validators"] for s in sums)
    exposed = sum(s["validators_exposed"] for s in sums)
    if exposed and recycled < exposed // 2:
        ctx.note("few recycled validators: %d of %d" % (recycled, exposed))
    # distinct non-trivial histories: at least two calls (there is a predecessor) and at least one call whose expectation
    # contains a witness clause
    distinct_nt = len({tuple(h["calls"]) for h in hists if len(h["calls"]) >= 2 and any(fp.is_witness(menu, c) for c in h["calls"])})
    cov = dict(
        traces_validated_against_impl=len(hists),
        histories=len(hists), calls_validated=calls, rechecks_validated=rechecks,
        evaluations=calls + rechecks,
        distinct_nontrivial=distinct_nt,
        calls_with_witness_expectation=witness,
        calls_with_nonempty_expectation=nonempty,
        rule="histories: every sequence of <=%d calls over the 12-descriptor menu%s; non-trivial = distinct history of >= 2 calls in which some call's "
             "expectation contains a per-call-function token or a not-exist clause (a leaked or missing function table / rule map changes it)" % (
                 3 if quick else 4, " + every permutation of the selected 4-subsets" if quick else " + ~10^4 simulated histories of 10 calls"),
        validators_recycled=recycled, validators_observed=exposed,
        recheck_distance_calls=rnd,
        mc_distinct_states=mc.distinct, mc_negative_controls=negs,
        corrupted_line_rejected=demo_line,
        descriptors=len(menu["descs"]),
        exhaustive=True,
        samples=[hists[0], sample],
    )
    return ctx.finish("model_checking", cov, ASSUMPTIONS)


def context_histories(shard_hists, events, bad):
    """the failing history with its predecessors (the pooled objects it met were left by them)"""
    rets = [e["c"] for e in events if e["e"] == "ret" or e["e"] == "panic"]
    # call ids are 1.. in history order within a shard
    pos, acc = None, 0
    for i, h in enumerate(shard_hists):
        if acc < bad["c"] <= acc + len(h["calls"]):
            pos = i
            break
        acc += len(h["calls"])
    if pos is None:   # a call of the unkept tail
        return [h["calls"] for h in shard_hists[:6]]
    return [h["calls"] for h in shard_hists[max(0, pos - 6):pos + 1]]


def replay(ctx, vh, menu, menu_path):
    r = json.load(open(ctx.replay))["replay"]
    hp, tp = ctx.path("replay-hist.ndjson"), ctx.path("replay-trace.ndjson")
    common.write_ndjson(hp, [dict(calls=c) for c in r["histories"]])
    ctx.run_vh(vh, ["pools-replay", "-menu", menu_path, "-hist", hp, "-out", tp, "-round", "50"],
               extra_env={"VERIF_SEED": r.get("seed", ctx.seed)})
    events, n_calls, n_re, rejected = fp.validate(ctx, menu, tp, "Trace_Pools-replay")
    for e in events:
        if e["e"] == "panic":
            ctx.candidate(dict(src="trace", event="panic", what="panic"), "replayed call panicked: " + e["note"][:300], r)
    for bad, of_call, line in rejected:
        sig, desc = fp.classify(menu, bad, of_call, events)
        ctx.candidate(sig, "replay: " + desc, r)
    return ctx.finish("model_checking", dict(evaluations=n_calls + n_re, distinct_nontrivial=0, samples=[r], replay=True,
                                             traces_validated_against_impl=len(r["histories"])))
