"""C04 - nested validation reaches exactly the marked sub-objects and names them by path.

1. MC: the mechanism (frame stack: Descend / NextElem / NextEntry / LeaveObject with the path prefix) refines the contract's
   reach set on (a) the complete window: one child field of every container kind {T, *T, **T, []T, []*T, [2]T, [2]*T, map[string]T,
   map[string]*T} x marker {none, required, exist, other rule, mixed (empty item + exist + unknown rule)} x flavour {plain, unexported, embedded} x every child state
   (nil, zero, populated with a violated / a satisfied probe, nil elements), and every top-level input kind; (b) sampled chains of
   3 struct types with up to 2 child fields each.
2. model -> code: every scenario becomes a Go program of named types (unexported and embedded fields, arrays, time.Time) and, where
   possible, reflect.StructOf types; each struct has an always-violated probe rule, so "reached" is a clause with the expected
   path and "not reached" its absence; results compared with Expected (maps: any entry order).
3. code -> model: the same scenarios plus seeded random ones (with nil elements) are recorded with probe functions (a satisfied probe
   in every struct gives an event for every reached object even when nothing is violated) and validated by TLC.
"""
import json

from . import common
from . import fam_walker as fw
from .common import MachineryError
from .fam_walker import q

ASSUMPTIONS = [
    "the root label of a top-level slice/array/map is an opaque prefix: everything before the first '[' of a path is not compared",
    "a nil root pointer (nil *T, **T with nil inner) must produce a result (any error or nil), not a panic; its content is not fixed by the property",
    "nil elements of a collection and nil inner pointers contribute no clause under required as well as under exist (the statement fixes exist only)",
    "scenarios on which the readings of 'zero sub-objects are skipped' differ are not generated: a zero struct reached through a pointer or as a collection element whose fields would yield clauses; the roots themselves (incl. elements of a top-level collection) are always validated",
    "collections hold structs or pointers to structs; map keys are strings; arrays have length 2",
    "rules on struct/collection fields other than required/exist are limited to a satisfied probe ('other'), which must not cause descent",
    "embedded fields are exported struct types embedded by value or pointer; generated Go type names carry a prefix that is dropped from paths (injective renaming)",
    "reflect.StructOf carriers cannot express unexported/embedded fields or give a top-level slice a label without quotes: those scenarios run on generated named types only",
    "inverted intervals (to=5~1) are not generated here (C02)",
    "clause classes, not wording (see C02)",
]


def depth_of(path):
    return path.count(".")


def run(ctx):
    vh = ctx.build_vh()
    if ctx.replay:
        return fw.replay_saved(ctx, vh)
    quick = ctx.quick()
    ctx.spec_dir()      # the scratch copy of spec/ is made before any TLC run is started from a thread
    ns = 800 if quick else 12000
    ng = 600 if quick else 6000

    # 1. design check
    mc1 = fw.mc(ctx, "mc_nest", dict(Mode=q("nest")), workers=4, coverage=not quick, unreachable=("GroupMember",))   # groups: C17
    mc2 = fw.mc(ctx, "mc_rand", dict(Mode=q("rand"), NSample=ns, Depth=3, Width=2), workers=4)
    mc3 = fw.mc(ctx, "mc_rec", dict(Mode=q("rec")), workers=4)      # recursive types (T1 -> T2 -> T1, T1 -> T1), finite chains

    # 2. model -> code
    jobs = [("gen_nest", dict(Mode=q("nest"))), ("gen_rand", dict(Mode=q("rand"), NSample=ns, Depth=3, Width=2))]
    jobs.append(("gen_rand4", dict(Mode=q("rand"), NSample=150 if quick else 3000, Depth=4, Width=1)))
    jobs.append(("gen_rec", dict(Mode=q("rec"))))
    # the same windows with built-in rules in place of the probe functions: these calls carry no function and no rule set
    jobs.append(("gen_rec_b", dict(Mode=q("rec"), Alpha=q("builtin"))))
    jobs.append(("gen_nest_b", dict(Mode=q("nest"), Alpha=q("builtin"))))
    vecs, markers = fw.gen_many(ctx, jobs, par=3)
    mfile = fw.markers_file(ctx, markers)
    r = ctx.run_vh(vh, ["walker-record", "-dump", "-nils", "-noinv", "-n", str(ng)])
    govecs = [json.loads(line) for line in r.stdout.splitlines() if line.strip()]
    for i, g in enumerate(govecs):
        g["id"] = len(vecs) + i
    gvh, ntypes = fw.build_gen_vh(ctx, vh, vecs + govecs)
    ctx.log("generated program: %d named types for %d scenarios" % (ntypes, len(vecs) + len(govecs)))
    results = fw.replay(ctx, gvh, vecs, mfile, gen=True)
    ngen = sum(1 for x in results if x["carrier"] == "gen")
    if ngen < len(vecs):
        raise MachineryError("replay incomplete: %d generated-type results for %d scenarios" % (ngen, len(vecs)))
    n, nontriv, reasons = fw.compare(ctx, vecs, results, "replay", markers)
    per = {}
    for x in results:
        per[x["carrier"]] = per.get(x["carrier"], 0) + 1
    deep = idx = key = nilin = unreached = 0
    roots = {}
    for v in vecs:
        e = v["exp"]["struct"]
        roots[v["scn"]["rootTy"]["k"]] = roots.get(v["scn"]["rootTy"]["k"], 0) + 1
        paths = [c["path"] for c in e["seqs"][0]] if e["seqs"] else []
        deep += any(depth_of(p) >= 3 for p in paths)
        idx += any("[0]" in p or "[1]" in p or "[2]" in p for p in paths)
        key += any("[k" in p for p in paths)
        nilin += fw.has_nil_inside(v["scn"]["root"])
    ctx.log("replayed %d scenarios, %d real calls %s; expected: %d with a clause, %d at depth>=3, %d with [i], %d with [key]; %d with nil inside; mismatches %s" % (
        len(vecs), n, per, nontriv, deep, idx, key, nilin, reasons))

    # 3. code -> model
    files = fw.record(ctx, gvh, mfile, "c04trace", shards=4, stdin_vecs=vecs, gen=True)
    files += fw.record(ctx, gvh, mfile, "c04gotrace", shards=4, stdin_vecs=govecs, gen=True)
    traces, events, probes, rej, psample = fw.validate(ctx, files, workers=4)
    fw.trace_candidates(ctx, rej, "trace", markers)
    ctx.log("validated %d traces (%d events, %d probe calls), %d rejected" % (traces, events, probes, len(rej)))
    if ctx.cov["traces_recorded"] < 200 or probes < 200:
        raise MachineryError("trace recording too small: %d traces, %d probes" % (traces, probes))

    sv = next((v for v in vecs if v["exp"]["struct"]["seqs"] and any(depth_of(c["path"]) >= 2 and "[" in c["path"] for c in v["exp"]["struct"]["seqs"][0])), vecs[0])
    cov = dict(
        traces_validated_against_impl=traces, traces_recorded=ctx.cov["traces_recorded"], trace_events=events, probe_calls=probes,
        scenarios=len(vecs), go_random_scenarios=len(govecs), named_types_generated=ntypes, real_calls=n, calls_per_carrier=per,
        expected_with_clause=nontriv, expected_depth3=deep, expected_index_path=idx, expected_key_path=key, scenarios_with_nil_inside=nilin,
        root_kinds=roots,
        evaluations=n + events, distinct_nontrivial=nontriv,
        rule="replay: complete window (container kind x marker x flavour x child state, top-level kinds) + TLC-sampled 3-level chains; "
             "non-trivial = distinct (scenario, carrier) pairs for which the contract expects at least one clause (a reached, violated probe or a required container); traces: the same + Go-random scenarios with nil elements",
        exhaustive=True,
        samples=[dict(scenario=fw.brief(sv["scn"]), expected=sv["exp"], real=[x for x in results if x["id"] == sv["id"]][:2]), psample],
        mc_distinct_states=[mc1.distinct, mc2.distinct, mc3.distinct],
    )
    fw.summarise(ctx)
    return ctx.finish("model_checking", cov, ASSUMPTIONS)
