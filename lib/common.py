"""Shared plumbing for bin/check: work dirs, harness build, TLC runs, evidence, known findings.

Verdict policy (DESIGN.md 2.2):
  exit 0  property held on everything explored (KNOWN-FINDING lines allowed)
  exit 1  real code produced behaviour the contract forbids  -> "VIOLATION property=<id> replay=<path>"
  exit 2  machinery error (TLC failure, build failure, timeout, vacuity) - never a verdict
"""
import atexit
import json
import os
import re
import shutil
import subprocess
import sys
import tempfile
import threading
import traceback
import time

VERIF = os.path.dirname(os.path.dirname(os.path.abspath(__file__)))
TLA_CP = "/opt/veriftools/tla/tla2tools.jar:/opt/veriftools/tla/CommunityModules-deps.jar"
GOENV = {
    "GOFLAGS": "-mod=mod",
    "GOPROXY": "off",
    "GOSUMDB": "off",
    "GOTOOLCHAIN": "local",
}


class MachineryError(Exception):
    pass


class TLCResult:
    def __init__(self):
        self.generated = 0
        self.distinct = 0
        self.depth = 0
        self.vecs = {}       # marker -> list of decoded json objects
        self.raw = ""
        self.ok = False
        self.invariant_violated = None
        self.wall = 0.0
        self.coverage_zero = []


class Ctx:
    def __init__(self, pid, tier, seed, replay=None):
        self.pid = pid
        self.tier = tier
        self.seed = seed
        self.replay = replay
        self.repo = os.environ.get("VERIF_REPO", "/repo")
        self.t0 = time.time()
        base = os.environ.get("VERIF_WORKBASE") or tempfile.gettempdir()
        self.work = tempfile.mkdtemp(prefix="verif-%s-" % pid, dir=base)
        if not os.environ.get("VERIF_KEEP"):
            atexit.register(shutil.rmtree, self.work, True)
        self.violations = []      # list of dict(sig, desc, replay)
        self.known = []           # list of (finding, sig)
        self.notes = []
        self.states = 0
        self.transitions = 0
        self.tlc_runs = []
        self.assumptions = []
        self.cov = {}
        self._vh = {}
        self._spec = None
        self._lock = threading.Lock()
        self.findings = load_known_findings()
        # evidence goes to /verif/evidence unless a dev run (bin/trymut) redirects it
        self.evdir = os.environ.get("VERIF_EVIDENCE_DIR") or os.path.join(VERIF, "evidence")
        os.makedirs(os.path.join(self.evdir, "replays"), exist_ok=True)

    # ------------------------------------------------------------------ utils
    def log(self, *a):
        print("[%s %6.1fs]" % (self.pid, time.time() - self.t0), *a, flush=True)

    def path(self, *p):
        return os.path.join(self.work, *p)

    def env(self, extra=None):
        e = dict(os.environ)
        e.update(GOENV)
        e["VERIF_SEED"] = str(self.seed)
        e["VERIF_TIER"] = self.tier
        if extra:
            e.update({k: str(v) for k, v in extra.items()})
        return e

    def quick(self):
        return self.tier != "thorough"

    # --------------------------------------------------------------- go build
    def harness_dir(self, gen_files=None):
        """Scratch copy of harness/ whose go.mod points at the repo under test."""
        d = self.path("harness")
        if not os.path.isdir(d):
            shutil.copytree(os.path.join(VERIF, "harness"), d)
            gm = os.path.join(d, "go.mod")
            txt = open(gm).read().replace("=> /repo", "=> " + self.repo)
            open(gm, "w").write(txt)
        for rel, content in (gen_files or {}).items():
            p = os.path.join(d, rel)
            os.makedirs(os.path.dirname(p), exist_ok=True)
            open(p, "w").write(content)
        return d

    def build_vh(self, race=False, gen_files=None, name=None):
        key = (race, name)
        if key in self._vh and not gen_files:
            return self._vh[key]
        d = self.harness_dir(gen_files)
        out = self.path((name or "vh") + ("-race" if race else ""))
        cmd = ["go", "build", "-tags", "verif"]
        if race:
            cmd.append("-race")
        cmd += ["-o", out, "./cmd/vh"]
        t = time.time()
        r = subprocess.run(cmd, cwd=d, env=self.env(), stdout=subprocess.PIPE, stderr=subprocess.STDOUT, text=True)
        if r.returncode != 0:
            raise MachineryError("harness build failed (repo does not compile with -tags verif?):\n" + r.stdout[-4000:])
        self.log("built harness%s in %.1fs" % (" (-race)" if race else "", time.time() - t))
        self._vh[key] = out
        return out

    def build_cli(self):
        out = self.path("injector")
        if os.path.exists(out):
            return out
        r = subprocess.run(["go", "build", "-tags", "verif", "-o", out, "."], cwd=self.repo, env=self.env(),
                           stdout=subprocess.PIPE, stderr=subprocess.STDOUT, text=True)
        if r.returncode != 0:
            raise MachineryError("CLI build failed:\n" + r.stdout[-4000:])
        return out

    def run_vh(self, vh, args, stdin_path=None, stdout_path=None, timeout=3600, extra_env=None, check=True, stdin_data=None):
        fin = open(stdin_path) if stdin_path else None
        fout = open(stdout_path, "w") if stdout_path else subprocess.PIPE
        try:
            r = subprocess.run([vh] + args, stdin=fin, input=stdin_data if not fin else None, stdout=fout,
                               stderr=subprocess.PIPE, text=True, timeout=timeout, env=self.env(extra_env), cwd=self.work)
        except subprocess.TimeoutExpired:
            raise MachineryError("harness timed out: %s" % " ".join(args))
        finally:
            if fin:
                fin.close()
            if stdout_path:
                fout.close()
        if check and r.returncode != 0:
            raise MachineryError("harness %s failed rc=%d\n%s" % (args, r.returncode, (r.stderr or "")[-4000:]))
        return r

    # -------------------------------------------------------------------- TLC
    def spec_dir(self):
        with self._lock:
            if not self._spec:
                d = self.path("spec")
                shutil.copytree(os.path.join(VERIF, "spec"), d)
                self._spec = d
        return self._spec

    def tlc(self, module, cfg=None, workers=1, env=None, simulate=None, depth=None, timeout=1800,
            heap="6g", coverage=False, tag=None, expect_ok=True, deque=False, extra_args=None, count=True):
        """Run TLC on spec/<module>.tla with spec/<cfg>.cfg in the scratch spec copy."""
        d = self.spec_dir()
        cfg = cfg or module
        tag = tag or cfg
        md = self.path("md-%s-%d" % (tag, len(self.tlc_runs)))
        jt = self.path("jtmp")       # TLC leaves an empty tlc-<n> directory in java.io.tmpdir on every run
        os.makedirs(jt, exist_ok=True)
        cmd = ["java", "-XX:+UseParallelGC", "-XX:ParallelGCThreads=4", "-Xmx" + heap, "-Xss256m", "-Djava.io.tmpdir=" + jt]
        if deque:
            cmd.append("-Dtlc2.tool.queue.IStateQueue=StateDeque")
        cmd += ["-cp", TLA_CP, "tlc2.TLC", "-workers", str(workers), "-metadir", md, "-seed", str(self.seed),
                "-config", cfg + ".cfg"]
        if simulate:
            cmd += ["-simulate", "num=%d" % simulate]
            if depth:
                cmd += ["-depth", str(depth)]
        if coverage:
            cmd += ["-coverage", "1"]
        if extra_args:
            cmd += extra_args
        cmd.append(module + ".tla")
        t = time.time()
        outp = self.path("tlc-%s-%d.out" % (tag, len(self.tlc_runs)))
        with open(outp, "w") as fo:
            try:
                r = subprocess.run(cmd, cwd=d, env=self.env(env), stdout=fo, stderr=subprocess.STDOUT, timeout=timeout)
                rc = r.returncode
            except subprocess.TimeoutExpired:
                raise MachineryError("TLC timed out on %s/%s after %ds" % (module, cfg, timeout))
        res = parse_tlc(outp)
        res.wall = time.time() - t
        res.rc = rc
        shutil.rmtree(md, True)
        self.tlc_runs.append(dict(module=module, cfg=cfg, states_generated=res.generated, distinct=res.distinct,
                                  wall_s=round(res.wall, 1), rc=rc))
        if count:
            self.states += res.distinct
            self.transitions += res.generated
        self.log("TLC %s/%s: %d generated, %d distinct, rc=%d, %.1fs" % (module, cfg, res.generated, res.distinct, rc, res.wall))
        if expect_ok and not res.ok:
            tail = "".join(open(outp, errors="replace").readlines()[-60:])
            raise MachineryError("TLC run %s/%s did not complete cleanly (rc=%d):\n%s" % (module, cfg, rc, tail))
        return res

    # ------------------------------------------------------- verdict handling
    def candidate(self, sig, desc, replay_obj):
        """A real-code behaviour the contract forbids. Classified against known_findings.json."""
        for f in self.findings.get("findings", []):
            if f.get("property") != self.pid:
                continue
            if sig_matches(f.get("match", {}), sig):
                self.known.append((f, sig))
                return False
        self.violations.append(dict(sig=sig, desc=desc, replay=replay_obj))
        return True

    def note(self, s):
        self.notes.append(s)
        self.log("NOTE", s)

    def finish(self, level, coverage, assumptions=None):
        wall = time.time() - self.t0
        seen = set()
        for f, sig in self.known:
            if f["id"] in seen:
                continue
            seen.add(f["id"])
            print("KNOWN-FINDING: property=%s %s" % (self.pid, f["desc"]), flush=True)
        rc = 0
        vio_paths = []
        for i, v in enumerate(self.violations[:20]):
            p = os.path.join(self.evdir, "replays", "%s-%d-%d%s.json" % (self.pid, self.seed, i, "-replayed" if self.replay else ""))
            with open(p, "w") as fo:
                json.dump(dict(property=self.pid, sig=v["sig"], desc=v["desc"], replay=v["replay"]), fo, indent=1, ensure_ascii=False)
            vio_paths.append(p)
            print("VIOLATION property=%s replay=%s" % (self.pid, p), flush=True)
            print("  " + v["desc"][:600], flush=True)
            rc = 1
        if len(self.violations) > 20:
            print("  ... %d more violations not written" % (len(self.violations) - 20))
        coverage = dict(coverage)
        if level == "model_checking":
            coverage.setdefault("states", self.states)
            coverage.setdefault("transitions", self.transitions)
            coverage.setdefault("traces_validated_against_impl", 0)
        coverage["tlc_runs"] = self.tlc_runs
        if self.notes:
            coverage["notes"] = self.notes[:50]
        if self.known:
            coverage["known_findings_hit"] = sorted(seen)
        ev = dict(property_id=self.pid, tier="thorough" if self.tier == "thorough" else "quick", seed=self.seed,
                  level=level, coverage=coverage, assumptions=(assumptions or []) + self.assumptions,
                  wall_s=round(wall, 1), violations=len(self.violations))
        if not self.replay:
            with open(os.path.join(self.evdir, self.pid + ".json"), "w") as fo:
                json.dump(ev, fo, indent=1, ensure_ascii=False)
        self.log("done: %d violations, %d known-finding hits, %.1fs" % (len(self.violations), len(self.known), wall))
        return rc


def sig_matches(match, sig):
    for k, want in match.items():
        have = sig.get(k)
        if isinstance(want, list):
            if have not in want:
                return False
        elif have != want:
            return False
    return True


def load_known_findings():
    p = os.path.join(VERIF, "known_findings.json")
    if not os.path.exists(p):
        return {"findings": [], "fixed": []}
    return json.load(open(p))


_RE_STATES = re.compile(r"^(\d+) states generated, (\d+) distinct states found")
_RE_SIM = re.compile(r"The number of states generated: (\d+)")


def parse_tlc(outp):
    res = TLCResult()
    lines = []
    with open(outp, errors="replace") as f:
        for line in f:
            if line.startswith('"@@'):
                try:
                    s = json.loads(line)
                    sp = s.index(" ")
                    marker, body = s[2:sp], s[sp + 1:]
                    res.vecs.setdefault(marker, []).append(json.loads(body))
                except Exception as e:  # unparsable output is a machinery error
                    raise MachineryError("cannot parse TLC vector line: %r (%s)" % (line[:200], e))
                continue
            lines.append(line)
            m = _RE_STATES.match(line)
            if m:
                res.generated, res.distinct = int(m.group(1)), int(m.group(2))
            m = _RE_SIM.search(line)
            if m:
                res.generated = int(m.group(1))
                res.distinct = max(res.distinct, int(m.group(1)))
            if "Model checking completed. No error has been found." in line:
                res.ok = True
            if line.startswith("Error: Invariant") or "is violated" in line:
                res.invariant_violated = line.strip()
            if line.startswith("<") and re.search(r">: 0(:0)?\s*$", line):
                # (initial-state predicates that are conjuncts of the specification's Init are listed with 0:0 - not actions)
                if not re.match(r"<\w*Init\w* line ", line):
                    res.coverage_zero.append(line.strip())
    res.raw = "".join(lines[-400:])
    return res


def write_ndjson(path, rows):
    with open(path, "w") as f:
        for r in rows:
            f.write(json.dumps(r, ensure_ascii=False, separators=(",", ":")) + "\n")


def read_ndjson(path):
    out = []
    with open(path) as f:
        for line in f:
            line = line.strip()
            if line:
                out.append(json.loads(line))
    return out


def main_wrapper(fn, pid, argv):
    import argparse
    ap = argparse.ArgumentParser()
    ap.add_argument("--tier", default=os.environ.get("VERIF_TIER", "quick"))
    ap.add_argument("--replay", default=None)
    a = ap.parse_args(argv)
    tier = "thorough" if a.tier == "thorough" else "quick"
    try:
        seed = int(os.environ.get("VERIF_SEED", "1"))
    except ValueError:
        seed = 1
    ctx = Ctx(pid, tier, seed, a.replay)
    try:
        rc = fn(ctx)
        if rc == 0 and tier == "thorough" and not a.replay:
            rc = extra_seed_rounds(ctx)
    except MachineryError as e:
        print("MACHINERY-ERROR property=%s: %s" % (pid, e), flush=True)
        rc = 2
    except Exception:  # a bug in the machinery is never a verdict
        print("MACHINERY-ERROR property=%s: uncaught exception\n%s" % (pid, traceback.format_exc()), flush=True)
        rc = 2
    sys.exit(rc)


def extra_seed_rounds(ctx):
    """Thorough tier only: the random parts of a check (scenario samples, concretisations, schedules) depend on the seed;
    after the thorough body the quick body is run again under further seeds (separate processes, evidence in scratch
    directories). A violation found there is a violation (its replay file is copied next to the others); a round that
    cannot decide is a machinery error. The rounds are recorded in the evidence file."""
    try:
        n = int(os.environ.get("VERIF_ROUNDS", "4"))
    except ValueError:
        n = 4
    if n <= 0:
        return 0
    from concurrent.futures import ThreadPoolExecutor
    seeds = [ctx.seed * 1000 + 17 * (i + 1) for i in range(n)]

    def one(sd):
        evd = ctx.path("round-%d" % sd)
        os.makedirs(evd, exist_ok=True)
        env = dict(os.environ, VERIF_SEED=str(sd), VERIF_EVIDENCE_DIR=evd, VERIF_TIER="quick")
        t = time.time()
        r = subprocess.run([os.path.join(VERIF, "bin", "check"), ctx.pid, "--tier", "quick"], env=env,
                           stdout=subprocess.PIPE, stderr=subprocess.STDOUT, text=True)
        return sd, evd, r.returncode, r.stdout, time.time() - t

    rounds, rc = [], 0
    with ThreadPoolExecutor(max_workers=2) as ex:
        for sd, evd, prc, out, wall in ex.map(one, seeds):
            row = dict(seed=sd, tier="quick", rc=prc, wall_s=round(wall, 1))
            try:
                cov = json.load(open(os.path.join(evd, ctx.pid + ".json")))["coverage"]
                for k in ("states", "transitions", "traces_validated_against_impl", "trials", "inputs"):
                    if k in cov:
                        row[k] = cov[k]
            except Exception:
                pass
            rounds.append(row)
            lines = out.splitlines()
            if prc == 1:
                for i, l in enumerate(lines):
                    if l.startswith("KNOWN-FINDING"):
                        continue
                    if l.startswith("VIOLATION"):
                        src = l.split("replay=", 1)[1].strip()
                        dst = os.path.join(ctx.evdir, "replays", os.path.basename(src))
                        try:
                            shutil.copy(src, dst)
                        except OSError:
                            dst = src
                        print("VIOLATION property=%s replay=%s" % (ctx.pid, dst), flush=True)
                        if i + 1 < len(lines):
                            print(lines[i + 1], flush=True)
                rc = 1
            elif prc != 0:
                msg = next((l for l in lines if "MACHINERY-ERROR" in l), "exit %d" % prc)
                raise MachineryError("seed round %d could not decide: %s" % (sd, msg[:400]))
            ctx.log("seed round %d (quick body): rc=%d, %.1fs" % (sd, prc, wall))
    evp = os.path.join(ctx.evdir, ctx.pid + ".json")
    ev = json.load(open(evp))
    ev["coverage"]["extra_seed_rounds"] = rounds
    ev["violations"] = ev.get("violations", 0) + sum(1 for r in rounds if r["rc"] == 1)
    ev["wall_s"] = round(time.time() - ctx.t0, 1)
    with open(evp, "w") as fo:
        json.dump(ev, fo, indent=1, ensure_ascii=False)
    return rc
