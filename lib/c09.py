"""C09 - the LRU cache behaves as a bounded least-recently-used map.

1. MC_LRU: TLC checks the contract invariants/action properties on the complete graph (3 keys, 2 values, cap 0..3).
2. Gen_LRU: TLC prints one record per transition of that graph; each is replayed against a fresh real cache
   driven into the transition's source state (model -> code).
3. The real cache is driven through every operation sequence up to a bound and through long random sequences;
   the recordings are validated by TLC against Trace_LRU (code -> model).
"""
import json
import os
from concurrent.futures import ThreadPoolExecutor

from . import common
from .common import MachineryError


KEYDOC = {"str": "k<n> -> string \"k<n>\"", "int": "k<n> -> int n",
          "mixed": "k1 -> nil, k2 -> int 0, k3 -> \"\", k4 -> false, k5 -> float64 0, k6 -> struct{}, k7 -> [1]int{0}, k8 -> int8 0, others -> struct keys"}


def validate_traces(ctx, files, spec="Trace_LRU", workers=8):
    """Run the trace spec over each file; returns list of (file, reject_line or None, events)."""
    def one(f):
        # constants are written out per trace file (an override "Keys <- TraceKeys" is re-evaluated at every use)
        keys, vals, caps, procs = set(), set(), set(), set()
        for e in common.read_ndjson(f):
            keys.add(e["k"]); vals.add(e["v"]); caps.add(e["cap"]); procs.add(e.get("p", "none"))
        keys.discard("none"); vals.discard("none"); procs.discard("none")
        cfgname = spec + "-" + os.path.basename(f).replace(".", "_")
        q = lambda xs: "{" + ", ".join('"%s"' % x for x in sorted(xs)) + "}"
        base = open(os.path.join(ctx.spec_dir(), spec + ".cfg")).read()
        base = base.replace("Keys <- TraceKeys", "Keys = " + q(keys or {"k1"})).replace("Vals <- TraceVals", "Vals = " + q(vals or {"v1"}))
        base = base.replace("Caps <- TraceCaps", "Caps = {" + ", ".join(str(c) for c in sorted(caps)) + "}")
        base = base.replace("Procs <- TraceProcs", "Procs = " + q(procs or {"p1"}))
        open(os.path.join(ctx.spec_dir(), cfgname + ".cfg"), "w").write(base)
        res = ctx.tlc(spec, cfgname, workers=1, env={"TRACE": f}, tag=cfgname, expect_ok=False,
                      timeout=3600, count=True)
        rej = res.vecs.get("REJECT")
        if res.ok and not rej:
            return (f, None, res)
        if rej:
            return (f, rej[0]["line"], res)
        raise MachineryError("trace validation of %s failed without a verdict:\n%s" % (f, res.raw[-3000:]))
    with ThreadPoolExecutor(max_workers=workers) as ex:
        return list(ex.map(one, files))


def apalache_inductive(ctx):
    """Optional strengthening (never a verdict): Apalache checks that IndInv of spec/IndLRU.tla is inductive
    (Init => IndInv; IndInv /\\ Next => IndInv'), i.e. the LRU invariants hold after histories of ANY length for
    4 keys x 2 values x cap 0..4, and that IndInit is satisfiable by an interesting state (probe must be violated).
    The Apalache variant of LRU.tla is derived textually (EXTENDS SequencesExt -> Apalache fold) so there is one source."""
    import shutil, subprocess, time
    if not shutil.which("apalache-mc"):
        return dict(status="skipped: apalache-mc not found")
    d = ctx.path("apa")
    os.makedirs(d, exist_ok=True)
    src = open(os.path.join(ctx.spec_dir(), "LRU.tla")).read()
    ext = "EXTENDS Integers, Sequences, FiniteSets, SequencesExt"
    if ext not in src:
        return dict(status="skipped: LRU.tla EXTENDS line changed")
    src = src.replace(ext, "EXTENDS Integers, Sequences, FiniteSets, Apalache\n\\* @type: Seq(Str) => Set(Str);\n"
                      "Range(s) == LET \\* @type: (Set(Str), Str) => Set(Str);\n                Add(acc, x) == acc \\cup {x}\n"
                      "            IN ApaFoldSeqLeft(Add, {}, s)")
    open(os.path.join(d, "LRU.tla"), "w").write(src)
    shutil.copy(os.path.join(ctx.spec_dir(), "IndLRU.tla"), d)
    out = {}
    t0 = time.time()
    for name, args, want in (("init_implies_inv", ["--init=Init", "--inv=IndInv", "--length=0"], "OK"),
                             ("inductive_step", ["--init=IndInit", "--inv=IndInv", "--length=1"], "OK"),
                             ("probe_reachable_from_indinit", ["--init=IndInit", "--inv=ProbeFull", "--length=0"], "ERROR (12)")):
        cmd = ["apalache-mc", "check", "--out-dir=" + os.path.join(d, "out"), "--cinit=CInit", "--next=Next"] + args + ["IndLRU.tla"]
        try:
            r = subprocess.run(cmd, cwd=d, stdout=subprocess.PIPE, stderr=subprocess.STDOUT, text=True, timeout=300, env=ctx.env())
        except subprocess.TimeoutExpired:
            return dict(status="skipped: apalache timed out on " + name)
        got = [l for l in r.stdout.splitlines() if l.startswith("EXITCODE:")]
        got = got[-1].split(":", 1)[1].strip() if got else "none"
        out[name] = got
        if got != want:
            ctx.note("apalache %s: expected %s, got %s (not a verdict)" % (name, want, got))
            out["status"] = "unexpected result in " + name
            return out
    out["status"] = "IndInv inductive for 4 keys x 2 values x cap 0..4 (any history length)"
    out["wall_s"] = round(time.time() - t0, 1)
    ctx.log("apalache: " + out["status"])
    return out


def slice_of(events, line):
    """the reset..reset slice that contains 1-based line"""
    i = min(line, len(events)) - 1
    s = i
    while s > 0 and events[s]["e"] != "reset":
        s -= 1
    e = i + 1
    while e < len(events) and events[e]["e"] != "reset":
        e += 1
    return events[s:e], i - s


def run(ctx):
    vh = ctx.build_vh()
    quick = ctx.quick()

    if ctx.replay:
        return replay(ctx, vh)

    # 1. design check
    mc = ctx.tlc("LRU", "MC_LRU", workers=8, coverage=not quick)
    apa_ex = ThreadPoolExecutor(max_workers=1)
    apa_f = apa_ex.submit(apalache_inductive, ctx)   # runs beside the replay/trace steps; never a verdict
    # 2. model -> code: one implementation test per transition
    gen = ctx.tlc("Gen_LRU", "Gen_LRU", workers=1)
    edges = gen.vecs.get("EDGE", [])
    if len(edges) < 1000:
        raise MachineryError("Gen_LRU emitted only %d edges" % len(edges))
    ep = ctx.path("edges.ndjson")
    common.write_ndjson(ep, edges)
    summary = None
    nontrivial_edges = sum(1 for e in edges if e["cb"] or e["from"]["dump"] != e["to"]["dump"])
    codecs = ["str", "mixed", "int"]
    for codec in codecs:
        rp = ctx.path("edges.out.%s.ndjson" % codec)
        ctx.run_vh(vh, ["lru-edges"], stdin_path=ep, stdout_path=rp, extra_env={"VERIF_LRU_KEYS": codec})
        summary = None
        for r in common.read_ndjson(rp):
            if r["kind"] == "summary":
                summary = r
            elif r["kind"] == "drift":
                ctx.note("DRIFT delete-counter differs from mechanism spec: %s" % json.dumps(r)[:300])
            else:
                e = r["edge"]
                sig = dict(src="edge", op=e["op"], what=",".join(r.get("what", [r["kind"]])), keys=codec,
                           key_live=any(p[0] == e["k"] for p in e["from"]["dump"]))
                ctx.candidate(sig, "LRU transition differs from model (key codec %s: %s): %s from %s expected -> %s cb=%s res=%s; real: %s" % (
                    codec, KEYDOC[codec], (e["op"], e["k"], e["v"]), e["from"], e["to"], e["cb"], e["res"], json.dumps(r.get("got", r.get("err")))),
                    dict(kind="edge", edge=e, codec=codec))
        if not summary or summary["edges"] != len(edges):
            raise MachineryError("edge replay incomplete (codec %s)" % codec)

    # 3. code -> model
    shards = 8
    pre = ctx.path("lrutrace")
    if quick:
        ctx.run_vh(vh, ["lru-record", "-mode", "exh", "-keys", "3", "-vals", "2", "-caps", "0,1,2,3", "-len", "3",
                        "-shards", str(shards), "-out", pre + "-exh"], extra_env={"VERIF_LRU_KEYS": "mixed"})
        ctx.run_vh(vh, ["lru-record", "-mode", "rand", "-keys", "12", "-vals", "3", "-caps", "0,1,2,3,4,5,8", "-len", "120",
                        "-n", "240", "-shards", str(shards), "-out", pre + "-rand"], extra_env={"VERIF_LRU_KEYS": codecs[ctx.seed % 3]})
    else:
        ctx.run_vh(vh, ["lru-record", "-mode", "exh", "-keys", "3", "-vals", "2", "-caps", "0,1,2,3,4", "-len", "4",
                        "-shards", str(shards), "-out", pre + "-exh"], extra_env={"VERIF_LRU_KEYS": "mixed"})
        ctx.run_vh(vh, ["lru-record", "-mode", "exh", "-keys", "2", "-vals", "2", "-caps", "0,1,2", "-len", "5",
                        "-shards", str(shards), "-out", pre + "-exh5"])
        ctx.run_vh(vh, ["lru-record", "-mode", "rand", "-keys", "20", "-vals", "3", "-caps", "0,1,2,3,4,5,8,16", "-len", "600",
                        "-n", "800", "-shards", str(shards), "-out", pre + "-rand"], extra_env={"VERIF_LRU_KEYS": codecs[ctx.seed % 3]})
    files = sorted(os.path.join(ctx.work, f) for f in os.listdir(ctx.work) if f.startswith("lrutrace") and f.endswith(".ndjson"))
    files = [f for f in files if os.path.getsize(f) > 0]
    results = validate_traces(ctx, files, workers=8)
    traces = 0
    events = 0
    evict_then_hit = 0
    rebuilds = 0
    sample = None
    for f, rej, res in results:
        evs = common.read_ndjson(f)
        events += len(evs)
        traces += sum(1 for e in evs if e["e"] == "reset")
        # non-triviality: traces with an eviction callback followed later by a Load hit; rebuild threshold crossings
        seen_evict = False
        dels = 0
        for e in evs:
            if e["e"] == "reset":
                seen_evict = False
                dels = 0
                cap = e["cap"]
                continue
            if e["cb"]:
                if dels > 2 * cap:
                    rebuilds += 1
                    dels = 0
                else:
                    dels += 1
                if e["op"] == "Store":
                    seen_evict = True
            if seen_evict and e["op"] == "Load" and e["ok"]:
                evict_then_hit += 1
                seen_evict = False
        if sample is None and evs:
            sample = evs[:6]
        if rej is not None:
            sl, pos = slice_of(evs, rej)
            bad = sl[pos] if pos < len(sl) else {}
            sig = dict(src="trace", op=bad.get("op"), e=bad.get("e"),
                       key_live=any(p[0] == bad.get("k") for p in (sl[pos - 1]["dump"] if pos > 0 else [])))
            ctx.candidate(sig, "recorded LRU step not allowed by the model at event %d of its trace: %s (after %s)" % (
                pos, json.dumps(bad), json.dumps(sl[max(0, pos - 2):pos])), dict(kind="trace", events=sl, failing=pos))

    # 4. large capacities (spec/LRUBig.tla): the single operations agree with LRU.tla in lockstep and the closed form of
    #    Fill equals the iterated Store at small scope (MC_LRUBig); recordings of the real cache at capacities around
    #    powers of two up to 70 000 are validated against Trace_LRUBig (a fill of 10^5 Stores is one event)
    mcb = ctx.tlc("MC_LRUBig", "MC_LRUBig", workers=4)
    big_caps = [513, 1025, 4099, 8200, 16390, 32771] + ([] if quick else [65540, 70000, 98310])
    bp = ctx.path("lrubig.ndjson")
    ctx.run_vh(vh, ["lru-big", "-caps", ",".join(str(c) for c in big_caps), "-out", bp])
    bres = ctx.tlc("Trace_LRUBig", "Trace_LRUBig", workers=1, env={"TRACE": bp}, expect_ok=False, timeout=1800, heap="8g")
    bevs = common.read_ndjson(bp)
    brej = bres.vecs.get("REJECT")
    if brej:
        line = brej[0]["line"]
        bad = bevs[min(line, len(bevs)) - 1]
        s0 = max(i for i in range(line) if bevs[i]["e"] == "reset")
        short = dict(bad)
        if len(short.get("cb") or []) > 12:
            short["cb"] = short["cb"][:6] + ["...(%d)" % len(bad["cb"])] + short["cb"][-6:]
        ctx.candidate(dict(src="bigtrace", op=bad["e"], cap=bevs[s0]["cap"]),
                      "large-capacity recording (capacity %d) not allowed by LRUBig at event %d of its run: %s" % (
                          bevs[s0]["cap"], line - s0, json.dumps(short)), dict(kind="bigtrace", caps=[bevs[s0]["cap"]]))
    elif not bres.ok:
        raise MachineryError("Trace_LRUBig did not complete:\n" + bres.raw[-2000:])
    big_stores = sum(e["b"] - e["a"] + 1 for e in bevs if e["e"] == "fill")

    try:
        apa = apa_f.result(timeout=900)
    except Exception as e:  # noqa
        apa = dict(status="skipped: %s" % e)
    cov = dict(
        states=ctx.states, transitions=ctx.transitions,
        traces_validated_against_impl=traces,
        trace_events=events,
        edges_replayed=len(edges) * len(codecs), key_codecs=KEYDOC,
        edges_nontrivial=nontrivial_edges,
        evaluations=len(edges) * len(codecs) + events,
        distinct_nontrivial=nontrivial_edges,
        rule="edges: every transition of the complete LRU graph (3 keys x 2 values x cap 0..3), non-trivial = changes state or fires a callback; "
             "traces: every op sequence of the stated length + seeded random long sequences",
        evict_then_hit=evict_then_hit, index_rebuilds_crossed=rebuilds,
        exhaustive=True,
        samples=[edges[len(edges) // 2], sample],
        mc_distinct_states=mc.distinct,
        apalache_inductive_invariant=apa,
        big_capacities=big_caps, big_events=len(bevs), big_stores=big_stores, mc_lrubig_states=mcb.distinct,
    )
    if not quick and mc.coverage_zero:
        raise MachineryError("vacuous: actions never taken in MC_LRU: %s" % mc.coverage_zero[:5])
    return ctx.finish("model_checking", cov, [
        "values are strings 'key=value' so that Dump() projects the recency order",
        "Dump() output format (one value per line, MRU first) is used as the state projection",
        "callback runs synchronously inside the call",
    ])


def replay(ctx, vh):
    r = json.load(open(ctx.replay))["replay"]
    if r["kind"] == "bigtrace":
        bp = ctx.path("lrubig.ndjson")
        ctx.run_vh(vh, ["lru-big", "-caps", ",".join(str(c) for c in r["caps"]), "-out", bp])
        bres = ctx.tlc("Trace_LRUBig", "Trace_LRUBig", workers=1, env={"TRACE": bp}, expect_ok=False, timeout=1800, heap="8g")
        if bres.vecs.get("REJECT"):
            line = bres.vecs["REJECT"][0]["line"]
            ctx.candidate(dict(src="bigtrace", cap=r["caps"][0]), "replayed large-capacity run still rejected at event %d" % line, r)
    elif r["kind"] == "edge":
        ep = ctx.path("edge.ndjson")
        common.write_ndjson(ep, [r["edge"]])
        out = ctx.run_vh(vh, ["lru-edges"], stdin_path=ep, extra_env={"VERIF_LRU_KEYS": r.get("codec", "str")}).stdout
        for line in out.splitlines():
            rec = json.loads(line)
            if rec["kind"] in ("mismatch", "unreachable"):
                ctx.candidate(dict(src="edge", op=r["edge"]["op"], what=",".join(rec.get("what", [])),
                                   key_live=any(p[0] == r["edge"]["k"] for p in r["edge"]["from"]["dump"])),
                              "replayed edge still differs: " + line[:500], r)
    else:
        sp = ctx.path("script.ndjson")
        common.write_ndjson(sp, r["events"])
        ctx.run_vh(vh, ["lru-script", sp, ctx.path("replayed.ndjson")])
        res = validate_traces(ctx, [ctx.path("replayed.ndjson")], workers=1)
        for f, rej, _ in res:
            if rej is not None:
                evs = common.read_ndjson(f)
                bad = evs[min(rej, len(evs)) - 1]
                ctx.candidate(dict(src="trace", op=bad.get("op"), e=bad.get("e")), "replayed trace rejected at line %d: %s" % (rej, json.dumps(bad)), r)
    return ctx.finish("model_checking", dict(evaluations=1, distinct_nontrivial=0, samples=[r], replay=True))
