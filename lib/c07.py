"""C07 - tag injection is idempotent.

1. MC: the action property Idempotent (a file that was written once is never changed by a later run) and PlainUnchanged are
   checked on spec/Inject.tla over run histories of up to 3 CLI invocations mixing -d / -p / -f.
2. The abstract files TLC emits for C06 are concretised and the real injector is run 3 times over each of them, the modes of the
   successive runs taken from all 64 sequences over {library, -f, -d, -p}; after every run the harness logs the abstracted file,
   byte identity with the previous content, exit status.
3. Trace_Inject (TLC) judges every logged run: allowed step of the current abstract file, bytes unchanged from the second run on
   and on files without annotations from the first.
"""
import json
import os

from . import common, fam_inject as fam
from .common import MachineryError

SEQS = [a + b + c for a in "lfdp" for b in "lfdp" for c in "lfdp"]


def report(ctx, rejects, seed, byid):
    # one candidate per history: its first refused run (later refused runs are counted in the text);
    # histories whose refusal is a change on a later run (the property's own subject) are listed first
    first = {}
    more = {}
    for evs, pos in rejects:
        k = (evs[0]["id"], evs[0]["variant"])
        if k not in first or pos < first[k][1]:
            first[k] = (evs, pos)
        more[k] = more.get(k, 0) + 1
    items = sorted(first.items(), key=lambda kv: (not any(i >= 2 and not e["same"] for i, e in enumerate(kv[1][0])), kv[0]))
    for k, (evs, pos) in items:
        if any(i >= 2 and not e["same"] for i, e in enumerate(evs)) and evs[pos]["same"] is not False or pos < 2:
            later = [i for i, e in enumerate(evs) if i >= 2 and not e["same"]]
            if later:
                pos = later[0]
        head, bad = evs[0], evs[pos]
        probs = bad.get("problems") or []
        crash = bad["panic"]
        later = pos >= 2
        what = "crash" if crash else ("not-idempotent" if later and not bad["same"] else fam.primary(probs) if probs else "changed-without-annotation" if not bad["same"] else "other")
        segs = head["segs"]
        untagged, dollar = bool(head.get("untagged")), bool(head.get("dollar"))
        sig = dict(src="trace", what=what, run=pos, dollar_value=dollar, untagged_tagcomment=untagged)
        modes = "".join(e["mode"] for e in evs[1:])
        desc = "run %d (mode %s of sequence %s) of the real injector refused by Trace_Inject (%s): same=%s outside=%s exit=%s %s%s%s" % (
            pos, bad["mode"], modes, what, bad["same"], bad["outside"], bad["exit"], "; ".join(probs)[:300],
            (" | " + bad["ptext"].splitlines()[0]) if bad.get("ptext") else "",
            ("\n    change: " + bad["diff"][:400]) if bad.get("diff") else "")
        vec = dict(byid[(head["id"], head["variant"])])
        vec.pop("conc", None)
        ctx.candidate(sig, desc, dict(kind="trace", seed=seed, vec=vec, source=head.get("ptext", ""), events=[
            {k: e[k] for k in ("e", "mode", "tags", "parsed", "outside", "same", "exit", "panic", "sha", "diff")} for e in evs]))


def run(ctx):
    vh = ctx.build_vh()
    cli = ctx.build_cli()
    quick = ctx.quick()
    ctx.spec_dir()          # (created before the parallel TLC jobs start)
    if ctx.replay:
        return replay(ctx, vh, cli)

    if quick:
        mc_tags = ["c07-deep"]
        jobs = [lambda: fam.mc(ctx, "c07-deep", "deep", 3, 3, modes=("d", "f"), workers=2),
                lambda: fam.gen(ctx, "wide", 2), lambda: fam.gen(ctx, "deep", 4), lambda: fam.gen(ctx, "rand", 7, samples=800, shards=2)]
    else:
        mc_tags = ["MC_Inject", "MC_Inject_deep"]
        jobs = [lambda: fam.mc_static(ctx, "MC_Inject", workers=4, coverage=True), lambda: fam.mc_static(ctx, "MC_Inject_deep", workers=4, coverage=True),
                lambda: fam.gen(ctx, "wide", 3), lambda: fam.gen(ctx, "deep", 5), lambda: fam.gen(ctx, "rand", 8, samples=2500, shards=4)]
    res = fam.parallel(jobs, workers=4 if quick else 6)
    cov_actions = None if quick else fam.require_coverage([fam.action_counts(ctx, t) for t in mc_tags], fam.FILE_ACTIONS, "the C07 model-checking runs")
    vecs = fam.dedup([v for part in res[len(mc_tags):] for v in part])
    if len(vecs) < 2000:
        raise MachineryError("Gen_Inject emitted only %d files" % len(vecs))
    st = fam.file_stats(vecs)
    numbered = fam.number(vecs)
    for v in numbered:
        v["runs"] = list(SEQS[(v["id"] + ctx.seed) % len(SEQS)])
        v.pop("mech", None)

    tp = ctx.path("inject-trace.ndjson")
    _, _, counters = fam.run_files(ctx, vh, cli, numbered, task="c07", par=4 if quick else 8, trace=tp)
    if os.environ.get("INJECT_CORRUPT"):     # binding demonstration: falsify one logged field, the check must go red
        evs = common.read_ndjson(tp)
        k = next(i for i, e in enumerate(evs) if e["e"] == "run" and e["same"] and i > len(evs) // 2)
        evs[k]["same"] = False
        common.write_ndjson(tp, evs)
        ctx.note("INJECT_CORRUPT: event %d falsified (same := false)" % (k + 1))
    rejects, events, traces = fam.validate_traces(ctx, tp, shards=4 if quick else 8)
    report(ctx, rejects, ctx.seed, {(v["id"], v["variant"]): v for v in numbered})

    evs = common.read_ndjson(tp)
    first_changes = sum(1 for i, e in enumerate(evs) if e["e"] == "run" and evs[i - 1]["e"] == "file" and not e["same"])
    later_runs = sum(1 for i, e in enumerate(evs) if e["e"] == "run" and evs[i - 1]["e"] == "run")
    sample = [{k: e[k] for k in ("e", "mode", "segs", "tags", "same", "outside", "exit", "panic", "sha")} for e in evs[:4]]
    for i, e in enumerate(evs):
        if e["e"] == "file" and i + 1 < len(evs) and not evs[i + 1]["same"]:
            sample = [{k: x[k] for k in ("e", "mode", "segs", "tags", "same", "outside", "exit", "panic", "sha", "diff")} for x in evs[i:i + 4]]
            sample[0]["source"] = e["ptext"]
            break
    cov = dict(
        states=ctx.states, transitions=ctx.transitions,
        traces_validated_against_impl=traces, trace_events=events,
        evaluations=events - traces,
        distinct_nontrivial=first_changes,
        rule="histories: every abstract file TLC emitted (same windows as C06) run 3 times by the real injector, mode sequence taken round-robin from all "
             "64 sequences over {library,-f,-d,-p}; evaluations = logged runs judged by TLC (Trace_Inject); non-trivial = histories whose first run "
             "really changed the bytes (so that the later runs re-process an already injected file)",
        histories_first_run_changed=first_changes, second_and_third_runs=later_runs, mode_sequences=len({tuple(v["runs"]) for v in numbered}),
        abstract_files=st["files"], file_stats=st, harness_counters=counters, mc_action_counts=cov_actions,
        exhaustive=True,
        samples=[sample],
    )
    return ctx.finish("model_checking", cov, fam.ASSUMPTIONS_C06 + [
        "idempotence is judged on bytes: from the second run on the file must be byte-identical to its content before the run",
        "a file without any @tag annotation must be byte-identical after the first run already (file mode bits are not compared)",
    ])


def replay(ctx, vh, cli):
    r = json.load(open(ctx.replay))["replay"]
    if r.get("kind") != "trace":
        raise MachineryError("not a C07 replay file")
    ctx.seed = r.get("seed", ctx.seed)          # the concrete text is derived from (seed, id, variant)
    tp = ctx.path("replay-trace.ndjson")
    fam.run_files(ctx, vh, cli, [r["vec"]], task="c07", par=1, trace=tp, tag="replay")
    rejects, events, traces = fam.validate_traces(ctx, tp, shards=1)
    report(ctx, rejects, ctx.seed, {(r["vec"]["id"], r["vec"]["variant"]): r["vec"]})
    return ctx.finish("model_checking", dict(evaluations=events - traces, distinct_nontrivial=0, samples=[r["vec"]], replay=True))
