"""Shared machinery of the `typecache` family (C08): spec runs, history replay, trace recording and validation.

The oracle is always TLC: expected results of replayed histories are printed by Gen_TypeCache (TypeCache!Result),
recorded traces are judged by Trace_TypeCache.  Python only moves files, classifies and counts.
"""
import json
import os
import re
import threading
from concurrent.futures import ThreadPoolExecutor

from . import common
from .common import MachineryError

# one harness process per cache configuration (valid.SetStructTypeCache works once per process)
CONFIGS = ["default", "lrudef", "lru0", "lru1", "lru2", "lru3", "lru8", "syncmap", "miss"]
WRAPPED = [c for c in CONFIGS if c != "default"]
# replay direction only: small LRUs handed to SetStructTypeCache as they are (no tracing wrapper around them)
RAW = ["rawlru1", "rawlru2"]
UNRESETTABLE = ["default"] + RAW
ACTIONS = ["Call", "LookupHit", "LookupMiss", "AnalyseStep", "StoreInfo", "ApplyOverrideToCopy", "Return"]
PAR = int(os.environ.get("VERIF_PAR", "8"))
SEM = threading.BoundedSemaphore(PAR)      # bounds the number of child processes (TLC, harness) running at a time


def tlc(ctx, *a, **kw):
    with SEM:
        return ctx.tlc(*a, **kw)


def run_vh(ctx, *a, **kw):
    with SEM:
        return ctx.run_vh(*a, **kw)


# ------------------------------------------------------------------------------------------------ spec runs
def tlc_output(ctx, tag):
    """full text of the (single) TLC run with this tag"""
    fs = [f for f in os.listdir(ctx.work) if f.startswith("tlc-%s-" % tag) and f.endswith(".out")]
    if len(fs) != 1:
        raise MachineryError("expected one TLC output for %s, found %s" % (tag, fs))
    return open(ctx.path(fs[0]), errors="replace").read()


def model_check(ctx):
    """B => A on the bounded model, the two sanity configurations (must be violated), reachability companions."""
    quick = ctx.quick()
    cfg = "MC_TypeCache_quick" if quick else "MC_TypeCache"
    mc = tlc(ctx, "TypeCache", cfg, workers=4 if quick else PAR, coverage=not quick, timeout=3000, tag=cfg)
    if not quick:
        # every mechanism action must have produced distinct states (zero = vacuous model)
        raw = tlc_output(ctx, cfg)
        last = raw[raw.rfind("The coverage statistics at"):]
        for a in ACTIONS:
            m = re.search(r"^<%s line .* of module TypeCache>: (\d+):(\d+)" % a, last, re.M)
            if not m or int(m.group(1)) == 0:
                raise MachineryError("vacuous: action %s of TypeCache never produced a state in %s" % (a, cfg))
    return mc


def sanity_models(ctx):
    """Configurations that plant the two classic faults into the mechanism: TLC must refute Transparent."""
    out = {}
    for cfg, what in (("MC_TypeCache_keyT", "cache key without the tag (pinned code, D7)"),
                      ("MC_TypeCache_wt", "override written through to the resident entry")):
        r = tlc(ctx, "TypeCache", cfg, workers=1, expect_ok=False, count=False, tag=cfg, timeout=900)
        raw = tlc_output(ctx, cfg)
        if r.ok or "Invariant Transparent is violated" not in raw:
            raise MachineryError("sanity model %s (%s) was NOT refuted by TLC - the spec has lost its teeth:\n%s" % (cfg, what, r.raw[-1500:]))
        calls = len(re.findall(r"^State \d+: <Call\(", raw, re.M))
        out[cfg] = dict(refuted=True, counterexample_calls=calls, states=r.distinct)
        if calls != 2:
            raise MachineryError("sanity model %s: expected the 2-call counterexample, got %d calls" % (cfg, calls))
    return out


def reachability(ctx):
    """P => Q invariants have a companion: ~P must be violated (hit, eviction, override on a cached entry reachable)."""
    base = open(os.path.join(ctx.spec_dir(), "MC_TypeCache_reach.cfg")).read()
    done = []
    for inv in ("NeverHit", "NeverEvict", "NeverOverrideOnHit"):
        name = "MC_TypeCache_reach_" + inv
        open(os.path.join(ctx.spec_dir(), name + ".cfg"), "w").write(base.replace("INVARIANTS NeverHit", "INVARIANTS " + inv))
        r = tlc(ctx, "TypeCache", name, workers=1, expect_ok=False, count=False, tag=name, timeout=900)
        if r.ok or ("Invariant %s is violated" % inv) not in tlc_output(ctx, name):
            raise MachineryError("vacuous model: %s is not violated (the situation is unreachable):\n%s" % (inv, r.raw[-1200:]))
        done.append(inv)
    return done


def generate(ctx, cfg, simulate=None, depth=None):
    """Run Gen_TypeCache; returns (meta, histories)."""
    r = tlc(ctx, "Gen_TypeCache", cfg, workers=1, simulate=simulate, depth=depth, timeout=3000, tag=cfg,
                expect_ok=not simulate)
    if simulate and r.rc != 0:
        raise MachineryError("Gen_TypeCache simulation failed:\n" + r.raw[-2000:])
    metas = r.vecs.get("META") or []
    hists = r.vecs.get("HIST") or []
    if not metas or not hists:
        raise MachineryError("Gen_TypeCache/%s emitted no histories" % cfg)
    return metas[0], hists


# ------------------------------------------------------------------------------------------------ classification
_seen = {}
_seen_lock = threading.Lock()


def report(ctx, sig, desc, replay_obj):
    """one candidate per scenario class (source x classification); further instances are only counted"""
    key = json.dumps([sig.get("src"), sig.get("scenario")])
    with _seen_lock:
        _seen[key] = _seen.get(key, 0) + 1
        if _seen[key] > 1:
            return
    ctx.candidate(sig, desc, replay_obj)


def duplicates():
    return sum(v - 1 for v in _seen.values())


def classify(calls, i):
    """Signature of the failing call i of a history/trace slice (classification only, no verdict)."""
    c = calls[i]
    prior = calls[:i]
    same_type = [p for p in prior if p["T"] == c["T"]]
    same_key = [p for p in same_type if p["tag"] == c["tag"]]
    norule = "-"
    other_tag = any(p["tag"] != c["tag"] for p in same_type)
    prev_ov = bool(same_key) and any(v != norule for v in same_key[-1]["ov"].values())
    scenario = ("type_validated_earlier_under_other_tag" if other_tag else
                "key_validated_earlier_with_override" if prev_ov else
                "key_validated_earlier" if same_key else "first_call_on_type")
    return dict(
        scenario=scenario,
        type_seen_under_other_tag=any(p["tag"] != c["tag"] for p in same_type),
        key_seen_before=bool(same_key),
        previous_call_on_key_had_override=bool(same_key) and any(v != norule for v in same_key[-1]["ov"].values()),
        override=any(v != norule for v in c["ov"].values()),
        first_call_on_type=not same_type,
    )


def strip_call(c, shapes=None):
    d = dict(T=c["T"], tag=c["tag"], ov=c["ov"], val=c["val"])
    s = c.get("S") or (shapes or {}).get(c["T"])
    if s:
        d["S"] = s
    return d


# ------------------------------------------------------------------------------------------------ model -> code
def replay_histories(ctx, vh, meta, hists, label, stride_default=1):
    """Every history against every cache configuration; mismatch with TLC's expectation = candidate violation."""
    mp = ctx.path("meta-%s.json" % label)
    json.dump(meta, open(mp, "w"))
    hp = ctx.path("hist-%s.ndjson" % label)
    common.write_ndjson(hp, hists)
    nhist = len(hists)
    del hists          # the caller drops its reference too: the big lists are not kept while the harness runs

    def one(cfg):
        args = ["typecache-replay", "-cache", cfg, "-meta", mp]
        if cfg in UNRESETTABLE and stride_default > 1:
            # the library's own cache cannot be emptied: every history needs never-seen types (memory ~2.5 kB each)
            args += ["-stride", str(stride_default)]
        op = ctx.path("replay-%s-%s.ndjson" % (label, cfg))
        run_vh(ctx, vh, args, stdin_path=hp, stdout_path=op, timeout=3000)
        return cfg, common.read_ndjson(op)

    with ThreadPoolExecutor(max_workers=len(CONFIGS)) as ex:
        results = list(ex.map(one, CONFIGS + RAW))
    total_calls = 0
    stats = {}
    for cfg, rows in results:
        summ = [r for r in rows if r["kind"] == "summary"]
        if len(summ) != 1:
            raise MachineryError("typecache-replay %s/%s: no summary" % (label, cfg))
        summ = summ[0]
        want = nhist if not (cfg in UNRESETTABLE and stride_default > 1) else (nhist + stride_default - 1) // stride_default
        if summ["histories"] != want:
            raise MachineryError("typecache-replay %s/%s replayed %d of %d histories" % (label, cfg, summ["histories"], want))
        total_calls += summ["calls"]
        stats[cfg] = summ["stats"]
        for r in rows:
            if r["kind"] == "twin":
                report(ctx, dict(src="twin", cache=cfg), "cache %s: %s" % (cfg, r["detail"]),
                       dict(kind="script", cache=cfg, meta=meta, calls=[]))
                continue
            if r["kind"] != "mismatch":
                continue
            calls = r["calls"][:r["call"] + 1]
            sig = dict(src="replay", cache=cfg, **classify(calls, r["call"]))
            c = calls[-1]
            desc = ("cache %s: call %d of a TLC-generated history, Validate(%s, tag=%s, ov=%s, val=%s) returned clauses %s, "
                    "the contract TypeCache!Result gives %s; earlier calls: %s" % (
                        cfg, r["call"] + 1, c["T"], c["tag"], json.dumps(c["ov"]), json.dumps(c["val"]), json.dumps(r["got"]),
                        json.dumps(r["exp"]), json.dumps([[p["T"], p["tag"], p["ov"]] for p in calls[:-1]])))
            report(ctx, sig, desc, dict(kind="script", cache=cfg, meta=meta,
                                        calls=[strip_call(x, meta["shapes"]) for x in calls]))
    return total_calls, stats


def history_nontrivial(h):
    """a history in which the cache content can matter: a (type) is validated again under another tag, or a key is
    validated again after a call that carried an override, or simply again (served from the cache)"""
    calls = h["calls"]
    for i in range(1, len(calls)):
        s = classify(calls, i)
        if s["type_seen_under_other_tag"] or s["previous_call_on_key_had_override"]:
            return True
    return False


# ------------------------------------------------------------------------------------------------ code -> model
def trace_cfg(ctx, trace_file, tag):
    types = set()
    with open(trace_file) as f:
        for line in f:
            if '"e":"call"' in line:
                types.add(json.loads(line)["T"])
    base = open(os.path.join(ctx.spec_dir(), "Trace_TypeCache.cfg")).read()
    for t in types:
        if not re.match(r"^[A-Za-z0-9#_]+$", t):
            raise MachineryError("bad type id in trace: %r" % t)
    base = base.replace('Types = {"t0"}', "Types = {" + ", ".join('"%s"' % t for t in sorted(types or {"t0"})) + "}")
    name = "Trace_TypeCache-" + tag
    open(os.path.join(ctx.spec_dir(), name + ".cfg"), "w").write(base)
    return name


def judge_trace(ctx, trace_file, tag, force_contract=False):
    """TLC consumes the trace; returns None (accepted) or the 1-based line that cannot be explained."""
    name = trace_cfg(ctx, trace_file, tag + ("-c" if force_contract else ""))
    env = {"TRACE": trace_file}
    if force_contract:
        env["FORCE_CONTRACT"] = "1"
    res = tlc(ctx, "Trace_TypeCache", name, workers=1, env=env, tag=name, expect_ok=False, timeout=3000)
    rej = res.vecs.get("REJECT")
    if res.ok and not rej:
        return None
    if rej:
        return rej[0]["line"]
    raise MachineryError("trace validation of %s ended without a verdict:\n%s" % (trace_file, res.raw[-3000:]))


def slice_calls(events, line):
    """calls (with their S/ov/val) from the last reset before `line` up to the call whose event is at `line`"""
    i = min(line, len(events)) - 1
    s = i
    while s > 0 and events[s]["e"] != "reset":
        s -= 1
    calls = [e for e in events[s:i + 1] if e["e"] == "call"]
    return events[s], calls


def run_script(ctx, vh, meta_path, cache, calls, tag):
    """re-execute calls against a fresh process of that cache configuration, judge the recording by TLC (contract mode)"""
    sp = ctx.path("script-%s.json" % tag)
    json.dump(dict(cache=cache, calls=calls), open(sp, "w"))
    tp = ctx.path("script-%s.ndjson" % tag)
    run_vh(ctx, vh, ["typecache-script", "-meta", meta_path, sp, tp])
    return tp, judge_trace(ctx, tp, "script-" + tag, force_contract=True)


def record_and_validate(ctx, vh, meta, plan, groups=None):
    """plan: cfg -> dict(segs, calls, types, hot); groups: lists of cfgs whose recordings are judged by one TLC run
    (reset events separate them). Returns (stats per cfg, trace count, event count, sample, drift)."""
    mp = ctx.path("meta-rec.json")
    json.dump(meta, open(mp, "w"))
    groups = groups or [[c] for c in plan]

    def rec(cfg):
        p = plan[cfg]
        tp = ctx.path("trace-%s.ndjson" % cfg)
        r = run_vh(ctx, vh, ["typecache-record", "-cache", cfg, "-meta", mp, "-out", tp, "-segs", str(p["segs"]),
                             "-calls", str(p["calls"]), "-types", str(p["types"]), "-hot", str(p["hot"])], timeout=3000)
        summ = json.loads(r.stdout.strip().splitlines()[-1])
        corrupt = os.environ.get("VERIF_C08_CORRUPT", "")
        if corrupt.startswith("trace") and cfg == "lru2":      # dev only: demonstrate that the binding bites
            corrupt_trace(tp, corrupt)
        return tp, summ["stats"]

    def group(cfgs):
        recs = {c: rec(c) for c in cfgs}
        if len(cfgs) > 1:
            gp = ctx.path("trace-group-%s.ndjson" % "+".join(cfgs))
            with open(gp, "w") as fo:
                for c in cfgs:
                    fo.write(open(recs[c][0]).read())
            if judge_trace(ctx, gp, "+".join(cfgs)) is None:
                return [(c, recs[c][0], recs[c][1], None) for c in cfgs]
        # single recording, or the group was rejected somewhere: judge each recording on its own
        return [(c, recs[c][0], recs[c][1], judge_trace(ctx, recs[c][0], c)) for c in cfgs]

    with ThreadPoolExecutor(max_workers=len(CONFIGS)) as ex:
        results = [r for rs in ex.map(group, groups) for r in rs]
    stats, traces, nevents, sample, drift = {}, 0, 0, None, False
    for cfg, tp, st, rej in results:
        stats[cfg] = st
        evs = common.read_ndjson(tp)
        nevents += len(evs)
        traces += sum(1 for e in evs if e["e"] == "reset")
        if sample is None and cfg == "lru2":
            sample = evs[:9]
        if rej is None:
            continue
        # the mechanism reading failed; the verdict is on the contract alone
        bad = evs[min(rej, len(evs)) - 1]
        rej_c = judge_trace(ctx, tp, cfg, force_contract=True)
        if rej_c is None:
            drift = True
            ctx.note("DRIFT cache %s: the recording leaves the mechanism spec at line %d (%s) but every result equals the "
                     "contract's: caching strategy differs from spec B, property holds" % (cfg, rej, json.dumps(bad)[:200]))
            continue
        reset, calls = slice_calls(evs, rej_c)
        badc = evs[min(rej_c, len(evs)) - 1]
        calls = [strip_call(c) for c in calls]
        sig = dict(src="trace", cache=cfg, **classify(calls, len(calls) - 1))
        # smallest reproducing script: only the calls on the same type, else the whole prefix
        same = [c for c in calls if c["T"] == calls[-1]["T"]]
        script = calls
        if len(same) < len(calls):
            _, r2 = run_script(ctx, vh, mp, cfg, same, "min-" + cfg)
            if r2 is not None:
                script = same
        c = calls[-1]
        desc = ("cache %s: recorded call Validate(%s, tag=%s, ov=%s, val=%s) returned %s, which TLC rejects against "
                "TypeCache!Result (trace line %d; %d earlier calls on this type: %s)" % (
                    cfg, c["T"], c["tag"], json.dumps(c["ov"]), json.dumps(c["val"]), json.dumps(badc.get("clauses")), rej_c,
                    len(same) - 1, json.dumps([[p["tag"], p["ov"]] for p in same[:-1]][-6:])))
        report(ctx, sig, desc, dict(kind="script", cache=cfg, meta=meta, calls=script))
    return stats, traces, nevents, sample, drift


def corrupt_trace(path, how):
    """dev only (VERIF_C08_CORRUPT): change one logged field of a recording to show that TLC rejects it"""
    evs = common.read_ndjson(path)
    want = "ret" if how == "trace-ret" else "load"
    idx = [i for i, e in enumerate(evs) if e["e"] == want]
    i = idx[len(idx) // 2]
    if want == "ret":
        evs[i]["clauses"] = [["A", "le1"]] if evs[i]["clauses"] != [["A", "le1"]] else []
    else:
        evs[i]["hit"] = not evs[i]["hit"]
    common.write_ndjson(path, evs)


# ------------------------------------------------------------------------------------------------ --replay
def replay_file(ctx, vh):
    r = json.load(open(ctx.replay))["replay"]
    mp = ctx.path("meta-replay.json")
    json.dump(r["meta"], open(mp, "w"))
    if not r["calls"]:      # the twin-type probe of one cache configuration (it runs at the end of every replay process)
        op = ctx.path("replay-twin.ndjson")
        run_vh(ctx, vh, ["typecache-replay", "-cache", r["cache"], "-meta", mp], stdin_path=os.devnull, stdout_path=op)
        for row in common.read_ndjson(op):
            if row["kind"] == "twin":
                report(ctx, dict(src="twin", cache=r["cache"]), "replay: cache %s: %s" % (r["cache"], row["detail"]), r)
        return ctx.finish("model_checking", dict(evaluations=1, distinct_nontrivial=0, samples=[dict(cache=r["cache"], probe="twin types")],
                                                 replay=True, traces_validated_against_impl=1))
    tp, rej = run_script(ctx, vh, mp, r["cache"], r["calls"], "replay")
    evs = common.read_ndjson(tp)
    if rej is not None:
        bad = evs[min(rej, len(evs)) - 1]
        calls = [strip_call(c) for c in evs[:rej] if c["e"] == "call"]
        ctx.candidate(dict(src="replayfile", cache=r["cache"], **classify(calls, len(calls) - 1)),
                      "replayed script still violates the contract at trace line %d: %s" % (rej, json.dumps(bad)), r)
    return ctx.finish("model_checking", dict(evaluations=len(r["calls"]), distinct_nontrivial=0, samples=[evs[-5:]],
                                             traces_validated_against_impl=1, replay=True))
