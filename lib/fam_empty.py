"""Family "empty" (C03): required means present and non-empty; all other rules skip empty values.

Pipeline (DESIGN.md 3, 6 C03):
  1. MC_Empty        TLC: mechanism of the four walkers (repaired variant) => contract, on every cell.
     MC_Empty_pinned TLC: the mechanism of the tree as found must violate the contract (sanity / non-vacuity of Conforms).
     MC_Empty_dev    TLC: the known deviation (interface{} map values) must be reachable (non-vacuity of the escape).
  2. Gen_Empty       TLC prints every cell (carrier x kind x emptiness state x rule x required x order x bystander)
                     with the contract's expected outcome.
  3. vh empty-run    concretises every cell into a real call (Struct / Var / Map / Url) and abstracts the error.
  4. equality of observation and expectation (python, equality only) AND Judge_Empty.tla (TLC judges every recorded
     observation in constant mode); the two must agree, otherwise the machinery is broken (exit 2).
"""
import collections
import json
import os
from concurrent.futures import ThreadPoolExecutor

from . import common
from .common import MachineryError

PTR_SCALARS = {"ptrInt", "ptrString", "ptrFloat64", "ptrBool"}


def kindclass(k):
    if k.startswith("iface"):
        return "iface"
    if k in PTR_SCALARS:
        return "ptrScalar"
    if k == "ptrStruct":
        return "ptrStruct"
    if k.startswith("slice"):
        return "slice"
    if k.startswith("array"):
        return "array"
    if k.startswith("map"):
        return "map"
    if k == "struct":
        return "struct"
    return "scalar"


def ruleclass(r):
    return r if r in ("none", "probe", "exist") else "builtin"


def mismatches(c, o):
    """list of `what` tags: how observation o departs from the expectation TLC printed for cell c (equality only)"""
    if o.get("panic"):
        return ["panic"]
    if o.get("unsupported"):
        return ["unsupported"]
    w = []
    if o["req"] < c["expReq"]:
        w.append("required-missing")
    if o["req"] > c["expReq"]:
        w.append("required-spurious")
    if c["expOther"] == "none" and o["other"] > 0:
        w.append("other-spurious")
    if o["sent"] != c["expSent"]:
        w.append("bystander")
    return w


def judge_rec(c, o):
    return dict(id=c["id"], carrier=c["carrier"], kind=c["kind"], state=c["state"], by=c["by"], seq=c["seq"],
                gotReq=o["req"], gotOther="some" if o["other"] > 0 else "none",
                gotSent=o["sent"] if not (o.get("unsupported") or o.get("panic")) else c["expSent"])


REQ_TOKENS = ("required", "requiredC")


def others(c):
    return [t for t in c["seq"] if t not in REQ_TOKENS]


def run_cells(ctx, vh, cells, tag):
    ip = ctx.path("cells-%s.ndjson" % tag)
    op = ctx.path("obs-%s.ndjson" % tag)
    common.write_ndjson(ip, cells)
    ctx.run_vh(vh, ["empty-run"], stdin_path=ip, stdout_path=op)
    obs = common.read_ndjson(op)
    if len(obs) != len(cells) or any(o["id"] != c["id"] for c, o in zip(cells, obs)):
        raise MachineryError("empty-run returned %d observations for %d cells" % (len(obs), len(cells)))
    return obs


def judge(ctx, cells, obs, tag, shards=1):
    """TLC (Judge_Empty, constant mode) judges every record; returns (set of bad ids, set of weak ids, judged count)"""
    recs = [judge_rec(c, o) for c, o in zip(cells, obs)]
    # a panic / refusal is not an observation of clauses: it is reported by the python side only
    parts = [recs[i::shards] for i in range(shards)]

    def one(i):
        p = ctx.path("judge-%s-%d.ndjson" % (tag, i))
        common.write_ndjson(p, parts[i])
        res = ctx.tlc("Judge_Empty", "Judge_Empty", workers=1, env={"OBS": p}, tag="Judge_Empty-%s-%d" % (tag, i),
                      timeout=1800, count=False)
        j = res.vecs.get("JUDGED")
        if not j or j[0]["n"] != len(parts[i]):
            raise MachineryError("Judge_Empty did not judge all %d records of shard %d" % (len(parts[i]), i))
        bad = set(b["id"] for b in res.vecs.get("BAD", []))
        if len(bad) != j[0]["bad"]:
            raise MachineryError("Judge_Empty: BAD lines and summary disagree")
        return bad, set(b["id"] for b in res.vecs.get("WEAK", [])), j[0]["n"]
    bad, weak, n = set(), set(), 0
    with ThreadPoolExecutor(max_workers=min(4, shards)) as ex:
        for b, w, k in ex.map(one, range(shards)):
            bad |= b
            weak |= w
            n += k
    return bad, weak, n


def corrupt(ctx, cells, obs):
    """binding demonstration (DoD): C03_CORRUPT=obs flips one logged field, C03_CORRUPT=exp one expected value"""
    how = os.environ.get("C03_CORRUPT")
    if not how:
        return
    # pick a cell where `required` must fire and did
    for c, o in zip(cells, obs):
        if c["expReq"] == 1 and o["req"] == 1 and not c["known"]:
            if how == "obs":
                o["req"] = 0
            elif how == "exp":
                c["expReq"] = 0
            else:
                raise MachineryError("C03_CORRUPT must be obs or exp")
            ctx.log("C03_CORRUPT=%s applied to cell id %d" % (how, c["id"]))
            return


def classify(ctx, cells, obs, bad_ids, src):
    """group departures into classes, one candidate per class (replay = first cell of the class)"""
    classes = collections.OrderedDict()
    py_bad = set()
    for c, o in zip(cells, obs):
        ws = mismatches(c, o)
        if not ws:
            continue
        py_bad.add(c["id"])
        for w in ws:
            key = (c["carrier"], kindclass(c["kind"]), c["state"], w)
            classes.setdefault(key, []).append((c, o))
    # python's equality check and TLC's judgement must coincide (panics/refusals are python-only: the judge sees clauses)
    py_cmp = set(c["id"] for c, o in zip(cells, obs) if mismatches(c, o) and not (o.get("panic") or o.get("unsupported")))
    tl_cmp = set(i for i in bad_ids)
    special = set(c["id"] for c, o in zip(cells, obs) if o.get("panic") or o.get("unsupported"))
    if py_cmp != (tl_cmp - special):
        d = sorted(py_cmp ^ (tl_cmp - special))[:5]
        if os.environ.get("C03_CORRUPT") != "exp":
            raise MachineryError("python comparison and Judge_Empty disagree on cells %s (%s)" % (d, src))
    for (ca, kc, st, w), members in classes.items():
        c, o = members[0]
        kinds = sorted(set(m[0]["kind"] for m in members))
        sig = dict(carrier=ca, kindclass=kc, state=st, what=w)
        desc = ("%s: %d cells (carrier=%s kinds=%s state=%s): e.g. api=%s rules=%s -> expected required-clauses=%d other=%s "
                "bystander=%d; real: required=%d other=%d bystander=%d %s err=%r" % (
                    w, len(members), ca, ",".join(kinds), st, c.get("api", "canon"), c["rules"], c["expReq"], c["expOther"],
                    c["expSent"], o["req"], o["other"], o["sent"], ("PANIC " + o["panic"]) if o.get("panic") else "", o["err"][:200]))
        ctx.candidate(sig, desc, dict(kind="cells", cells=[c], n_cells=len(members)))
    return py_bad, classes


def gen_named_program(ctx, vh, cells):
    """thorough tier: the tag carrier again, on generated NAMED struct types with literal tags (one type per kind x rule list)"""
    r = ctx.run_vh(vh, ["empty-kinds"])
    gotype = {}
    for line in r.stdout.splitlines():
        if line.strip():
            k = json.loads(line)
            if k.get("gotype"):
                gotype[k["kind"]] = k["gotype"]
    keys = collections.OrderedDict()
    for c in cells:
        if c["carrier"] == "tag":
            keys.setdefault((c["kind"], ",".join(c["rules"])), len(keys))
    lines = ["// Code generated by lib/fam_empty.py; DO NOT EDIT.", "package main", "", 'import "reflect"', ""]
    reg = []
    for (kind, rules), i in keys.items():
        if '"' in rules or "`" in rules or "\\" in rules:
            raise MachineryError("rule text not representable in a raw tag literal: %r" % rules)
        lines.append("type emptyG%d struct {\n\tFx %s `valid:\"%s\"`\n\tZz string `valid:\"required\"`\n}" % (i, gotype[kind], rules))
        reg.append("\t\t%s: reflect.TypeOf(emptyG%d{})," % (json.dumps(kind + "|" + rules), i))
    lines += ["", "func init() {", "\temptyGenTypes = map[string]reflect.Type{"] + reg + ["\t}", "}", ""]
    vh2 = ctx.build_vh(gen_files={"cmd/vh/empty_gen.go": "\n".join(lines)}, name="vh-emptygen")
    return vh2, len(keys)


def nontrivial(cells, obs):
    """distinct non-trivial cells: (a) required is attached and must fire, or (b) rules are attached to a value they must
    skip AND at least one of them was observed to report the non-empty witness of the same carrier/kind when attached alone
    (so the silence is the skip, not a satisfied rule)"""
    live = set()
    for c, o in zip(cells, obs):
        if len(c["seq"]) == 1 and c["seq"][0] not in REQ_TOKENS and not c["empty"] and o["other"] > 0:
            live.add((c["carrier"], c["kind"], c["seq"][0]))
    fired = set()
    skipped = set()
    for c, o in zip(cells, obs):
        key = (c["carrier"], c["kind"], c["state"], tuple(c["seq"]), c["by"])
        if c["expReq"] == 1:
            fired.add(key)
        if c["expOther"] == "none" and any((c["carrier"], c["kind"], r) in live for r in others(c)):
            skipped.add(key)
    return fired, skipped, live


def run(ctx):
    try:
        return _run(ctx)
    except MachineryError:
        raise
    except Exception as e:   # nothing but a contract departure of real code may exit 1
        import traceback
        raise MachineryError("internal error in the C03 check: %s\n%s" % (e, traceback.format_exc()[-3000:]))


def _run(ctx):
    vh = ctx.build_vh()
    if ctx.replay:
        return replay(ctx, vh)
    quick = ctx.quick()
    ctx.spec_dir()   # create the scratch spec copy before TLC runs are started from several threads

    # 1. design checks and 2. cell generation are independent TLC runs: at most 4 processes at a time
    nsim, shards = (12000, 2) if quick else (60000, 4)

    def sim(i):
        r = ctx.tlc("Gen_Empty", "Gen_Empty_sim", workers=1, simulate=nsim // shards, depth=22, tag="Gen_Empty_sim-%d" % i,
                    count=False, extra_args=["-seed", str(ctx.seed * 1000 + i)], expect_ok=False)
        if r.rc != 0:
            raise MachineryError("Gen_Empty_sim failed: %s" % r.raw[-2000:])
        return r.vecs.get("CELL", [])

    pool = ThreadPoolExecutor(max_workers=4)
    # cells with the contract's expectation: exhaustive (single tokens and pairs with required) + random longer lists
    f_gen = pool.submit(ctx.tlc, "Gen_Empty", "Gen_Empty", workers=1, count=False)
    f_mc = pool.submit(ctx.tlc, "Empty", "MC_Empty", workers=2, coverage=not quick, count=False)
    f_sims = [pool.submit(sim, i) for i in range(shards)]
    f_pin = pool.submit(ctx.tlc, "Empty", "MC_Empty_pinned", workers=1, expect_ok=False, count=False)
    f_dev = pool.submit(ctx.tlc, "Empty", "MC_Empty_dev", workers=1, expect_ok=False, count=False)
    f_free = None if quick else pool.submit(ctx.tlc, "Empty", "MC_Empty_free", workers=2, coverage=True, count=False)
    mc = f_mc.result()
    if not quick and mc.coverage_zero:
        raise MachineryError("vacuous: actions never taken in MC_Empty: %s" % mc.coverage_zero[:5])
    if not f_pin.result().invariant_violated:
        raise MachineryError("sanity: the pinned mechanism should violate Conforms (D3/D18) but TLC found nothing")
    if not f_dev.result().invariant_violated:
        raise MachineryError("sanity: the known deviation is not reachable in the mechanism model")
    mc_states, mc_trans = mc.distinct, mc.generated
    if f_free:
        fr = f_free.result()
        if fr.coverage_zero:
            raise MachineryError("vacuous: actions never taken in MC_Empty_free: %s" % fr.coverage_zero[:5])
        mc_states += fr.distinct
        mc_trans += fr.generated
    base = f_gen.result().vecs.get("CELL", [])
    if len(base) < 20000:
        raise MachineryError("Gen_Empty emitted only %d cells" % len(base))
    seen = set()
    simcells = []
    for f in f_sims:
        for c in f.result():
            k = (c["carrier"], c["kind"], c["state"], c["by"], tuple(c["seq"]))
            if k not in seen:
                seen.add(k)
                simcells.append(c)
    pool.shutdown()
    if len(simcells) < nsim // 3:
        raise MachineryError("Gen_Empty_sim produced only %d distinct cells" % len(simcells))
    cells = []
    for c in base:
        # quick: every cell through the canonical entry point, a core of rule lists through every API variant
        core = set(others(c)) <= {"probe", "phone", "to"}
        apis = sorted(c["apis"]) if (core or not quick) else ["canon"]
        apis.remove("canon")
        apis.insert(0, "canon")
        for a in apis:
            d = dict(c)
            d.pop("apis")
            d["api"] = a
            d["id"] = len(cells)
            cells.append(d)
    n_exh = len(cells)
    for c in simcells:   # random rule lists: one API variant each, chosen round-robin (thorough) / canonical (quick)
        d = dict(c)
        apis = sorted(d.pop("apis"))
        d["api"] = "canon" if quick else apis[len(cells) % len(apis)]
        d["id"] = len(cells)
        cells.append(d)

    # 3. real calls
    obs = run_cells(ctx, vh, cells, "main")
    named_types = 0
    if not quick:
        vh2, named_types = gen_named_program(ctx, vh, base)
        extra = []
        for c in base:
            if c["carrier"] == "tag":
                d = dict(c)
                d.pop("apis")
                d["api"] = "named"
                d["id"] = len(cells) + len(extra)
                extra.append(d)
        obs += run_cells(ctx, vh2, extra, "named")
        cells += extra
    corrupt(ctx, cells, obs)

    # 4. verdicts: TLC judges the records, python checks equality with the emitted expectation
    bad_ids, weak_ids, judged = judge(ctx, cells, obs, "main", shards=1 if quick else 4)
    py_bad, classes = classify(ctx, cells, obs, bad_ids, "main")
    for i in sorted(weak_ids)[:10]:
        ctx.note("DRIFT witness not reported although the rule is documented for the kind (not a C03 verdict): %s" %
                 json.dumps({k: cells[i][k] for k in ("carrier", "kind", "state", "rules", "api")}))

    fired, skipped, live = nontrivial(cells, obs)
    by_carrier = collections.Counter(c["carrier"] for c in cells)
    empties = sum(1 for c in cells if c["empty"])
    sample_ids = [0, len(cells) // 3, 2 * len(cells) // 3]
    samples = [dict(cell={k: cells[i][k] for k in ("carrier", "kind", "state", "rules", "api", "by", "expReq", "expOther", "expSent")},
                    observed={k: obs[i][k] for k in ("req", "other", "sent", "err")}) for i in sample_ids]
    cov = dict(
        states=mc_states, transitions=mc_trans,
        traces_validated_against_impl=judged,
        evaluations=len(cells),
        distinct_nontrivial=len(fired | skipped),
        rule="every cell of Empty.tla (carrier x kind x emptiness state x bystander x rule list: every single token of {30 extension "
             "rules, exist, probe fn, required, required|msg} and every pair {required before/after rule, required|msg before rule}%s) "
             "plus TLC -simulate samples of duplicate-free lists of 2..6 tokens, one real call each; non-trivial = `required` is attached and "
             "must fire (counted: required_must_fire) or a rule is attached to a value it must skip AND that rule was observed to "
             "report the non-empty witness of the same carrier and kind (counted: skip_of_live_rule)" % ("" if quick else " x API variant"),
        required_must_fire=len(fired), skip_of_live_rule=len(skipped), live_rule_kind_pairs=len(live),
        base_cells=len(base), exhaustive_calls=n_exh, random_rule_list_cells=len(simcells), cells_by_carrier=dict(by_carrier), cells_on_empty_values=empties,
        named_generated_types=named_types,
        judged_by_tlc=judged, judged_bad=len(bad_ids), departures_python=len(py_bad),
        departure_classes=[dict(carrier=k[0], kindclass=k[1], state=k[2], what=k[3], cells=len(v)) for k, v in classes.items()],
        weak_witnesses=len(weak_ids),
        exhaustive=True,
        samples=samples,
        mc_distinct_states=mc.distinct,
    )
    return ctx.finish("model_checking", cov, ASSUMPTIONS)


ASSUMPTIONS = [
    "zero value = reflect zero of the Go type (\"\"; 0; false; nil slice/map/pointer/interface; zero struct; zero-filled or zero-length array); "
    "empty = zero value, or empty non-nil slice/map, or (Map/Url) missing or empty entry (URL: `k=` and bare `k`)",
    "a non-nil pointer (to a zero or non-zero scalar or struct) is not the zero value of its type: `required` must not fire and must not add any clause",
    "carve-out: what rules other than `required` do on an empty but NON-NIL slice/map is not constrained (the statement speaks of zero values; "
    "the library evaluates them, e.g. []int{} under ge=5 is reported) - expectation 'free'",
    "carve-out: what rules other than `required` do on NON-empty values (incl. non-nil pointers, which rules see as pointers) is other properties' "
    "business (C01/C05/C18); only recorded to show that the attached rule is live (witness: string \"a,a\", numbers 3, 3-element collections)",
    "carve-out: `exist` only on struct carriers (README: struct only), either/botheq never attached (group rules judge emptiness by design, C17)",
    "carve-out: Var is given only the documented kinds (string, numeric, bool, slices/arrays of int/string); no pointers, maps, structs to Var; "
    "Map values only string/int/int64/uint8/float64/bool and map[string]interface{} holding string/int/float64/bool/nil; Url values are strings",
    "carve-out: collections never contain nil elements, pointers are at most one level (nil-element panics are D4, owned by C04/C13)",
    "clause attribution: a clause belongs to the value under test / the bystander when it names Fx / Zz; the `required` clause is recognised by "
    "the default wording `it is required` or the custom message REQMSG (either, whatever the cell attached: wording is C15); anything else "
    "counts as an `other` clause",
    "generated rule lists never repeat a token and contain `required` at most once; rule arguments are fixed per rule (Empty!RuleText)",
    "known finding (not repairable without breaking pinned test TestValidMap/map[string]interface{}): \"\"/0/false held in a map[string]interface{} "
    "value is not seen as empty (interface not unwrapped) - matched by signature in known_findings.json, everything else on that carrier is checked",
]


def replay(ctx, vh):
    r = json.load(open(ctx.replay))["replay"]
    cells = r["cells"]
    for i, c in enumerate(cells):
        c["id"] = i
    vh_use = vh
    if any(c.get("api") == "named" for c in cells):
        vh_use, _ = gen_named_program(ctx, vh, cells)
    obs = run_cells(ctx, vh_use, cells, "replay")
    bad_ids, weak_ids, judged = judge(ctx, cells, obs, "replay")
    classify(ctx, cells, obs, bad_ids, "replay")
    for c, o in zip(cells, obs):
        ctx.log("replayed cell %s -> %s" % (json.dumps({k: c[k] for k in ("carrier", "kind", "state", "rules", "api")}), json.dumps(o)))
    return ctx.finish("model_checking", dict(evaluations=len(cells), distinct_nontrivial=0, samples=[r], replay=True,
                                             traces_validated_against_impl=judged))
