"""C19 - the injector never damages what it cannot process.

1. MC (directory level of spec/Inject.tla): every directory of up to N entries over the kinds annotated / plain / broken / non-Go /
   sub-directory (with and without a .go name) / valid-but-unexpected (annotated field without tag literal, comment that merely
   mentions @tag, grouped type declaration, local type declaration, double-quoted tag literal), CLI loop -d / -p / -f with the
   suffix filter and per-file error isolation, fault steps ParseError / NoTagLiteral / MentionOnly as separate actions:
   UnprocessableUntouched, OthersStillProcessed, NoCrash.  The configuration that models the pinned code (nil dereference on an
   annotated field without tag literal) must be refuted.
2. Gen_Inject prints every such directory with the contract's expectation per entry (byte-identical / as a single-file run leaves
   it / either); the harness builds it in a scratch directory and runs the BUILT CLI with -d, -p (several glob patterns) and
   -f per entry; exit status, panic text on stderr and every file's bytes are compared with the expectation.
3. File level: abstract files over the unexpected shapes (exhaustive small window + seeded random chains) through library and CLI.
"""
import json

from . import common, fam_inject as fam
from .common import MachineryError


def report_dirs(ctx, mism):
    by = {}
    for r in mism:
        by.setdefault(r["id"], []).append(r)
    for key in sorted(by):
        rs = by[key]
        r = rs[0]
        cls = fam.primary(r["what"])
        if cls == "harness":
            raise MachineryError("harness could not abstract its own scenario: %s" % json.dumps(r)[:1500])
        feats = r.get("feats") or {}
        kinds = [e["k"] for e in r["vec"]["ents"]]
        sig = dict(src="dir", what=cls, dollar_value=bool(feats.get("dollar_value")), untagged_tagcomment=bool(feats.get("untagged_tagcomment")))
        what = [w for w in r["what"] if w != "crash"]
        desc = "directory %s, modes %s: %s%s; %s" % (
            kinds, ",".join("-" + x["mode"] for x in rs), cls,
            (" | " + r["panic"].splitlines()[0]) if r.get("panic") else "", "; ".join(what)[:500])
        ctx.candidate(sig, desc, dict(kind="dir", vec=r["vec"]))


def run(ctx):
    vh = ctx.build_vh()
    cli = ctx.build_cli()
    quick = ctx.quick()
    ctx.spec_dir()          # (created before the parallel TLC jobs start)
    if ctx.replay:
        return replay(ctx, vh, cli)

    if quick:
        mc_tags = ["c19-dir", "c19-odd"]
        jobs = [lambda: fam.mc(ctx, "c19-dir", "dir", 2, 1, workers=2),
                lambda: fam.mc(ctx, "c19-odd", "odd", 3, 1, modes=("d",), workers=2),
                lambda: fam.gen(ctx, "dir", 2, marker="DIR"), lambda: fam.gen(ctx, "randdir", 6, marker="DIR", samples=500, shards=2),
                lambda: fam.gen(ctx, "odd", 3), lambda: fam.gen(ctx, "randodd", 7, samples=600, shards=2)]
    else:
        mc_tags = ["MC_InjectDir", "MC_InjectDir2", "MC_Inject_odd"]
        jobs = [lambda: fam.mc_static(ctx, "MC_InjectDir", workers=4, coverage=True), lambda: fam.mc_static(ctx, "MC_InjectDir2", workers=3, coverage=True),
                lambda: fam.mc_static(ctx, "MC_Inject_odd", workers=3, coverage=True),
                lambda: fam.gen(ctx, "dir", 3, marker="DIR") + fam.gen(ctx, "dirsmall", 4, marker="DIR"),
                lambda: fam.gen(ctx, "randdir", 7, marker="DIR", samples=600, shards=2),
                lambda: fam.gen(ctx, "odd", 4), lambda: fam.gen(ctx, "randodd", 8, samples=1500, shards=3)]
    jobs.append(lambda: fam.sanity_must_fail(ctx, "MC_Inject_pinned", ["OthersStillProcessed", "NoCrash"]))
    res = fam.parallel(jobs, workers=4 if quick else 8)
    refuted = res[-1]
    cov_actions = None if quick else fam.require_coverage([fam.action_counts(ctx, t) for t in mc_tags], fam.FILE_ACTIONS + fam.DIR_ACTIONS,
                                                         "the C19 model-checking runs")
    k = len(mc_tags)
    dirs = fam.dedup(res[k] + res[k + 1], key="ents")
    files = fam.dedup(res[k + 2] + res[k + 3])
    if len(dirs) < 300 or len(files) < 500:
        raise MachineryError("Gen_Inject emitted only %d directories / %d files" % (len(dirs), len(files)))

    ndirs = fam.number(dirs)
    fam.corrupt_expectation(ctx, ndirs, entries=True)
    dmism, dsamp, dcount = fam.run_dirs(ctx, vh, cli, ndirs, par=4 if quick else 8)
    report_dirs(ctx, dmism)
    fmism, fsamp, fcount = fam.run_files(ctx, vh, cli, fam.number(files, start=1000001), task="c06", par=4 if quick else 8, tag="oddfiles", samples=1)
    fam.report_file_mismatches(ctx, fmism, "file")

    kinds_seen = {}
    mixed = 0
    for d in dirs:
        ks = [e["k"] for e in d["ents"]]
        for k in ks:
            kinds_seen[k] = kinds_seen.get(k, 0) + 1
        bad = any(e["expect"] == "same" or e["k"].startswith("u_") or e["kind"].startswith("subdir") for e in d["ents"])
        good = any(e["k"] == "annotated" for e in d["ents"])
        mixed += 1 if bad and good else 0
    st = fam.file_stats(files)
    samples = [dict(directory=[dict(name_kind=e["k"], kind=e["kind"], expect=e["expect"]) for e in dirs[len(dirs) // 2]["ents"]])]
    samples += [s["what"] for s in dsamp[:2]]
    if fsamp:
        samples.append(dict(odd_file_source=fsamp[0]["vec"]["conc"]["src"], after=fsamp[0]["got"]))
    cov = dict(
        states=ctx.states, transitions=ctx.transitions,
        traces_validated_against_impl=dcount["dir_runs"] + fcount["observations"],
        evaluations=dcount["dir_runs"] + fcount["observations"],
        distinct_nontrivial=mixed,
        rule="directories: every sequence of <=%d entries over 11 kinds (annotated, plain, broken, nongo, subdir, subdirgo, u_notag, u_mention, u_group, "
             "u_local, u_interp) + %d seeded random chains of <=%d entries, each run with the built CLI in modes -d, -p, -f (evaluations = directory x mode "
             "runs + odd-file x mode observations); non-trivial = distinct directories that mix at least one unprocessable / unexpected entry with at "
             "least one annotated file; files: every abstract file of <=%d segments over the 7-option 'odd' set + %d random chains over the full set with "
             "grouped / local declarations, double-quoted literals and leading @tag comments" % (
                 (2, 500, 6, 3, 600) if quick else (3, 600, 7, 4, 1500)) + ("" if quick else "; plus every directory of <=4 entries over the 6 kinds "
                                                                                    "annotated, plain, broken, nongo, subdirgo, u_notag"),
        directories=len(dirs), entries_by_kind=kinds_seen, dir_counters=dcount, odd_files=len(files), odd_file_stats=st, file_counters=fcount,
        mc_action_counts=cov_actions, sanity_refuted=refuted,
        exhaustive=True,
        samples=samples,
    )
    return ctx.finish("model_checking", cov, [
        "a crash is: 'panic:' / 'fatal error:' / a goroutine dump on stderr, or death by a signal (a non-zero exit status alone is read as an error "
        "report, not a crash; files it leaves unprocessed are still found by the per-file comparison)",
        "unparsable = rejected by go/parser (the harness verifies that every 'broken' file it writes really fails to parse); non-Go = name without the "
        "suffix .go (.txt, .go.bak, .proto, no extension, .go~, .golang)",
        "what happens to files inside sub-directories is not stated (no recursion is documented): untouched or processed are both accepted; "
        "a sub-directory whose own name ends in .go must not crash -p / -f",
        "valid-but-unexpected shapes: fields of grouped / local type declarations, double-quoted tag literals and leading @tag comments may be merged or "
        "left alone (contract silent), every in-domain field of the same file must still be merged, and nothing else may change",
        "about a third of the 'plain' entries are real files of the Go standard library (no @tag inside): they must stay byte-identical",
        "file mode bits and time stamps are not compared; log output is not judged",
    ] + fam.ASSUMPTIONS_C06[:3])


def replay(ctx, vh, cli):
    r = json.load(open(ctx.replay))["replay"]
    if r.get("kind") == "dir":
        mism, _, _ = fam.run_dirs(ctx, vh, cli, [r["vec"]], par=1, tag="replay")
        report_dirs(ctx, mism)
    elif r.get("kind") == "file":
        mism, _, _ = fam.run_files(ctx, vh, cli, [r["vec"]], task="c06", par=1, tag="replay")
        fam.report_file_mismatches(ctx, mism, "file")
    else:
        raise MachineryError("not a C19 replay file")
    return ctx.finish("model_checking", dict(evaluations=3, distinct_nontrivial=0, samples=[r["vec"].get("id")], replay=True))
