"""Shared code of the tag-injector family (C06, C07, C19): spec/InjectBase.tla, InjectScen.tla, Inject.tla,
Gen_Inject.tla, Trace_Inject.tla; harness/cmd/vh/inject.go.

Oracle: TLC.  Gen_Inject prints abstract files / directories with the sets of results the contract allows; the Go harness
concretises, runs the real injector (library entry points and the built CLI) and reports where the abstracted result is
not a member of the allowed set.  Trace_Inject judges recorded run histories.
"""
import json
import os
import re
from concurrent.futures import ThreadPoolExecutor

from . import common
from .common import MachineryError

MC_BASE = """CONSTANTS
  MaxRuns = %(runs)d
  Modes = %(modes)s
  SpliceOrder = "%(order)s"
  SkipUntagged = %(skip)s
  Profile = "%(profile)s"
  MaxSegs = %(maxsegs)d
SPECIFICATION Spec
CHECK_DEADLOCK FALSE
INVARIANTS %(invs)s
PROPERTIES %(props)s
"""
ALL_INVS = "FieldsMergedInv OutsideUnchangedInv PlainUnchanged StillParses NoCrash UnprocessableUntouched SubdirEither NeverCorrupt OthersStillProcessed"
ALL_PROPS = "Idempotent RunFileAgrees"

ASSUMPTIONS_C06 = [
    "domain as stated by C06: tag values non-empty and without a double quote, no back quote; keys over [A-Za-z0-9_]; one trailing comment per field; "
    "top-level ungrouped type declarations; literals in the conventional form (items separated by one space); no duplicate key inside one comment or one literal",
    "the contract is a predicate, not a function: keys the comment mentions take the comment's value and stay in one of the slots mentioned keys had; "
    "unmentioned keys keep value and index; new keys follow all old ones in any order (TLC emits the set of acceptable results)",
    "a comment that merely mentions @tag (no k:\"v\" item) is not an annotation: the field must stay byte-identical",
    "fields with an @tag comment but no tag literal are inside the generated domain: they must stay untouched and must not crash the tool",
    "contract silent (either merged or untouched accepted, generated only for C19): @tag text in a leading (doc) comment, double-quoted tag literals, "
    "types inside a grouped type ( ... ) declaration or inside a function",
    "not generated: inline struct types that carry their own tags as field types, several comments behind one field, empty tag literals, CRLF line ends, build-tag or cgo preambles",
    "a crash is a panic / fatal error text on stderr or death by a signal (library mode: a recovered panic); a non-zero exit status alone is not",
    "abstraction trusted: go/parser offsets, an order-preserving copy of reflect.StructTag's scanner, reflect.StructTag.Lookup as cross-check",
]


def write_cfg(ctx, name, text):
    p = os.path.join(ctx.spec_dir(), name + ".cfg")
    with open(p, "w") as f:
        f.write(text)
    return name


def mc(ctx, tag, profile, maxsegs, runs, modes=("d", "p", "f"), order="last", skip=True, invs=ALL_INVS, props=ALL_PROPS,
       workers=4, expect_ok=True, coverage=False, timeout=1500):
    cfg = write_cfg(ctx, "MCrun_" + tag, MC_BASE % dict(runs=runs, modes="{" + ", ".join('"%s"' % m for m in modes) + "}", order=order,
                                                        skip="TRUE" if skip else "FALSE", profile=profile, maxsegs=maxsegs, invs=invs, props=props))
    return ctx.tlc("Inject", cfg, workers=workers, expect_ok=expect_ok, coverage=coverage, tag=tag, timeout=timeout)


def mc_static(ctx, cfg, workers=4, expect_ok=True, coverage=False, timeout=1500):
    """Run one of the committed MC_Inject*.cfg files."""
    return ctx.tlc("Inject", cfg, workers=workers, expect_ok=expect_ok, coverage=coverage, tag=cfg, timeout=timeout)


def sanity_must_fail(ctx, cfg, want):
    """A committed sanity configuration must be refuted by TLC with the named invariant (the model can see the bug class)."""
    res = ctx.tlc("Inject", cfg, workers=2, expect_ok=False, tag=cfg, timeout=600, count=False)
    if res.ok or not res.invariant_violated or not any(w in res.invariant_violated for w in want):
        raise MachineryError("sanity configuration %s was expected to violate one of %s but TLC said: ok=%s %s\n%s" % (
            cfg, want, res.ok, res.invariant_violated, res.raw[-1500:]))
    ctx.log("sanity %s refuted as expected: %s" % (cfg, res.invariant_violated))
    return res.invariant_violated


_ACT = re.compile(r"^<(\w+) line \d+, col \d+ to line \d+, col \d+ of module Inject>: (\d+):(\d+)")
FILE_ACTIONS = ["StartRun", "BeginParse", "PSkip", "NoTagLiteral", "MentionOnly", "Collect", "ParseDone", "ApplyOne", "WriteBack", "EndRun"]
DIR_ACTIONS = ["SkipSuffix", "SkipSubdir", "ParseError"]


def action_counts(ctx, tag):
    """Per-action state counts of the TLC run with this tag (needs coverage=True)."""
    import glob
    out = {}
    for p in glob.glob(ctx.path("tlc-%s-*.out" % tag)):
        with open(p, errors="replace") as f:
            for line in f:
                m = _ACT.match(line)
                if m:
                    out[m.group(1)] = max(out.get(m.group(1), 0), int(m.group(3)))
    return out


def parallel(jobs, workers=5):
    """Run zero-argument callables side by side (independent TLC processes); results in order, first exception re-raised."""
    with ThreadPoolExecutor(max_workers=workers) as ex:
        futs = [ex.submit(j) for j in jobs]
        return [f.result() for f in futs]


def require_coverage(counts_list, actions, where):
    tot = {}
    for c in counts_list:
        for k, v in c.items():
            tot[k] = tot.get(k, 0) + v
    zero = [a for a in actions if tot.get(a, 0) == 0]
    if zero:
        raise MachineryError("vacuous: actions never taken in %s: %s (counts %s)" % (where, zero, tot))
    return {a: tot[a] for a in actions}


GEN_CFG = """CONSTANTS
  Profile = "%s"
  MaxSegs = %d
SPECIFICATION GenSpec
INVARIANT Emit
CHECK_DEADLOCK FALSE
"""


def gen(ctx, profile, maxsegs, marker="FILE", samples=None, shards=1):
    """Scenario emission.  Exhaustive (breadth first) for the enumerating profiles, seeded chains for rand*."""
    cfg = write_cfg(ctx, "Genrun_%s_%d" % (profile, maxsegs), GEN_CFG % (profile, maxsegs))
    if not samples:
        res = ctx.tlc("Gen_Inject", cfg, workers=1, tag="gen-%s-%d" % (profile, maxsegs), timeout=1500)
        return res.vecs.get(marker, [])
    per = (samples + shards - 1) // shards

    def one(k):
        lo, hi = k * per + 1, min(samples, (k + 1) * per)
        if lo > hi:
            return []
        r = ctx.tlc("Gen_Inject", cfg, workers=1, env={"GEN_LO": lo, "GEN_HI": hi}, tag="gen-%s-%d-s%d" % (profile, maxsegs, k), timeout=1500)
        return r.vecs.get(marker, [])
    with ThreadPoolExecutor(max_workers=shards) as ex:
        out = []
        for part in ex.map(one, range(shards)):
            out += part
        return out


def dedup(vecs, key="segs"):
    seen = set()
    out = []
    for v in vecs:
        k = json.dumps(v[key], sort_keys=True)
        if k in seen:
            continue
        seen.add(k)
        out.append(v)
    return out


def number(vecs, variants=1, start=1):
    out = []
    n = start
    for v in vecs:
        for k in range(variants):
            w = dict(v)
            w["id"] = n
            w["variant"] = k
            out.append(w)
        n += 1
    return out


def file_stats(vecs):
    """Non-triviality of abstract files, counted on the vectors TLC printed."""
    st = dict(files=0, rewriting=0, two_or_more_rewrites=0, overriding=0, adding=0, override_and_add=0, untagged_tagcomment=0,
              mention_only=0, unannotated=0, multi_struct=0, silent_shapes=0)
    for v in vecs:
        st["files"] += 1
        rew = 0
        ov = ad = both = False
        for s, e in zip(v["segs"], v["exp"]):
            if s["kind"] != "field":
                continue
            if e["must"] and all(a != s["tag"] for a in e["allowed"]):
                rew += 1
            if e["must"]:
                cur = {k for k, _ in s["tag"]}
                inj = {k for k, _ in s["inj"]}
                o, a = bool(cur & inj), bool(inj - cur)
                ov |= o
                ad |= a
                both |= o and a
            if not s["hasTag"] and s["ck"] in ("inj", "mention"):
                st["untagged_tagcomment"] += 1
            if s["ck"] == "mention":
                st["mention_only"] += 1
            if e["may"] and not e["must"]:
                st["silent_shapes"] += 1
        st["rewriting"] += 1 if rew else 0
        st["two_or_more_rewrites"] += 1 if rew >= 2 else 0
        st["overriding"] += 1 if ov else 0
        st["adding"] += 1 if ad else 0
        st["override_and_add"] += 1 if both else 0
        st["unannotated"] += 0 if any(e["may"] for e in v["exp"]) else 1
        st["multi_struct"] += 1 if any(s["kind"] == "break" for s in v["segs"]) else 0
    return st


def run_files(ctx, vh, cli, vecs, task="c06", par=4, trace=None, tag="files", samples=3):
    """Replay abstract files into the real injector; returns (mismatch records, sample records, counters)."""
    ip = ctx.path("%s.in.ndjson" % tag)
    op = ctx.path("%s.out.ndjson" % tag)
    common.write_ndjson(ip, vecs)
    wd = ctx.path("w-" + tag)
    os.makedirs(wd, exist_ok=True)
    args = ["inject-files", "-cli", cli, "-work", wd, "-task", task, "-par", str(par), "-samples", str(samples)]
    if trace:
        args += ["-trace", trace]
    try:
        ctx.run_vh(vh, args, stdin_path=ip, stdout_path=op, timeout=3000)
    except MachineryError as e:
        lp = os.path.join(wd, "lib-stderr.log")     # fd 2 of the harness points there while the library runs in process
        tail = "".join(open(lp, errors="replace").readlines()[-25:]) if os.path.exists(lp) else ""
        raise MachineryError("%s\n%s" % (e, tail))
    mism, samp, counters = [], [], None
    for r in common.read_ndjson(op):
        if r["kind"] == "mismatch":
            mism.append(r)
        elif r["kind"] == "sample":
            samp.append(r)
        elif r["kind"] == "summary":
            counters = r["counters"]
    if counters is None or counters.get("scenarios") != len(vecs):
        raise MachineryError("inject-files did not finish (%s)" % counters)
    return mism, samp, counters


def run_dirs(ctx, vh, cli, vecs, par=4, tag="dirs", samples=2):
    ip = ctx.path("%s.in.ndjson" % tag)
    op = ctx.path("%s.out.ndjson" % tag)
    common.write_ndjson(ip, vecs)
    wd = ctx.path("w-" + tag)
    os.makedirs(wd, exist_ok=True)
    ctx.run_vh(vh, ["inject-dirs", "-cli", cli, "-work", wd, "-par", str(par), "-samples", str(samples)], stdin_path=ip, stdout_path=op, timeout=3000)
    mism, samp, counters = [], [], None
    for r in common.read_ndjson(op):
        if r["kind"] == "mismatch":
            mism.append(r)
        elif r["kind"] == "sample":
            samp.append(r)
        elif r["kind"] == "summary":
            counters = r["counters"]
    if counters is None or counters.get("scenarios") != len(vecs):
        raise MachineryError("inject-dirs did not finish (%s)" % counters)
    return mism, samp, counters


def corrupt_expectation(ctx, vecs, entries=False):
    """Binding demonstration (INJECT_CORRUPT=1): falsify ONE expected value printed by TLC; the check must then go red."""
    if not os.environ.get("INJECT_CORRUPT"):
        return
    for v in vecs[len(vecs) // 2:]:
        exps = [x for e in v["ents"] if e["kind"] == "go" for x in e["exp"]] if entries else v["exp"]
        for e in exps:
            if e["must"]:
                e["allowed"] = [[[a[0][0], "zz"]] + a[1:] for a in e["allowed"]]
                ctx.note("INJECT_CORRUPT: one expected tag value of scenario %s falsified" % v.get("id"))
                return
    raise MachineryError("INJECT_CORRUPT: nothing to corrupt")


def primary(what):
    """Reduce the harness' list of differences to one class."""
    if any(w == "crash" for w in what):
        return "crash"
    if any("unparsable-result" in w for w in what):
        return "unparsable-result"
    if any("unprocessable file changed" in w for w in what):
        return "unprocessable-changed"
    if any("not among the allowed" in w for w in what):
        return "tag-not-allowed"
    if any("outside-changed" in w for w in what):
        return "outside-changed"
    if any(w.startswith("harness") or ": harness" in w for w in what):
        return "harness"
    return "other"


def report_file_mismatches(ctx, mism, src):
    """One candidate per scenario (the modes that failed are listed)."""
    by = {}
    for r in mism:
        by.setdefault((r["id"], r["variant"]), []).append(r)
    for key in sorted(by):
        rs = by[key]
        r = rs[0]
        cls = primary(r["what"])
        if cls == "harness":
            raise MachineryError("harness could not abstract its own scenario: %s" % json.dumps(r)[:1500])
        feats = r.get("feats") or {}
        sig = dict(src=src, what=cls, dollar_value=bool(feats.get("dollar_value")), untagged_tagcomment=bool(feats.get("untagged_tagcomment")))
        what = [w for w in r["what"] if cls != "crash" or w == "crash"]
        desc = "injector result not allowed by the contract (%s) in modes %s: %s%s%s" % (
            cls, ",".join(sorted({x["mode"] for x in rs})), "; ".join(what)[:300],
            (" | " + r["panic"].splitlines()[0]) if r.get("panic") else "", brief(r["vec"]["conc"]["src"], r.get("got", "")))
        ctx.candidate(sig, desc, dict(kind="file", vec=r["vec"]))


def brief(src, got, n=2):
    """The lines that matter: changed lines (before -> after), or, when nothing changed, the annotated lines without a literal."""
    a, b = src.splitlines(), got.splitlines()
    out = []
    if len(a) == len(b):
        for x, y in zip(a, b):
            if x != y and len(out) < n:
                out.append("\n    before: %s\n    after:  %s" % (x.strip()[:220], y.strip()[:220]))
    if not out:
        for x in a:
            if "@tag" in x and x[:1] in "\t " and "`" not in x and len(out) < n:
                out.append("\n    line: %s" % x.strip()[:220])
    return "".join(out)


def validate_traces(ctx, trace_path, shards=4):
    """Trace_Inject over the recorded histories (sharded at scenario borders).  Returns (rejects, events, traces): rejects =
    list of (scenario events, index of the refused event in it)."""
    evs = common.read_ndjson(trace_path)
    starts = [i for i, e in enumerate(evs) if e["e"] == "file"]
    if not starts:
        raise MachineryError("empty trace")
    per = (len(starts) + shards - 1) // shards
    files = []
    for k in range(shards):
        ss = starts[k * per:(k + 1) * per]
        if not ss:
            continue
        lo = ss[0]
        hi = starts[(k + 1) * per] if (k + 1) * per < len(starts) else len(evs)
        p = ctx.path("trace-shard%d.ndjson" % k)
        common.write_ndjson(p, evs[lo:hi])
        files.append((p, evs[lo:hi]))

    def one(item):
        p, part = item
        res = ctx.tlc("Trace_Inject", "Trace_Inject", workers=1, env={"TRACE": p}, tag="trace-" + os.path.basename(p).replace(".", "_"),
                      expect_ok=False, timeout=3000)
        if res.vecs.get("STUCK") or not res.ok:
            raise MachineryError("trace validation of %s did not consume the whole trace:\n%s" % (p, res.raw[-2500:]))
        out = []
        for rj in res.vecs.get("REJECT", []):
            i = rj["line"] - 1
            s = i
            while part[s]["e"] != "file":
                s -= 1
            e = i + 1
            while e < len(part) and part[e]["e"] != "file":
                e += 1
            out.append((part[s:e], i - s))
        return out
    rejects = []
    with ThreadPoolExecutor(max_workers=shards) as ex:
        for part in ex.map(one, files):
            rejects += part
    return rejects, len(evs), len(starts)
