"""C14 - rule text round-trips through the builder, the splitter and the parser (see lib/fam_ruletext.py)."""
from .fam_ruletext import run_c14 as run  # noqa: F401
