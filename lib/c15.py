"""C15 - custom messages replace the default text verbatim and can be extracted alone (see lib/fam_ruletext.py)."""
from .fam_ruletext import run_c15 as run  # noqa: F401
